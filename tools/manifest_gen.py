#!/usr/bin/env python3
"""Regenerates /verif/MANIFEST.json from the table below (keeps it schema-valid)."""
import json
import os

ROOT = os.path.dirname(os.path.dirname(os.path.abspath(__file__)))
props = [json.loads(l)["id"] for l in open(os.path.join(ROOT, "properties.jsonl"))]

BASE = "cd /repo && /venv/bin/python -m pytest -ra -q -p no:cacheprovider --timeout=900 --continue-on-collection-errors"

CHECKS = {
 "C12": dict(
  technique="runtime monitoring: finite-difference and exact-transpose oracles over randomly generated map/normaliser configurations of the real classes",
  text="Exploration: every class in ALL_CLASSES and every normaliser class x semilocal mode is driven with random parameters, index assignments and inputs; the derivative routines are compared with 4th-order finite differences of the value routines (1e-7 of scale, measured floor 1e-9) and forward/reverse routines with an exact transpose test (1e-12). Held = no oracle failed on the executions produced.",
  note="Inputs kept inside each map's smooth domain; FD oracle resolution 1e-7 relative; trusted: numpy.",
  ref="5/C12"),

 "C01": dict(
  technique="runtime monitoring: Richardson finite-difference oracle of the returned XC energy vs <vmat, D> on the real integrators, hermiticity and electron-count monitors",
  text="Exploration: synthetic models of every feature family (semilocal in 4 modes, NLDF i/j/ij/k at GGA/MGGA level, rho_mult expnt, SDMX variants, NLDF+SDMX) x RKS/UKS x plan/interpolator/evaluator/spin-mode/mixing/model-class options are driven through CiderNumInt.nr_rks/nr_uks with random admissible non-converged density matrices; <vmat,D> is compared with the extrapolated central difference of the returned energy along dense and single-pair directions (1e-7 semilocal/SDMX, 1e-5 NLDF; self-error guard). Held = no oracle failed on the executions produced.",
  note="PSD density matrices only; resolution of the FD oracle; pyscf, libxc (pyscf's copy), OpenBLAS trusted; C libs rebuilt with gcc -O2 from the working tree.",
  ref="5/C01"),
 "C07": dict(
  technique="runtime monitoring: differential execution of restricted vs unrestricted paths, spin-label swap and separability relations at integrator, model and layer level",
  text="Exploration: for every feature family and spin mode the same synthetic model is evaluated through nr_rks(dm) and nr_uks((dm/2,dm/2)), through nr_uks((a,b)) and nr_uks((b,a)) (incl. fully polarised densities), and for SEP models against (E[2a]+E[2b])/2; MappedXC with nspin 1 vs duplicated channels; SemilocalPlan / exponent / baseline nspin branches pointwise. Tolerance 1e-8 x scale end to end (floor 5e-10), 1e-10 model level.",
  note="The potential of an exactly empty spin channel of POL-mode NLDF models is ill-conditioned (measured) and only required to be finite; pyscf trusted.",
  ref="5/C07"),
 "C09": dict(
  technique="runtime monitoring: recorded call histories on one integrator checked against a fresh-object reference model; digests of caller-owned arrays",
  text="Exploration: histories of 5-9 operations (rks/uks, single/batched, repeated, other molecule or geometry, tiny max_memory) on ONE CiderNumInt per feature family are compared step by step with fresh-object single calls (1e-9 x scale; observed floor 1e-15); caller-owned density matrices, feature arrays and the arrays given to the pointwise helpers are digested before/after; evaluator chunking around 2000 samples.",
  note="Bitwise equality not demanded; reference = same code on fresh objects (so a defect common to both is invisible here, C01 covers it).",
  ref="5/C09"),

 "C19": dict(
  technique="runtime monitoring: exact structural invariants of the built grid objects (sorted point tables vs PySCF, index-map injectivity, independent coordinate reconstruction, padding, pruning, per-shell Ylm orthonormality) over generated configurations",
  text="Exploration: CiderGrids and pyscf Grids are built for generated (molecule, level | atom_grid form, prune scheme, lmax, alignment, sort, radial/Becke scheme) configurations and call histories (prune_by_density_ sequences, rebuild, relevel); sorted (x,y,z,w) tables must be bitwise equal, idx_map injective, coordinates reconstructed from the indexer tables alone equal the sorted grid (1e-13), weights exact, padding weights exactly zero, Ylm Gram matrices identity up to the supported degree (1e-12) and zero above. lmax < 1 must be rejected (ASan worker).",
  note="pyscf's grid generator is the reference by definition; Lebedev degree table from pyscf.",
  ref="5/C19"),

 "C06": dict(
  technique="runtime monitoring: metamorphic differential execution on rigidly moved / relabelled molecules with the density matrix transported by a harness-built, per-case validated AO representation",
  text="Exploration: for every feature family the same synthetic model is evaluated on a jittered C1 molecule and on its image under a translation, octahedral operations (all 48 enumerated over the thorough run, improper ones included) composed with translations, an atom permutation and a Haar rotation; E' = E, vmat' = U vmat U^T (1e-8 x scale; floor 4e-11) and the raw per-point features at mapped grid points (1e-7) are compared; for Haar rotations the energy difference is bounded per grid level and may not grow with the level.",
  note="U(g) is built from pyscf AO evaluations and validated against pyscf overlap/kinetic matrices per case (else inconclusive); pyscf's grid generator trusted to be covariant.",
  ref="5/C06"),
 "C16": dict(
  technique="runtime monitoring: recorded training histories (store / add / reset / fit orders) checked against a dense reference solver written from docs/theory/gp.rst",
  text="Exploration: synthetic training sets (3-8 systems, nspin 1/2, reactions with counts, noises, weights, units, orbital entries) are driven through MOLGP / MOLGP2 in random call orders; stored covariances, labels and noises are compared with direct sums, the fitted weights/predictions/residuals with a refined-LU dense reference of the documented linear system (tolerances in rounding-propagation bound units), order/reset invariance up to the induced permutation, and compute_likelihood with the Gaussian log marginal likelihood.",
  note="Hyper-parameter optimisation not covered; configurations that raise before any fit exists are recorded as observations.",
  ref="5/C16"),
}

NOT_YET = "check not implemented yet (framework under construction)"

checks, na = [], []
for p in props:
    modpath = os.path.join(ROOT, "checks", p.lower() + ".py")
    if p in CHECKS and os.path.exists(modpath):
        c = CHECKS[p]
        checks.append({
            "property_id": p,
            "quick_cmd": "./check %s --tier quick" % p,
            "thorough_cmd": "./check %s --tier thorough" % p,
            "evidence_file": "evidence/%s.json" % p,
            "replay_cmd_template": "./check %s --replay {path}" % p,
            "engine": "vlib.runner",
            "level_claimed": {"category": c.get("category", "exploration"), "text": c["text"], "design_ref": c["ref"]},
            "level_note": c["note"],
            "technique": c["technique"],
        })
    else:
        na.append({"property_id": p, "reason": NOT_YET})

m = {
 "version": 1,
 "setup_cmd": "./setup.sh",
 "hooks": {"guard": "CIDERPRESS_VERIF", "enable": "no source hooks: the harness redirects ciderpress.lib.load.load_library to libraries it builds from the working tree (vlib/boot.py); sanitizer variants are separate builds",
           "baseline_off_cmd": BASE, "source_commits": [], "add_only": True},
 "engines": [{"name": "vlib.runner", "path": "vlib/runner.py", "serves_properties": [c["property_id"] for c in checks],
              "kind_free_text": "runtime monitoring harness: generated workloads against the real code in worker subprocesses, differential / finite-difference / adjoint / reference-model oracles, ctypes boundary monitor, ASan+UBSan and TSan (with OpenMP annotation shim) builds"}],
 "checks": checks,
 "not_applicable": na,
 "notes": "See DESIGN.md. Exit codes: 0 held on everything explored, 1 violation (VIOLATION line), 2 inconclusive.",
}
json.dump(m, open(os.path.join(ROOT, "MANIFEST.json"), "w"), indent=1)
print("manifest: %d checks, %d not_applicable" % (len(checks), len(na)))
