"""Worker process: runs a batch of cases of one check module, one JSON line per finished case."""
import faulthandler
import importlib
import json
import os
import sys
import time
import traceback

faulthandler.enable()
VERIF_ROOT = os.path.dirname(os.path.dirname(os.path.abspath(__file__)))
deps = os.path.join(VERIF_ROOT, ".deps")
if os.path.isdir(deps):
    sys.path.append(deps)


def main():
    modname, cpath, opath = sys.argv[1:4]
    cases = json.load(open(cpath))
    from vlib import boot  # noqa: F401  (must precede ciderpress imports)
    from vlib.oracles import Rec
    mod = importlib.import_module(modname)
    out = open(opath, "a")
    for case in cases:
        rec = Rec(case)
        t0 = time.time()
        try:
            mod.run_case(case, rec)
            res = rec.result()
        except Exception as e:  # harness or repo exception not handled by the check
            res = rec.result()
            res["status"] = "error"
            res["error"] = "%s: %s\n%s" % (type(e).__name__, e, traceback.format_exc()[-2500:])
        res["wall_s"] = round(time.time() - t0, 3)
        out.write(json.dumps(res, default=str) + "\n")
        out.flush()
    summ = {"_summary": True, "calls": boot.counters(), "pid": os.getpid(),
            "nonfinite": boot.NONFINITE[:50], "strict": boot.STRICT_ERRORS[:50]}
    try:
        summ["shim"] = boot.shim_counters() if boot.VARIANT == "tsan" else {}
    except Exception:
        summ["shim"] = {}
    out.write(json.dumps(summ) + "\n")
    out.close()
    sys.stdout.flush()
    os._exit(0)  # skip interpreter teardown (ctypes/numba destructors are irrelevant here)


if __name__ == "__main__":
    main()
