"""C16 - Gaussian-process training solves the documented linear system.

A case is one *history*: a synthetic training set written as the HDF5 ``train_data`` files that
``MOLGP.load_data`` reads (pyscf.lib.chkfile; directories REF / SL / NLDF / SDMX), a model (MOLGP or MOLGP2 with
one or two DFTKernel[2] objects), a reaction list and a sequence of store_mol_covs / add_reactions /
reset_reactions / fit / compute_likelihood calls.  The harness keeps its own expected state (which reactions are
currently registered, in which order) and after every step evaluates an executable reference model built from
the documented formulas (docs/theory/gp.rst, DFTKernel / MOLGP docstrings), never from the repo's own lists.

Oracles (DESIGN.md section 5, C16)
 covariance   kernel.cov_dict[sys] / base_dict[sys] == sum_g w_g k(x_g, ctrl) m_g / sum_g w_g a_g evaluated directly
              (feature_list -> sklearn kernel; closed-form or pyscf-libxc baselines; low-density mask), exx_ref_dict,
              ks_baseline_dict == the numbers written to disk; dcov_dict / dbase_dict == d/dt of the same direct sums
              along desc + t*ddesc (5-point FD, two steps, self-error guard).
 bookkeeping  rxn_cov_list / rxn_ref_list / rxn_noise_list == rows, labels (reference - baselines, counts, units)
              and noises recomputed by the harness from the stored per-system quantities for the *expected*
              reaction list; labels also recomputed from the raw synthetic data.
 alpha        dense reference  alpha_k = s0 (Kmm_k+eps)^-1 Kmn_k (s0 sum_k Knm Kmm^-1 Kmn + nf Sigma + eps)^-1 y
              with s0 = x0^2, nf = sigma_min + x1^2 (1, 1 without x), eps = 1e-9 (numpy LU + one longdouble
              refinement step; the code uses Cholesky).  Compared: training predictions sum_k Knm_k alpha_k and
              per-system predictions cov_dict[sys].alpha_k (incl. systems in no reaction), Kcov_, K_ - Kcov_,
              alpha_mol_, kernel.alpha.  cond(Kmm+eps) reaches 3e11 and cond(K) 5e13 in the workload, so weights
              and K are measured in units of their first-order rounding-propagation bound (|K^-1| E |w| with
              E = |K| + sum_k |A_k|'|Kmm_k||A_k|, A_k = Kmm_k^-1 Kmn_k), predictions on the backward-error scale.
 residual     y - sum_k Knm_k alpha_k == (nf Sigma + eps) alpha_mol_   (all quantities from the code's outputs).
 order        any two fits in the history (or in a fresh model with systems and reactions shuffled) with the same
              multiset of reactions and the same (x, sigma_min) agree up to the induced permutation.
 likelihood   compute_likelihood(x, sigma_min) == log N(y; 0, x0^2 Kcov_ + (sigma_min + x1^2)(K_ - Kcov_)) of the
              stored matrices (themselves compared with the reference above), evaluated by refined LU + slogdet and
              by scipy.stats.multivariate_normal; at the neutral point x1^2 = 1 - sigma_min == the log marginal
              likelihood of the fitted model (-y.alpha_mol_/2 - logdet K_/2 - n log(2 pi)/2).  Default arguments are
              only recorded (rec.note), see DESIGN.md section 6.
 control pts  the reduced set is a duplicate-free subset of the candidates, within ctrl_nmax.

Configurations in which the tree raises before any fit exists (FRAGILE below) are probed by a few cases and
recorded as coverage["observations"]["not_reached"]; if the tree stops raising there, the same oracles apply.
"""
import contextlib
import io
import os
import shutil
import tempfile

import numpy as np

from vlib.oracles import digest, fd5, relerr, rng_for

PROPERTY = "C16"
PROP_NO = 16
RULE = ("case = history: (model class MOLGP|MOLGP2, semilocal mode, NLDF/SDMX blocks, normalisers, kernel layout "
        "x | x+c | c+x | x+x | xc | xc+x | c+x+x with modes SEP/NPOL/POL, kernel family, control-point reduction on/off, 3-8 systems x "
        "50-400 points (nspin 1/2/mixed, some > 10000 points), orbital-derivative data on/off) x reaction list "
        "(modes 0/2, counts incl. 0 / negative / fractional, noise | noise_factor | noise_rel_factor | weight, "
        "units) x operation sequence (store in chunks / re-store, add in chunks / duplicates, reset, fit with and "
        "without (x, sigma_min), likelihood, fresh model with shuffled systems and reactions).  A fit is "
        "non-trivial when it has >= 3 reactions, the GP part of K is >= 1e-3 of the noise part and the training "
        "residual is >= 1e-6 of the labels (so alpha matters and noise matters); an order comparison when the "
        "permutation is not the identity; a likelihood step always; an orbital-derivative covariance when its FD "
        "self-error is below tol/10; distinct = (case, step | pair of steps | kernel, system, orbital)")
MIN_NONTRIVIAL = {"quick": 60, "thorough": 1000}
ASSUMPTIONS = [
    "training data are synthetic but model-shaped (positive densities, tau >= tau_W, finite features); the on-disk "
    "layout is the one MOLGP.load_data reads, written with pyscf.lib.chkfile",
    "the numerical jitter documented in MOLGP.__init__ (numerical_epsilon = 1e-9) is part of the reference on "
    "both Kmm and K",
    "weights and K matrices are compared in units of their first-order rounding-propagation bound (conditioning-"
    "aware by construction), predictions / residuals relative to the backward-error scale |y| + |Knm||alpha|",
    "compute_likelihood is decided for explicit (x, sigma_min) only; hyper-parameter optimisation is not an "
    "identity and is not covered",
    "configurations in which the tree raises before a fit exists (orbital derivatives with POL kernels or MOLGP2, "
    "mode-2 reactions with orbital entries, POL correlation kernel with mode-0 reactions) are recorded as "
    "not reached, not as violations (switch UNREACHABLE_IS_VIOLATION)",
]
UNREACHABLE_IS_VIOLATION = False

JITTER = 1e-9
# Tolerances = measured floor (thorough tier, seeds 0-4, unchanged tree) x 50-200; floors in brackets.
TOL_COV = 1e-12        # direct covariance / baseline sums [8e-15: same arithmetic, other summation order]
TOL_BOOK = 1e-12       # rows / labels / noises recomputed from the stored dictionaries [rows 0, labels 5e-16, noise 2e-14]
TOL_LABEL_IND = 1e-12  # labels recomputed from the raw synthetic data [8e-16]
TOL_PRED = 1e-11       # predictions and residual identity relative to the backward-error scale |y|+|Knm||alpha| [6e-14]
TOL_ORDER = 1e-11      # order / reset invariance of predictions, same scale [3e-14]
TOL_BWD = 1e-13        # K matrices and weights in units of their first-order rounding-propagation bound, see fit() [5e-16]
TOL_LIK = 1e-12        # likelihood relative to |w|'|K||w|/2 + sum|log eig|/2 + n log(2 pi)/2 [1.5e-14]; scipy's spectral
TOL_LIK_SCIPY_COND = 1e-14  # evaluation itself loses cond x eps: + 1e-14 x cond [err/cond <= 1e-17]
TOL_FD = 1e-6          # d(cov)/d(occupation) against 5-point finite differences [1e-8], self-error guard TOL_FD/10

LDA_FACTOR = -0.75 * (3.0 / np.pi) ** (1.0 / 3)
CFC = 0.3 * (3 * np.pi ** 2) ** (2.0 / 3)
SCONST = 4 * (3 * np.pi ** 2) ** (2.0 / 3)
KCAL = 0.00159360109742136  # default unit documented in add_reactions (Eh per kcal/mol)

FRAGILE = {
    "pol-deriv": "DFTKernel.get_k_and_deriv:POL-orbital-derivatives-raise",
    "molgp2-deriv": "MOLGP2._compute_mol_covs:orbital-derivatives-raise",
    "mode2-orbital": "MOLGP.add_reactions:mode2-orbital-entry-raises",
    "polc-mode0": "MOLGP.add_reactions:POL-ckernel-mode0-row-length",
}


def _calib(name, **kw):
    """Calibration aid: with C16_CALIB_FILE set, every cond-aware oracle appends (error, condition number)."""
    path = os.environ.get("C16_CALIB_FILE")
    if path:
        import json
        with open(path, "a") as f:
            f.write(json.dumps(dict(kw, name=name)) + "\n")


# ----------------------------------------------------------------------------------------------------------
# case generation (runner side: numpy only)

def _pick(rng, items, p=None):
    return items[int(rng.choice(len(items), p=p))]


def _gen_cfg(rng, tier, fragile=None, big=False):
    gp = _pick(rng, ["MOLGP", "MOLGP2"], [0.6, 0.4])
    slmode = _pick(rng, ["npa", "nst", "np", "ns"], [0.5, 0.2, 0.2, 0.1])
    nldf = bool(rng.random() < 0.6)
    sdmx = bool(rng.random() < 0.3)
    if slmode in ("np", "ns") and not (nldf or sdmx):
        nldf = True
    layout = _pick(rng, ["x", "x+c", "c+x", "x+x", "xc", "xc+x", "c+x+x"], [0.3, 0.2, 0.15, 0.1, 0.1, 0.08, 0.07])
    deriv = bool(rng.random() < 0.3)
    if fragile == "pol-deriv":
        gp, layout, deriv = "MOLGP", "x", True
    elif fragile == "molgp2-deriv":
        gp, deriv = "MOLGP2", True
    elif fragile == "mode2-orbital":
        gp, deriv, layout = "MOLGP", True, "x+c"
    elif fragile == "polc-mode0":
        layout, deriv = "x+c", False
    if gp == "MOLGP2" and fragile != "molgp2-deriv":
        deriv = False
    kernels = []

    def kspec(comp, mode):
        ktype = _pick(rng, ["rbf", "rbf_subset", "agpr"], [0.5, 0.25, 0.25])
        if gp == "MOLGP":
            if comp == "x":
                mul = _pick(rng, ["lda_x", "gga_x_pbe", "one_xc"], [0.5, 0.25, 0.25])
                if slmode not in ("npa", "np") and mul == "gga_x_pbe":
                    mul = "lda_x"
                add = _pick(rng, ["zero_xc", "lda_x"], [0.6, 0.4])
            else:
                mul = _pick(rng, ["one_xc", "lda_x", "gga_c_pbe"], [0.4, 0.3, 0.3])
                add = _pick(rng, ["zero_xc", "gga_c_pbe", "lda_x"], [0.4, 0.3, 0.3])
                if slmode not in ("npa", "np") or mode == "SEP":
                    mul = "one_xc" if mul == "gga_c_pbe" else mul
                    add = "zero_xc" if add == "gga_c_pbe" else add
        else:
            if comp == "x" or mode == "SEP":
                mul = _pick(rng, ["LDA_X", "GGA_X_PBE", "MGGA_X_R2SCAN", "GGA_X_PBE_SOL"], [0.3, 0.4, 0.2, 0.1])
                add = _pick(rng, [None, "LDA_X", "GGA_X_PBE"], [0.6, 0.2, 0.2])
            else:
                mul = _pick(rng, ["GGA_C_PBE", "LDA_C_PW_MOD", "MGGA_C_R2SCAN", "GGA_X_PBE"])
                add = _pick(rng, [None, "GGA_C_PBE", "LDA_C_PW_MOD"], [0.5, 0.3, 0.2])
        return {"comp": comp, "mode": mode, "mul": mul, "add": add, "ktype": ktype,
                "ctrl_tol": float(_pick(rng, [1e-3, 1e-4, 1e-5])), "ctrl_nmax": _pick(rng, [None, None, 25, 40]),
                "nmaps": int(rng.integers(2, 5))}

    xmode = _pick(rng, ["SEP", "NPOL", "POL"], [0.5, 0.25, 0.25])
    cmode = _pick(rng, ["NPOL", "POL", "SEP"], [0.55, 0.35, 0.1])
    if fragile == "pol-deriv":
        xmode = "POL"
    elif fragile == "polc-mode0":
        cmode = "POL"
    elif deriv and fragile is None:
        xmode = _pick(rng, ["SEP", "NPOL"])
        cmode = _pick(rng, ["NPOL", "SEP"], [0.8, 0.2])
    elif fragile in ("mode2-orbital", "molgp2-deriv"):
        xmode = _pick(rng, ["SEP", "NPOL"])
        cmode = "NPOL"
    if layout == "x":
        kernels = [kspec("x", xmode)]
    elif layout == "x+c":
        kernels = [kspec("x", xmode), kspec("c", cmode)]
    elif layout == "c+x":  # kernel list order differs from the exchange-first order used internally
        kernels = [kspec("c", cmode), kspec("x", xmode)]
    elif layout == "xc+x":
        kernels = [kspec("xc", "NPOL"), kspec("x", xmode)]
    elif layout == "c+x+x":
        kernels = [kspec("c", cmode), kspec("x", xmode), kspec("x", _pick(rng, ["SEP", "NPOL"]))]
    elif layout == "x+x":
        kernels = [kspec("x", xmode), kspec("x", _pick(rng, ["SEP", "NPOL"]))]
    else:
        kernels = [kspec("xc", _pick(rng, ["NPOL", "POL"]) if not deriv else "NPOL")]
    nsys = int(rng.integers(3, 9))
    npts = [int(rng.integers(50, 401)) for _ in range(nsys)]
    if big:
        # more grid points than one integration block (10000), with lengths that are NOT multiples of the block count (a
        # seeded "balanced blocks" helper dropped the last ngrid % nblocks points) and one that is
        npts[int(rng.integers(nsys))] = int(_pick(rng, [10001, 10007, 12345, 20003, 20000]))
    ddir_order = _pick(rng, ["canonical", "sorted", "reversed"], [0.4, 0.3, 0.3])
    spinpat = _pick(rng, ["1", "2", "mixed"], [0.3, 0.35, 0.35])
    nspins = [1 if spinpat == "1" else 2 if spinpat == "2" else int(rng.integers(1, 3)) for _ in range(nsys)]
    orbs = []
    if deriv:
        orbs = [["O", 0], ["U", 0]] + ([["O", 1]] if rng.random() < 0.5 else [])
    return {"gp": gp, "slmode": slmode, "nldf": nldf, "sdmx": sdmx,
            "norm": _pick(rng, ["reasonable", "none"], [0.7, 0.3]), "layout": layout, "kernels": kernels,
            "reduce": bool(rng.random() < 0.6), "nsys": nsys, "npts": npts, "nspins": nspins, "deriv": deriv, "ddir_order": ddir_order,
            "orbs": orbs, "low_frac": float(_pick(rng, [0.0, 0.05, 0.15])),
            "default_noise": float(_pick(rng, [0.03, 0.01, 0.1])), "fragile": fragile,
            "get_orb_deriv": _pick(rng, [None, None, True]) if deriv else _pick(rng, [None, False])}


def _gen_rxns(rng, cfg):
    mols = ["s%d" % i for i in range(cfg["nsys"])]
    comps = [k["comp"] for k in cfg["kernels"]]
    has_c = any(c != "x" for c in comps)
    has_x = any(c == "x" for c in comps)
    fragile = cfg["fragile"]
    if has_c and has_x:
        pm = [0.4, 0.6]
    elif has_c:
        pm = [0.1, 0.9]
    else:
        pm = [0.7, 0.3]
    if any(k["comp"] != "x" and k["mode"] == "POL" for k in cfg["kernels"]) and fragile != "polc-mode0":
        pm = [0.0, 1.0]  # see FRAGILE["polc-mode0"]
    nrx = int(rng.integers(4, 13))
    rx = []
    for r in range(nrx):
        mode = int(rng.choice([0, 2], p=pm))
        if fragile == "polc-mode0" and r < 2:
            mode = [0, 2][r]
        ns = int(rng.integers(1, min(4, len(mols)) + 1))
        structs = [str(s) for s in rng.choice(mols, size=ns, replace=bool(rng.random() < 0.15))]
        counts = [float(_pick(rng, [1, 1, 2, 3, -1, -1, -2, 0, 0.5, -1.5])) for _ in range(ns)]
        if r % 5 == 4:
            counts = [int(c) for c in counts]  # plain ints are accepted too
        if cfg["orbs"]:
            want = (mode == 0 and rng.random() < 0.6) or (fragile == "mode2-orbital" and mode == 2 and r % 2 == 0)
            if want:
                for j in range(ns):
                    if rng.random() < 0.6:
                        o = _pick(rng, cfg["orbs"])
                        structs[j] = [structs[j], [o[0], int(o[1])]]
        d = {"mode": mode, "structs": structs, "counts": counts}
        unit = _pick(rng, [None, 1.0, 0.0367493, KCAL])
        d["energy"] = float(rng.normal() * (50.0 if unit in (None, KCAL) else 2.0 if unit == 0.0367493 else 0.1))
        if unit is not None or rng.random() < 0.5:
            d["unit"] = unit
        nk = int(rng.integers(4))
        if nk == 1:
            d["noise"] = float(np.exp(rng.uniform(np.log(1e-4), np.log(0.2))))
        elif nk == 2:
            d["noise_factor"] = float(np.exp(rng.uniform(np.log(0.1), np.log(5.0))))
        elif nk == 3 and rng.random() < 0.5:
            d["noise"] = float(np.exp(rng.uniform(np.log(1e-3), np.log(0.1))))
            d["noise_factor"] = 3.0  # noise wins over noise_factor
        if rng.random() < 0.3:
            d["noise_rel_factor"] = float(rng.uniform(0.001, 0.05))
        if rng.random() < 0.35:
            d["weight"] = float(np.exp(rng.uniform(np.log(0.25), np.log(16.0))))
        rx.append(d)
    return rx


def _gen_ops(rng, cfg, nrx):
    mols = ["s%d" % i for i in range(cfg["nsys"])]
    perm = [mols[i] for i in rng.permutation(len(mols))]
    ncut = int(rng.integers(1, 4))
    cuts = sorted(set(int(c) for c in rng.integers(1, len(perm), size=ncut - 1))) if ncut > 1 else []
    chunks = [perm[a:b] for a, b in zip([0] + cuts, cuts + [len(perm)])]
    ops = []
    has_c = any(k["comp"] != "x" for k in cfg["kernels"])
    has_x = cfg["kernels"][0]["comp"] == "x"
    if has_c and has_x and rng.random() < 0.3:
        ops.append(["store", chunks[0], {"get_correlation": False}])  # x only first; everything is re-stored below
    for c in chunks:
        ops.append(["store", c, {"get_correlation": True}])
    if rng.random() < 0.3:
        ops.append(["store", chunks[int(rng.integers(len(chunks)))], {"get_correlation": True}])  # re-store
    allr = list(range(nrx))

    def perm_r():
        return [allr[i] for i in rng.permutation(nrx)]
    cut = int(rng.integers(1, nrx))
    a, b = allr[:cut], allr[cut:]
    x = [float(rng.uniform(0.5, 2.0)), float(rng.uniform(0.0, 1.5))]
    smin = float(rng.uniform(0.05, 0.5))
    t = int(rng.integers(6))
    if t == 0:
        ops += [["add", allr], ["fit", None, 0.25], ["lik"], ["reset"], ["add", perm_r()], ["fit", None, 0.25]]
    elif t == 1:
        ops += [["add", a], ["fit", None, 0.25], ["add", b], ["fit", None, 0.25], ["lik"], ["reset"],
                ["add", b], ["add", a], ["fit", None, 0.25]]
    elif t == 2:
        ops += [["add", allr], ["fit", x, smin], ["lik"], ["fit", None, 0.25], ["lik"], ["reset"],
                ["add", perm_r()], ["fit", x, smin]]
    elif t == 3:
        ops += [["add", a], ["add", a], ["fit", None, 0.25], ["reset"], ["add", allr], ["fit", None, 0.25], ["lik"]]
    elif t == 4:
        sub = sorted(int(i) for i in rng.choice(nrx, size=max(3, nrx // 2), replace=False))
        ops += [["add", allr], ["fit", None, 0.25], ["reset"], ["add", sub], ["fit", None, 0.25], ["lik"],
                ["reset"], ["add", perm_r()], ["fit", None, 0.25], ["fit", None, 0.25]]
    else:
        ops += [["add", perm_r()], ["fit", x, smin], ["fit", x, smin], ["lik"]]
    if rng.random() < 0.5:
        # hyper-parameters of one kernel changed on the live object (DFTKernel.set_kernel), covariances re-stored, reactions
        # re-registered, refit: everything the fit uses must follow the new kernel (added after a seeded change that
        # memoised K_mm across set_kernel went unnoticed)
        ops += [["setk", int(rng.integers(len(cfg["kernels"])))]]
        ops += [["store", c, {"get_correlation": True}] for c in chunks]
        ops += [["reset"], ["add", perm_r()], ["fit", None, 0.25], ["lik"]]
    ops.append(["fresh"])  # fresh model: systems and reactions shuffled, compared with the last fit
    return ops


def gen_cases(tier, seed):
    rng = rng_for(seed, PROP_NO, 0)
    nmain = 20 if tier == "quick" else 300
    nfrag = 1 if tier == "quick" else 3
    cases = []
    idx = 1
    for i in range(nmain):
        big = (i in (3, 11)) if tier == "quick" else (i % 25 in (3, 11))
        cfg = _gen_cfg(rng, tier, big=big)
        rx = _gen_rxns(rng, cfg)
        cases.append({"id": "h%03d-%s-%s-%s" % (i, cfg["gp"], cfg["layout"], "+".join(k["mode"] for k in cfg["kernels"])),
                      "cfg": cfg, "rxns": rx, "ops": _gen_ops(rng, cfg, len(rx)), "seed": seed, "idx": idx,
                      "_threads": 2, "_weight": 4.0 if big else 1.0, "_timeout": 900})
        idx += 1
    for f in sorted(FRAGILE):
        for j in range(nfrag):
            cfg = _gen_cfg(rng, tier, fragile=f)
            rx = _gen_rxns(rng, cfg)
            cases.append({"id": "probe-%s-%d" % (f, j), "cfg": cfg, "rxns": rx, "ops": _gen_ops(rng, cfg, len(rx)),
                          "seed": seed, "idx": idx, "_threads": 2, "_timeout": 900})
            idx += 1
    return cases


# ----------------------------------------------------------------------------------------------------------
# worker side: synthetic world

@contextlib.contextmanager
def _quiet():
    with contextlib.redirect_stdout(io.StringIO()):
        yield


def _settings(cfg):
    from ciderpress.dft import settings as st
    nl = None
    if cfg["nldf"]:
        level = "MGGA" if cfg["slmode"] in ("npa", "nst") else "GGA"
        theta = [1.0, 0.0, 0.03125] if level == "MGGA" else [1.0, 0.03125]
        fp = [[2.0, 0.0, 0.04], [1.0, 0.0, 0.03125]] if level == "MGGA" else [[2.0, 0.04], [1.0, 0.03125]]
        nl = st.NLDFSettingsVJ(level, theta, "one", ["se", "se_ar2"], fp)
    sx = st.SDMXSettings([0, 1]) if cfg["sdmx"] else None
    fs = st.FeatureSettings(sl_settings=st.SemilocalSettings(cfg["slmode"]), nldf_settings=nl, sdmx_settings=sx)
    if cfg["norm"] == "reasonable":
        fs.assign_reasonable_normalizer()
    return fs


def _gen_system(rng, cfg, settings, nspin, n):
    lf = cfg["low_frac"]
    rho = np.exp(rng.uniform(np.log(3e-3), np.log(20.0), size=(nspin, n)))
    if lf > 0:
        low = np.exp(rng.uniform(np.log(1e-9), np.log(5e-6), size=(nspin, n)))  # straddles the 1e-6 mask
        both = rng.random(n) < lf
        single = rng.random((nspin, n)) < lf / 2
        rho = np.where(both[None, :] | single, low, rho)
    p = np.exp(rng.uniform(np.log(1e-3), np.log(10.0), size=(nspin, n)))
    al = np.exp(rng.uniform(np.log(1e-2), np.log(5.0), size=(nspin, n)))
    sigma = SCONST * p * rho ** (8.0 / 3)
    tau = sigma / (8 * rho) + al * CFC * rho ** (5.0 / 3)
    sl = {"npa": [rho, p, al], "nst": [rho, sigma, tau], "np": [rho, p], "ns": [rho, sigma]}[cfg["slmode"]]
    blocks = {"SL": np.stack(sl, axis=1)}
    if cfg["nldf"]:
        nf = settings.nldf_settings.nfeat
        blocks["NLDF"] = rho[:, None, :] * rng.uniform(0.1, 3.0, size=(nspin, nf, n))
    if cfg["sdmx"]:
        ueg = np.asarray(settings.sdmx_settings.ueg_const, dtype=float)
        pw = np.asarray(settings.sdmx_settings.pows, dtype=float)
        blocks["SDMX"] = (ueg[None, :, None] * rho[:, None, :] ** (1 + pw / 3.0)[None, :, None]
                          * rng.uniform(0.3, 2.0, size=(nspin, len(pw), n)))
    desc = np.concatenate([blocks[k] for k in ("SL", "NLDF", "SDMX") if k in blocks], axis=1)
    wt = rng.uniform(0.5, 1.5, size=n)
    wt *= rng.uniform(2.0, 20.0) / np.dot(wt, rho.mean(0))
    val = -rng.uniform(0.8, 1.3, size=n) * 0.7386 * (rho ** (4.0 / 3)).mean(0)
    d = rng.normal(size=(nspin, 3, n))
    d /= np.linalg.norm(d, axis=1)[:, None, :]
    rho_data = np.zeros((nspin, 5, n))
    rho_data[:, 0] = rho
    rho_data[:, 1:4] = d * np.sqrt(sigma)[:, None, :]
    rho_data[:, 4] = tau
    out = {"nspin": nspin, "n": n, "blocks": blocks, "desc": desc, "wt": wt, "val": val, "rho_data": rho_data,
           "e_tot_orig": float(-rng.uniform(1.0, 100.0)), "exc_orig": float(-rng.uniform(1.0, 10.0)),
           "orb": {}}
    for occ, num in cfg["orbs"]:
        s = 0 if nspin == 1 else int(rng.integers(2))
        D = desc[s] * rng.normal(size=desc[s].shape) * 0.3
        out["orb"][(occ, int(num))] = {"spin": s, "D": D, "dval": float(rng.normal() * 0.5),
                                        "drho": rho_data[s] * rng.normal(size=(5, n)) * 0.1}
    return out


def _nested(orbs, fn):
    d = {}
    for (occ, num), o in orbs.items():
        d.setdefault(occ, {})[str(num)] = fn(o)
    return d


def _write(ds, cfg, tmp):
    from pyscf.lib import chkfile
    ddir = {"REF": os.path.join(tmp, "REF"), "SL": os.path.join(tmp, "SL"), "NLDF": None, "NLOF": None,
            "SDMX": None, "HYB": None}
    if cfg["nldf"]:
        ddir["NLDF"] = os.path.join(tmp, "NLDF")
    if cfg["sdmx"]:
        ddir["SDMX"] = os.path.join(tmp, "SDMX")
    for k, v in ddir.items():
        if v is not None:
            os.makedirs(v, exist_ok=True)
    if cfg.get("ddir_order") == "sorted":
        # the mapping of data directories is semantically unordered: alphabetical key order (as from a JSON/YAML file written
        # with sort_keys) must give the same stored integrals - added after a seeded loader that concatenated the feature
        # families in dict order
        ddir = {k: ddir[k] for k in sorted(ddir)}
    elif cfg.get("ddir_order") == "reversed":
        ddir = {k: ddir[k] for k in reversed(list(ddir))}
    for mol, sd in ds.items():
        nspin = sd["nspin"]
        ref = {"wt": sd["wt"], "nspin": nspin, "val": sd["val"], "e_tot_orig": sd["e_tot_orig"],
               "exc_orig": sd["exc_orig"]}
        if cfg["gp"] == "MOLGP2":
            ref["rho_data"] = sd["rho_data"]
        if sd["orb"]:
            ref["dval"] = _nested(sd["orb"], lambda o: o["dval"])
            if cfg["gp"] == "MOLGP2":
                ref["drho_data"] = _nested(sd["orb"], lambda o: (o["spin"], o["drho"]) if nspin == 2 else o["drho"])
        chkfile.dump(os.path.join(ddir["REF"], mol + ".hdf5"), "train_data", ref)
        i0 = 0
        for blk in ("SL", "NLDF", "SDMX"):
            if blk not in sd["blocks"]:
                continue
            nb = sd["blocks"][blk].shape[1]
            dat = {"desc": sd["blocks"][blk]}
            if sd["orb"]:
                sl = slice(i0, i0 + nb)
                dat["ddesc"] = _nested(sd["orb"], lambda o: (o["spin"], o["D"][sl]) if nspin == 2 else o["D"][sl])
            chkfile.dump(os.path.join(ddir[blk], mol + ".hdf5"), "train_data", dat)
            i0 += nb
    return ddir


def _kernel_specs(cfg, rng, settings):
    from vlib import gen

    from ciderpress.models.kernel_plans import kernel_tools as kt
    from ciderpress.models.kernels import DiffConstantKernel, DiffRBF
    specs = []
    for k in cfg["kernels"]:
        fl = gen.rand_feature_list(settings, rng, nmax=k["nmaps"])
        n1 = fl.nfeat
        ls = np.exp(rng.uniform(np.log(0.25), np.log(1.2), size=n1))
        scale = float(rng.uniform(0.5, 3.0))
        ktype = k["ktype"]
        if ktype == "agpr" and n1 < 3:
            ktype = "rbf"
        if ktype == "rbf_subset" and n1 < 2:
            ktype = "rbf"
        with _quiet():
            if ktype == "rbf":
                kern = DiffConstantKernel(scale) * DiffRBF(ls)
            elif ktype == "rbf_subset":
                kern = kt.get_rbf_kernel(slice(0, n1 - 1), ls, scale=scale)
            else:
                kern = kt.get_agpr_kernel(slice(0, 1), slice(1, None), ls, scale=[1e-5, 1e-5, scale], order=2,
                                          nsingle=1)
        specs.append(dict(k, kern=kern, fl=fl, ktype_used=ktype))
    return specs


def _instantiate(cfg, specs, settings):
    from copy import deepcopy as clone

    from ciderpress.dft import baselines as bl
    from ciderpress.models import dft_kernel as dk
    from ciderpress.models import train
    kernels = []
    for s in specs:
        if cfg["gp"] == "MOLGP":
            kernels.append(dk.DFTKernel(clone(s["kern"]), s["fl"], s["mode"], getattr(bl, s["mul"]),
                                        getattr(bl, s["add"]), ctrl_tol=s["ctrl_tol"], ctrl_nmax=s["ctrl_nmax"],
                                        component=s["comp"]))
        else:
            kernels.append(dk.DFTKernel2(clone(s["kern"]), s["fl"], s["mode"], s["mul"], s["add"],
                                         ctrl_tol=s["ctrl_tol"], ctrl_nmax=s["ctrl_nmax"], component=s["comp"]))
    cls = train.MOLGP if cfg["gp"] == "MOLGP" else train.MOLGP2
    return cls(kernels, settings, default_noise=cfg["default_noise"]), kernels


# ----------------------------------------------------------------------------------------------------------
# reference model

def _F_closed(name, x):
    """Closed-form spin-scaled energy density F(x) of the native baselines for one spin channel x = X0T[s]."""
    if name == "zero_xc":
        return np.zeros(x.shape[-1])
    if name == "one_xc":
        return np.ones(x.shape[-1])
    if name == "lda_x":
        return LDA_FACTOR * x[0] ** (4.0 / 3)
    if name == "gga_x_pbe":
        kappa, mu = 0.804, 0.2195149727645171
        return LDA_FACTOR * x[0] ** (4.0 / 3) * (1 + kappa - kappa / (1 + mu * x[1] / kappa))
    raise KeyError(name)


def _base_v1(name, X0T, mode):
    """DFTKernel baselines: spin-scaling relation E[na, nb] = (E[2na] + E[2nb]) / 2 on spin-scaled features."""
    nspin = X0T.shape[0]
    if name == "gga_c_pbe":  # not spin-separable; assembly-only oracle through the repo's own point function
        from ciderpress.dft import baselines as bl
        assert mode != "SEP"
        return bl.gga_c_pbe(X0T)[0]
    F = np.stack([_F_closed(name, X0T[s]) for s in range(nspin)])
    return F / nspin if mode == "SEP" else F.mean(0)


def _base_v2(xc, rho_data, mode):
    """DFTKernel2 baselines through pyscf's libxc interface (independent of libxc_utils)."""
    from pyscf.dft import libxc
    nspin = rho_data.shape[0]
    n = rho_data.shape[-1]
    if xc is None:
        return np.zeros((nspin, n)) if mode == "SEP" else np.zeros(n)
    nv = {"LDA": 1, "GGA": 4, "MGGA": 5}[libxc.xc_type(xc)]
    rs = rho_data / nspin  # spin densities
    if nspin == 1:
        e = libxc.eval_xc(xc, rs[0, :nv] if nv > 1 else rs[0, 0], spin=0, deriv=0)[0] * rs[0, 0]
        return e[None, :] if mode == "SEP" else e
    if mode == "SEP":
        out = []
        for s in range(2):
            r2 = 2 * rs[s]
            out.append(0.5 * libxc.eval_xc(xc, r2[:nv] if nv > 1 else r2[0], spin=0, deriv=0)[0] * r2[0])
        return np.stack(out)
    return libxc.eval_xc(xc, rs[:, :nv] if nv > 1 else rs[:, 0], spin=1, deriv=0)[0] * rs[:, 0].sum(0)


def _direct(spec, ctrl, settings, gpname, sd, desc=None, mask=None):
    """sum_g w_g m_g k(x_g, ctrl) and sum_g w_g a_g for one system, directly from the definitions."""
    desc = sd["desc"] if desc is None else desc
    wt = sd["wt"]
    nspin = desc.shape[0]
    mode = spec["mode"]
    X0T = settings.normalizers.get_normalized_feature_vector(desc)
    if gpname == "MOLGP":
        m = _base_v1(spec["mul"], X0T, mode)
        a = _base_v1(spec["add"], X0T, mode)
        msk = X0T[:, 0] < 1e-6 if mode == "SEP" else X0T[:, 0].sum(0) < 1e-6
    else:
        m = _base_v2(spec["mul"], sd["rho_data"], mode)
        a = _base_v2(spec["add"], sd["rho_data"], mode)
        lo = sd["rho_data"][:, 0] / nspin < 1e-6
        msk = lo if mode == "SEP" else np.all(lo, axis=0)
    if mask is not None:
        msk = mask
    kern, fl = spec["kern"], spec["fl"]
    if mode == "SEP":
        cov, base = 0.0, 0.0
        for s in range(nspin):
            k = kern(fl(X0T[s].T), ctrl)
            ws = np.where(msk[s], 0.0, wt * m[s])
            cov = cov + ws @ k
            base += float(np.sum(np.where(msk[s], 0.0, wt * a[s])))
    else:
        if mode == "NPOL":
            k = kern(fl(X0T.mean(0).T), ctrl)
        else:
            xa = fl(X0T[0].T)
            xb = fl(X0T[1].T) if nspin == 2 else xa
            k = kern(xa, ctrl[0]) * kern(xb, ctrl[1]) + kern(xa, ctrl[1]) * kern(xb, ctrl[0])
        cov = np.where(msk, 0.0, wt * m) @ k
        base = float(np.sum(np.where(msk, 0.0, wt * a)))
    return cov, base, msk


def _kmm(spec, ctrl):
    kern = spec["kern"]
    if spec["mode"] == "POL":
        return kern(ctrl[0], ctrl[0]) * kern(ctrl[1], ctrl[1]) + kern(ctrl[0], ctrl[1]) * kern(ctrl[1], ctrl[0])
    return kern(ctrl, ctrl)


def _solve_refined(A, B):
    """LU solve with one residual-correction step in extended precision."""
    X = np.linalg.solve(A, B)
    Al, Bl = A.astype(np.longdouble), np.asarray(B, dtype=np.longdouble)
    R = Bl - Al.dot(X.astype(np.longdouble))
    return X + np.linalg.solve(A, R.astype(float))


def _ref_fit(Kmm_list, Kmn_list, y, sig, x=None, smin=0.25):
    """docs/theory/gp.rst with the resolution-of-identity covariance, the documented jitter on both matrices."""
    s0 = 1.0 if x is None else x[0] ** 2
    nf = 1.0 if x is None else smin + x[1] ** 2
    A = [_solve_refined(Kmm + JITTER * np.eye(Kmm.shape[0]), Kmn) for Kmm, Kmn in zip(Kmm_list, Kmn_list)]
    Knn = sum(Kmn.T.dot(a) for Kmn, a in zip(Kmn_list, A))
    Knn = 0.5 * (Knn + Knn.T)
    n = y.size
    Sig = nf * np.diag(sig ** 2) + JITTER * np.eye(n)
    K = s0 * Knn + Sig
    w = _solve_refined(K, y)
    return {"A": A, "Knn": Knn, "Kcov": s0 * Knn, "K": K, "Sig": Sig, "w": w, "alphas": [s0 * a.dot(w) for a in A],
            "pred": s0 * Knn.dot(w), "s0": s0, "nf": nf}


def _ref_loglik(y, Kfull):
    """Gaussian log density of y under N(0, Kfull), twice: (a) LU solve with extended-precision refinement +
    slogdet, (b) scipy.stats.multivariate_normal (spectral; None where scipy refuses the matrix as singular,
    which it does above a condition number of ~5e9)."""
    from scipy.stats import multivariate_normal
    n = y.size
    a = float(-0.5 * y.dot(_solve_refined(Kfull, y)) - 0.5 * np.linalg.slogdet(Kfull)[1] - 0.5 * n * np.log(2 * np.pi))
    try:
        b = float(multivariate_normal.logpdf(y, mean=np.zeros(n), cov=Kfull, allow_singular=False))
    except (np.linalg.LinAlgError, ValueError):
        b = None
    return a, b


# ----------------------------------------------------------------------------------------------------------
# the history interpreter

class _Unreached(Exception):
    pass


def _to_rxn(d):
    """JSON reaction -> (mode, dict) as add_reactions takes it (fresh dict: add_reactions writes the default unit)."""
    r = {k: v for k, v in d.items() if k != "mode"}
    r["structs"] = [(s[0], (s[1][0], int(s[1][1]))) if isinstance(s, (list, tuple)) else s for s in d["structs"]]
    r["counts"] = list(d["counts"])
    return (int(d["mode"]), r)


class _Model:
    """One MOLGP[2] object plus the harness' expectation of its state."""

    def __init__(self, cfg, specs, settings, ds, ddir, rec, ctrl=None, cand=None):
        self.cfg, self.specs, self.settings, self.ds, self.ddir, self.rec = cfg, specs, settings, ds, ddir, rec
        self.gp, self.kernels = _instantiate(cfg, specs, settings)
        self.current = []      # reaction indices expected to be registered, in order
        self.stored = [set() for _ in specs]
        self.direct = {}       # (ik, mol) -> (cov, base, mask)
        self.fits = []
        self.last = None
        if ctrl is None:
            with _quiet():
                self.gp.set_control_points(cand, reduce=cfg["reduce"])
        else:
            for k, c in zip(self.kernels, ctrl):
                k.X1ctrl = c.copy(order="F")
        self.ctrl = [np.array(k.X1ctrl) for k in self.kernels]
        self.Kmm = [_kmm(s, c) for s, c in zip(specs, self.ctrl)]
        self.M = [K.shape[0] for K in self.Kmm]
        self.condmm = [float(np.linalg.cond(K + JITTER * np.eye(K.shape[0]))) for K in self.Kmm]

    # -- DFTKernel.set_kernel -------------------------------------------------------------------------
    def setk(self, ik, rng):
        from copy import deepcopy as clone
        spec = self.specs[ik]
        th = np.array(spec["kern"].theta, dtype=float)
        if th.size == 0:
            return False
        with _quiet():
            new = spec["kern"].clone_with_theta(th + rng.normal(scale=0.35, size=th.size))
        self.specs = list(self.specs)
        self.specs[ik] = dict(spec, kern=new)
        self.kernels[ik].set_kernel(clone(new))
        self.Kmm[ik] = _kmm(self.specs[ik], self.ctrl[ik])
        self.condmm[ik] = float(np.linalg.cond(self.Kmm[ik] + JITTER * np.eye(self.M[ik])))
        for key in [k for k in self.direct if k[0] == ik]:
            del self.direct[key]
        self.stored[ik] = set()
        self.fits = []      # fits with the previous kernel are not comparable
        self.rec.tag("set_kernel", "theta-shift[%s]" % spec["mode"])
        return True

    # -- store_mol_covs -------------------------------------------------------------------------------
    def store(self, mols, opts):
        rec, cfg = self.rec, self.cfg
        with _quiet():
            self.gp.store_mol_covs(self.ddir, list(mols), get_orb_deriv=cfg["get_orb_deriv"],
                                   get_correlation=opts.get("get_correlation", True))
        for ik, (k, spec) in enumerate(zip(self.kernels, self.specs)):
            if not (opts.get("get_correlation", True) or spec["comp"] == "x"):
                continue
            mech = "store_mol_covs:covariance[%s,%s]" % (cfg["gp"], spec["mode"])
            for mol in mols:
                self.stored[ik].add(mol)
                sd = self.ds[mol]
                if (ik, mol) not in self.direct:
                    self.direct[ik, mol] = _direct(spec, self.ctrl[ik], self.settings, cfg["gp"], sd)
                cov, base, msk = self.direct[ik, mol]
                got = np.asarray(k.cov_dict[mol])
                if not rec.require("cov_shape", got.shape == cov.shape, mechanism=mech + ":shape",
                                   detail={"got": list(got.shape), "want": list(cov.shape)}):
                    continue
                rec.check("cov_vs_direct", relerr(got, cov), TOL_COV, mechanism=mech,
                          detail={"mol": mol, "nspin": sd["nspin"], "n": sd["n"], "masked": int(np.sum(msk))})
                asum = abs(base) + 1e-300
                rec.check("base_vs_direct", abs(float(k.base_dict[mol]) - base) / max(asum, 1e-3), TOL_COV,
                          mechanism="store_mol_covs:baseline[%s,%s]" % (cfg["gp"], spec["mode"]),
                          detail={"mol": mol, "add": spec["add"]})
                if np.any(msk) and not np.all(msk):
                    rec.tag("low_density_mask", "active[%s]" % spec["mode"])
                if cfg["deriv"] and mol in k.dcov_dict:
                    self._check_dcov(ik, mol)
        for mol in mols:
            sd = self.ds[mol]
            exx = float(np.dot(sd["val"], sd["wt"]))
            rec.check("exx_ref", abs(float(self.gp.exx_ref_dict[mol]) - exx) / abs(exx), 1e-13,
                      mechanism="store_mol_covs:exx_ref")
            ksb = sd["e_tot_orig"] - sd["exc_orig"]
            rec.check("ks_baseline", abs(float(self.gp.ks_baseline_dict[mol]) - ksb) / abs(ksb), 1e-14,
                      mechanism="store_mol_covs:ks_baseline")
            if cfg["deriv"]:
                ok = all(float(self.gp.dexx_ref_dict[mol][o]) == v["dval"] for o, v in sd["orb"].items())
                rec.require("dexx_ref", ok, mechanism="store_mol_covs:dexx_ref")

    def _check_dcov(self, ik, mol):
        """d(cov)/d(occupation): FD of the direct sums along desc[s] + t * ddesc (mask frozen)."""
        rec, cfg, spec, sd = self.rec, self.cfg, self.specs[ik], self.ds[mol]
        if cfg["gp"] != "MOLGP":
            return  # MOLGP2 baselines depend on rho_data, whose derivative path is not reachable (FRAGILE)
        k = self.kernels[ik]
        msk = self.direct[ik, mol][2]
        for orb, o in sd["orb"].items():
            D = np.zeros_like(sd["desc"])
            D[o["spin"]] = o["D"]

            def f(t):
                c, b, _ = _direct(spec, self.ctrl[ik], self.settings, cfg["gp"], sd, desc=sd["desc"] + t * D, mask=msk)
                return np.append(c, b)
            h = 2e-3
            d1, d2 = fd5(f, 0.0, h), fd5(f, 0.0, h / 2)
            got = np.append(np.asarray(k.dcov_dict[mol][orb]), float(k.dbase_dict[mol][orb]))
            sc_c = max(np.max(np.abs(d2[:-1])), np.max(np.abs(got[:-1])), 1e-300)
            sc_b = max(abs(d2[-1]), abs(got[-1]), 1e-3 * sc_c)
            selferr = max(np.max(np.abs(d1[:-1] - d2[:-1])) / sc_c, abs(d1[-1] - d2[-1]) / sc_b)
            if selferr > TOL_FD / 10:
                rec.note("dcov_fd_self_error", float(selferr))
                continue
            mech = "store_mol_covs:orbital-derivative-covariance[%s,%s]" % (cfg["gp"], spec["mode"])
            rec.check("dcov_vs_fd", np.max(np.abs(got[:-1] - d2[:-1])) / sc_c, TOL_FD, mechanism=mech,
                      detail={"mol": mol, "orb": list(orb), "nspin": sd["nspin"]})
            rec.check("dbase_vs_fd", abs(got[-1] - d2[-1]) / sc_b, TOL_FD,
                      mechanism="store_mol_covs:orbital-derivative-baseline[%s,%s]" % (cfg["gp"], spec["mode"]),
                      detail={"mol": mol, "orb": list(orb), "add": spec["add"]})
            rec.nontrivial("dcov|%d|%s|%s" % (ik, mol, orb))

    # -- expectations for one reaction ----------------------------------------------------------------
    def expect(self, rd):
        """rows per kernel, label, noise from the *stored* per-system quantities, plus the label from raw data."""
        gp, cfg = self.gp, self.cfg
        mode, r = _to_rxn(rd)
        rows = []
        label, label_raw, absum = 0.0, 0.0, 0.0
        has_orb = False
        pairs = list(zip(r["structs"], r["counts"]))
        if mode == 2:
            unit = KCAL if r.get("unit") is None else r["unit"]
            label += r["energy"] * unit
            label_raw += r["energy"] * unit
            absum += abs(r["energy"] * unit)
        for ik, (k, spec) in enumerate(zip(self.kernels, self.specs)):
            active = spec["comp"] == "x" or mode == 2
            row = np.zeros(self.M[ik])
            for sid, c in pairs:
                if not active:
                    continue
                if isinstance(sid, tuple):
                    has_orb = True
                    row = row + c * np.asarray(k.dcov_dict[sid[0]][sid[1]])
                    b = float(k.dbase_dict[sid[0]][sid[1]])
                    braw = b
                else:
                    row = row + c * np.asarray(k.cov_dict[sid])
                    b = float(k.base_dict[sid])
                    braw = self.direct[ik, sid][1]
                label -= c * b
                label_raw -= c * braw
                absum += abs(c * b)
            rows.append(row)
        for sid, c in pairs:
            if mode == 0:
                if isinstance(sid, tuple):
                    v = float(gp.dexx_ref_dict[sid[0]][sid[1]])
                    vraw = self.ds[sid[0]]["orb"][sid[1]]["dval"]
                else:
                    v = float(gp.exx_ref_dict[sid])
                    vraw = float(np.dot(self.ds[sid]["val"], self.ds[sid]["wt"]))
                label += c * v
                label_raw += c * vraw
                absum += abs(c * v)
            else:
                v = float(gp.ks_baseline_dict[sid])  # KeyError for orbital entries: FRAGILE["mode2-orbital"]
                label -= c * v
                label_raw -= c * (self.ds[sid]["e_tot_orig"] - self.ds[sid]["exc_orig"])
                absum += abs(c * v)
        if r.get("noise") is not None:
            noise = r["noise"]
        elif r.get("noise_factor") is not None:
            noise = r["noise_factor"] * cfg["default_noise"]
        else:
            noise = cfg["default_noise"]
        if r.get("noise_rel_factor") is not None:
            noise = noise + r["noise_rel_factor"] * abs(label)
        if r.get("weight") is not None:
            noise = noise / np.sqrt(r["weight"])
        return rows, label, label_raw, max(absum, 1e-300), noise, has_orb

    def add(self, idxs, rxns):
        with _quiet():
            self.gp.add_reactions([_to_rxn(rxns[i]) for i in idxs])
        self.current += list(idxs)
        self.check_lists(rxns)

    def reset(self):
        self.gp.reset_reactions()
        self.current = []
        ok = len(self.gp.rxn_ref_list) == 0 and len(self.gp.rxn_noise_list) == 0 and all(
            len(k.rxn_cov_list) == 0 for k in self.kernels)
        self.rec.require("reset_clears", ok, mechanism="MOLGP.reset_reactions:state")

    def check_lists(self, rxns):
        """Registered rows / labels / noises == expectation for self.current (bookkeeping oracle)."""
        rec, gp = self.rec, self.gp
        n = len(self.current)
        ok = len(gp.rxn_ref_list) == n and len(gp.rxn_noise_list) == n and all(
            len(k.rxn_cov_list) == n for k in self.kernels)
        if not rec.require("list_lengths", ok, mechanism="MOLGP.add_reactions:list-lengths",
                           detail={"expected": n, "ref": len(gp.rxn_ref_list),
                                   "cov": [len(k.rxn_cov_list) for k in self.kernels]}):
            return None
        exp = [self.expect(rxns[i]) for i in self.current]
        for ik, k in enumerate(self.kernels):
            for j, e in enumerate(exp):
                got = np.asarray(k.rxn_cov_list[j])
                if got.shape != e[0][ik].shape and self.cfg["fragile"] == "polc-mode0":
                    raise _Unreached("rxn_cov_list row of shape %s for %d control points (DFTKernel.Nctrl is "
                                     "X1ctrl.shape[0], the spin axis in POL mode; dft_kernel.py:136, train.py:504)"
                                     % (got.shape, self.M[ik]))
                if not rec.require("row_shape", got.shape == e[0][ik].shape,
                                   mechanism="MOLGP.add_reactions:row-shape[%s]" % self.specs[ik]["mode"],
                                   detail={"got": list(got.shape), "want": list(e[0][ik].shape)}):
                    return None
                sc = max(np.max(np.abs(np.asarray(k.cov_dict[m]))) for m in self.stored[ik]) if self.stored[ik] else 1.0
                rec.check("rxn_cov_row", np.max(np.abs(got - e[0][ik])) / max(sc, 1e-300), TOL_BOOK,
                          mechanism="MOLGP.add_reactions:covariance-row", detail={"rxn": self.current[j]})
        for j, e in enumerate(exp):
            mode = rxns[self.current[j]]["mode"]
            rec.check("rxn_label", abs(float(gp.rxn_ref_list[j]) - e[1]) / e[3], TOL_BOOK,
                      mechanism="MOLGP.add_reactions:label[mode%d]" % mode,
                      detail={"rxn": rxns[self.current[j]], "got": float(gp.rxn_ref_list[j]), "want": e[1]})
            rec.check("rxn_label_raw", abs(float(gp.rxn_ref_list[j]) - e[2]) / e[3], TOL_LABEL_IND,
                      mechanism="MOLGP.add_reactions:label-vs-raw-data[mode%d]" % mode,
                      detail={"rxn": rxns[self.current[j]], "got": float(gp.rxn_ref_list[j]), "want": e[2]})
            rec.check("rxn_noise", abs(float(gp.rxn_noise_list[j]) - e[4]) / abs(e[4]), TOL_BOOK,
                      mechanism="MOLGP.add_reactions:noise",
                      detail={"rxn": rxns[self.current[j]], "got": float(gp.rxn_noise_list[j]), "want": e[4]})
        return exp

    # -- fit ------------------------------------------------------------------------------------------
    def fit(self, x, smin, rxns, step):
        rec, gp = self.rec, self.gp
        exp = [self.expect(rxns[i]) for i in self.current]
        nk = len(self.kernels)
        Kmn = [np.stack([e[0][ik] for e in exp]).T for ik in range(nk)]
        y = np.array([e[1] for e in exp])
        sig = np.array([e[4] for e in exp])
        xa = None if x is None else np.array(x, dtype=float)
        if xa is None:
            gp.fit()
        else:
            gp.fit(x=xa, sigma_min=smin)
        ref = _ref_fit(self.Kmm, Kmn, y, sig, xa, smin)
        sfx = "[x]" if x is not None else ""
        tagm = "MOLGP.fit:alpha" + sfx
        w = np.asarray(gp.alpha_mol_, dtype=float)
        alphas = [np.asarray(k.alpha, dtype=float) for k in self.kernels]
        ok = w.shape == y.shape and all(a.shape == (m,) for a, m in zip(alphas, self.M))
        if not rec.require("alpha_shapes", ok, mechanism="MOLGP.fit:shapes"):
            return None
        rec.check("y_mol", relerr(gp.y_mol_, y), TOL_BOOK, mechanism="MOLGP.fit:labels")
        # First-order rounding-propagation scales (a-posteriori, componentwise): a Cholesky / LU solve with a
        # matrix B is exact for B + dB, |dB| <= c u |B|.  E is the resulting uncertainty pattern of K.
        s0, n = ref["s0"], y.size
        absA = [np.abs(a) for a in ref["A"]]
        E = np.abs(ref["K"]) + s0 * sum(a.T.dot(np.abs(Kmm)).dot(a) for a, Kmm in zip(absA, self.Kmm))
        Kinv = np.abs(np.linalg.inv(ref["K"]))
        dw = Kinv.dot(E.dot(np.abs(ref["w"])))            # |K^-1| E |w|: uncertainty of the reaction weights
        escale = float(np.max(E))
        wscale = max(float(np.max(dw)), 1e-300)
        ascale = []
        for ik in range(nk):
            Kj = self.Kmm[ik] + JITTER * np.eye(self.M[ik])
            t = np.abs(np.linalg.inv(Kj)).dot(np.abs(Kj).dot(absA[ik].dot(np.abs(ref["w"]))))
            ascale.append(max(float(np.max(s0 * (t + absA[ik].dot(dw)))), 1e-300))
        Kc, Kt = np.asarray(gp.Kcov_, dtype=float), np.asarray(gp.K_, dtype=float)
        rec.check("Kcov_vs_ref", float(np.max(np.abs(Kc - ref["Kcov"]))) / escale, TOL_BWD, mechanism="MOLGP.fit:Kcov" + sfx,
                  detail={"step": step, "cond_Kmm": self.condmm})
        rec.check("noisecov_vs_ref", float(np.max(np.abs(Kt - Kc - ref["Sig"]))) / float(np.max(np.abs(ref["K"]))),
                  TOL_BOOK * 10, mechanism="MOLGP.fit:noise-covariance" + sfx,
                  detail={"step": step, "got_diag": np.diag(Kt - Kc)[:4].tolist(), "want_diag": np.diag(ref["Sig"])[:4].tolist()})
        # predictions for the training reactions, on the natural backward-error scale
        pred = sum(K.T.dot(a) for K, a in zip(Kmn, alphas))
        bscale = float(np.max(np.abs(y) + sum(np.abs(K).T.dot(np.abs(a)) for K, a in zip(Kmn, alphas))
                              + np.abs(ref["Kcov"]).dot(np.abs(w))))
        bscale = max(bscale, 1e-300)  # a single all-zero-count reaction has label 0 and weight 0
        condK = float(np.linalg.cond(ref["K"]))
        perr = float(np.max(np.abs(pred - ref["pred"]))) / bscale
        rec.check("pred_vs_ref", perr, TOL_PRED, mechanism=tagm + ":predictions",
                  detail={"step": step, "cond_K": condK, "cond_Kmm": self.condmm, "x": x, "sigma_min": smin,
                          "pred": pred[:4].tolist(), "ref": ref["pred"][:4].tolist()})
        # predictions for every stored system (also those in no reaction: held-out), per kernel
        serr = 0.0
        for ik, k in enumerate(self.kernels):
            mols = sorted(self.stored[ik])
            C = np.stack([np.asarray(k.cov_dict[m]) for m in mols])
            got, want = C.dot(alphas[ik]), C.dot(ref["alphas"][ik])
            sc = float(np.max(np.abs(C).dot(np.abs(alphas[ik])) + np.abs(C).dot(np.abs(ref["alphas"][ik]))
                              + np.abs(s0 * C.dot(ref["A"][ik])).dot(dw)))  # + |K_sys,rxn| x uncertainty of w
            serr = max(serr, float(np.max(np.abs(got - want))) / max(sc, 1e-300))
        rec.check("system_pred_vs_ref", serr, TOL_BWD, mechanism=tagm + ":system-predictions",
                  detail={"step": step, "cond_K": condK, "cond_Kmm": self.condmm})
        werr = float(np.max(np.abs(w - ref["w"]))) / wscale
        rec.check("alpha_mol_vs_ref", werr, TOL_BWD, mechanism=tagm + ":reaction-weights",
                  detail={"step": step, "cond_K": condK, "rel_err": relerr(w, ref["w"])})
        aerrs = []
        for ik, (a, ar) in enumerate(zip(alphas, ref["alphas"])):
            aerrs.append(float(np.max(np.abs(a - ar))) / ascale[ik])
            rec.check("alpha_vs_ref", aerrs[-1], TOL_BWD, mechanism=tagm,
                      detail={"step": step, "kernel": ik, "cond_Kmm": self.condmm[ik], "cond_K": condK,
                              "rel_err": relerr(a, ar), "alpha": a[:4].tolist(), "ref": ar[:4].tolist()})
        _calib("fit", perr=perr, serr=serr, werr=werr, aerr=aerrs, condK=condK, condmm=self.condmm,
               kcov=float(np.max(np.abs(Kc - ref["Kcov"]))) / escale, n=n, M=self.M)
        # residual identity from the code's own outputs
        res = y - pred
        sw = (ref["nf"] * sig ** 2 + JITTER) * w
        rerr = float(np.max(np.abs(res - sw))) / bscale
        rec.check("residual_vs_noise", rerr, TOL_PRED, mechanism="MOLGP.fit:residual" + sfx,
                  detail={"step": step, "residual": res[:4].tolist(), "Sigma_w": sw[:4].tolist()})
        snap = {"step": step, "order": list(self.current), "x": x, "smin": smin, "pred": pred, "w": w,
                "alphas": alphas, "bscale": bscale, "condK": condK, "ref": ref, "y": y, "sig": sig, "Kmn": Kmn,
                "dw": dw, "ascale": ascale, "Kc": Kc.copy(), "Kt": Kt.copy()}
        self.compare_with_previous(snap)
        self.fits.append(snap)
        self.last = snap
        gpart = float(np.max(np.abs(ref["Kcov"]))) / float(np.max(np.diag(ref["Sig"])))
        rfrac = float(np.max(np.abs(res))) / max(float(np.max(np.abs(y))), 1e-300)
        rec.note("worst_cond", max(float(rec.notes.get("worst_cond", 0.0)), max(self.condmm), condK))
        if n >= 3 and gpart >= 1e-3 and rfrac >= 1e-6:
            rec.nontrivial("fit|%s" % step)
        return snap

    def compare_with_previous(self, snap, others=None, label="MOLGP.fit:order-dependence"):
        """Same multiset of reactions and same (x, sigma_min) => same model up to the induced permutation."""
        rec = self.rec
        for old in (self.fits if others is None else others):
            if sorted(old["order"]) != sorted(snap["order"]) or old["x"] != snap["x"] or (
                    snap["x"] is not None and old["smin"] != snap["smin"]):
                continue

            def occ(order):  # position of each reaction occurrence (stable for duplicates)
                seen, out = {}, []
                for r in order:
                    seen[r] = seen.get(r, 0) + 1
                    out.append((r, seen[r]))
                return out
            pos = {k: i for i, k in enumerate(occ(snap["order"]))}
            p = np.array([pos[k] for k in occ(old["order"])])
            det = {"steps": [old["step"], snap["step"]], "orders": [old["order"], snap["order"]]}
            bs = max(old["bscale"], snap["bscale"])
            rec.check("order_pred", float(np.max(np.abs(snap["pred"][p] - old["pred"]))) / bs, TOL_ORDER,
                      mechanism=label, detail=det)
            ws = max(float(np.max(snap["dw"])), float(np.max(old["dw"])), 1e-300)
            rec.check("order_alpha_mol", float(np.max(np.abs(snap["w"][p] - old["w"]))) / ws, TOL_BWD,
                      mechanism=label + ":reaction-weights", detail=det)
            for ik, (a, b) in enumerate(zip(snap["alphas"], old["alphas"])):
                rec.check("order_alpha", float(np.max(np.abs(a - b))) / max(snap["ascale"][ik], old["ascale"][ik]), TOL_BWD,
                          mechanism=label + ":weights", detail=dict(det, kernel=ik, rel=relerr(a, b)))
            if list(p) != list(range(len(p))):
                rec.nontrivial("order|%s|%s" % (old["step"], snap["step"]))

    # -- likelihood -----------------------------------------------------------------------------------
    def lik(self, rng, step):
        """compute_likelihood(x, sigma_min) is the Gaussian log density of the labels under the covariance
        x0^2 Kcov_ + (sigma_min + x1^2)(K_ - Kcov_) of the *stored* matrices (themselves checked in fit())."""
        rec, gp = self.rec, self.gp
        snap = self.last
        if snap is None:
            return
        y, Kc, Kt = snap["y"], snap["Kc"], snap["Kt"]
        n = y.size
        args = [(np.array([float(rng.uniform(0.4, 2.5)), float(rng.uniform(0.0, 1.5))]), float(rng.uniform(0.02, 0.6)))
                for _ in range(3)]
        sm = float(rng.uniform(0.05, 0.9))
        args.append((np.array([1.0, np.sqrt(1.0 - sm)]), sm))  # neutral point
        for j, (x, smin) in enumerate(args):
            got = float(gp.compute_likelihood(x, sigma_min=smin))
            Kfull = x[0] ** 2 * Kc + (smin + x[1] ** 2) * (Kt - Kc)
            want, want_sp = _ref_loglik(y, Kfull)
            ev = np.linalg.eigvalsh(Kfull)
            cond = float(ev[-1] / ev[0])
            wf = np.abs(_solve_refined(Kfull, y))
            scale = (0.5 * float(wf.dot(np.abs(Kfull).dot(wf))) + 0.5 * float(np.sum(np.abs(np.log(ev))))
                     + 0.5 * n * np.log(2 * np.pi))
            det = {"x": x.tolist(), "sigma_min": smin, "got": got, "want": want, "scipy": want_sp, "cond": cond,
                   "step": step}
            _calib("lik", err=abs(got - want) / scale, err_scipy=None if want_sp is None else abs(got - want_sp) / scale,
                   cond=cond, n=n)
            rec.check("likelihood_vs_gaussian", abs(got - want) / scale, TOL_LIK, mechanism="MOLGP.compute_likelihood:formula",
                      detail=det)
            if want_sp is not None:
                sscale = scale * (1.0 + TOL_LIK_SCIPY_COND / TOL_LIK * cond)
                rec.check("likelihood_vs_scipy", abs(got - want_sp) / sscale, TOL_LIK,
                          mechanism="MOLGP.compute_likelihood:formula", detail=det)
            if j == 3:
                # must be the log marginal likelihood of the fitted model itself (ties fit and likelihood)
                w = np.asarray(gp.alpha_mol_, dtype=float)
                lml = -0.5 * float(y.dot(w)) - 0.5 * float(np.linalg.slogdet(Kt)[1]) - 0.5 * n * np.log(2 * np.pi)
                rec.check("likelihood_neutral_point", abs(got - lml) / scale, TOL_LIK,
                          mechanism="MOLGP.compute_likelihood:fitted-model",
                          detail={"got": got, "lml_from_alpha_mol": lml, "sigma_min": smin, "step": step})
                dflt = float(gp.compute_likelihood())
                rec.note("likelihood_default_args_minus_fitted_model", dflt - lml)
                rec.note("likelihood_default_args", {"default": dflt, "fitted_model": lml})
        rec.nontrivial("lik|%d" % step)


def _candidates(cfg, rng, ds, settings):
    """Normalised feature arrays handed to set_control_points (subsets of the training points)."""
    total = int(rng.integers(150, 320)) if cfg["reduce"] else int(rng.integers(12, 36))
    per = max(2, total // len(ds))
    out = []
    for mol, sd in ds.items():
        good = np.where(np.all(sd["desc"][:, 0] > 1e-3, axis=0))[0]
        take = rng.choice(good, size=min(per, len(good)), replace=False)
        X = settings.normalizers.get_normalized_feature_vector(sd["desc"][:, :, np.sort(take)])
        out.append(np.ascontiguousarray(X))
    return out


def _unreached(rec, cfg, op, exc):
    import traceback
    tb = [t for t in traceback.extract_tb(exc.__traceback__) if "ciderpress" in t.filename]
    where = "%s:%d" % (os.path.relpath(tb[-1].filename, os.environ.get("VERIF_REPO", "/repo")), tb[-1].lineno) if tb else "?"
    what = "%s at %s during %s: %s" % (type(exc).__name__, where, op, str(exc)[:300])
    if cfg["fragile"]:
        mech = FRAGILE[cfg["fragile"]]
        rec.tag("not_reached", mech)
        rec.note("not_reached", {"mechanism": mech, "what": what})
        if UNREACHABLE_IS_VIOLATION:
            rec.require("history_completes", False, mechanism=mech, detail=what)
    else:
        rec.require("history_completes", False, mechanism="MOLGP.%s:raises-%s" % (op, type(exc).__name__), detail=what)


def run_case(case, rec):
    tmp = tempfile.mkdtemp(prefix="c16_")
    try:
        _run(case, rec, tmp)
    finally:
        shutil.rmtree(tmp, ignore_errors=True)


def _run(case, rec, tmp):
    cfg, rxns, ops = case["cfg"], case["rxns"], case["ops"]
    rng = rng_for(case["seed"], PROP_NO, case["idx"])
    settings = _settings(cfg)
    mols = ["s%d" % i for i in range(cfg["nsys"])]
    ds = {m: _gen_system(rng, cfg, settings, cfg["nspins"][i], cfg["npts"][i]) for i, m in enumerate(mols)}
    ddir = _write(ds, cfg, tmp)
    specs = _kernel_specs(cfg, rng, settings)
    rec.tag("model", cfg["gp"])
    rec.tag("slmode", cfg["slmode"])
    rec.tag("blocks", "SL" + ("+NLDF" if cfg["nldf"] else "") + ("+SDMX" if cfg["sdmx"] else ""))
    rec.tag("normalizers", cfg["norm"])
    rec.tag("layout", cfg["layout"])
    rec.tag("kernel_mode", ["%s:%s" % (s["comp"], s["mode"]) for s in specs])
    rec.tag("kernel_family", [s["ktype_used"] for s in specs])
    rec.tag("baselines", ["%s*gp+%s" % (s["mul"], s["add"]) for s in specs])
    rec.tag("reduce", cfg["reduce"])
    rec.tag("nspin", sorted(set(cfg["nspins"])) if len(set(cfg["nspins"])) == 1 else "mixed")
    rec.tag("orbital_derivatives", cfg["deriv"])
    rec.tag("blocked_system(>10000 pts)", bool(max(cfg["npts"]) > 10000))
    rec.tag("rxn_mode", sorted(set(r["mode"] for r in rxns)))
    rec.tag("rxn_options", sorted(set(k for r in rxns for k in ("noise", "noise_factor", "noise_rel_factor", "weight",
                                                                 "unit") if r.get(k) is not None)))
    rec.tag("counts", sorted(set("zero" if c == 0 else "negative" if c < 0 else "fractional" if c != int(c) else
                                 "positive" for r in rxns for c in r["counts"])))
    if any(isinstance(s, list) for r in rxns for s in r["structs"]):
        rec.tag("rxn_entries", "orbital")
    rec.tag("ops", "-".join(o[0] if o[0] != "fit" else ("fit" if o[1] is None else "fitx") for o in ops))
    cand = _candidates(cfg, rng, ds, settings)
    try:
        A = _Model(cfg, specs, settings, ds, ddir, rec, cand=cand)
    except Exception as e:  # noqa: BLE001
        _unreached(rec, cfg, "set_control_points", e)
        return
    rec.tag("nctrl_bucket", ["<=25" if m <= 25 else "<=60" if m <= 60 else ">60" for m in A.M])
    # control-point reduction returns a duplicate-free subset of the candidates, within ctrl_nmax
    for ik, (k, spec) in enumerate(zip(A.kernels, specs)):
        full = k.X0Tlist_to_X1array(cand)
        fl_ = full.reshape(2, -1, full.shape[-1]).transpose(1, 0, 2).reshape(full.shape[1], -1) if spec["mode"] == "POL" else full
        ct = A.ctrl[ik]
        ct_ = ct.transpose(1, 0, 2).reshape(ct.shape[1], -1) if spec["mode"] == "POL" else ct
        rows = {r.tobytes() for r in np.ascontiguousarray(fl_)}
        sub = all(np.ascontiguousarray(r).tobytes() in rows for r in ct_)
        rec.require("ctrl_subset", sub and len({np.ascontiguousarray(r).tobytes() for r in ct_}) == len(ct_),
                    mechanism="DFTKernel.set_control_points:subset[%s]" % spec["mode"])
        if cfg["reduce"]:
            rec.require("ctrl_nmax", spec["ctrl_nmax"] is None or len(ct_) <= spec["ctrl_nmax"],
                        mechanism="DFTKernel._reduce_npts:ctrl_nmax")
        else:
            rec.require("ctrl_all", len(ct_) == len(fl_), mechanism="DFTKernel.set_control_points:reduce=False")
    history = []
    step = 0
    for op in ops:
        step += 1
        name = op[0]
        try:
            if name == "store":
                A.store(op[1], op[2])
                history.append(["store", op[1], digest(*[np.asarray(A.kernels[0].cov_dict[m]) for m in op[1]])[:10]])
            elif name == "add":
                A.add(op[1], rxns)
                history.append(["add", op[1]])
            elif name == "setk":
                history.append(["setk", op[1], A.setk(op[1], rng)])
            elif name == "reset":
                A.reset()
                history.append(["reset"])
            elif name == "fit":
                snap = A.fit(op[1], op[2], rxns, step)
                history.append(["fit", op[1], op[2], None if snap is None else digest(*snap["alphas"])[:10]])
            elif name == "lik":
                A.lik(rng, step)
                history.append(["lik"])
            elif name == "fresh":
                _fresh(case, A, rng, rec, step)
                history.append(["fresh"])
        except Exception as e:  # noqa: BLE001
            _unreached(rec, cfg, {"store": "store_mol_covs", "add": "add_reactions", "reset": "reset_reactions",
                                  "fit": "fit", "lik": "compute_likelihood", "fresh": "fresh-model", "setk": "set_kernel"}[name], e)
            break
    last = A.last
    rec.set_sample({"cfg": {k: v for k, v in cfg.items() if k != "kernels"},
                    "kernels": [{k: v for k, v in s.items() if k not in ("kern", "fl")} for s in specs],
                    "nctrl": A.M, "cond_Kmm": A.condmm, "reactions": rxns[:3], "n_reactions": len(rxns),
                    "history": history,
                    "last_fit": None if last is None else {"labels": last["y"][:4].tolist(), "noise": last["sig"][:4].tolist(),
                                                           "alpha_mol": last["w"][:4].tolist(), "cond_K": last["condK"]},
                    "notes": {k: v for k, v in rec.notes.items() if k.startswith("likelihood_default_args_minus")}})


def _fresh(case, A, rng, rec, step):
    """Fresh objects, same hyper-parameters and control points; systems stored and reactions added in another
    order (and reactions internally permuted): the fit must agree with A's last fit up to the permutation."""
    cfg, rxns = case["cfg"], case["rxns"]
    if A.last is None:
        return
    B = _Model(cfg, A.specs, A.settings, A.ds, A.ddir, rec, ctrl=A.ctrl)
    B.direct = A.direct
    mols = list(A.ds)
    perm = [mols[i] for i in rng.permutation(len(mols))]
    cut = int(rng.integers(1, len(perm))) if len(perm) > 1 else len(perm)
    for chunk in (perm[:cut], perm[cut:]):
        if chunk:
            B.store(chunk, {"get_correlation": True})
    for ik, (ka, kb) in enumerate(zip(A.kernels, B.kernels)):
        worst = max(relerr(np.asarray(ka.cov_dict[m]), np.asarray(kb.cov_dict[m])) for m in mols)
        rec.check("system_order_cov", worst, TOL_BOOK, mechanism="store_mol_covs:system-order-dependence")
    order = [A.last["order"][i] for i in rng.permutation(len(A.last["order"]))]
    rx2 = []
    for r in rxns:  # permute the entries inside each reaction as well
        p = rng.permutation(len(r["structs"]))
        rx2.append(dict(r, structs=[r["structs"][i] for i in p], counts=[r["counts"][i] for i in p]))
    ncut = int(rng.integers(1, len(order))) if len(order) > 1 else len(order)
    B.add(order[:ncut], rx2)
    if order[ncut:]:
        B.add(order[ncut:], rx2)
    snap = B.fit(A.last["x"], A.last["smin"], rx2, "B%d" % step)
    if snap is not None:
        B.compare_with_previous(snap, others=[A.last], label="MOLGP.fit:order-dependence[fresh-model]")


def finalize(results, coverage):
    obs = {"not_reached": {}, "likelihood_default_args_minus_fitted_model": None, "worst_cond": 0.0}
    offs = []
    for r in results:
        n = r.get("notes") or {}
        if "not_reached" in n:
            m = n["not_reached"]["mechanism"]
            e = obs["not_reached"].setdefault(m, {"cases": 0, "what": n["not_reached"]["what"]})
            e["cases"] += 1
        if "likelihood_default_args_minus_fitted_model" in n:
            offs.append(float(n["likelihood_default_args_minus_fitted_model"]))
        obs["worst_cond"] = max(obs["worst_cond"], float(n.get("worst_cond", 0.0)))
    if offs:
        obs["likelihood_default_args_minus_fitted_model"] = {"n": len(offs), "min": min(offs), "max": max(offs),
                                                             "nonzero": int(sum(abs(o) > 1e-9 for o in offs))}
    coverage["observations"] = obs
