"""C04 - model evaluators return consistent energy densities and feature derivatives.

Observed at MappedXC.__call__(X0T, rhocut) and MappedXC2.__call__(X0T, rho_tuple, rhocut), called the way
ciderpress/pyscf/numint.py:eval_xc_cider calls them (normalised features of shape (nspin, nfeat, N); for MappedXC2
also rho_tuple = get_rho_tuple_with_grad_cross(rho, is_mgga=True) built from the same pointwise densities).

Oracles (DESIGN.md section 5, C04):
 fd_feat     5-point finite difference (two step sizes; self-error guard) of the energy density along every
             (spin, feature) axis, elementwise per sample, against the returned derivative array; plus dense random
             directions and directions supported on a single sample / feature / spin (locality).
 fd_rho      MappedXC2 only: same for the returned vrho_tuple against FD in rho, sigma (incl. the cross term for
             nspin = 2) and tau, at fixed features.
 cut_*       low-density cutoff: for rhocut in {0, 1e-10, 1e-9, 1e-6} with samples on both sides, the machine-learned
             part of value AND derivative is exactly zero below (MappedXC: everything exactly zero; MappedXC2: only
             the additive baseline remains, in value and in vrho), samples above equal the rhocut=0 call, and the FD
             of the cut model still equals its returned derivative (same rule for value and derivative).
 accum_*     evaluators ADD into passed res/dres buffers; a list of 2-3 evaluators equals the sum of singles; several
             kernels in one MappedXC/MappedXC2 equal the sum of one-kernel models.
 batch       sample counts {1, 7, 1999, 2000, 2001, 4001} (KernelEvaluator chunks by 2000): per-sample results equal
             those of evaluating the samples in other partitions / one at a time.
 inputs_unmodified   the calls do not write to X0T / rho_tuple.
"""
import numpy as np

from vlib.oracles import rng_for

PROPERTY = "C04"
PROP_NO = 4
RULE = ("sub-case = (model class MappedXC|MappedXC2, spin mode SEP|NPOL|POL, nspin 1|2, evaluator kind(s), "
        "multiplicative baseline, additive baseline, feature family, #kernels) with random control points / weights / "
        "length scales / feature maps and admissible pointwise inputs (rho > 0, s2 >= 0, tau >= 1.01 tau_W, "
        "|grad_a.grad_b| <= 0.95 |grad_a||grad_b|); sub-cases are batched ~6 per case. Kinds: fd (FD of features and "
        "rho-tuple, cutoff, inputs-unmodified), accum (buffer/list/kernel additivity), batch (sample counts), spline "
        "(SplineSetEvaluator, hand-built spline sets and map_tools), direct (bare evaluator __call__). A sub-case is "
        "non-trivial when the returned derivative is non-zero on >= half of the samples, >= 80% of the FD elements "
        "pass the self-error guard (|fd(h)-fd(h/2)| <= tol/10 of the per-sample scale) and no oracle failed; "
        "distinct = distinct configuration string")
MIN_NONTRIVIAL = {"quick": 200, "thorough": 1200}
ASSUMPTIONS = [
    "inputs are admissible: density-like feature > 0, s2/alpha (np/npa) resp. sigma/tau (ns/nst) >= 0, nonlocal "
    "normalised features O(1) (feature 3 > 0, as read by nlda_x_damp); baselines that read feature 1 as s2 are only "
    "combined with np/npa feature conventions",
    "MappedXC2: X0T and rho_tuple come from the same pointwise (rho, grad rho, tau) through SemilocalPlan.get_feat and "
    "get_rho_tuple_with_grad_cross, and are treated as independent arguments (dres = d/dX0T at fixed rho_tuple, "
    "vrho_tuple = d/drho_tuple at fixed X0T), which is how eval_xc_cider chains them",
    "FD oracle: 5-point stencil with relative steps 1e-3 and 5e-4; tolerance 1e-7 relative to the per-sample scale "
    "max(|res|, |baseline value|, max_j |dres_j x_j|); elements whose two step sizes disagree by more than 3.3e-9 of "
    "that scale are skipped (measured floors over seeds 0-4, both tiers: 2.3e-9 features incl. spline sets near knots, "
    "4.3e-9 vrho, 2.3e-9 bare evaluators)",
    "two FD populations are limited by libxc's own smoothness and use tolerance 1e-6 with the same guard: feature FD at "
    "densities 1e-11..1e-5 around the cutoff (floor 8.8e-9) and vrho FD with SS_/OS_ split baselines at nspin=2 in "
    "NPOL/POL mode, which evaluate libxc at exactly full polarisation and subtract (floor 1.1e-8)",
    "exact relations (accumulation, batching, above-cutoff equality) are compared at 1e-12 of the per-sample scale, not "
    "bitwise (threaded C kernels / BLAS)",
    "below the cutoff MappedXC2 keeps the additive libxc baseline (value and vrho) by construction; the check demands "
    "that only this part remains, not that the total is zero",
    "NNEvaluator needs torch (absent): not covered; samples within 5% of the cutoff are not generated",
]
REQUIRED_CALLS = ["libmcider.evaluate_se_kernel", "libmcider.evaluate_se_kernel_spin",
                  "libmcider.evaluate_se_kernel_antisym", "libxc_utils.get_gga_baseline",
                  "libxc_utils.get_mgga_baseline", "libxc_utils.get_lda_baseline"]

TOL_FD = 1e-7
# FD populations limited by the smoothness of libxc itself (measured over seeds 0-4, both tiers): features at densities
# 1e-11..1e-5 around the cutoff (native gga_c_pbe -> libxc; floor 8.8e-9, 1.3e-8 with a guard of 1e-8), and vrho of the
# same-spin / opposite-spin split baselines at nspin = 2, which call libxc at exactly full polarisation and subtract
# (floor 1.1e-8, 2.7e-8 with a guard of 1e-8)
TOL_FD_NOISY = 1e-6
FD_GUARD = TOL_FD / 30  # an element is compared only if |fd(h) - fd(h/2)| <= FD_GUARD * per-sample scale
TOL_EXACT = 1e-12
RCS = [0.0, 1e-10, 1e-9, 1e-6]
SIZES = [1, 2, 3, 7, 1999, 2000, 2001, 4001]

NATIVE = ["lda_x", "gga_x_pbe", "gga_x_chachiyo", "nlda_x_damp", "zero_xc", "one_xc", "gga_c_pbe"]
NATIVE_S2 = ("gga_x_pbe", "gga_x_chachiyo", "gga_c_pbe")
LIBXC = ["LDA_X", "GGA_X_PBE", "GGA_C_PBE", "GGA_X_PBE_SOL", "MGGA_X_R2SCAN", "MGGA_C_R2SCAN", "SS_GGA_C_PBE",
         "OS_GGA_C_PBE"]
LIBXC_ADD = [None, "GGA_C_PBE", "LDA_X", "MGGA_C_R2SCAN", "OS_GGA_C_PBE", "SS_GGA_C_PBE", "GGA_X_PBE",
             "LDA_C_PW_MOD", "GGA_C_PBE_SOL", "MGGA_X_R2SCAN", "GGA_X_PBE_SOL"]
FAMS_S2 = ["sl-npa", "sl-np", "vj-mgga", "vj-gga", "sdmx", "vk-mgga", "vi-gga"]
FAMS_NOS2 = ["sl-nst", "sl-ns", "vj-nst"]
FAMS_4 = ["vj-mgga", "vj-gga", "vk-mgga", "sdmx"]  # nfeat >= 4 (nlda_x_damp reads feature 3)
EV_FLAT = ["rbf", "kernel", "antisym", "linear", "subset", "rbf1", "kernel-agpr", "kernel-subset",
           "rbf+linear", "kernel+rbf+linear", "antisym+rbf", "subset-strict", "subset-list", "subset-strict+linear",
           # a strict-subset evaluator AFTER evaluators that wrote the same derivative columns (it must add, not overwrite)
           "kernel+subset-strict", "rbf+subset-list", "linear+rbf+subset-strict",
           # integer-typed length scales (legal for an sklearn RBF; the value path casts, the derivative path must too)
           "kernel-int", "rbf-int"]
EV_POL = ["spinrbf", "spinrbf+spinrbf", "spinrbf1"]


# ---------------------------------------------------------------------------------------------
# case generation (pure python)

def _pick_family(rng, mul, add, evs):
    need_s2 = (mul in NATIVE_S2) or (add in NATIVE_S2)
    need4 = "nlda_x_damp" in (mul, add)
    pool = list(FAMS_S2) if need_s2 else FAMS_S2 + FAMS_NOS2
    if need4:
        pool = [f for f in pool if f in FAMS_4 or f == "vj-nst"]
    need_n1 = 1
    for e in evs:
        if e in ("antisym", "kernel-asym"):
            need_n1 = max(need_n1, 2)
        if e == "kernel-agpr":
            need_n1 = max(need_n1, 3)
    if need_n1 >= 2:
        pool = [f for f in pool if f not in ("sl-np", "sl-ns")]
    if need_n1 >= 3:
        pool = [f for f in pool if f not in ("sl-npa", "sl-nst")]
    return str(pool[int(rng.integers(len(pool)))])


def _sub(rng, cls, mode, nspin, ev, mul, add, nk=1, **kw):
    evs = ev.split("+")
    d = dict(cls=cls, mode=mode, nspin=nspin, ev=ev, mul=mul, add=add, nk=nk,
             fam=_pick_family(rng, mul if cls == "xc1" else None, add if cls == "xc1" else None, evs))
    d.update(kw)
    _SUBCOUNT[0] += 1
    d.setdefault("mixed", _SUBCOUNT[0] % 3 == 0)
    return d


_SUBCOUNT = [0]


def _fd_subs(tier, rng):
    subs1, subs2 = [], []
    npass = 2 if tier == "quick" else 12
    k = 0
    for p in range(npass):
        for mode in ("SEP", "NPOL", "POL"):
            for nspin in (1, 2):
                for im, mul in enumerate(NATIVE):
                    pool = EV_POL if mode == "POL" else EV_FLAT
                    ev = pool[(k + p) % len(pool)]
                    add = (["zero_xc"] + NATIVE)[(k + 3 * p + im) % (len(NATIVE) + 1)] if (p or im % 2) else "zero_xc"
                    nk = 1 if (k % 7) else 2
                    subs1.append(_sub(rng, "xc1", mode, nspin, ev, mul, add, nk=nk))
                    k += 1
    # declared-but-unimplemented native baseline: must raise, never return numbers
    subs1.append(_sub(rng, "xc1", "SEP", 1, "rbf", "mgga_c_r2scan", "zero_xc"))
    k = 0
    for p in range(npass):
        for mode in ("SEP", "NPOL", "POL"):
            for nspin in (1, 2):
                for im, mul in enumerate(LIBXC):
                    pool = EV_POL if mode == "POL" else EV_FLAT
                    ev = pool[(k + 2 * p + 1) % len(pool)]
                    add = LIBXC_ADD[(k + 5 * p + im) % len(LIBXC_ADD)] if (p or im % 2) else None
                    nk = 1 if (k % 9) else 2
                    subs2.append(_sub(rng, "xc2", mode, nspin, ev, mul, add, nk=nk, mgga_tuple=bool((k + p) % 5) or "MGGA" in mul or "MGGA" in str(add)))
                    k += 1
    return subs1, subs2


def gen_cases(tier, seed):
    rng = rng_for(seed, PROP_NO, 0)
    _SUBCOUNT[0] = 0
    cases = []

    def add_cases(prefix, kind, subs, per, weight=1.0, timeout=900):
        for i in range(0, len(subs), per):
            cases.append({"id": "%s-%03d" % (prefix, i // per), "kind": kind, "subs": subs[i:i + per], "seed": seed,
                          "idx": 1000 * (1 + len(cases)), "tier": tier, "_threads": 2, "_weight": weight,
                          "_timeout": timeout})
    # sub-cases of one (class, mode, nspin) share cases: a finding tied to one such class does not withhold the
    # non-trivial count of the other classes
    subs1, subs2 = _fd_subs(tier, rng)
    for pre, subs, w in (("fd1", subs1, 1.0), ("fd2", subs2, 1.5)):
        for mode in ("SEP", "NPOL", "POL"):
            for nspin in (1, 2):
                grp = [x for x in subs if x["mode"] == mode and x["nspin"] == nspin]
                add_cases("%s-%s%d" % (pre, mode.lower(), nspin), "fd", grp, 6, weight=w)
    # accumulation / additivity
    acc = []
    reps = 1 if tier == "quick" else 6
    for r in range(reps):
        for cls in ("xc1", "xc2"):
            for mode in ("SEP", "NPOL", "POL"):
                for nspin in (1, 2):
                    ev = "spinrbf+spinrbf+spinrbf1" if mode == "POL" else ["kernel+rbf+linear", "antisym+rbf", "rbf+subset+linear",
                                                                         "kernel-subset+kernel+rbf1", "linear+kernel-agpr"][(len(acc) + r) % 5]
                    mul = NATIVE[(len(acc) + r) % len(NATIVE)] if cls == "xc1" else LIBXC[(len(acc) + r) % len(LIBXC)]
                    add = NATIVE[(len(acc) + 2 + r) % len(NATIVE)] if cls == "xc1" else LIBXC_ADD[(len(acc) + r) % len(LIBXC_ADD)]
                    acc.append(_sub(rng, cls, mode, nspin, ev, mul, add, nk=3))
    add_cases("acc", "accum", acc, 6)
    # sample counts
    bat = []
    cfgs = [("xc1", "SEP", "kernel", "lda_x", "zero_xc"), ("xc1", "NPOL", "kernel+rbf", "gga_x_pbe", "gga_c_pbe"),
            ("xc1", "SEP", "rbf", "gga_x_chachiyo", "zero_xc"), ("xc1", "POL", "spinrbf", "lda_x", "gga_c_pbe"),
            ("xc1", "NPOL", "antisym", "nlda_x_damp", "zero_xc"), ("xc1", "SEP", "kernel-agpr+linear", "gga_c_pbe", "one_xc"),
            ("xc2", "SEP", "kernel", "GGA_X_PBE", None), ("xc2", "NPOL", "rbf", "GGA_C_PBE", "GGA_C_PBE"),
            ("xc2", "POL", "spinrbf", "MGGA_C_R2SCAN", "OS_GGA_C_PBE"), ("xc2", "SEP", "kernel-agpr+linear", "MGGA_X_R2SCAN", None),
            ("xc2", "NPOL", "kernel-subset", "SS_GGA_C_PBE", "LDA_X")]
    reps = 1 if tier == "quick" else 3
    for r in range(reps):
        for ic, (cls, mode, ev, mul, add) in enumerate(cfgs):
            for isz, n in enumerate(SIZES):
                nspin = 1 + (ic + isz + r) % 2
                bat.append(_sub(rng, cls, mode, nspin, ev, mul, add, n=n, rc=[0.0, 1e-6][(ic + isz) % 2]))
    add_cases("bat", "batch", [x for x in bat if x["n"] != 2], 6, weight=2.0)
    for mode in ("SEP", "NPOL", "POL"):
        grp = [x for x in bat if x["n"] == 2 and x["mode"] == mode]
        if grp:
            add_cases("bat2-%s" % mode.lower(), "batch", grp, 6)
    # bare evaluators
    dire = []
    reps = 1 if tier == "quick" else 5
    for r in range(reps):
        for ev in ["rbf", "rbf1", "subset", "subset-strict", "subset-list", "kernel", "kernel-asym", "kernel-agpr",
                   "kernel-subset", "antisym", "spinrbf", "spinrbf1", "linear", "nn", "kernel-int", "rbf-int"]:
            dire.append(dict(cls="ev", ev=ev, n1=int(rng.integers(3, 6))))
    add_cases("dir", "direct", dire, 7)
    # splines: few cases (numba JIT ~15 s per process)
    spl = []
    reps = 1 if tier == "quick" else 4
    for r in range(reps):
        for ic, (cls, mode, nspin, mul, add) in enumerate([
                ("xc1", "SEP", 1, "lda_x", "zero_xc"), ("xc1", "NPOL", 2, "gga_x_pbe", "gga_c_pbe"),
                ("xc1", "SEP", 2, "gga_x_chachiyo", "zero_xc"), ("xc1", "NPOL", 1, "one_xc", "lda_x"),
                ("xc2", "SEP", 2, "GGA_X_PBE", None), ("xc2", "NPOL", 2, "GGA_C_PBE", "GGA_C_PBE"),
                ("xc2", "SEP", 1, "MGGA_X_R2SCAN", None), ("xc2", "NPOL", 1, "OS_GGA_C_PBE", "SS_GGA_C_PBE")]):
            ev = ["spline", "spline+rbf", "splinemap", "spline+linear"][(ic + r) % 4]
            spl.append(_sub(rng, cls, mode, nspin, ev, mul, add, spline=True))
    for r in range(reps):
        spl.append(dict(cls="ev", ev="spline", n1=4))
        spl.append(dict(cls="ev", ev="splinemap", n1=3))
        spl.append(_sub(rng, "xc1", "SEP", 2, "spline", "lda_x", "zero_xc", n=2001, rc=0.0, batch=True))
        spl.append(_sub(rng, "xc1", "SEP", 1, "spline+kernel", "lda_x", "gga_x_pbe", nk=2, accum=True))
    half = (len(spl) + 1) // 2
    add_cases("spl", "spline", spl, half, weight=6.0, timeout=1500)
    return cases


# ---------------------------------------------------------------------------------------------
# inputs

def _rho_data(rng, n, nspin, rho=None, lo=1e-3, hi=10.0):
    """(nspin, 5, n) admissible pointwise data; tau >= 1.01 tau_W, |cos(grad_a, grad_b)| <= 0.95."""
    out = np.zeros((nspin, 5, n))
    d0 = None
    for s in range(nspin):
        r = np.exp(rng.uniform(np.log(lo), np.log(hi), size=n)) if rho is None else np.asarray(rho[s], dtype=float)
        s2 = np.exp(rng.uniform(np.log(1e-3), np.log(10.0), size=n))
        mag = np.sqrt(s2) * 2 * (3 * np.pi ** 2) ** (1.0 / 3) * r ** (4.0 / 3)
        d = rng.normal(size=(3, n))
        d /= np.linalg.norm(d, axis=0)
        if s == 0:
            d0 = d
        else:
            c = rng.uniform(-0.95, 0.95, size=n)
            perp = d - np.sum(d * d0, axis=0) * d0
            perp /= np.linalg.norm(perp, axis=0)
            d = c * d0 + np.sqrt(1 - c * c) * perp
        out[s, 0] = r
        out[s, 1:4] = d * mag
        tauw = mag ** 2 / (8 * r)
        tau0 = 0.3 * (3 * np.pi ** 2) ** (2.0 / 3) * r ** (5.0 / 3)
        out[s, 4] = tauw * 1.01 + tau0 * np.exp(rng.uniform(np.log(1e-2), np.log(5.0), size=n))
    return out


def _features(settings, rho_data, rng):
    """Normalised feature array the way eval_xc_cider assembles it: semilocal block from the repository's plan
    (the reasonable normaliser leaves it unchanged), nonlocal normalised features O(1)."""
    from ciderpress.dft.plans import SemilocalPlan
    nspin, _, n = rho_data.shape
    nsl = settings.sl_settings.nfeat
    X = np.empty((nspin, settings.nfeat, n))
    X[:, :nsl] = SemilocalPlan(settings.sl_settings, nspin).get_feat(rho_data)
    for j in range(nsl, settings.nfeat):
        v = rng.uniform(0.05, 3.0, size=(nspin, n))
        if j >= 4:
            v *= rng.choice([-1.0, 1.0], size=(nspin, n))
        X[:, j] = v
    return X


def _units(settings, X):
    """Natural step scale per element: the value itself for the non-negative semilocal block, max(|x|, 0.1) else."""
    nsl = settings.sl_settings.nfeat
    u = np.abs(X).copy()
    u[:, nsl:] = np.maximum(u[:, nsl:], 0.1)
    return u


def _rho_tuple(rho_data, mgga=True):
    from ciderpress.dft.plans import get_rho_tuple_with_grad_cross
    return get_rho_tuple_with_grad_cross(rho_data, is_mgga=mgga)


def _tuple_units(rt):
    u = [np.abs(rt[0]).copy()]
    sg = np.abs(rt[1]).copy()
    if sg.shape[0] == 3:
        sg[1] = np.sqrt(rt[1][0] * rt[1][2])
    u.append(sg)
    if len(rt) > 2:
        u.append(np.abs(rt[2]).copy())
    return u


# ---------------------------------------------------------------------------------------------
# models

def _spline_eval(n1, rng, amp=0.3, with_map=False, bounds=None):
    """Hand-built cubic spline set: any coefficient array of shape (n+2,)^d is a valid C2 cubic spline of the
    interpolation package; terms of dimension 1..min(n1, 3 or 4), overlapping index sets, non-zero const."""
    from ciderpress.dft import xc_evaluator as xe
    bounds = bounds or [(-1.0, 1.0)] * n1
    ind_sets, grids, coeffs, scale = [], [], [], []
    dims = [1, 2, 3, 4, 2, 1]
    for d in dims:
        if d > n1:
            continue
        inds = sorted(rng.choice(n1, size=d, replace=False).tolist())
        grid = tuple((float(bounds[i][0]) - 0.05, float(bounds[i][1]) + 0.05, int(rng.integers(5, 9))) for i in inds)
        c = rng.normal(size=tuple(g[2] + 2 for g in grid)) * amp
        ind_sets.append(inds)
        grids.append(grid)
        coeffs.append(c)
        scale.append(float(rng.uniform(0.3, 1.5)))
    return xe.SplineSetEvaluator(scale, ind_sets, grids, coeffs, const=float(rng.normal()) * 0.2)


def _spline_from_map(n1, rng, feature_list=None):
    """SplineSetEvaluator through the repository's own mapping path (map_tools.get_mapped_gp_evaluator_simple)."""
    from ciderpress.dft import xc_evaluator as xe
    from ciderpress.models.kernel_plans.map_tools import get_mapped_gp_evaluator_simple
    from ciderpress.models.kernels import DiffConstantKernel, DiffRBF

    class _B:
        def __init__(self, b):
            self.bounds = b
    n1 = min(n1, 3)
    ls = np.exp(rng.uniform(np.log(0.4), np.log(1.2), size=n1))
    kern = DiffConstantKernel(float(rng.uniform(0.5, 2.0))) * DiffRBF(ls)
    X = rng.uniform(-0.5, 0.9, size=(10, n1))
    alpha = rng.normal(size=10) * 0.2
    fl = feature_list if feature_list is not None else [_B((-1.0, 1.0))] * n1
    scale, ind_sets, grids, coeffs = get_mapped_gp_evaluator_simple(kern, X, alpha, fl, rbf_density=4, max_ngrid=12)
    return xe.SplineSetEvaluator(scale, ind_sets, grids, coeffs)


def _evaluator(kind, n1, rng, feature_list=None, nctrl=10, amp=0.5):
    from vlib import gen
    from ciderpress.dft import xc_evaluator as xe
    from ciderpress.models.kernel_plans import kernel_tools as kt
    from ciderpress.models.kernels import DiffConstantKernel, DiffRBF, SubsetRBF
    ls = np.exp(rng.uniform(np.log(0.3), np.log(1.5), size=n1))
    ctrl = rng.uniform(-0.5, 1.0, size=(nctrl, n1))
    alpha = rng.normal(size=nctrl) * amp / np.sqrt(nctrl)
    cval = float(rng.uniform(0.5, 2.0))
    if kind in ("rbf", "kernel", "linear", "spinrbf"):
        return gen.rand_evaluator(kind, n1, rng, nctrl=nctrl, amp=amp)
    if kind in ("kernel-int", "rbf-int"):
        lsi = rng.integers(1, 4, size=n1)
        lsi[int(rng.integers(n1))] = 2
        kern = DiffConstantKernel(cval) * DiffRBF(lsi if rng.random() < 0.7 else int(lsi[0]))
        if kind == "rbf-int" and np.ndim(kern.k2.length_scale) == 0:
            kern = DiffConstantKernel(cval) * DiffRBF(lsi)
        return (xe.KernelEvaluator if kind == "kernel-int" else xe.RBFEvaluator)(kern, ctrl, alpha)
    if kind == "rbf1":  # bare DiffRBF (scale = 1 branch of the constructor)
        return xe.RBFEvaluator(DiffRBF(ls), ctrl, alpha)
    if kind == "spinrbf1":
        return xe.SpinRBFEvaluator(DiffRBF(ls), rng.uniform(-0.5, 1.0, size=(2, nctrl, n1)), alpha)
    if kind == "subset":  # SubsetRBF over all features, both slice spellings
        sl = slice(0, n1) if rng.random() < 0.5 else slice(0, None)
        return xe.RBFEvaluator(DiffConstantKernel(cval) * SubsetRBF(sl, ls), ctrl, alpha)
    if kind in ("subset-strict", "subset-list") and n1 >= 2:
        # strict subset of the transformed features, control points over ALL features (as for KernelEvaluator);
        # inside a MappedDFTKernel the evaluator receives the full-width derivative buffer
        idx = slice(1, n1) if kind == "subset-strict" else sorted(rng.choice(n1, size=max(1, n1 - 1), replace=False).tolist())
        sel = np.arange(n1)[idx] if isinstance(idx, slice) else np.asarray(idx)
        return xe.RBFEvaluator(DiffConstantKernel(cval) * SubsetRBF(idx, ls[sel]), ctrl, alpha)
    if kind in ("subset-strict", "subset-list"):
        return gen.rand_evaluator("rbf", n1, rng, nctrl=nctrl, amp=amp)
    if kind == "antisym":
        kern = DiffConstantKernel(cval) * DiffRBF(ls[: n1 - 1])
        return xe.AntisymRBFEvaluator(kern, ctrl, alpha)
    if kind == "kernel-asym":
        return xe.KernelEvaluator(kt.get_antisym_rbf_kernel(ls, scale=cval), ctrl, alpha)
    if kind == "kernel-agpr":
        k = kt.get_agpr_kernel(slice(0, 1), slice(1, None), ls, scale=[0.3, 0.7, cval], order=2, nsingle=1)
        return xe.KernelEvaluator(k, ctrl, alpha)
    if kind == "kernel-subset":
        return xe.KernelEvaluator(kt.get_rbf_kernel(slice(0, None), ls, scale=cval), ctrl, alpha)
    if kind == "spline":
        b = [m.bounds for m in feature_list] if feature_list is not None else None
        return _spline_eval(n1, rng, bounds=b)
    if kind == "splinemap":
        if n1 > 3:
            return _spline_eval(n1, rng, bounds=[m.bounds for m in feature_list] if feature_list is not None else None)
        return _spline_from_map(n1, rng, feature_list)
    raise ValueError(kind)


def _zero_eval(n1, pol):
    from ciderpress.dft import xc_evaluator as xe
    if pol:
        return xe.SpinRBFEvaluator(_rbf_kernel(n1), np.zeros((2, 1, n1)), np.zeros(1))
    return xe.GlobalLinearEvaluator(np.zeros(n1))


def _unit_eval(n1, pol):
    """f == 1 for every input (a spline set without terms, resp. a spin kernel of infinite length scale)."""
    from ciderpress.dft import xc_evaluator as xe
    from ciderpress.models.kernels import DiffRBF
    if pol:
        return xe.SpinRBFEvaluator(DiffRBF(np.full(n1, 1e9)), np.zeros((2, 1, n1)), np.array([0.5]))
    return xe.SplineSetEvaluator([], [], [], [], const=1.0)


def _rbf_kernel(n1):
    from ciderpress.models.kernels import DiffRBF
    return DiffRBF(np.ones(n1))


class _Model:
    """One sub-case model: kernels (list of (feature_list, [evaluators])) wrapped into MappedXC / MappedXC2."""

    def __init__(self, sub, rng):
        from vlib import gen
        self.sub = sub
        self.cls = sub["cls"]
        self.mode = sub["mode"]
        self.settings = gen.family_settings(sub["fam"], rng)
        self.parts = []
        for _ in range(sub.get("nk", 1)):
            # every third model mixes map classes that share raw features (not with spline evaluators, whose grids come
            # from the maps' bounds)
            mixed = bool(sub.get("mixed")) and "spline" not in sub["ev"]
            fl = gen.rand_feature_list(self.settings, rng, mixed=mixed)
            evs = [_evaluator(k, fl.nfeat, rng, feature_list=fl) for k in sub["ev"].split("+")]
            self.parts.append((fl, evs))
        self.xc = self.build([self.kernel(fl, evs) for fl, evs in self.parts])

    def kernel(self, fl, evs, mode=None):
        from ciderpress.dft import baselines as bl
        from ciderpress.dft import xc_evaluator as xe
        from ciderpress.dft import xc_evaluator2 as xe2
        mode = mode or self.mode
        if self.cls == "xc1":
            return xe.MappedDFTKernel(list(evs), fl, mode, getattr(bl, self.sub["mul"]), getattr(bl, self.sub["add"]))
        return xe2.MappedDFTKernel2(list(evs), fl, mode, self.sub["mul"], self.sub["add"])

    def build(self, kernels):
        from ciderpress.dft import xc_evaluator as xe
        from ciderpress.dft import xc_evaluator2 as xe2
        return (xe.MappedXC if self.cls == "xc1" else xe2.MappedXC2)(kernels, self.settings)

    def zero_model(self):
        """Same baselines, machine-learned part identically zero (what must remain below the cutoff)."""
        return self.build([self.kernel(fl, [_zero_eval(fl.nfeat, self.mode == "POL")]) for fl, _ in self.parts])

    def floor(self, X, rt):
        """Per-sample magnitude of (multiplicative + additive baseline), i.e. the model with f == 1: the scale that
        rounding errors of the value refer to (protects samples where f vanishes by cancellation)."""
        xc = self.build([self.kernel(self.parts[0][0], [_unit_eval(self.parts[0][0].nfeat, self.mode == "POL")])])
        with np.errstate(all="ignore"):
            r = np.abs(_call(xc, self.cls, X, rt)[0])
        return np.where(np.isfinite(r), r, 0.0)


def _call(xc, cls, X, rt=None, rc=None):
    """-> res (N,), dres (nspin, nfeat, N), vrho tuple or None."""
    if cls == "xc1":
        res, dres = xc(X) if rc is None else xc(X, rhocut=rc)
        return np.asarray(res), np.asarray(dres), None
    res, dres, v = xc(X, rt) if rc is None else xc(X, rt, rhocut=rc)
    return np.asarray(res), np.asarray(dres), v


def _mech(sub, what):
    cname = {"xc1": "MappedDFTKernel", "xc2": "MappedDFTKernel2"}[sub["cls"]]
    return "%s[%s,nspin=%d]:%s" % (cname, sub["mode"], sub["nspin"], what)


def _cfgkey(sub):
    return "|".join("%s=%s" % (k, sub[k]) for k in sorted(sub))


def _tag_sub(rec, sub):
    rec.tag("model_class", {"xc1": "MappedXC", "xc2": "MappedXC2", "ev": "bare evaluator"}[sub["cls"]])
    if sub.get("mixed") and "spline" not in sub["ev"]:
        rec.tag("feature_list", "mixed map classes sharing raw features")
    for k in ("mode", "nspin", "fam", "nk"):
        if k in sub:
            rec.tag({"fam": "feature_family", "nk": "n_kernels"}.get(k, k), sub[k])
    if "mode" in sub:
        rec.tag("mode_x_nspin", "%s/%d/%s" % (sub["mode"], sub["nspin"], sub["cls"]))
    for e in sub["ev"].split("+"):
        rec.tag("evaluator", e)
    if len(sub["ev"].split("+")) > 1:
        rec.tag("evaluator_list_len", len(sub["ev"].split("+")))
    if sub["cls"] == "xc1":
        rec.tag("native_mul_baseline", sub["mul"])
        rec.tag("native_add_baseline", sub["add"])
    elif sub["cls"] == "xc2":
        rec.tag("libxc_mul_baseline", "%s/%s" % (sub["mul"], sub["mode"]))
        rec.tag("libxc_add_baseline", "%s/%s" % (sub["add"], sub["mode"]))
        rec.tag("rho_tuple", "mgga" if sub.get("mgga_tuple", True) else "gga")


# ---------------------------------------------------------------------------------------------
# oracle primitives

def _fd5(f, h):
    return (-f(2 * h) + 8 * f(h) - 8 * f(-h) + f(-2 * h)) / (12 * h)


def _fd_pair(f, h):
    """5-point FD at steps h and h/2 -> (estimate at h/2, self error); entries with h == 0 give (0, inf)."""
    ok = h > 0
    hh = np.where(ok, h, 1.0)
    z = np.where(ok, 1.0, 0.0)
    d1 = _fd5(lambda t: f(t * z), hh)
    d2 = _fd5(lambda t: f(t * z), hh / 2)
    return np.where(ok, d2, 0.0), np.where(ok, np.abs(d2 - d1), np.inf)


def _scale(res, scaled_derivs, floor=None):
    sc = np.abs(res).copy()
    if floor is not None:
        sc = np.maximum(sc, floor)
    for d in scaled_derivs:
        sc = np.maximum(sc, np.max(np.abs(d).reshape(-1, d.shape[-1]), axis=0))
    return np.maximum(sc, 1e-300)


def _cmp_exact(a, b, units_list, scale):
    """max over samples of |a-b| (times units) / per-sample scale, for tuples (res, dres[, v...])."""
    worst = 0.0
    for x, y, u in zip(a, b, units_list):
        d = np.abs(np.asarray(x) - np.asarray(y))
        if not np.all(np.isfinite(d)):
            return float("nan")
        if u is not None:
            d = d * u
        d = d.reshape(-1, d.shape[-1]) if d.ndim > 1 else d[None]
        worst = max(worst, float(np.max(d / scale)))
    return worst


class _FDStat:
    def __init__(self):
        self.worst = 0.0
        self.nel = 0
        self.nok = 0
        self.where = None

    def add(self, ana_u, fd_u, self_u, scale, label):
        # the scale comes from the analytic outputs; where those are (wrongly) zero a resolved finite difference must still
        # count, so the scale is never smaller than the finite difference itself (the self-error guard below keeps
        # unresolved differences out) - added after a seeded change that zeroed the antisymmetric kernel's derivative at
        # spin-unpolarised samples, where value and returned derivative both vanish
        scale = np.maximum(scale * np.ones_like(np.asarray(fd_u, dtype=float)), np.abs(fd_u))
        err = np.abs(ana_u - fd_u) / scale
        se = self_u / scale
        ok = se <= FD_GUARD
        self.nel += ok.size
        self.nok += int(np.count_nonzero(ok))
        if np.any(ok):
            e = np.where(ok, err, 0.0)
            if not np.all(np.isfinite(e)):
                self.worst = float("nan")
                self.where = label
                return
            m = float(np.max(e))
            if m > self.worst or self.where is None:
                g = int(np.argmax(e))
                self.where = {"what": label, "sample": g, "analytic*unit": float(np.ravel(ana_u)[g]),
                              "fd*unit": float(np.ravel(fd_u)[g]), "scale": float(np.ravel(scale * np.ones_like(e))[g])}
            if self.worst == self.worst:
                self.worst = max(self.worst, m)


def _fd_model(mdl, xc, X, rt, units, tunits, rc, rng, do_rho=True, ndense=2):
    """FD of xc along every feature axis (and rho-tuple row), dense directions, locality.  Returns dict of _FDStat."""
    cls = mdl.cls
    res, dres, v = _call(xc, cls, X, rt, rc)
    sderivs = [dres * units]
    if v is not None and do_rho:
        sderivs += [vv * uu for vv, uu in zip(v, tunits)]
    scale = _scale(res, sderivs, mdl.floor(X, rt))
    out = {"feat": _FDStat(), "dense": _FDStat(), "rho": _FDStat(), "scale": scale, "res": res, "dres": dres, "v": v}
    nspin, nfeat, n = X.shape

    def F(XX, rtt=rt):
        return _call(xc, cls, XX, rtt, rc)[0]
    for s in range(nspin):
        for j in range(nfeat):
            def f(t):
                XX = X.copy()
                XX[s, j] += t
                return F(XX)
            est, se = _fd_pair(f, 1e-3 * units[s, j])
            out["feat"].add(dres[s, j] * units[s, j], est * units[s, j], se * units[s, j], scale, "dX[%d,%d]" % (s, j))
    for k in range(ndense):
        dX = rng.normal(size=X.shape) * units
        def f(t):
            return F(X + t * dX)
        est, se = _fd_pair(f, 1e-3 * np.ones(n))
        out["dense"].add(np.sum(dres * dX, axis=(0, 1)), est, se, scale * np.sqrt(nspin * nfeat), "dense%d" % k)
    if v is not None and do_rho:
        for ic in range(len(rt)):
            for r in range(rt[ic].shape[0]):
                def f(t):
                    rtt = [a.copy(order="F") for a in rt]
                    rtt[ic][r] += t
                    return F(X, tuple(rtt))
                u = tunits[ic][r]
                est, se = _fd_pair(f, 1e-3 * u)
                out["rho"].add(v[ic][r] * u, est * u, se * u, scale, "d%s[%d]" % (("rho", "sigma", "tau")[ic], r))
        # dense direction in the rho tuple
        dT = [rng.normal(size=a.shape) * u for a, u in zip(rt, tunits)]
        def f(t):
            return F(X, tuple(np.asfortranarray(a + t * d) for a, d in zip(rt, dT)))
        est, se = _fd_pair(f, 3e-4 * np.ones(n))
        ana = sum(np.sum(vv * d, axis=0) for vv, d in zip(v, dT))
        out["rho"].add(ana, est, se, scale * 3, "dense-rho")
    return out


def _locality(mdl, xc, X, rt, units, rc, rng, scale, res):
    """A perturbation supported on one sample / feature / spin must not change any other sample."""
    nspin, nfeat, n = X.shape
    worst = 0.0
    if n < 2:
        return 0.0
    for _ in range(3):
        s, j, g = int(rng.integers(nspin)), int(rng.integers(nfeat)), int(rng.integers(n))
        XX = X.copy()
        XX[s, j, g] += 1e-2 * units[s, j, g]
        r2 = _call(xc, mdl.cls, XX, rt, rc)[0]
        d = np.abs(r2 - res) / scale
        d[g] = 0.0
        worst = max(worst, float(np.max(d)))
    return worst


# ---------------------------------------------------------------------------------------------
# sub-case runners

def _build_inputs(mdl, rng, n, nspin, rho=None, lo=1e-3, hi=10.0):
    rd = _rho_data(rng, n, nspin, rho=rho, lo=lo, hi=hi)
    X = _features(mdl.settings, rd, rng)
    rt = _rho_tuple(rd, mdl.sub.get("mgga_tuple", True)) if mdl.cls == "xc2" else None
    return rd, X, rt


def _try_build(sub, rng, rec):
    """Build model and make one call; a combination the code rejects with an exception is tagged, not failed."""
    try:
        mdl = _Model(sub, rng)
        rd, X, rt = _build_inputs(mdl, rng, 3, sub["nspin"])
        _call(mdl.xc, mdl.cls, X, rt)
        return mdl
    except (NotImplementedError, AssertionError, ValueError, TypeError, KeyError, IndexError, UnboundLocalError) as e:
        if not _from_repo(e):
            raise  # harness error, not a rejection by the code under test
        rec.tag("unsupported_combination", "%s mul=%s add=%s mode=%s nspin=%d ev=%s: %s" % (
            sub["cls"], sub["mul"], sub["add"], sub["mode"], sub["nspin"], sub["ev"], type(e).__name__))
        rec.note("unsupported:%s" % _cfgkey(sub), "%s: %s" % (type(e).__name__, str(e)[:200]))
        return None


def _from_repo(e):
    import traceback
    return any("/ciderpress/" in fr.filename for fr in traceback.extract_tb(e.__traceback__))


def _check_fd(rec, sub, mdl, stats, suffix=""):
    cls = sub["cls"]
    base_mul = sub["mul"]
    for name in ("feat", "dense", "rho"):
        st = stats[name]
        if st.nel == 0 or st.nok == 0:
            continue
        what = {"feat": "dres-vs-fd", "dense": "dres-vs-fd", "rho": "vrho-vs-fd"}[name]
        tol, pop = TOL_FD, ""
        if suffix:  # the same model passed the FD oracle without cutoff: what is at fault is the cutoff rule
            what, tol = "rhocut-derivative-rule", TOL_FD_NOISY
        elif name == "rho" and sub["nspin"] == 2 and sub["mode"] != "SEP" and any(
                str(b).startswith(("SS_", "OS_")) for b in (sub["mul"], sub["add"])):
            tol, pop = TOL_FD_NOISY, ",ss/os-split"
        rec.check("fd_%s[%s%s%s]" % (name, {"xc1": "MappedXC", "xc2": "MappedXC2"}[cls], suffix, pop), st.worst, tol,
                  mechanism=_mech(sub, what), count=st.nok,
                  detail={"where": st.where, "mul": base_mul, "add": sub["add"], "ev": sub["ev"], "fam": sub["fam"]})


def _run_fd_sub(rec, sub, rng, n=20):
    _tag_sub(rec, sub)
    mdl = _try_build(sub, rng, rec)
    if mdl is None:
        return
    nspin = sub["nspin"]
    cls = sub["cls"]
    rd, X, rt = _build_inputs(mdl, rng, n, nspin)
    units = _units(mdl.settings, X)
    tunits = _tuple_units(rt) if rt is not None else None
    X0 = X.copy()
    rt0 = [a.copy() for a in rt] if rt is not None else None
    stats = _fd_model(mdl, mdl.xc, X, rt, units, tunits, None, rng)
    ok_in = np.array_equal(X, X0) and (rt is None or all(np.array_equal(a, b) for a, b in zip(rt, rt0)))
    rec.require("inputs_unmodified", ok_in, mechanism=_mech(sub, "modifies-input"))
    res, dres, v, scale = stats["res"], stats["dres"], stats["v"], stats["scale"]
    rec.require("finite", np.all(np.isfinite(res)) and np.all(np.isfinite(dres)), mechanism=_mech(sub, "nonfinite"))
    _check_fd(rec, sub, mdl, stats)
    rec.check("locality", _locality(mdl, mdl.xc, X, rt, units, None, rng, scale, res), 1e-14,
              mechanism=_mech(sub, "sample-crosstalk"))
    # a repeated call on the same objects (after all the FD evaluations) returns the same values and derivatives
    rr = _call(mdl.xc, cls, X, rt, None)
    rec.check("repeat_call", _cmp_exact(rr[:2], (res, dres), (None, units), scale), TOL_EXACT,
              mechanism=_mech(sub, "repeat-call-differs"))
    # rhocut = 0 given explicitly equals the default call
    r0 = _call(mdl.xc, cls, X, rt, 0.0)
    rec.check("cut_rc0_is_default", _cmp_exact(r0[:2], (res, dres), (None, units), scale), TOL_EXACT,
              mechanism=_mech(sub, "rhocut=0-differs"))
    fd_ok = all(not (stats[k].worst > TOL_FD_NOISY) for k in ("feat", "dense"))
    good = _run_cut(rec, sub, mdl, rng, fd_with_cut=fd_ok) and fd_ok
    frac = (stats["feat"].nok / max(1, stats["feat"].nel))
    nz = np.mean(np.max(np.abs(dres * units).reshape(-1, n), axis=0) > 1e-6 * scale)
    if frac >= 0.8 and nz >= 0.5 and good:
        rec.nontrivial(_cfgkey(sub))
    else:
        rec.note("trivial:%s" % _cfgkey(sub), {"fd_guard_pass": frac, "nonzero_frac": float(nz)})
    if rec.sample is None:
        rec.set_sample({"sub_case": sub, "n_samples": n, "x0": X[:, :, 0].tolist(), "res0": float(res[0]),
                        "dres0": dres[:, :, 0].tolist(), "fd_feat_worst": stats["feat"].worst,
                        "fd_rho_worst": stats["rho"].worst, "fd_guard_pass_fraction": frac})


def _cut_masks(mode, q, rc, cls="xc2"):
    """SEP cuts per spin channel on the channel's own density variable, NPOL/POL on the TOTAL density.
    q: (nspin, N) the density variable the class tests: X0T[:,0] = nspin * rho_s for MappedXC (total = mean over spin),
    rho_tuple[0] = rho_s for MappedXC2 (total = sum over spin)."""
    if mode == "SEP":
        return q < rc
    tot = q.mean(0) if cls == "xc1" else q.sum(0)
    return np.broadcast_to(tot < rc, q.shape)


def _run_cut(rec, sub, mdl, rng, fd_with_cut=True):
    """Cutoff oracles.  Returns False when a rule inconsistency was flagged.  The FD of the cut model is only taken
    when the model passed the FD oracle without cutoff, so that its failure means the cutoff rule is at fault."""
    cls, mode, nspin = sub["cls"], sub["mode"], sub["nspin"]
    good = True
    zero = mdl.zero_model() if cls == "xc2" else None
    for rc in RCS[1:]:
        n = 18
        ratio = np.exp(rng.uniform(np.log(1 / 30.0), np.log(30.0), size=(nspin, n)))
        ratio[:, -4:] = np.exp(rng.uniform(np.log(1e-3), np.log(10.0), size=(nspin, 4))) / rc  # ordinary densities
        lr = np.log(ratio)
        ratio = np.where(np.abs(lr) < 0.05, np.exp(np.sign(lr + 1e-30) * 0.05) , ratio)
        tot = ratio.sum(0) if cls == "xc2" else ratio.mean(0)
        ratio = np.where(np.abs(np.log(tot)) < 0.05, ratio * 1.2, ratio)
        q = rc * ratio
        rho = q / nspin if cls == "xc1" else q  # MappedXC tests X0T[:,0] = nspin * rho_s, MappedXC2 tests rho_tuple[0]
        rd, X, rt = _build_inputs(mdl, rng, n, nspin, rho=rho)
        qq = X[:, 0] if cls == "xc1" else rt[0]
        below = _cut_masks(mode, qq, rc, cls)
        allb = np.all(below, axis=0)
        alla = ~np.any(below, axis=0)
        rec.tag("rhocut", rc)
        rec.tag("cut_sample_classes", [nm for nm, m in (("below", allb), ("above", alla), ("mixed-spin", ~allb & ~alla))
                                       if np.any(m)])
        units = _units(mdl.settings, X)
        tunits = _tuple_units(rt) if rt is not None else None
        res0, dres0, v0 = _call(mdl.xc, cls, X, rt, 0.0)
        resc, dresc, vc = _call(mdl.xc, cls, X, rt, rc)
        sder = [dres0 * units] + ([a * b for a, b in zip(v0, tunits)] if v0 is not None else [])
        with np.errstate(invalid="ignore"):
            scale = _scale(np.where(np.isfinite(res0), res0, 0.0), [np.where(np.isfinite(d), d, 0.0) for d in sder],
                           mdl.floor(X, rt))
        tagm = "%s" % ("MappedXC" if cls == "xc1" else "MappedXC2")
        # (i) below: machine-learned part exactly zero in value and derivative
        if cls == "xc1":
            rec.require("cut_below_value_zero[%s]" % tagm, np.all(resc[allb] == 0.0), mechanism=_mech(sub, "rhocut-value-nonzero-below"))
            rec.require("cut_below_deriv_zero[%s]" % tagm, np.all(dresc[np.broadcast_to(below[:, None, :], dresc.shape)] == 0.0),
                        mechanism=_mech(sub, "rhocut-derivative-nonzero-below"))
        else:
            resz, dresz, vz = _call(zero, cls, X, rt, 0.0)
            e = float(np.max(np.abs(resc - resz)[allb] / scale[allb])) if np.any(allb) else 0.0
            rec.check("cut_below_value_is_additive_only[%s]" % tagm, e, TOL_EXACT, mechanism=_mech(sub, "rhocut-value-nonzero-below"))
            rec.require("cut_below_deriv_zero[%s]" % tagm, np.all(dresc[np.broadcast_to(below[:, None, :], dresc.shape)] == 0.0),
                        mechanism=_mech(sub, "rhocut-derivative-nonzero-below"))
            # vrho rows belonging to a cut channel carry only the additive baseline
            e = 0.0
            for ic in range(len(vc)):
                rows = vc[ic].shape[0]
                for r in range(rows):
                    if rows == 3:
                        m = (below[0] & below[-1]) if r == 1 else below[r // 2]
                    else:
                        m = below[r] if rows == below.shape[0] else allb
                    if np.any(m):
                        e = max(e, float(np.max((np.abs(vc[ic][r] - vz[ic][r]) * tunits[ic][r])[m] / scale[m])))
            rec.check("cut_below_vrho_is_additive_only[%s]" % tagm, e, TOL_EXACT, mechanism=_mech(sub, "rhocut-vrho-nonzero-below"))
        # (ii) above: unaffected by the cutoff (value: samples with no cut channel; derivative: every uncut channel)
        e = float(np.max(np.abs(resc - res0)[alla] / scale[alla])) if np.any(alla) else 0.0
        rec.check("cut_above_value_unchanged[%s]" % tagm, e, TOL_EXACT, mechanism=_mech(sub, "rhocut-changes-value-above"))
        dd = np.abs(dresc - dres0) * units / scale
        dd = np.where(np.broadcast_to(below[:, None, :], dd.shape), 0.0, dd)
        if not np.all(np.isfinite(dd) & (dd <= TOL_EXACT)):
            good = False
        rec.check("cut_above_deriv_unchanged[%s]" % tagm, float(np.max(dd)) if np.all(np.isfinite(dd)) else float("nan"),
                  TOL_EXACT, mechanism=_mech(sub, "rhocut-derivative-rule"),
                  detail={"rhocut": rc, "note": "derivative of an uncut sample/channel differs from the rhocut=0 call"})
        if vc is not None:
            e = 0.0
            for ic in range(len(vc)):
                rows = vc[ic].shape[0]
                for r in range(rows):
                    if rows == 3:
                        m = ~(below[0] | below[-1]) if r == 1 else ~below[r // 2]
                    else:
                        m = ~below[r] if rows == below.shape[0] else alla
                    if np.any(m):
                        e = max(e, float(np.max((np.abs(vc[ic][r] - v0[ic][r]) * tunits[ic][r])[m] / scale[m])))
            rec.check("cut_above_vrho_unchanged[%s]" % tagm, e, TOL_EXACT, mechanism=_mech(sub, "rhocut-changes-vrho-above"))
        # (iii) value and derivative follow the same rule: FD of the cut model (features only) vs its derivative
        if not fd_with_cut:
            continue
        stats = _fd_model(mdl, mdl.xc, X, rt, units, tunits, rc, rng, do_rho=False, ndense=1)
        _check_fd(rec, sub, mdl, stats, suffix=",rhocut")
        if not (stats["feat"].worst <= TOL_FD_NOISY):
            good = False
    return good


def _run_accum_sub(rec, sub, rng):
    """Lists of evaluators == sum of singles; several kernels == sum of one-kernel models (with and without cutoff)."""
    _tag_sub(rec, sub)
    mdl = _try_build(sub, rng, rec)
    if mdl is None:
        return
    cls, nspin = sub["cls"], sub["nspin"]
    n = 25
    rd, X, rt = _build_inputs(mdl, rng, n, nspin, lo=1e-8, hi=10.0)
    units = _units(mdl.settings, X)
    tunits = _tuple_units(rt) if rt is not None else None
    vun = tuple(tunits) if tunits is not None else ()
    ok = True
    for rc in (None, 1e-6):
        full = _call(mdl.xc, cls, X, rt, rc)
        sder = [full[1] * units] + ([a * b for a, b in zip(full[2], tunits)] if full[2] is not None else [])
        scale = _scale(full[0], sder)
        # kernels: sum of one-kernel models
        tot = None
        for fl, evs in mdl.parts:
            one = _call(mdl.build([mdl.kernel(fl, evs)]), cls, X, rt, rc)
            flat = (one[0], one[1]) + (tuple(one[2]) if one[2] is not None else ())
            tot = flat if tot is None else tuple(a + b for a, b in zip(tot, flat))
        fullflat = (full[0], full[1]) + (tuple(full[2]) if full[2] is not None else ())
        e = _cmp_exact(fullflat, tot, (None, units) + vun, scale)
        ok = rec.check("accum_kernels_sum", e, TOL_EXACT, mechanism=_mech(sub, "kernel-sum")) and ok
        # evaluator list: K[e1..ek] - sum_i K[ei] + (k-1) K[zero] == 0 (the baselines enter every term once)
        fl, evs = mdl.parts[0]
        if len(evs) > 1:
            kfull = _call(mdl.build([mdl.kernel(fl, evs)]), cls, X, rt, rc)
            zero = _call(mdl.build([mdl.kernel(fl, [_zero_eval(fl.nfeat, sub["mode"] == "POL")])]), cls, X, rt, rc)
            acc = [-(len(evs) - 1) * np.asarray(a) for a in ((zero[0], zero[1]) + (tuple(zero[2]) if zero[2] is not None else ()))]
            for ev in evs:
                one = _call(mdl.build([mdl.kernel(fl, [ev])]), cls, X, rt, rc)
                for i, a in enumerate((one[0], one[1]) + (tuple(one[2]) if one[2] is not None else ())):
                    acc[i] = acc[i] + a
            kflat = (kfull[0], kfull[1]) + (tuple(kfull[2]) if kfull[2] is not None else ())
            sder = [kfull[1] * units] + ([a * b for a, b in zip(kfull[2], tunits)] if kfull[2] is not None else [])
            sc2 = np.maximum(_scale(kfull[0], sder), _scale(zero[0], [zero[1] * units]))
            e = _cmp_exact(kflat, acc, (None, units) + vun, sc2)
            ok = rec.check("accum_evaluator_list_sum", e, 10 * TOL_EXACT, mechanism=_mech(sub, "evaluator-list-sum")) and ok
    # evaluator level: += into passed buffers
    fl, evs = mdl.parts[0]
    n1 = fl.nfeat
    for kind, ev in zip(sub["ev"].split("+"), evs):
        ok = _accum_evaluator(rec, kind, ev, n1, rng) and ok
    if ok:
        rec.nontrivial(_cfgkey(sub))
    if rec.sample is None:
        rec.set_sample({"sub_case": sub, "n_samples": n, "res0": float(full[0][0])})


def _x1_for(kind, n1, n, rng):
    if kind.startswith("spinrbf"):
        return rng.uniform(-0.6, 0.9, size=(2, n, n1))
    X = rng.uniform(-0.6, 0.9, size=(n, n1))
    if "antisym" in kind and n1 >= 2:
        # some samples with the first two features exactly equal (spin-unpolarised points): the antisymmetric kernel
        # vanishes there but its derivative does not
        X[: max(1, n // 4), 1] = X[: max(1, n // 4), 0]
    return X


def _fresh(ev, X1):
    """Evaluate into new zero buffers.  SpinRBFEvaluator is always given explicit buffers: with res=None it allocates
    res of shape (2,) for a (2, n, N1) input and lets the C kernel write n values into it (reported separately, C18)."""
    if X1.ndim == 3:
        return ev(X1, np.zeros(X1.shape[1]), np.zeros(X1.shape))
    return ev(X1)


def _accum_evaluator(rec, kind, ev, n1, rng, n=33):
    X1 = _x1_for(kind, n1, n, rng)
    X1c = X1.copy()
    r0, d0 = _fresh(ev, X1)
    r0, d0 = r0.copy(), d0.copy()
    P = rng.normal(size=r0.shape)
    Q = rng.normal(size=d0.shape)
    rb, db = P.copy(), Q.copy()
    r1, d1 = ev(X1, rb, db)
    name = type(ev).__name__
    rec.tag("accum_evaluator_class", name)
    okk = rec.require("accum_returns_passed_buffers", (r1 is rb) and (d1 is db), mechanism="%s:returns-new-buffer" % name)
    sc = max(1.0, float(np.max(np.abs(r0))), float(np.max(np.abs(d0))))
    e = max(float(np.max(np.abs(rb - (P + r0)))), float(np.max(np.abs(db - (Q + d0))))) / sc
    okk = rec.check("accum_adds_into_buffers", e, TOL_EXACT, mechanism="%s:overwrites-instead-of-adding" % name) and okk
    okk = rec.require("accum_x1_unmodified", np.array_equal(X1, X1c), mechanism="%s:modifies-input" % name) and okk
    # calling twice into the same buffers doubles the contribution
    ev(X1, rb, db)
    e = max(float(np.max(np.abs(rb - (P + 2 * r0)))), float(np.max(np.abs(db - (Q + 2 * d0))))) / sc
    okk = rec.check("accum_adds_into_buffers", e, TOL_EXACT, mechanism="%s:overwrites-instead-of-adding" % name) and okk
    return okk


def _run_batch_sub(rec, sub, rng):
    """Per-sample results independent of how many samples are evaluated together."""
    _tag_sub(rec, sub)
    mdl = _try_build(sub, rng, rec)
    if mdl is None:
        return
    cls, nspin, n, rc = sub["cls"], sub["nspin"], sub["n"], sub["rc"]
    rec.tag("sample_count", n)
    rec.tag("rhocut", rc)
    rd, X, rt = _build_inputs(mdl, rng, n, nspin, lo=1e-8, hi=10.0)
    units = _units(mdl.settings, X)
    tunits = _tuple_units(rt) if rt is not None else None
    try:
        full = _call(mdl.xc, cls, X, rt, rc)
    except Exception as e:
        if not _from_repo(e):
            raise
        rec.require("batch_runs", False, mechanism=_mech(sub, "batch-of-2-raises" if n == 2 else "batch-raises"),
                    detail={"n": n, "error": "%s: %s" % (type(e).__name__, str(e)[:200])})
        return
    fullflat = (full[0], full[1]) + (tuple(full[2]) if full[2] is not None else ())
    sder = [full[1] * units] + ([a * b for a, b in zip(full[2], tunits)] if full[2] is not None else [])
    scale = _scale(full[0], sder, mdl.floor(X, rt))
    # partition A: random contiguous pieces; partition B: single samples.  Pieces of exactly two samples are produced
    # only by the n == 2 sub-cases (they are a configuration class of their own, see apply_descriptor_grad).
    cuts = sorted(set([0, n] + rng.integers(0, n + 1, size=3).tolist() + ([1] if n > 1 else [])))
    cuts = [c_ for i, c_ in enumerate(cuts) if i == 0 or c_ - cuts[i - 1] != 2 or c_ == n]
    if n > 3 and len(cuts) > 2 and cuts[-1] - cuts[-2] == 2:
        del cuts[-2]
    pieces = [(a, b) for a, b in zip(cuts[:-1], cuts[1:]) if b > a]
    singles = sorted(set(rng.integers(0, n, size=min(n, 12)).tolist() + [0, n - 1] + [g for g in (1998, 1999, 2000, 2001, 3999, 4000) if g < n]))
    worst = 0.0
    for a, b in pieces + [(g, g + 1) for g in singles]:
        rtt = tuple(np.asfortranarray(r[:, a:b]) for r in rt) if rt is not None else None
        try:
            part = _call(mdl.xc, cls, np.ascontiguousarray(X[:, :, a:b]), rtt, rc)
        except Exception as e:
            if not _from_repo(e):
                raise
            rec.require("batch_runs", False, mechanism=_mech(sub, "batch-of-2-raises" if b - a == 2 else "batch-raises"),
                        detail={"n": b - a, "error": "%s: %s" % (type(e).__name__, str(e)[:200])})
            continue
        rec.require("batch_runs", True)
        pflat = (part[0], part[1]) + (tuple(part[2]) if part[2] is not None else ())
        uu = (None, units[:, :, a:b]) + (tuple(t[:, a:b] for t in tunits) if tunits is not None else ())
        worst = max(worst, _cmp_exact([f[..., a:b] for f in fullflat], pflat, uu, scale[a:b]))
        if worst != worst:
            break
    ok = rec.check("batch_vs_partitions", worst, TOL_EXACT, mechanism=_mech(sub, "batch-size-dependence"),
                   detail={"n": n, "pieces": pieces[:6]}, count=len(pieces) + len(singles))
    ok = rec.require("finite", bool(np.all(np.isfinite(full[0]))), mechanism=_mech(sub, "nonfinite")) and ok
    if ok and np.any(full[0] != 0):
        rec.nontrivial(_cfgkey(sub))
    if rec.sample is None:
        rec.set_sample({"sub_case": sub, "pieces": pieces, "n_singles": len(singles), "worst": worst})


def _run_direct_sub(rec, sub, rng):
    """Bare evaluator __call__: FD of the returned value vs the returned derivative, += semantics."""
    from ciderpress.dft import xc_evaluator as xe
    from ciderpress.models.kernels import DiffConstantKernel, SubsetRBF
    kind, n1 = sub["ev"], sub["n1"]
    rec.tag("model_class", "bare evaluator")
    rec.tag("evaluator", kind)
    if kind == "nn":
        try:
            import torch  # noqa: F401
            rec.tag("skipped", "NNEvaluator: torch present but no generator for torch models")
        except ImportError:
            rec.tag("skipped", "NNEvaluator: torch not installed")
        return
    nctrl = 9
    if kind in ("subset-strict", "subset-list"):
        ls = np.exp(rng.uniform(np.log(0.3), np.log(1.5), size=n1))
        idx = slice(1, n1) if kind == "subset-strict" else list(range(1, n1))
        nsub = n1 - 1
        try:
            ev = xe.RBFEvaluator(DiffConstantKernel(1.3) * SubsetRBF(idx, ls[idx]), rng.uniform(-0.5, 1, size=(nctrl, nsub)),
                                 rng.normal(size=nctrl))
        except (UnboundLocalError, NameError, TypeError, ValueError, AssertionError) as e:
            rec.tag("unsupported_combination", "RBFEvaluator(SubsetRBF(%s)): constructor %s" % (type(idx).__name__, type(e).__name__))
            return
        X1 = _x1_for(kind, n1, 21, rng)
        try:  # with a full-size derivative buffer (the way MappedDFTKernel calls it) the shape test must reject
            ev(X1, np.zeros(21), np.zeros((21, n1)))
            rec.tag("subset_strict_with_full_buffer", "accepted")
        except ValueError:
            rec.tag("unsupported_combination", "RBFEvaluator(SubsetRBF strict subset) with full-size dres buffer: ValueError")
        r, d = ev(X1)
        rec.require("subset_deriv_shape", d.shape == (21, nsub), mechanism="RBFEvaluator[SubsetRBF]:derivative-shape")
        cols = list(range(1, n1))
    else:
        ev = _evaluator(kind, n1, rng, nctrl=nctrl)
        X1 = _x1_for(kind, n1, 21, rng)
        try:
            r, d = _fresh(ev, X1)
        except Exception as e:
            if not _from_repo(e):
                raise
            rec.tag("unsupported_combination", "%s[%s]: __call__ raises %s" % (type(ev).__name__, kind, type(e).__name__))
            rec.note("unsupported:%s" % kind, "%s: %s" % (type(e).__name__, str(e)[:200]))
            return
        cols = list(range(n1))
    name = type(ev).__name__
    rec.tag("accum_evaluator_class", name)
    r, d = r.copy(), d.copy()
    scale = np.maximum(np.abs(r), np.max(np.abs(d), axis=(0, 2)) if d.ndim == 3 else np.max(np.abs(d), axis=1))
    scale = np.maximum(scale, 1e-300)
    st = _FDStat()
    spins = range(2) if X1.ndim == 3 else [None]
    for sp in spins:
        for jc, j in enumerate(cols):
            def f(t):
                XX = X1.copy()
                if sp is None:
                    XX[:, j] += t
                else:
                    XX[sp, :, j] += t
                return _fresh(ev, XX)[0]
            est, se = _fd_pair(f, 1e-3 * np.ones(X1.shape[-2]))
            ana = d[:, jc] if sp is None else d[sp, :, jc]
            st.add(ana, est, se, scale, "dX1[%s,%d]" % (sp, j))
    if st.nok:
        rec.check("fd_evaluator", st.worst, TOL_FD, mechanism="%s[%s]:derivative" % (name, kind), count=st.nok,
                  detail={"where": st.where})
    ok = True
    if kind not in ("subset-strict", "subset-list"):
        ok = _accum_evaluator(rec, kind, ev, n1, rng)
    if ok and st.nok >= 0.8 * st.nel and st.worst <= TOL_FD:
        rec.nontrivial("direct|%s|%d" % (kind, n1))
    if rec.sample is None:
        rec.set_sample({"evaluator": kind, "class": name, "n1": n1, "fd_worst": st.worst, "guard_pass": st.nok / max(1, st.nel)})


# ---------------------------------------------------------------------------------------------

def run_case(case, rec):
    for i, sub in enumerate(case["subs"]):
        rng = rng_for(case["seed"], PROP_NO, case["idx"] + 1 + i)
        kind = case["kind"]
        if sub.get("cls") == "ev":
            _run_direct_sub(rec, sub, rng)
        elif kind == "fd" or (kind == "spline" and not sub.get("batch") and not sub.get("accum")):
            _run_fd_sub(rec, sub, rng, n=20 if case.get("tier") == "quick" else 32)
        elif kind == "accum" or sub.get("accum"):
            _run_accum_sub(rec, sub, rng)
        elif kind == "batch" or sub.get("batch"):
            _run_batch_sub(rec, sub, rng)
        else:
            raise ValueError(kind)
