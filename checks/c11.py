"""C11 - mapped (fast) evaluators reproduce the Gaussian-process predictive function.

Oracles (DESIGN.md section 5, C11):
 exact     RBFEvaluator / AntisymRBFEvaluator / SpinRBFEvaluator (C: evaluate_se_kernel[_antisym|_spin]) versus the
           Python kernel sum f(x) = sum_a k(x, x_a) alpha_a and its gradient: KernelEvaluator on the same kernel plus an
           independent numpy evaluation of the documented formula; antisymmetric reference from DiffAntisymRBF.__call__
           (k_and_deriv of that class raises in the pinned tree), spin reference k = k_aa k_bb + k_ab k_ba as in
           DFTKernel POL mode (each factor carries the constant, i.e. the constant enters squared - SpinRBFEvaluator
           does the same).  Value AND gradient, pre-filled res/dres buffers (evaluators ADD), 1..8 features, 1..4500
           samples (KernelEvaluator chunks by 2000), 1..200 control points.  Tolerance 1e-12 of the function scale
           (measured maximum 4.2e-14 over seeds 0-4, both tiers).
 dftkernel DFTKernel.map(plan) -> MappedDFTKernel(X0T) versus alpha . DFTKernel.get_k[_and_deriv](X0T) pushed through
           the same baseline (SEP / NPOL / POL, nspin 1 and 2).
 subset    SubsetRBF kernels (get_rbf_kernel): index extraction from index lists and slices (open/closed stop, step),
           value/gradient with the control points restricted to the kernel's columns, and the interface used by
           MappedDFTKernel (full-width dres buffer).
 spline    real map_tools path (get_mapped_gp_evaluator_simple / _additive / _linear, arbf_exchange.mapping_plan):
           (a) the mapped SplineSetEvaluator interpolates: at spline-grid nodes it equals the kernel sum to rounding
           (1e-10; measured maximum 4.6e-14) at every density; (b) on random points inside the feature bounds the error decreases
           with the grid density (natural cubic splines: h^2 at the boundary, h^4 in the interior; gradient one order
           less) and is below calibrated bounds at the default density 8; (c) SplineSetEvaluator accumulates hand-made
           multilinear terms (reproduced exactly by cubic splines) exactly, value and gradient.
 struct    get_k0_for_mapping == the factor used by _get_k0_dk0_eval/_train; additive kernels evaluated from their
           definition (sum over itertools.combinations of products of per-dimension factors with arbf_args scales)
           == __call__ and k_and_deriv (value and gradient).
"""
import contextlib
import io
import itertools

import numpy as np

from vlib.oracles import rng_for

PROPERTY = "C11"
PROP_NO = 11
RULE = ("cases = batches of random draws per evaluator family: C evaluators {RBF full/bare, SubsetRBF by slice/list, "
        "antisymmetric, spin} x features 1-8 x samples {1..4500} x control points {1..200} x OMP threads {1,2,4}; "
        "DFTKernel.map in SEP/NPOL/POL; spline-mapped kernels {RBF, SubsetRBF, SubsetARBF order 1-3, SubsetRBF*SubsetARBF, "
        "SubsetAddRQ, SubsetAddLLRBF, linear, arbf_exchange plan} x densities 4..64; structural draws per additive class. "
        "A draw is non-trivial when the reference function and its gradient are non-zero on the sampled points and (spline "
        "draws) at least three densities were evaluated; distinct = distinct (family, dimensions, hyper-parameter digest)")
MIN_NONTRIVIAL = {"quick": 300, "thorough": 15000}
ASSUMPTIONS = ["evaluation and control points lie inside the feature bounds handed to map_tools",
               "spline accuracy is a convergence statement decided on sampled points only; error bounds at the default "
               "density are x4-13 above the maximum measured on the unchanged tree (seeds 0-4, both tiers), convergence "
               "ratios x1.5-3 above it; the sharp spline oracle is exactness at the grid nodes (1e-10, measured maximum 4.6e-14)",
               "SubsetRBF evaluators are called with control points restricted to the kernel's columns (the only "
               "memory-safe convention of RBFEvaluator); the full-width interface of MappedDFTKernel is a separate oracle"]
REQUIRED_CALLS = ["libmcider.evaluate_se_kernel", "libmcider.evaluate_se_kernel_antisym",
                  "libmcider.evaluate_se_kernel_spin"]

TOL_EXACT = 1e-12      # C evaluator vs kernel sum, relative to function scale (measured maximum 4.2e-14 over 6e4 draws)
TOL_STRUCT = 1e-13     # pure-numpy re-evaluation of a per-dimension factor (floor 8e-16)
TOL_ADDITIVE = 1e-10   # additive kernels use Newton-Girard sums (cancellation): measured maximum 1.0e-12
TOL_NODE = 1e-10       # spline value at grid nodes (measured maximum 4.6e-14)
# spline, full domain, default density 8, relative to max|f| / max|grad f| on the sample (measured maxima in comments)
BOUND_VAL_D8 = 5e-2    # measured <= 4.6e-3
BOUND_VAL_CLUSTER = 5e-4   # clustered control points, small length scales, density 8: measured <= 1.1e-5
BOUND_GRAD_CLUSTER = 1e-2  # measured <= 3.6e-4
BOUND_GRAD_D8 = 0.5    # measured <= 0.13  (natural boundary condition: O(h) gradient error at the domain edge)
BOUND_VAL_INT_D8 = 1e-2   # central half of every bound interval, default density: measured <= 7.4e-4
BOUND_GRAD_INT_D8 = 1e-1  # measured <= 1.1e-2
# convergence, expressed as err(2d)/err(d) <= tol while err(d) is above the floor
RATIO_VAL_FULL = 0.7   # measured <= 0.39 over 3.5e4 density pairs (h^2 at the boundary -> 0.25)
RATIO_GRAD_FULL = 0.85 # measured <= 0.565 (h^1 -> 0.5); a mapping that converges to another function gives 1
RATIO_VAL_INT = 0.25   # interior (central half of every bound interval): measured <= 0.082 (h^4 -> 0.0625)
RATIO_GRAD_INT = 0.4   # measured <= 0.153 (h^3 -> 0.125)
FLOOR_FULL = 1e-7
FLOOR_INT = 1e-8
BOUND_VAL_INT_TOP = 1e-5   # interior value error at the highest density reached (>= 32): measured <= 2.1e-7
BOUND_GRAD_INT_TOP = 3e-4  # measured <= 1.0e-5


@contextlib.contextmanager
def _quiet():
    with contextlib.redirect_stdout(io.StringIO()):
        yield


def _err(a, b, scale):
    d = np.abs(np.asarray(a) - np.asarray(b))
    if not np.all(np.isfinite(d)):
        return float("nan")
    return float(np.max(d)) / scale if d.size else 0.0


def _logu(rng, lo, hi, size=None):
    return np.exp(rng.uniform(np.log(lo), np.log(hi), size=size))


# ---------------------------------------------------------------------------------------------
# case generation

CX_FAMILIES = ["rbf-full", "rbf-bare", "rbf-slice", "rbf-allcols", "antisym", "spin", "dftk-SEP", "dftk-NPOL", "dftk-POL"]
# sub-cases that isolate behaviours which fail on the pinned tree (kept apart so that clean cases stay clean)
CX_EDGE = ["rbf-subset-list", "rbf-slice-openstop-step", "rbf-slice-openstart", "rbf-subset-fullwidth"]
SP_FAMILIES = ["rbf-simple", "subrbf-simple", "arbf-o1", "arbf-o2", "arbf-o3", "prod-srbf-arbf", "addrq", "addllrbf",
               "linear", "plan-arbf-exchange", "splineset-exact", "prod-srbf-addrq"]
SP_EDGE = ["linear-nctrl"]  # fails on the pinned tree (AssertionError), kept apart from the clean linear case
ST_FAMILIES = ["DiffARBF", "DiffARBFV2", "DiffAddRQ", "DiffAddLLRBF", "SubsetARBF", "SubsetAddRQ", "SubsetAddLLRBF",
               "k0map:DiffARBFV2", "k0map:DiffAddRQ", "k0map:DiffAddLLRBF"]


def gen_cases(tier, seed):
    quick = tier == "quick"
    cases = []
    idx = 0
    ndraw = 10 if quick else 150
    reps = 1 if quick else 3
    for rep in range(reps):
        for fam in CX_FAMILIES:
            for thr in (1, 2, 4):
                idx += 1
                cases.append({"id": "cx-%s-t%d-%d" % (fam, thr, rep), "kind": "cx", "family": fam, "ndraw": ndraw,
                              "seed": seed, "idx": idx, "_threads": thr, "_weight": 0.3, "_timeout": 900})
    for fam in CX_EDGE:
        idx += 1
        cases.append({"id": "cx-%s" % fam, "kind": "cx", "family": fam, "ndraw": 4 if quick else 12, "seed": seed,
                      "idx": idx, "_threads": 2, "_weight": 0.1, "_timeout": 600})
    # every exported evaluate_se_kernel* entry point of libmcider driven from its C signature (one of them has no Python
    # caller in the repository)
    for thr in (1, 4):
        idx += 1
        cases.append({"id": "raw-se-kernels-t%d" % thr, "kind": "raw", "family": "raw-c-entry-points", "ndraw": 6 if quick else 60,
                      "seed": seed, "idx": idx, "_threads": thr, "_weight": 0.2, "_timeout": 600})
    idx = 1000
    for fam in ST_FAMILIES:
        idx += 1
        cases.append({"id": "st-%s" % fam, "kind": "st", "family": fam, "ndraw": 12 if quick else 500, "seed": seed,
                      "idx": idx, "_threads": 2, "_weight": 0.2, "_timeout": 900})
    idx = 2000
    nsp = 6 if quick else 60
    for rep in range(1 if quick else 4):
        for fam in SP_FAMILIES:
            idx += 1
            heavy = fam in ("arbf-o3", "prod-srbf-arbf", "rbf-simple")
            cases.append({"id": "sp-%s-%d" % (fam, rep), "kind": "sp", "family": fam,
                          "ndraw": nsp if fam not in ("linear", "splineset-exact", "prod-srbf-addrq") else 3 * nsp,
                          "seed": seed, "idx": idx, "_threads": 2, "_weight": 3.0 if heavy else 1.5, "_timeout": 2400})
    for fam in SP_EDGE:
        idx += 1
        cases.append({"id": "sp-%s" % fam, "kind": "sp", "family": fam, "ndraw": 4 if quick else 12, "seed": seed,
                      "idx": idx, "_threads": 2, "_weight": 0.2, "_timeout": 600})
    return cases


def run_case(case, rec):
    rng = rng_for(case["seed"], PROP_NO, case["idx"])
    rec.tag("family", case["family"])
    rec.tag("omp_threads", case.get("_threads", 2))
    if case["kind"] == "raw":
        _run_raw(case, rec, rng)
    elif case["kind"] == "cx":
        _run_cx(case, rec, rng)
    elif case["kind"] == "st":
        _run_st(case, rec, rng)
    else:
        _run_sp(case, rec, rng)


# ---------------------------------------------------------------------------------------------
# exported C kernels driven directly

def _run_raw(case, rec, rng):
    """evaluate_se_kernel_spin (layout (2, n, nfeat)) and evaluate_se_kernel_spin_v2 (layout (n, 2, nfeat); no Python caller)
    against k(x) = sum_t a_t [exp(-(d(xa,ca)+d(xb,cb))) + exp(-(d(xa,cb)+d(xb,ca)))], d(u,v) = sum_j e_j (u_j-v_j)^2, and its
    analytic gradient; value and gradient must ACCUMULATE into the output buffers."""
    import ctypes

    from ciderpress.lib import load_library
    lib = load_library("libmcider")
    dp = ctypes.c_void_p
    for d in range(case["ndraw"]):
        n = int(rng.choice([1, 2, 9, 130]))
        nc = int(rng.choice([1, 3, 11]))
        nf = int(rng.integers(1, 6))
        xa, xb = rng.normal(size=(n, nf)), rng.normal(size=(n, nf))
        ca, cb = rng.normal(size=(nc, nf)), rng.normal(size=(nc, nf))
        a = rng.normal(size=nc)
        e = rng.uniform(0.1, 1.5, size=nf)

        def dist(u, v):
            return np.einsum("j,itj->it", e, (u[:, None, :] - v[None, :, :]) ** 2)

        aabb = np.exp(-(dist(xa, ca) + dist(xb, cb))) * a
        abba = np.exp(-(dist(xa, cb) + dist(xb, ca))) * a
        f = (aabb + abba).sum(axis=1)
        ga = 2 * e * (np.einsum("it,itj->ij", aabb, ca[None] - xa[:, None]) + np.einsum("it,itj->ij", abba, cb[None] - xa[:, None]))
        gb = 2 * e * (np.einsum("it,itj->ij", aabb, cb[None] - xb[:, None]) + np.einsum("it,itj->ij", abba, ca[None] - xb[:, None]))
        pre = float(rng.normal())
        sc = max(float(np.max(np.abs(f))), abs(pre))
        gsc = max(float(np.max(np.abs(ga))), float(np.max(np.abs(gb))), abs(pre))
        for name in ("evaluate_se_kernel_spin", "evaluate_se_kernel_spin_v2"):
            fn = getattr(lib, name, None)
            if fn is None:
                rec.note("entry_point_absent", name)
                continue
            if name.endswith("_v2"):
                x = np.ascontiguousarray(np.stack([xa, xb], axis=1))
                c = np.ascontiguousarray(np.stack([ca, cb], axis=1))
                outd = np.full((n, 2, nf), pre)
                pick = lambda o: (o[:, 0], o[:, 1])
            else:
                x = np.ascontiguousarray(np.stack([xa, xb], axis=0))
                c = np.ascontiguousarray(np.stack([ca, cb], axis=0))
                outd = np.full((2, n, nf), pre)
                pick = lambda o: (o[0], o[1])
            out = np.full(n, pre)
            try:
                fn(out.ctypes.data_as(dp), outd.ctypes.data_as(dp), x.ctypes.data_as(dp), c.ctypes.data_as(dp), a.ctypes.data_as(dp),
                   e.ctypes.data_as(dp), ctypes.c_int(n), ctypes.c_int(nc), ctypes.c_int(nf))
            except Exception as ex:  # noqa: BLE001 - signature differs from the one assumed here
                rec.note("raw_call_failed[%s]" % name, repr(ex)[:200])
                continue
            oa, ob = pick(outd)
            rec.check("raw_value[%s]" % name, float(np.max(np.abs(out - pre - f))) / sc, 1e-11, mechanism="%s:value" % name,
                      detail={"n": n, "nctrl": nc, "nfeat": nf})
            rec.check("raw_grad_alpha[%s]" % name, float(np.max(np.abs(oa - pre - ga))) / gsc, 1e-11, mechanism="%s:gradient[alpha]" % name,
                      detail={"n": n, "nctrl": nc, "nfeat": nf})
            rec.check("raw_grad_beta[%s]" % name, float(np.max(np.abs(ob - pre - gb))) / gsc, 1e-11, mechanism="%s:gradient[beta]" % name,
                      detail={"n": n, "nctrl": nc, "nfeat": nf})
            if np.max(np.abs(gb - ga)) > 1e-6 * gsc:
                rec.nontrivial("raw|%s|%d|%d|%d|%d" % (name, n, nc, nf, d))
    rec.set_sample({"entry_points": ["evaluate_se_kernel_spin", "evaluate_se_kernel_spin_v2"], "draws": case["ndraw"]})


# ---------------------------------------------------------------------------------------------
# exact C evaluators

def _pick_sizes(rng, d):
    n = int(rng.choice([1, 2, 17, 300, 2000, 2001, 4100], p=[0.15, 0.1, 0.2, 0.25, 0.1, 0.1, 0.1]))
    nctrl = int(rng.choice([1, 2, 13, 60, 200], p=[0.1, 0.1, 0.3, 0.3, 0.2]))
    return n, nctrl


def _rbf_direct(c, ls, X, Y, alpha):
    """Independent evaluation of f(x) = sum_a c exp(-sum_j (x_j - y_aj)^2 / (2 l_j^2)) alpha_a and its gradient."""
    f = np.zeros(X.shape[0])
    df = np.zeros(X.shape)
    for i0 in range(0, X.shape[0], 1000):
        x = X[i0:i0 + 1000]
        diff = x[:, None, :] - Y[None, :, :]
        k = c * np.exp(-0.5 * np.sum((diff / ls) ** 2, axis=-1))
        f[i0:i0 + 1000] = k.dot(alpha)
        df[i0:i0 + 1000] = np.einsum("gc,gcn->gn", k * alpha, -diff / ls ** 2)
    return f, df


def _antisym_direct(c, lsk, X, Y, alpha):
    """DiffAntisymRBF from its definition (kernels.py DiffAntisymRBF.__call__): the first two features share the
    length scale lsk[0] and enter as e(x0,y0) - e(x0,y1) - e(x1,y0) + e(x1,y1); the rest is a plain RBF."""
    l0, lt = lsk[0], lsk[1:]

    def e(a, b):
        return np.exp(-0.5 * ((a[:, None] - b[None, :]) / l0) ** 2)

    def de(a, b):
        return -e(a, b) * (a[:, None] - b[None, :]) / l0 ** 2
    KT = np.exp(-0.5 * np.sum(((X[:, None, 2:] - Y[None, :, 2:]) / lt) ** 2, axis=-1))
    KS = e(X[:, 0], Y[:, 0]) - e(X[:, 0], Y[:, 1]) - e(X[:, 1], Y[:, 0]) + e(X[:, 1], Y[:, 1])
    K = c * KS * KT
    dK = np.zeros(K.shape + (X.shape[1],))
    dK[..., 0] = c * KT * (de(X[:, 0], Y[:, 0]) - de(X[:, 0], Y[:, 1]))
    dK[..., 1] = c * KT * (-de(X[:, 1], Y[:, 0]) + de(X[:, 1], Y[:, 1]))
    dK[..., 2:] = K[..., None] * (Y[None, :, 2:] - X[:, None, 2:]) / lt ** 2
    return K, K.dot(alpha), np.einsum("gcn,c->gn", dK, alpha)


def _spin_ref(kern, X2, C2, alpha):
    """POL-mode kernel of DFTKernel (dft_kernel.py get_k): k = k_aa k_bb + k_ab k_ba, every factor the full kernel."""
    f = np.zeros(X2.shape[1])
    df = np.zeros(X2.shape)
    for i0 in range(0, X2.shape[1], 1000):
        sl = slice(i0, i0 + 1000)
        kaa, dkaa = kern.k_and_deriv(X2[0, sl], C2[0])
        kbb, dkbb = kern.k_and_deriv(X2[1, sl], C2[1])
        kab, dkab = kern.k_and_deriv(X2[0, sl], C2[1])
        kba, dkba = kern.k_and_deriv(X2[1, sl], C2[0])
        f[sl] = (kaa * kbb + kab * kba).dot(alpha)
        df[0, sl] = np.einsum("gcn,c->gn", dkaa * kbb[..., None] + dkab * kba[..., None], alpha)
        df[1, sl] = np.einsum("gcn,c->gn", dkbb * kaa[..., None] + dkba * kab[..., None], alpha)
    return f, df


def _call_prefilled(ev, X, rng, fs, ds, dshape=None):
    """Call an evaluator with pre-filled res / dres buffers (content of the size of the function, so that taking the
    increment does not lose digits); return the increments."""
    n = X.shape[-2]
    pre = rng.normal(size=n) * fs
    pred = rng.normal(size=X.shape if dshape is None else dshape) * ds
    res, dres = pre.copy(), pred.copy()
    out = ev(X, res, dres)
    same = out[0] is res and out[1] is dres
    return res - pre, dres - pred, same


def _scales(f, df, alpha, c, ls):
    """Function scale for the relative tolerance.  Rounding in exp(-t) is absolute ~eps*c*|alpha_a| per term, so the
    scale never drops below 1% of c*sum|alpha| (matters only when every sample is far from every control point)."""
    a1 = float(np.sum(np.abs(alpha))) * abs(c)
    fs = max(float(np.max(np.abs(f))), 1e-2 * a1, 1e-300)
    ds = max(float(np.max(np.abs(df))), 1e-2 * a1 / float(np.min(ls)), 1e-300)
    return fs, ds


def _rand_ls(rng, n1, lo=0.3, hi=2.0):
    """Length scales growing like sqrt(nfeat) so that k(x, x_a) stays O(0.01 .. 1) on the sampled box in 8 dimensions."""
    return _logu(rng, lo, hi, size=n1) * max(1.0, np.sqrt(n1 / 2.0))


def _relayout(rng, rec, arr):
    """The same control points in another memory layout (C order, Fortran order - what DFTKernel.set_control_points(reduce=
    True) stores -, or a strided view): the evaluators must read them by value, not by raw buffer."""
    lay = str(rng.choice(["C", "F", "strided"], p=[0.4, 0.3, 0.3]))
    rec.tag("control_point_layout", lay)
    if lay == "F":
        return np.asfortranarray(arr)
    if lay == "strided":
        big = np.full(arr.shape[:-2] + (2 * arr.shape[-2], arr.shape[-1]), 7.5)
        big[..., ::2, :] = arr
        return big[..., ::2, :]
    return arr


def _run_cx(case, rec, rng):
    fam = case["family"]
    for d in range(case["ndraw"]):
        if fam in ("rbf-full", "rbf-bare"):
            _cx_rbf(rec, rng, fam)
        elif fam in ("rbf-slice", "rbf-allcols", "rbf-subset-list", "rbf-slice-openstop-step", "rbf-slice-openstart",
                     "rbf-subset-fullwidth"):
            _cx_subset(rec, rng, fam)
        elif fam == "antisym":
            _cx_antisym(rec, rng)
        elif fam == "spin":
            _cx_spin(rec, rng)
        else:
            _cx_dftk(rec, rng, fam.split("-")[1])


def _cx_rbf(rec, rng, fam):
    from ciderpress.dft import xc_evaluator as xe
    from ciderpress.models.kernels import DiffConstantKernel, DiffRBF
    n1 = int(rng.integers(1, 9))
    n, nctrl = _pick_sizes(rng, n1)
    ls = _rand_ls(rng, n1)
    c = float(_logu(rng, 0.05, 20.0)) if fam == "rbf-full" else 1.0
    kern = DiffConstantKernel(c) * DiffRBF(ls) if fam == "rbf-full" else DiffRBF(ls)
    ctrl = rng.uniform(-1.0, 1.5, size=(nctrl, n1))
    alpha = rng.normal(size=nctrl)
    X = rng.uniform(-1.0, 1.5, size=(n, n1))
    rec.tag("nfeat", n1)
    rec.tag("nsamp", n)
    rec.tag("nctrl", nctrl)
    f0, df0 = xe.KernelEvaluator(kern, ctrl, alpha)(X)
    fd, dfd = _rbf_direct(c, ls, X, ctrl, alpha)
    fs, ds = _scales(f0, df0, alpha, c, ls)
    rec.check("python_kernel_sum_vs_formula", max(_err(f0, fd, fs), _err(df0, dfd, ds)), TOL_EXACT,
              mechanism="KernelEvaluator:DiffRBF-vs-formula")
    ev = xe.RBFEvaluator(kern, _relayout(rng, rec, ctrl), alpha)
    X0 = X.copy()
    f1, df1, same = _call_prefilled(ev, X, rng, fs, ds)
    rec.require("evaluator_adds_in_place", same and np.array_equal(X, X0), mechanism="RBFEvaluator:buffers")
    rec.check("rbf_value", _err(f1, f0, fs), TOL_EXACT, mechanism="RBFEvaluator:value",
              detail={"nfeat": n1, "n": n, "nctrl": nctrl, "const": c})
    rec.check("rbf_gradient", _err(df1, df0, ds), TOL_EXACT, mechanism="RBFEvaluator:gradient",
              detail={"nfeat": n1, "n": n, "nctrl": nctrl, "const": c})
    # fresh buffers (res=None) give the same numbers
    f2, df2 = ev(X)
    rec.check("rbf_fresh_vs_prefilled", max(_err(f2, f1, fs), _err(df2, df1, ds)), TOL_EXACT,
              mechanism="RBFEvaluator:buffers")
    if np.max(np.abs(f0)) > 0 and np.max(np.abs(df0)) > 0:
        rec.nontrivial("%s|%d|%d|%d|%.6g" % (fam, n1, n, nctrl, ls[0]))
    if rec.sample is None:
        rec.set_sample({"family": fam, "nfeat": n1, "nsamp": n, "nctrl": nctrl, "const": c, "length_scale": ls.tolist(),
                        "f_ref0": float(f0[0]), "f_C0": float(f1[0]), "value_err": _err(f1, f0, fs),
                        "grad_err": _err(df1, df0, ds)})


def _rand_slice(rng, N1, kind):
    """slice variants of SubsetRBF.indexes; returns slice and a label."""
    while True:
        start = int(rng.integers(0, N1))
        step = int(rng.integers(1, 4))
        stop = int(rng.integers(start + 1, N1 + 1))
        if kind == "closed":
            s = slice(start, stop, None if (step == 1 and rng.random() < 0.5) else step)
            lab = "slice(a,b,%s)" % ("None" if s.step is None else ("1" if s.step == 1 else "s>1"))
        elif kind == "openstop":
            s = slice(start, None, None if rng.random() < 0.5 else 1)
            lab = "slice(a,None,%s)" % ("None" if s.step is None else "1")
        elif kind == "openstop-step":
            s = slice(start, None, int(rng.integers(2, 4)))
            lab = "slice(a,None,s>1)"
        else:
            s = slice(None, stop, None if rng.random() < 0.5 else step)
            lab = "slice(None,b,*)"
        if len(range(N1)[s]) >= 1:
            return s, lab


def _cx_subset(rec, rng, fam):
    from ciderpress.dft import xc_evaluator as xe
    from ciderpress.models.kernel_plans.kernel_tools import get_rbf_kernel
    N1 = int(rng.integers(2, 9))
    n, nctrl = _pick_sizes(rng, N1)
    n = min(n, 2001)
    if fam == "rbf-slice":
        idx, lab = _rand_slice(rng, N1, "closed" if rng.random() < 0.6 else "openstop")
    elif fam == "rbf-allcols":
        idx, lab = (slice(0, N1, None), "slice(0,N,None)") if rng.random() < 0.5 else (slice(0, None, 1), "slice(0,None,1)")
    elif fam == "rbf-slice-openstop-step":
        idx, lab = _rand_slice(rng, N1, "openstop-step")
        while len(range(N1)[idx]) < 2:  # one selected column: the extraction formula is right by accident
            N1 = int(rng.integers(3, 9))
            idx, lab = _rand_slice(rng, N1, "openstop-step")
    elif fam == "rbf-slice-openstart":
        idx, lab = _rand_slice(rng, N1, "openstart")
    elif fam == "rbf-subset-list":
        k = int(rng.integers(1, N1 + 1))
        idx, lab = sorted(rng.choice(N1, size=k, replace=False).tolist()), "list"
        if rng.random() < 0.3:
            idx = list(rng.permutation(idx).tolist())
            lab = "list-unsorted"
    else:  # rbf-subset-fullwidth: a proper subset given as a closed slice (which the constructor handles)
        a = int(rng.integers(0, N1))
        b = int(rng.integers(a + 1, N1 + 1))
        if a == 0 and b == N1:
            b = N1 - 1
        idx, lab = slice(a, b, None), "slice(a,b,None)"
    cols = np.arange(N1)[idx]
    rec.tag("indexes", lab)
    rec.tag("nfeat", N1)
    ls_full = _rand_ls(rng, N1)
    c = float(_logu(rng, 0.05, 20.0))
    kern = get_rbf_kernel(idx, ls_full, scale=c)  # DiffConstantKernel(c) * SubsetRBF(idx, ls_full[idx])
    ctrl = rng.uniform(-1.0, 1.5, size=(nctrl, N1))
    alpha = rng.normal(size=nctrl)
    X = rng.uniform(-1.0, 1.5, size=(n, N1))
    f0, df0 = xe.KernelEvaluator(kern, ctrl, alpha)(X)
    fd, dfd = _rbf_direct(c, ls_full[cols], X[:, cols], ctrl[:, cols], alpha)
    fs, ds = _scales(f0, df0, alpha, c, ls_full)
    off = np.setdiff1d(np.arange(N1), cols)
    rec.check("python_subset_sum_vs_formula", max(_err(f0, fd, fs), _err(df0[:, cols], dfd, ds),
                                                   _err(df0[:, off], 0.0, ds) if off.size else 0.0), TOL_EXACT,
              mechanism="KernelEvaluator:SubsetRBF-vs-formula")
    mech_init = {"rbf-subset-list": "RBFEvaluator.__init__:subset-index-list",
                 "rbf-slice-openstart": "RBFEvaluator.__init__:subset-slice-open-start",
                 "rbf-slice-openstop-step": "RBFEvaluator.__init__:subset-slice-open-stop-with-step"}.get(
                     fam, "RBFEvaluator.__init__:subset-index-extraction")
    ctrl_sub = np.ascontiguousarray(ctrl[:, cols])
    try:
        ev = xe.RBFEvaluator(kern, _relayout(rng, rec, ctrl_sub), alpha)
    except Exception as e:  # the constructor cannot map this (valid) kernel
        rec.require("subset_constructible", False, mechanism=mech_init,
                    detail={"indexes": str(idx), "nfeat": N1, "error": "%s: %s" % (type(e).__name__, e)})
        return
    rec.require("subset_constructible", True, mechanism=mech_init)
    got = np.asarray(ev._indexes)
    ok = got.shape == cols.shape and np.array_equal(got, cols)
    rec.require("subset_index_set", ok, mechanism=mech_init,
                detail={"indexes": str(idx), "nfeat": N1, "expected": cols.tolist(), "extracted": got.tolist()})
    if not ok or ev._nfeat != len(cols) or len(ev._exps) != len(cols):
        return  # calling the C routine with inconsistent widths would read/write out of bounds
    f1, df1, same = _call_prefilled(ev, X, rng, fs, ds, dshape=(n, len(cols)))
    rec.check("subset_value", _err(f1, f0, fs), TOL_EXACT, mechanism="RBFEvaluator:subset:value",
              detail={"indexes": str(idx), "nfeat": N1})
    rec.check("subset_gradient", _err(df1, df0[:, cols], ds), TOL_EXACT, mechanism="RBFEvaluator:subset:gradient",
              detail={"indexes": str(idx), "nfeat": N1})
    if fam in ("rbf-allcols", "rbf-subset-fullwidth"):
        # the interface MappedDFTKernel uses: feval(X1, f, df) with df = zeros_like(X1) (full width)
        try:
            f2, df2, same = _call_prefilled(ev, X, rng, fs, ds)
            e = max(_err(f2, f0, fs), _err(df2, df0, ds))
            rec.check("subset_fullwidth_interface", e, TOL_EXACT, mechanism="RBFEvaluator:subset:full-width-dres",
                      detail={"indexes": str(idx), "nfeat": N1})
        except ValueError as e:
            rec.require("subset_fullwidth_interface_accepts", False, mechanism="RBFEvaluator:subset:full-width-dres",
                        detail={"indexes": str(idx), "nfeat": N1, "error": "ValueError: %s" % e,
                                "note": "MappedDFTKernel passes df = zeros_like(X1); a proper-subset kernel is rejected"})
    if np.max(np.abs(f0)) > 0 and np.max(np.abs(df0)) > 0:
        rec.nontrivial("%s|%s|%d|%d|%d|%.6g" % (fam, idx, N1, n, nctrl, ls_full[0]))
    if rec.sample is None:
        rec.set_sample({"family": fam, "indexes": str(idx), "nfeat": N1, "extracted": got.tolist(),
                        "value_err": _err(f1, f0, fs), "grad_err": _err(df1, df0[:, cols], ds)})


def _cx_antisym(rec, rng):
    from ciderpress.dft import xc_evaluator as xe
    from ciderpress.models.kernel_plans.kernel_tools import get_antisym_rbf_kernel
    N1 = int(rng.integers(3, 9))
    n, nctrl = _pick_sizes(rng, N1)
    ls_in = _rand_ls(rng, N1)
    c = float(_logu(rng, 0.05, 20.0))
    kern = get_antisym_rbf_kernel(ls_in, scale=c)  # averages the first two length scales
    lsk = np.asarray(kern.k2.length_scale)
    rec.require("antisym_length_scale_layout", lsk.shape == (N1 - 1,) and abs(lsk[0] - 0.5 * (ls_in[0] + ls_in[1])) < 1e-15
                and np.array_equal(lsk[1:], ls_in[2:]), mechanism="get_antisym_rbf_kernel:length-scale-layout")
    ctrl = rng.uniform(-1.0, 1.5, size=(nctrl, N1))
    alpha = rng.normal(size=nctrl)
    X = rng.uniform(-1.0, 1.5, size=(n, N1))
    # spin-unpolarised samples and control points: the first two features exactly equal (value 0, gradient not)
    eq = rng.random(n) < 0.25
    X[eq, 1] = X[eq, 0]
    ceq = rng.random(nctrl) < 0.15
    ctrl[ceq, 1] = ctrl[ceq, 0]
    rec.tag("antisym_equal_pair_samples", int(eq.sum()) > 0)
    rec.tag("nfeat", N1)
    rec.tag("nsamp", n)
    rec.tag("nctrl", nctrl)
    f0 = np.zeros(n)
    df0 = np.zeros((n, N1))
    kdef_err = 0.0
    for i0 in range(0, n, 1000):
        K, f0[i0:i0 + 1000], df0[i0:i0 + 1000] = _antisym_direct(c, lsk, X[i0:i0 + 1000], ctrl, alpha)
        Kk = kern(X[i0:i0 + 1000], ctrl)
        kdef_err = max(kdef_err, _err(K, Kk, max(c, float(np.max(np.abs(Kk))))))
    rec.check("antisym_formula_vs_kernel_call", kdef_err, TOL_STRUCT, mechanism="DiffAntisymRBF.__call__-vs-definition")
    # the harness' analytic gradient against a finite difference of the kernel's own __call__ (guards the reference)
    m = min(n, 5)
    h = 1e-4
    j = int(rng.integers(0, N1))
    Xp, Xm = X[:m].copy(), X[:m].copy()
    Xp[:, j] += h
    Xm[:, j] -= h
    fdj = (kern(Xp, ctrl).dot(alpha) - kern(Xm, ctrl).dot(alpha)) / (2 * h)
    fs, ds = _scales(f0, df0, alpha, c, lsk)
    rec.check("antisym_reference_gradient_vs_fd", _err(fdj, df0[:m, j], ds), 1e-5,
              mechanism="harness:antisym-reference-gradient")
    ev = xe.AntisymRBFEvaluator(kern, _relayout(rng, rec, ctrl), alpha)
    f1, df1, same = _call_prefilled(ev, X, rng, fs, ds)
    rec.check("antisym_value", _err(f1, f0, fs), TOL_EXACT, mechanism="AntisymRBFEvaluator:value",
              detail={"nfeat": N1, "n": n, "nctrl": nctrl})
    rec.check("antisym_gradient", _err(df1, df0, ds), TOL_EXACT, mechanism="AntisymRBFEvaluator:gradient",
              detail={"nfeat": N1, "n": n, "nctrl": nctrl})
    # defining property: swapping the first two features flips the sign
    Xs = X.copy()
    Xs[:, [0, 1]] = X[:, [1, 0]]
    f3, _ = ev(Xs)
    rec.check("antisym_swap", _err(f3, -f1, fs), TOL_EXACT, mechanism="AntisymRBFEvaluator:antisymmetry")
    if np.max(np.abs(f0)) > 0 and np.max(np.abs(df0)) > 0:
        rec.nontrivial("antisym|%d|%d|%d|%.6g" % (N1, n, nctrl, lsk[0]))
    if rec.sample is None:
        rec.set_sample({"family": "antisym", "nfeat": N1, "nsamp": n, "nctrl": nctrl, "const": c,
                        "f_ref0": float(f0[0]), "f_C0": float(f1[0]), "value_err": _err(f1, f0, fs),
                        "grad_err": _err(df1, df0, ds)})


def _cx_spin(rec, rng):
    from ciderpress.dft import xc_evaluator as xe
    from ciderpress.models.kernels import DiffConstantKernel, DiffRBF
    N1 = int(rng.integers(1, 9))
    n, nctrl = _pick_sizes(rng, N1)
    ls = _rand_ls(rng, N1, 0.4, 2.5)
    const = rng.random() < 0.8
    c = float(_logu(rng, 0.05, 20.0)) if const else 1.0
    kern = DiffConstantKernel(c) * DiffRBF(ls) if const else DiffRBF(ls)
    C2 = rng.uniform(-1.0, 1.5, size=(2, nctrl, N1))
    alpha = rng.normal(size=nctrl)
    X2 = rng.uniform(-1.0, 1.5, size=(2, n, N1))
    rec.tag("nfeat", N1)
    rec.tag("nsamp", n)
    rec.tag("nctrl", nctrl)
    rec.tag("spin_constant", "c*RBF" if const else "bare RBF")
    f0, df0 = _spin_ref(kern, X2, C2, alpha)
    fs, ds = _scales(f0, df0, alpha, 2 * c * c, ls)
    ev = xe.SpinRBFEvaluator(kern, _relayout(rng, rec, C2), alpha)
    f1, df1, same = _call_prefilled(ev, X2, rng, fs, ds)
    rec.check("spin_value", _err(f1, f0, fs), TOL_EXACT, mechanism="SpinRBFEvaluator:value",
              detail={"nfeat": N1, "n": n, "nctrl": nctrl, "const": c})
    rec.check("spin_gradient", _err(df1, df0, ds), TOL_EXACT, mechanism="SpinRBFEvaluator:gradient",
              detail={"nfeat": N1, "n": n, "nctrl": nctrl, "const": c})
    # spin-label symmetry of the product kernel: exchanging the two channels of the input leaves f unchanged
    f3, df3 = ev(np.ascontiguousarray(X2[::-1]))
    rec.check("spin_label_symmetry", max(_err(f3, f1, fs), _err(df3[::-1], df1, ds)), TOL_EXACT,
              mechanism="SpinRBFEvaluator:spin-symmetry")
    if np.max(np.abs(f0)) > 0 and np.max(np.abs(df0)) > 0:
        rec.nontrivial("spin|%d|%d|%d|%.6g" % (N1, n, nctrl, ls[0]))
    if rec.sample is None:
        rec.set_sample({"family": "spin", "nfeat": N1, "nsamp": n, "nctrl": nctrl, "const": c,
                        "constant_convention": "enters squared (k_aa k_bb), same as DFTKernel POL",
                        "f_ref0": float(f0[0]), "f_C0": float(f1[0]), "value_err": _err(f1, f0, fs),
                        "grad_err": _err(df1, df0, ds)})


def _rand_feature_list(rng, N0):
    from ciderpress.dft import transform_data as td
    maps = []
    for i in range(1, N0):
        r = rng.random()
        g = float(_logu(rng, 0.2, 2.0))
        if r < 0.6:
            maps.append(td.UMap(i, g))
        elif r < 0.8:
            maps.append(td.SignedUMap(i, g))
        else:
            maps.append(td.VMap(i, g, scale=float(rng.uniform(0.5, 2.0)), center=float(rng.uniform(0.0, 0.5))))
    return td.FeatureList(maps)


def _dftk_reference(dk, X0T):
    """alpha . k(X0T) and its raw-feature derivative pushed through the DFTKernel's own baseline."""
    nspin = X0T.shape[0]
    if dk.mode == "POL":
        # get_k_and_deriv of the pinned tree cannot run in POL mode (broadcast error); value from get_k, derivative from
        # the definition k = k_aa k_bb + k_ab k_ba (total derivative w.r.t. the shared channel when nspin == 1)
        f = np.tensordot(dk.alpha, dk.get_k(X0T), axes=1)
        X1 = dk.get_descriptors(X0T, force_polarize=True)
        f2, dfx = _spin_ref(dk.kernel, X1, dk.X1ctrl, dk.alpha)
        dfX1 = dfx if nspin == 2 else (dfx[0] + dfx[1])[None]
        df = dk.apply_descriptor_grad(X0T, dfX1.reshape(-1, dk.N1))
        extra = _err(f, f2, max(float(np.max(np.abs(f))), 1e-300))
    else:
        k, dk0 = dk.get_k_and_deriv(X0T)
        f = np.tensordot(dk.alpha, k, axes=1)
        df = np.tensordot(dk.alpha, dk0, axes=1)
        extra = 0.0
    res, dres = dk.apply_baseline(X0T, f, df)
    if dk.mode == "SEP":
        res = res.sum(0)
    return res, dres, extra


def _cx_dftk(rec, rng, mode):
    from ciderpress.dft import baselines as bl
    from ciderpress.dft import xc_evaluator as xe
    from ciderpress.models.dft_kernel import DFTKernel
    from ciderpress.models.kernel_plans.kernel_tools import get_rbf_kernel
    N0 = int(rng.integers(2, 8))
    fl = _rand_feature_list(rng, N0)
    N1 = fl.nfeat
    nspin = int(rng.integers(1, 3))
    nctrl = int(rng.choice([1, 7, 40]))
    ns = int(rng.choice([1, 30, 400]))
    ls = _rand_ls(rng, N1)
    c = float(_logu(rng, 0.05, 20.0))
    kern = get_rbf_kernel(slice(0, N1), ls, scale=c)
    base = bl.lda_x if rng.random() < 0.7 else bl.gga_x_pbe if N0 > 2 else bl.lda_x
    dk = DFTKernel(kern, fl, mode, base, bl.zero_xc)
    X0T = _logu(rng, 0.05, 8.0, size=(nspin, N0, ns))
    ctrl_raw = _logu(rng, 0.05, 8.0, size=(2 if mode == "POL" else 1, N0, nctrl))
    dk.X1ctrl = np.stack([fl(cr.T.copy()) for cr in ctrl_raw])
    if mode != "POL":
        dk.X1ctrl = dk.X1ctrl[0]
    dk.alpha = rng.normal(size=nctrl)
    rec.tag("mode", mode)
    rec.tag("nspin", nspin)
    cls = xe.SpinRBFEvaluator if mode == "POL" else xe.RBFEvaluator
    mapped = dk.map(lambda d: cls(d.kernel, d.X1ctrl, d.alpha))
    rec.require("map_returns_mapped_kernel", isinstance(mapped, xe.MappedDFTKernel) and mapped.mode == mode
                and mapped.feature_list is fl, mechanism="DFTKernel.map:wiring")
    r0, d0, extra = _dftk_reference(dk, X0T)
    r1, d1 = mapped(X0T)
    # scale: at least 1% of (sum|alpha| * kernel amplitude * baseline), see _scales (a single sample can sit on a zero of f)
    mb = float(np.max(np.abs(dk.multiplicative_baseline(X0T)[0])))
    amp = float(np.sum(np.abs(dk.alpha))) * (2 * c * c if mode == "POL" else c)
    rs = max(float(np.max(np.abs(r0))), 1e-2 * amp * mb, 1e-300)
    dsc = max(float(np.max(np.abs(d0))), 1e-300)
    rec.check("dftkernel_pol_getk_vs_definition", extra, TOL_EXACT, mechanism="DFTKernel.get_k:POL-vs-definition")
    rec.check("dftkernel_map_value[%s]" % mode, _err(r1, r0, rs), TOL_EXACT,
              mechanism="DFTKernel.map:%s:value" % mode, detail={"nspin": nspin, "nfeat": N1, "nctrl": nctrl})
    rec.check("dftkernel_map_gradient[%s]" % mode, _err(d1, d0, dsc), 1e-11,
              mechanism="DFTKernel.map:%s:gradient" % mode, detail={"nspin": nspin, "nfeat": N1, "nctrl": nctrl})
    if rs > 1e-300 and dsc > 1e-300:
        rec.nontrivial("dftk|%s|%d|%d|%d|%d|%.6g" % (mode, nspin, N0, nctrl, ns, ls[0]))
    if rec.sample is None:
        rec.set_sample({"family": "dftk-" + mode, "nspin": nspin, "N0": N0, "nctrl": nctrl, "nsamp": ns,
                        "e_ref0": float(np.ravel(r0)[0]), "e_mapped0": float(np.ravel(r1)[0]),
                        "value_err": _err(r1, r0, rs), "grad_err": _err(d1, d0, dsc)})


# ---------------------------------------------------------------------------------------------
# structural oracles

def _additive_from_definition(k0, dk0, scales_flat, order):
    """K = sum_{o<=order} sum_{S in combinations(d, o)} s_S prod_{i in S} k0_i, with the flattened arbf_args scales in
    the enumeration order used by map_tools; returns K and dK/dx."""
    d = k0.shape[-1]
    K = np.zeros(k0.shape[:2])
    dK = np.zeros(k0.shape)
    t = 0
    for o in range(order + 1):
        for S in itertools.combinations(range(d), o):
            term = np.ones(k0.shape[:2])
            for i in S:
                term = term * k0[..., i]
            K += scales_flat[t] * term
            for i in S:
                p = np.ones(k0.shape[:2])
                for j in S:
                    p = p * (dk0[..., j] if j == i else k0[..., j])
                dK[..., i] += scales_flat[t] * p
            t += 1
    return K, dK, t


def _k0_definition(name, alpha, X, Y, ls):
    """Per-dimension factors from the class docstrings / formulas (independent of the repo routines)."""
    diff = (X[:, None, :] - Y[None, :, :])
    if name in ("DiffARBF", "DiffARBFV2", "SubsetARBF"):
        k0 = np.exp(-0.5 * (diff / ls) ** 2)
        dk0 = -diff / ls ** 2 * k0
    elif name in ("DiffAddRQ", "SubsetAddRQ"):
        base = 1 + diff ** 2 / (2 * alpha * ls ** 2)
        k0 = base ** (-alpha)
        dk0 = -diff / ls ** 2 * base ** (-alpha - 1)
    else:  # linear-times-RBF: (1 + x y / (alpha l^2)) exp(-(x-y)^2 / (2 l^2))
        e = np.exp(-0.5 * (diff / ls) ** 2)
        dot = 1 + X[:, None, :] * Y[None, :, :] / (alpha * ls ** 2)
        k0 = dot * e
        dk0 = -diff / ls ** 2 * e * dot + Y[None, :, :] / (alpha * ls ** 2) * e
    return k0, dk0


def _run_st(case, rec, rng):
    from ciderpress.models import kernels as K
    fam = case["family"]
    for _ in range(case["ndraw"]):
        d = int(rng.integers(1, 7))
        order = int(rng.integers(1, min(3, d) + 1)) if rng.random() < 0.9 else int(rng.integers(1, 4))
        ls = _logu(rng, 0.25, 2.5, size=d)
        sc = list(map(float, _logu(rng, 1e-3, 5.0, size=order + 1)))
        al = float(_logu(rng, 0.3, 4.0))
        X = rng.uniform(-1.5, 1.5, size=(int(rng.integers(1, 25)), d))
        Y = rng.uniform(-1.5, 1.5, size=(int(rng.integers(1, 20)), d))
        rec.tag("order", order)
        rec.tag("ndim", d)
        if fam.startswith("k0map:"):
            name = fam.split(":")[1]
            kw = {} if name == "DiffARBFV2" else {"alpha": al}
            kern = getattr(K, name)(order=order, length_scale=ls, scale=sc, **kw)
            k0e = kern._get_k0_dk0_eval(X, Y, True)[0]
            k0t = kern._get_k0_dk0_train(X, Y, False)[0]
            k0m = np.stack([kern.get_k0_for_mapping(X[:, i], Y[:, i], ls[i]) for i in range(d)], axis=-1)
            k0d, _ = _k0_definition(name, al, X, Y, ls)
            s = max(1.0, float(np.max(np.abs(k0d))))
            rec.check("k0_eval_vs_definition", max(_err(k0e, k0d, s), _err(k0t, k0d, s)), TOL_STRUCT,
                      mechanism="%s._get_k0_dk0_eval" % name)
            rec.check("k0_for_mapping_vs_kernel_factor", _err(k0m, k0e, s), TOL_STRUCT,
                      mechanism="%s.get_k0_for_mapping" % name,
                      detail={"length_scale": ls.tolist(), "max_abs_diff": float(np.max(np.abs(k0m - k0e)))})
            rec.nontrivial("%s|%d|%.6g" % (fam, d, ls[0]))
            if rec.sample is None:
                rec.set_sample({"family": fam, "ndim": d, "length_scale": ls.tolist(),
                                "k0_mapping_00": float(k0m[0, 0, 0]), "k0_kernel_00": float(k0e[0, 0, 0])})
            continue
        subset = fam.startswith("Subset")
        base = {"SubsetARBF": "DiffARBF", "SubsetAddRQ": "DiffAddRQ", "SubsetAddLLRBF": "DiffAddLLRBF"}.get(fam, fam)
        kw = {} if base in ("DiffARBF", "DiffARBFV2") else {"alpha": al}
        if subset:
            N = d + int(rng.integers(0, 4))
            cols = sorted(rng.choice(N, size=d, replace=False).tolist())
            if rng.random() < 0.4:
                a = int(rng.integers(0, N - d + 1))
                idx = slice(a, a + d)
                cols = list(range(a, a + d))
            else:
                idx = cols
            kern = getattr(K, fam)(idx, order=order, length_scale=ls, scale=sc, **kw)
            XF = rng.uniform(-1.5, 1.5, size=(X.shape[0], N))
            YF = rng.uniform(-1.5, 1.5, size=(Y.shape[0], N))
            X, Y = XF[:, cols], YF[:, cols]
        else:
            N, cols = d, list(range(d))
            kern = getattr(K, fam)(order=order, length_scale=ls, scale=sc, **kw)
            XF, YF = X, Y
        ndim, lsa, sflat, oa = K.arbf_args(kern)
        rec.require("arbf_args_layout", ndim == d and oa == order and np.array_equal(lsa, ls)
                    and len(sflat) == sum(len(list(itertools.combinations(range(d), o))) for o in range(order + 1)),
                    mechanism="arbf_args:layout")
        if order == 2:
            q = K.qarbf_args(kern)
            rec.require("qarbf_args_vs_arbf_args", q[0] == ndim and np.array_equal(q[1], lsa) and list(q[2]) == list(sflat),
                        mechanism="qarbf_args:layout")
        k0, dk0 = _k0_definition(base, al, X, Y, ls)
        Kd, dKd, t = _additive_from_definition(k0, dk0, sflat, order)
        Kc = kern(XF, YF)
        Kk, dKk = kern.k_and_deriv(XF, YF)
        s = max(float(np.max(np.abs(Kd))), 1e-300)
        dsn = max(float(np.max(np.abs(dKd))), 1e-3 * s)
        dfull = np.zeros(Kd.shape + (N,))
        dfull[..., cols] = dKd
        rec.check("additive_definition_vs_call", _err(Kc, Kd, s), TOL_ADDITIVE, mechanism="%s.__call__-vs-definition" % fam,
                  detail={"order": order, "ndim": d})
        rec.check("additive_definition_vs_k_and_deriv", max(_err(Kk, Kd, s), _err(dKk, dfull, dsn)), TOL_ADDITIVE,
                  mechanism="%s.k_and_deriv-vs-definition" % fam, detail={"order": order, "ndim": d})
        rec.nontrivial("%s|%d|%d|%.6g" % (fam, d, order, ls[0]))
        if rec.sample is None:
            rec.set_sample({"family": fam, "ndim": d, "order": order, "scale": sc, "n_terms": t,
                            "K_definition_00": float(Kd[0, 0]), "K_call_00": float(Kc[0, 0])})


# ---------------------------------------------------------------------------------------------
# spline-mapped evaluators

def _rand_bounds(rng, N1):
    """FeatureList whose maps carry random finite bounds; returns the list and the (lo, hi) arrays."""
    from ciderpress.dft import transform_data as td
    maps, lo, hi = [], [], []
    for i in range(N1):
        r = rng.random()
        if r < 0.15:
            m = td.UMap(i + 1, float(_logu(rng, 0.2, 2.0)))  # default bounds (0, 1)
        elif r < 0.3:
            m = td.SignedUMap(i + 1, float(_logu(rng, 0.2, 2.0)))  # (-1, 1)
        elif r < 0.6:
            sc, ce = float(rng.uniform(0.6, 2.0)), float(rng.uniform(0.0, 0.6))
            m = td.VMap(i + 1, float(_logu(rng, 0.2, 2.0)), scale=sc, center=ce)  # (-center, scale - center)
        else:
            a = float(rng.uniform(-1.0, 0.5))
            m = td.UMap(i + 1, float(_logu(rng, 0.2, 2.0)), bounds=(a, a + float(rng.uniform(0.6, 2.5))))
        maps.append(m)
        lo.append(m.bounds[0])
        hi.append(m.bounds[1])
    return td.FeatureList(maps), np.array(lo, dtype=float), np.array(hi, dtype=float)


def _build_spline_kernel(fam, rng):
    """Returns dict(kernel, N1, cols (features the kernel reads, in kernel order), maxdim, mapper)."""
    from ciderpress.models import kernels as K
    order = {"arbf-o1": 1, "arbf-o2": 2, "arbf-o3": 3}.get(fam)
    if fam == "rbf-simple":
        N1 = int(rng.choice([1, 2, 3, 4], p=[0.2, 0.35, 0.35, 0.1]))
        cols = list(range(N1))
        mk = lambda ls: K.DiffConstantKernel(float(_logu(rng, 0.05, 20.0))) * K.DiffRBF(ls)
        return dict(N1=N1, cols=cols, maxdim=N1, make=mk, mapper="simple", label="c*DiffRBF")
    if fam == "subrbf-simple":
        N1 = int(rng.integers(2, 7))
        k = int(rng.integers(1, min(3, N1) + 1))
        if rng.random() < 0.5:
            a = int(rng.integers(0 if rng.random() < 0.2 else 1, N1 - k + 1)) if N1 > k else 0
            idx, cols = slice(a, a + k), list(range(a, a + k))
        else:
            cols = rng.choice(N1, size=k, replace=False).tolist()
            idx = cols
        mk = lambda ls: K.DiffConstantKernel(float(_logu(rng, 0.05, 20.0))) * K.SubsetRBF(idx, length_scale=ls)
        return dict(N1=N1, cols=cols, maxdim=k, make=mk, mapper="simple",
                    label="c*SubsetRBF[%s]" % ("slice" if isinstance(idx, slice) else "list"))
    if fam in ("arbf-o1", "arbf-o2", "arbf-o3", "addrq", "addllrbf"):
        N1 = int(rng.integers(max(2, order or 1), 6))
        k = int(rng.integers(max(2, order or 1), N1 + 1))
        if fam in ("addrq", "addllrbf"):
            order = int(rng.integers(1, min(3, k) + 1))
        r = rng.random()
        if r < 0.35:
            k = N1
            idx, cols = slice(0, None), list(range(N1))
        elif r < 0.6:
            a = int(rng.integers(0, N1 - k + 1))
            idx, cols = slice(a, a + k), list(range(a, a + k))
        else:
            cols = rng.choice(N1, size=k, replace=False).tolist()
            idx = cols
        sc = list(map(float, _logu(rng, 0.05, 3.0, size=order + 1)))
        al = float(_logu(rng, 0.4, 4.0))
        cls = {"addrq": K.SubsetAddRQ, "addllrbf": K.SubsetAddLLRBF}.get(fam, K.SubsetARBF)
        kw = {"alpha": al} if fam in ("addrq", "addllrbf") else {}
        mk = lambda ls: cls(idx, order=order, length_scale=ls, scale=sc, **kw)
        return dict(N1=N1, cols=cols, maxdim=order, make=mk, mapper="additive", order=order,
                    label="%s(order=%d)[%s]" % (cls.__name__, order, "slice" if isinstance(idx, slice) else "list"))
    if fam in ("prod-srbf-arbf", "prod-srbf-addrq"):
        ns = 1 if rng.random() < 0.75 else 2
        order = int(rng.integers(1, 3))
        if ns + order > 3 and rng.random() < 0.7:
            order = 1
        N1 = int(rng.integers(ns + 2, 7))
        perm = rng.permutation(N1).tolist() if rng.random() < 0.5 else list(range(N1))
        na = int(rng.integers(2, N1 - ns + 1))
        if perm == list(range(N1)) and rng.random() < 0.6:
            sidx, aidx = slice(0, ns, None), slice(ns, None, None)  # the layout of arbf_exchange.get_kernel
            scols, acols = list(range(ns)), list(range(ns, N1))
        else:
            scols, acols = perm[:ns], perm[ns:ns + na]
            sidx, aidx = scols, acols
        sc = list(map(float, _logu(rng, 0.05, 3.0, size=order + 1)))
        if fam == "prod-srbf-arbf":
            mk = lambda ls: K.SubsetRBF(sidx, length_scale=ls[:ns]) * K.SubsetARBF(aidx, order=order, length_scale=ls[ns:],
                                                                                  scale=sc)
        else:
            mk = lambda ls: K.SubsetRBF(sidx, length_scale=ls[:ns]) * K.SubsetAddRQ(aidx, order=order, alpha=1.3,
                                                                                   length_scale=ls[ns:], scale=sc)
        return dict(N1=N1, cols=scols + acols, maxdim=ns + order, make=mk, mapper="additive", order=order, nsingle=ns,
                    label="SubsetRBF(%d)*%s(order=%d)" % (ns, "SubsetARBF" if fam == "prod-srbf-arbf" else "SubsetAddRQ", order))
    raise ValueError(fam)


def _densities(maxdim, u, nctrl):
    """Densities whose largest tensor grid stays affordable: prod(density*u_i + 1) over the maxdim widest dims."""
    out = []
    us = np.sort(u)[::-1][:maxdim]
    for d in (4, 8, 16, 32, 64):
        size = float(np.prod(np.floor(d * us) + 1))
        chunk = nctrl if maxdim <= 2 else min(nctrl, 200) if maxdim == 3 else min(nctrl, 20)  # project_kernel_onto_grid
        if size * chunk <= 1.2e7 and size <= 5e5:
            out.append(d)
    return out


def _map(info, kern, ctrl, alpha, fl, density=None):
    from ciderpress.dft.xc_evaluator import SplineSetEvaluator
    from ciderpress.models.kernel_plans import map_tools as mt
    with _quiet():
        if info["mapper"] == "simple":
            if density is None:
                args = mt.get_mapped_gp_evaluator_simple(kern, ctrl, alpha, fl)
            else:
                args = mt.get_mapped_gp_evaluator_simple(kern, ctrl, alpha, fl, rbf_density=density, max_ngrid=10 ** 6)
        else:
            if density is None:
                args = mt.get_mapped_gp_evaluator_additive(kern, ctrl, alpha, fl)
            else:
                args = mt.get_mapped_gp_evaluator_additive(kern, ctrl, alpha, fl, srbf_density=density,
                                                           arbf_density=density, max_ngrid=10 ** 6)
    return SplineSetEvaluator(*args)


def _node_points(ev, N1, lo, hi, rng, n):
    """Points whose every mapped coordinate is a node of that coordinate's spline grid (interpolation is exact there)."""
    g = {}
    consistent = True
    for inds, grid in zip(ev.ind_sets, ev.spline_grids):
        for i, dspec in zip(inds, grid):
            dspec = (float(dspec[0]), float(dspec[1]), int(dspec[2]))
            if int(i) in g and g[int(i)] != dspec:
                consistent = False
            g[int(i)] = dspec
    X = lo + (hi - lo) * rng.uniform(size=(n, N1))
    for i, (a, b, m) in g.items():
        X[:, i] = np.linspace(a, b, m)[rng.integers(0, m, size=n)]
    return X, g, consistent


def _sp_cluster(rec, rng, fam):
    """Length scales far below the feature range (range / l = 14 ... 30; the package minimum is 0.01) with all control points
    in the middle fifth of every bound interval: the mapped function must still be the GP function over the whole domain,
    where power-law kernel tails (rational quadratic) are far from negligible."""
    from ciderpress.dft import xc_evaluator as xe
    info = _build_spline_kernel(fam, rng)
    N1, cols, maxdim = info["N1"], info["cols"], info["maxdim"]
    if maxdim > 2:
        return
    fl, lo, hi = _rand_bounds(rng, N1)
    ran = hi - lo
    u = _logu(rng, 14.0, 30.0 if maxdim == 1 else 20.0, size=len(cols))
    kern = info["make"](ran[cols] / u)
    nctrl = 24
    ctrl = lo + ran * (0.4 + 0.2 * rng.uniform(size=(nctrl, N1)))
    alpha = rng.normal(size=nctrl)
    kev = xe.KernelEvaluator(kern, ctrl, alpha)
    X = lo + ran * rng.uniform(size=(800, N1))
    X[:200] = lo + ran * (0.35 + 0.3 * rng.uniform(size=(200, N1)))
    f, df = kev(X)
    fs, ds = max(float(np.max(np.abs(f))), 1e-300), max(float(np.max(np.abs(df))), 1e-300)
    mech = "map_tools.%s[%s,clustered]" % (info["mapper"], fam)
    ev = _map(info, kern, ctrl, alpha, fl, density=8)
    _, g, consistent = _node_points(ev, N1, lo, hi, rng, 2)
    rec.require("spline_grids_cover_bounds", consistent and all(
        abs(g[i][0] - lo[i]) < 1e-12 and abs(g[i][1] - hi[i]) < 1e-12 for i in g), mechanism=mech + ":grid-bounds")
    f1, d1 = ev(X)
    det = {"kernel": info["label"], "u": u.tolist()}
    rec.check("spline_value_clustered_controls", _err(f1, f, fs), BOUND_VAL_CLUSTER, mechanism=mech + ":spline-bound-value", detail=det)
    rec.check("spline_gradient_clustered_controls", _err(d1, df, ds), BOUND_GRAD_CLUSTER, mechanism=mech + ":spline-bound-gradient",
              detail=det)
    rec.tag("control_points", "clustered,range/l=%d" % int(np.max(u)))
    rec.nontrivial("cluster|%s|%s" % (info["label"], np.round(u, 3).tolist()))


def _run_sp(case, rec, rng):
    fam = case["family"]
    if fam in ("rbf-simple", "subrbf-simple", "arbf-o1", "arbf-o2", "addrq", "addllrbf"):
        for d in range(2):
            _sp_cluster(rec, rng, fam)
    for d in range(case["ndraw"]):
        if fam in ("linear", "linear-nctrl"):
            _sp_linear(rec, rng, general=fam == "linear-nctrl")
        elif fam == "splineset-exact":
            _sp_splineset_exact(rec, rng)
        elif fam == "plan-arbf-exchange":
            _sp_plan(rec, rng)
        elif fam == "prod-srbf-addrq":
            _sp_unsupported(rec, rng)
        else:
            _sp_kernel(rec, rng, fam)


def _sp_kernel(rec, rng, fam):
    from ciderpress.dft import xc_evaluator as xe
    info = _build_spline_kernel(fam, rng)
    N1, cols, maxdim = info["N1"], info["cols"], info["maxdim"]
    fl, lo, hi = _rand_bounds(rng, N1)
    ran = hi - lo
    # length scales relative to the bound interval: u = range / length_scale in [0.7, umax]
    umax = {1: 6.0, 2: 5.0, 3: 3.0}.get(maxdim, 1.5)
    u = _logu(rng, 0.7, umax, size=len(cols))
    ls = ran[cols] / u
    kern = info["make"](ls)
    nctrl = int(rng.choice([5, 20, 60, 200], p=[0.2, 0.3, 0.3, 0.2]))
    if maxdim >= 4:
        nctrl = min(nctrl, 60)
    ctrl = lo + ran * rng.uniform(size=(nctrl, N1))
    if rng.random() < 0.5:  # include control points on the boundary of the domain
        ctrl[0] = lo
        ctrl[-1] = hi
    if nctrl >= 5 and rng.random() < 0.5:
        # exactly repeated control points with independent weights (unreduced control sets, both spin channels of closed-shell
        # data, the same sample from two systems): the mapped function is still sum_a k(x, x_a) alpha_a - added after a
        # seeded "merge coincident points" step in the spline mappers that kept only one weight per repeated row
        ndup = max(1, nctrl // 4)
        src = rng.choice(nctrl, size=ndup, replace=False)
        dst = np.array([t for t in rng.permutation(nctrl) if t not in set(src.tolist())][:ndup], dtype=int)
        ctrl[dst] = ctrl[src[: len(dst)]]
        rec.tag("repeated_control_points", True)
    alpha = rng.normal(size=nctrl)
    rec.tag("kernel", info["label"])
    rec.tag("term_dim", maxdim)
    rec.tag("nfeat", N1)
    rec.tag("nctrl", nctrl)
    kev = xe.KernelEvaluator(kern, ctrl, alpha)
    npts = 1500
    XF = lo + ran * rng.uniform(size=(npts, N1))
    XF[: 2 * N1] = np.where(rng.random(size=(2 * N1, N1)) < 0.5, lo, hi)  # corners of the domain
    XI = lo + ran * (0.25 + 0.5 * rng.uniform(size=(npts, N1)))
    fF, dF = kev(XF)
    fI, dI = kev(XI)
    fs = max(float(np.max(np.abs(fF))), 1e-300)
    ds = max(float(np.max(np.abs(dF))), 1e-300)
    dens = _densities(maxdim, u, nctrl)
    rec.tag("densities", dens)
    errs = {}
    mech = "map_tools.%s[%s]" % (info["mapper"], fam)
    for dn in [None] + dens:
        ev = _map(info, kern, ctrl, alpha, fl, density=dn)
        # structural: every term reads features the kernel reads; scales/ind_sets consistent
        used = sorted(set(int(i) for s in ev.ind_sets for i in s))
        rec.require("spline_index_sets", used == sorted(cols) and all(len(s) <= maxdim for s in ev.ind_sets),
                    mechanism=mech + ":index-sets", detail={"ind_sets": [list(map(int, s)) for s in ev.ind_sets],
                                                            "kernel_columns": cols})
        XN, g, consistent = _node_points(ev, N1, lo, hi, rng, 300)
        rec.require("spline_grids_cover_bounds", consistent and all(
            abs(g[i][0] - lo[i]) < 1e-12 and abs(g[i][1] - hi[i]) < 1e-12 for i in g), mechanism=mech + ":grid-bounds")
        fN, _ = kev(XN)
        pre = rng.normal(size=XN.shape[0]) * fs
        pred = rng.normal(size=XN.shape) * ds
        r, dr = pre.copy(), pred.copy()
        ev(XN, r, dr)
        rec.check("spline_node_exact", _err(r - pre, fN, max(fs, float(np.max(np.abs(fN))))), TOL_NODE,
                  mechanism=mech + ":spline-node-value",
                  detail={"kernel": info["label"], "density": dn or "default", "nctrl": nctrl})
        off = np.setdiff1d(np.arange(N1), cols)
        if off.size:
            rec.require("spline_untouched_columns", np.array_equal(dr[:, off], pred[:, off]),
                        mechanism=mech + ":writes-unmapped-column")
        # the mapped evaluator is what a user stores and runs later: its dict form is the same function
        try:
            ev2 = type(ev).from_dict(ev.to_dict())
            r2, dr2 = pre.copy(), pred.copy()
            ev2(XN, r2, dr2)
            rec.check("spline_stored_form_same_function",
                      max(_err(r2, r, max(fs, float(np.max(np.abs(r))))), _err(dr2, dr, max(ds, float(np.max(np.abs(dr)))))),
                      1e-12, mechanism=mech + ":stored-form",
                      detail={"kernel": info["label"], "ind_sets": [list(map(int, s)) for s in ev.ind_sets]})
        except Exception as e:  # noqa: BLE001
            rec.require("spline_stored_form_same_function", False, mechanism=mech + ":stored-form",
                        detail={"exc": repr(e)[:300]})
        f1, d1 = ev(XF)
        f2, d2 = ev(XI)
        errs[dn] = (_err(f1, fF, fs), _err(d1, dF, ds), _err(f2, fI, fs), _err(d2, dI, ds))
    e0 = errs[None]
    rec.check("spline_value_at_default_density", e0[0], BOUND_VAL_D8, mechanism=mech + ":spline-bound-value",
              detail={"kernel": info["label"], "u": u.tolist()})
    rec.check("spline_gradient_at_default_density", e0[1], BOUND_GRAD_D8, mechanism=mech + ":spline-bound-gradient",
              detail={"kernel": info["label"], "u": u.tolist()})
    rec.check("spline_value_interior_at_default_density", e0[2], BOUND_VAL_INT_D8, mechanism=mech + ":spline-bound-value",
              detail={"kernel": info["label"], "u": u.tolist()})
    rec.check("spline_gradient_interior_at_default_density", e0[3], BOUND_GRAD_INT_D8,
              mechanism=mech + ":spline-bound-gradient", detail={"kernel": info["label"], "u": u.tolist()})
    nconv = 0
    for a, b in zip(dens[:-1], dens[1:]):
        ea, eb = errs[a], errs[b]
        det = {"kernel": info["label"], "densities": [a, b], "errors": {str(k): list(v) for k, v in errs.items()}}
        if ea[0] > FLOOR_FULL:
            rec.check("spline_convergence_value_full", eb[0] / ea[0], RATIO_VAL_FULL,
                      mechanism=mech + ":spline-convergence-value", detail=det)
            nconv += 1
        if ea[1] > FLOOR_FULL:
            rec.check("spline_convergence_gradient_full", eb[1] / ea[1], RATIO_GRAD_FULL,
                      mechanism=mech + ":spline-convergence-gradient", detail=det)
        if a >= 8:  # interior rates are asymptotic: the boundary layer must have decayed inside the central box
            if ea[2] > FLOOR_INT:
                rec.check("spline_convergence_value_interior", eb[2] / ea[2], RATIO_VAL_INT,
                          mechanism=mech + ":spline-convergence-value", detail=det)
            if ea[3] > FLOOR_INT:
                rec.check("spline_convergence_gradient_interior", eb[3] / ea[3], RATIO_GRAD_INT,
                          mechanism=mech + ":spline-convergence-gradient", detail=det)
    if dens and dens[-1] >= 32:
        rec.check("spline_value_interior_top_density", errs[dens[-1]][2], BOUND_VAL_INT_TOP,
                  mechanism=mech + ":spline-convergence-value", detail={"kernel": info["label"], "density": dens[-1]})
        rec.check("spline_gradient_interior_top_density", errs[dens[-1]][3], BOUND_GRAD_INT_TOP,
                  mechanism=mech + ":spline-convergence-gradient", detail={"kernel": info["label"], "density": dens[-1]})
    if len(dens) >= 3 and nconv >= 2 and fs > 1e-300 and ds > 1e-300:
        rec.nontrivial("%s|%s|%d|%d|%.6g" % (fam, info["label"], N1, nctrl, ls[0]))
    if rec.sample is None:
        rec.set_sample({"family": fam, "kernel": info["label"], "nfeat": N1, "nctrl": nctrl, "range_over_ls": u.tolist(),
                        "errors[density]=(val_full,grad_full,val_int,grad_int)": {str(k): list(v) for k, v in errs.items()}})


def _sp_plan(rec, rng):
    """The repository's own plan: arbf_exchange.get_kernel + mapping_plan through DFTKernel.map (default density)."""
    from ciderpress.dft import baselines as bl
    from ciderpress.dft import transform_data as td
    from ciderpress.dft import xc_evaluator as xe
    from ciderpress.models.dft_kernel import DFTKernel
    from ciderpress.models.kernel_plans import arbf_exchange as ax
    N0 = int(rng.integers(4, 6))
    fl = td.FeatureList([td.UMap(i, float(_logu(rng, 0.2, 2.0))) for i in range(1, N0)])
    N1 = fl.nfeat
    mode = "SEP" if rng.random() < 0.5 else "NPOL"
    nspin = int(rng.integers(1, 3))
    with _quiet():
        kern = ax.get_kernel(natural_scale=float(_logu(rng, 0.1, 5.0)), natural_lscale=_logu(rng, 0.3, 1.2, size=N1),
                             scale_factor=float(_logu(rng, 0.5, 2.0)), lscale_factor=float(rng.uniform(0.8, 1.25)))
    nctrl = int(rng.choice([10, 40, 120]))
    dk = DFTKernel(kern, fl, mode, bl.lda_x, bl.zero_xc)
    dk.X1ctrl = fl(_logu(rng, 0.02, 20.0, size=(nctrl, N0)))
    dk.alpha = rng.normal(size=nctrl)
    with _quiet():
        mapped = dk.map(ax.mapping_plan)
    ev = mapped.fevals[0]
    rec.tag("kernel", "arbf_exchange.get_kernel")
    rec.tag("mode", mode)
    rec.require("plan_evaluator_type", isinstance(ev, xe.SplineSetEvaluator) and len(ev.ind_sets) == 1 + (N1 - 1) + (N1 - 1) * (N1 - 2) // 2,
                mechanism="arbf_exchange.mapping_plan:terms")
    X0T = _logu(rng, 0.02, 20.0, size=(nspin, N0, 600))
    r0, d0, _ = _dftk_reference(dk, X0T)
    r1, d1 = mapped(X0T)
    # error of the ML factor itself (f, before the baseline) on the transformed features
    X1 = dk.get_descriptors(X0T)
    f0, g0 = xe.KernelEvaluator(kern, dk.X1ctrl, dk.alpha)(X1)
    f1, g1 = ev(X1)
    fs = max(float(np.max(np.abs(f0))), 1e-300)
    gs = max(float(np.max(np.abs(g0))), 1e-300)
    rec.check("spline_value_at_default_density", _err(f1, f0, fs), BOUND_VAL_D8,
              mechanism="arbf_exchange.mapping_plan:spline-bound-value")
    rec.check("spline_gradient_at_default_density", _err(g1, g0, gs), BOUND_GRAD_D8,
              mechanism="arbf_exchange.mapping_plan:spline-bound-gradient")
    XN, g, consistent = _node_points(ev, N1, np.zeros(N1), np.ones(N1), rng, 300)
    fN, _ = xe.KernelEvaluator(kern, dk.X1ctrl, dk.alpha)(XN)
    rec.check("spline_node_exact", _err(ev(XN)[0], fN, max(fs, float(np.max(np.abs(fN))))), TOL_NODE,
              mechanism="arbf_exchange.mapping_plan:spline-node-value")
    # energy density through the baseline: e = sum_s f_s m_s, so |e_mapped - e_ref| <= max|df| sum_s |m_s| pointwise
    m = np.abs(np.asarray(dk.multiplicative_baseline(X0T)[0]))
    msum = m.sum(0) if m.ndim == 2 else m
    rec.check("plan_energy_at_default_density", float(np.max(np.abs(r1 - r0) / (msum * fs + 1e-300))), BOUND_VAL_D8,
              mechanism="arbf_exchange.mapping_plan:energy")
    rec.nontrivial("plan|%s|%d|%d|%d|%.6g" % (mode, nspin, N0, nctrl, dk.alpha[0]))
    if rec.sample is None:
        rec.set_sample({"family": "plan-arbf-exchange", "mode": mode, "nspin": nspin, "nfeat": N1, "nctrl": nctrl,
                        "value_err": _err(f1, f0, fs), "grad_err": _err(g1, g0, gs), "scale": list(map(float, ev.scale))})


def _sp_linear(rec, rng, general=False):
    from ciderpress.dft import xc_evaluator as xe
    from ciderpress.models.kernel_plans import map_tools as mt
    from ciderpress.models.kernels import DiffLinearKernel
    N1 = int(rng.integers(1, 9))
    kern = DiffLinearKernel()
    ctrl = rng.normal(size=(N1, N1))  # a linear kernel has rank nfeat: nctrl == nfeat after control-point reduction
    alpha = rng.normal(size=N1)
    X = rng.normal(size=(int(rng.choice([1, 50, 2500])), N1))
    ev = mt.get_mapped_gp_evaluator_linear(kern, ctrl, alpha)
    f0, d0 = xe.KernelEvaluator(kern, ctrl, alpha)(X)
    fs = max(float(np.max(np.abs(f0))), 1e-2 * float(np.sum(np.abs(alpha))) * float(np.max(np.abs(ctrl))) * float(np.max(np.abs(X))))
    ds = max(float(np.max(np.abs(d0))), 1e-300)
    f1, d1, same = _call_prefilled(ev, X, rng, fs, ds)
    rec.tag("kernel", "DiffLinearKernel")
    rec.check("linear_value", _err(f1, f0, fs), TOL_EXACT, mechanism="map_tools.linear:value")
    rec.check("linear_gradient", _err(d1, d0, ds), TOL_EXACT, mechanism="map_tools.linear:gradient")
    rec.nontrivial("linear|%d|%d|%.6g" % (N1, X.shape[0], alpha[0]))
    if rec.sample is None:
        rec.set_sample({"family": "linear", "nfeat": N1, "value_err": _err(f1, f0, fs), "grad_err": _err(d1, d0, ds)})
    if not general:
        return
    # general number of control points (f = sum_a (x . x_a) alpha_a is defined for any nctrl)
    nctrl = int(rng.integers(N1 + 1, N1 + 30))
    ctrl2 = rng.normal(size=(nctrl, N1))
    alpha2 = rng.normal(size=nctrl)
    try:
        ev2 = mt.get_mapped_gp_evaluator_linear(kern, ctrl2, alpha2)
        g0, h0 = xe.KernelEvaluator(kern, ctrl2, alpha2)(X)
        g1, h1 = ev2(X)
        rec.check("linear_general_nctrl", max(_err(g1, g0, max(float(np.max(np.abs(g0))), 1e-300)),
                                              _err(h1, h0, max(float(np.max(np.abs(h0))), 1e-300))), TOL_EXACT,
                  mechanism="map_tools.linear:nctrl!=nfeat")
    except AssertionError as e:
        rec.require("linear_general_nctrl_accepted", False, mechanism="map_tools.linear:nctrl!=nfeat",
                    detail={"nfeat": N1, "nctrl": nctrl, "error": "AssertionError %s" % e})


def _sp_unsupported(rec, rng):
    """SubsetRBF * SubsetAddRQ is announced by the isinstance assert of get_mapped_gp_evaluator_additive but refused a few
    lines later (assert srbf is None).  A refusal is not a wrong function: recorded as coverage; if a tree accepts it,
    the result must be the kernel sum at the nodes."""
    from ciderpress.dft import xc_evaluator as xe
    info = _build_spline_kernel("prod-srbf-addrq", rng)
    N1, cols = info["N1"], info["cols"]
    fl, lo, hi = _rand_bounds(rng, N1)
    ran = hi - lo
    ls = ran[cols] / _logu(rng, 0.7, 1.6, size=len(cols))
    kern = info["make"](ls)
    ctrl = lo + ran * rng.uniform(size=(12, N1))
    alpha = rng.normal(size=12)
    try:
        ev = _map(info, kern, ctrl, alpha, fl, density=4)
    except AssertionError:
        rec.tag("SubsetRBF*SubsetAddRQ", "refused (AssertionError)")
        rec.require("product_with_addrq_refused_or_exact", True, mechanism="map_tools.additive[prod-srbf-addrq]")
        return
    rec.tag("SubsetRBF*SubsetAddRQ", "mapped")
    XN, g, _ = _node_points(ev, N1, lo, hi, rng, 200)
    fN, _ = xe.KernelEvaluator(kern, ctrl, alpha)(XN)
    rec.check("spline_node_exact", _err(ev(XN)[0], fN, max(float(np.max(np.abs(fN))), 1e-300)), TOL_NODE,
              mechanism="map_tools.additive[prod-srbf-addrq]:spline-node-value")


def _sp_splineset_exact(rec, rng):
    """SplineSetEvaluator with hand-made terms: natural cubic splines reproduce multilinear functions exactly, so
    sum_t s_t prod_{i in S_t} (a_ti + b_ti x_i) + const must come back to rounding, value and gradient, with
    overlapping index sets and pre-filled buffers."""
    from interpolation.splines import UCGrid, filter_cubic

    from ciderpress.dft.xc_evaluator import SplineSetEvaluator
    N1 = int(rng.integers(2, 7))
    nterm = int(rng.integers(1, 7))
    lo = rng.uniform(-1.0, 0.0, size=N1)
    hi = lo + rng.uniform(0.5, 2.5, size=N1)
    ngr = rng.integers(3, 12, size=N1)
    scale, ind_sets, grids, coefs, ab = [], [], [], [], []
    for t in range(nterm):
        k = int(rng.integers(1, min(4, N1) + 1))
        S = rng.choice(N1, size=k, replace=False).tolist()
        a = rng.normal(size=k)
        b = rng.normal(size=k)
        dims = [(float(lo[i]), float(hi[i]), int(ngr[i])) for i in S]
        vals = np.ones([int(ngr[i]) for i in S])
        for p, i in enumerate(S):
            shape = [1] * k
            shape[p] = int(ngr[i])
            vals = vals * (a[p] + b[p] * np.linspace(lo[i], hi[i], int(ngr[i]))).reshape(shape)
        gd = UCGrid(*dims)
        grids.append(gd)
        coefs.append(filter_cubic(gd, vals))
        scale.append(float(rng.normal()))
        ind_sets.append(S)
        ab.append((a, b))
    const = float(rng.normal())
    ev = SplineSetEvaluator(scale, ind_sets, grids, coefs, const)
    n = int(rng.choice([1, 40, 700]))
    X = lo + (hi - lo) * rng.uniform(size=(n, N1))
    f0 = np.full(n, const)
    d0 = np.zeros((n, N1))
    for t in range(nterm):
        a, b = ab[t]
        fac = [a[p] + b[p] * X[:, i] for p, i in enumerate(ind_sets[t])]
        f0 += scale[t] * np.prod(fac, axis=0)
        for p, i in enumerate(ind_sets[t]):
            others = [fac[q] for q in range(len(fac)) if q != p]
            d0[:, i] += scale[t] * b[p] * (np.prod(others, axis=0) if others else 1.0)
    fs = max(float(np.max(np.abs(f0))), sum(abs(s) for s in scale), 1e-300)
    ds = max(float(np.max(np.abs(d0))), sum(abs(s) for s in scale), 1e-300)
    f1, d1, same = _call_prefilled(ev, X, rng, fs, ds)
    rec.tag("kernel", "hand-made multilinear terms")
    rec.tag("term_dim", max(len(s) for s in ind_sets))
    rec.check("splineset_accumulation_value", _err(f1, f0, fs), 1e-11, mechanism="SplineSetEvaluator:term-accumulation:value",
              detail={"ind_sets": ind_sets})
    rec.check("splineset_accumulation_gradient", _err(d1, d0, ds), 1e-11,
              mechanism="SplineSetEvaluator:term-accumulation:gradient", detail={"ind_sets": ind_sets})
    f2, d2 = ev(X)
    rec.check("splineset_fresh_vs_prefilled", max(_err(f2, f1, fs), _err(d2, d1, ds)), 1e-11,
              mechanism="SplineSetEvaluator:buffers")
    rec.nontrivial("splineset|%d|%d|%d|%.6g" % (N1, nterm, n, const))
    if rec.sample is None:
        rec.set_sample({"family": "splineset-exact", "ind_sets": ind_sets, "scale": scale, "const": const,
                        "value_err": _err(f1, f0, fs), "grad_err": _err(d1, d0, ds)})
