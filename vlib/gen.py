"""Generators: molecules, admissible density matrices, feature settings, synthetic models, calculators.

Everything is seeded by the caller's numpy Generator.  All generated inputs are *admissible*:
density matrices are C diag(occ) C^T (positive semidefinite), pointwise data have rho >= 0,
tau >= sigma / (8 rho).
"""
import numpy as np

# name -> (atoms [(symbol, xyz in Angstrom)], spin (2S), charge)
MOLS = {
    "He": ([("He", (0.0, 0.0, 0.0))], 0, 0),
    "Li": ([("Li", (0.0, 0.0, 0.0))], 1, 0),
    "H": ([("H", (0.0, 0.0, 0.0))], 1, 0),
    "H2": ([("H", (0.0, 0.0, 0.0)), ("H", (0.0, 0.0, 0.74))], 0, 0),
    "LiH": ([("Li", (0.0, 0.0, 0.0)), ("H", (0.0, 0.0, 1.6))], 0, 0),
    "HF": ([("H", (0.0, 0.0, 0.0)), ("F", (0.0, 0.0, 0.92))], 0, 0),
    "H2O": ([("O", (0.0, 0.0, 0.1173)), ("H", (0.0, 0.7572, -0.4692)), ("H", (0.0, -0.7572, -0.4692))], 0, 0),
    "NH2": ([("N", (0.0, 0.0, 0.1417)), ("H", (0.0, 0.8035, -0.4958)), ("H", (0.0, -0.8035, -0.4958))], 1, 0),
    "NH3": ([("N", (0.0, 0.0, 0.1160)), ("H", (0.0, 0.9397, -0.2707)), ("H", (0.8138, -0.4698, -0.2707)),
             ("H", (-0.8138, -0.4698, -0.2707))], 0, 0),
    "H2O2": ([("O", (0.0, 0.7375, -0.0528)), ("O", (0.0, -0.7375, -0.0528)), ("H", (0.8190, 0.8170, 0.4220)),
              ("H", (-0.8190, -0.8170, 0.4220))], 0, 0),
    "CH3": ([("C", (0.0, 0.0, 0.0)), ("H", (0.0, 1.0790, 0.0)), ("H", (0.9344, -0.5395, 0.0)),
             ("H", (-0.9344, -0.5395, 0.0))], 1, 0),
    "OH-": ([("O", (0.0, 0.0, 0.0)), ("H", (0.0, 0.0, 0.97))], 0, -1),
    "HOF": ([("O", (0.05, 0.0, 0.0)), ("H", (0.9, 0.35, 0.1)), ("F", (-0.45, 1.25, -0.2))], 0, 0),
    "O2": ([("O", (0.0, 0.0, 0.0)), ("O", (0.0, 0.0, 1.21))], 2, 0),
}


def make_mol(name, basis="6-31g", rng=None, jitter=0.0, coords=None, unit="Angstrom", atoms=None, spin=None,
             charge=None):
    """Build a pyscf Mole.  jitter > 0 displaces every atom by a random vector of that length scale
    (Angstrom) so that cases do not sit on special symmetric geometries."""
    from pyscf import gto
    if atoms is None:
        atoms, spin0, charge0 = MOLS[name]
        spin = spin0 if spin is None else spin
        charge = charge0 if charge is None else charge
    xyz = np.array([a[1] for a in atoms], dtype=float) if coords is None else np.array(coords, dtype=float)
    if jitter and rng is not None:
        xyz = xyz + jitter * rng.normal(size=xyz.shape)
    mol = gto.M(atom=[(a[0], tuple(x)) for a, x in zip(atoms, xyz)], basis=basis, spin=spin or 0, charge=charge or 0,
                unit=unit, verbose=0)
    return mol


def lowdin_orbitals(mol, rng):
    """Random orthonormal (w.r.t. the AO overlap) orbitals: Loewdin-orthogonalised random rotation."""
    s = mol.intor("int1e_ovlp")
    w, v = np.linalg.eigh(s)
    sm12 = (v / np.sqrt(w)) @ v.T
    # start from core-hamiltonian orbitals so densities are molecule-like, then rotate randomly
    h = mol.intor("int1e_kin") + mol.intor("int1e_nuc")
    e, c = np.linalg.eigh(sm12 @ h @ sm12)
    nao = s.shape[0]
    a = rng.normal(size=(nao, nao)) * 0.25
    from scipy.linalg import expm
    u = expm(a - a.T)
    return sm12 @ c @ u


def psd_dm(mol, rng, nspin=1, fractional=True):
    """Admissible density matrix: C diag(occ) C^T, fixed electron count, fractional occupations."""
    c = lowdin_orbitals(mol, rng)
    nao = c.shape[0]
    na, nb = mol.nelec

    def occs(n, maxocc):
        occ = np.zeros(nao)
        occ[:n] = maxocc
        if fractional and 0 < n < nao:
            # move some occupation from the highest occupied to the lowest virtuals
            k = min(3, nao - n)
            d = rng.uniform(0.02, 0.3, size=k) * maxocc
            d *= min(1.0, 0.9 * maxocc / d.sum())
            occ[n - 1] -= d.sum()
            occ[n:n + k] += d
        return occ
    if nspin == 1:
        n = (na + nb) // 2
        occ = occs(n, 2.0)
        if (na + nb) % 2:
            occ[n] += 1.0
        return (c * occ) @ c.T
    c2 = lowdin_orbitals(mol, rng)
    return np.stack([(c * occs(na, 1.0)) @ c.T, (c2 * occs(nb, 1.0)) @ c2.T])


def sym_direction(nao, rng, kind="dense"):
    if kind == "pair":
        d = np.zeros((nao, nao))
        i, j = rng.integers(nao, size=2)
        d[i, j] = d[j, i] = 1.0
        return d
    d = rng.normal(size=(nao, nao))
    return 0.5 * (d + d.T)


def tangent_direction(dm, s, rng, scale=1.0):
    """Symmetric direction that keeps a PSD matrix PSD to first order: X dm + dm X^T with random X
    (plus its congruence), i.e. a rotation/rescaling of the occupied space."""
    nao = dm.shape[-1]
    x = rng.normal(size=(nao, nao)) * scale / np.sqrt(nao)
    return x @ dm + dm @ x.T


# ---------------------------------------------------------------------------------------------
# settings

J_SPECS = ["se", "se_ar2", "se_a2r4", "se_erf_rinv"]
I0_SPECS = ["se", "se_r2", "se_apr2", "se_ap", "se_ap2r2", "se_lapl"]
I1_SPECS = ["se_grad", "se_rvec"]


def rand_params(rng, level, spec="se"):
    a0 = float(rng.uniform(0.8, 3.0))
    grad_mul = float(rng.uniform(0.0, 0.08))
    p = [a0, grad_mul]
    if level == "MGGA":
        p = [a0, 0.0, float(rng.uniform(0.0, 0.05))] if rng.random() < 0.5 else [a0, grad_mul * 0.3, float(rng.uniform(0.0, 0.05))]
    if spec == "se_erf_rinv":
        p = p + [float(rng.uniform(0.5, 3.0))]
    return p


def nldf_settings(version, rng, level="MGGA", rho_mult="one", specs=None, nfeat=None):
    from ciderpress.dft import settings as st
    theta = rand_params(rng, level)
    if version == "j":
        specs = specs or list(rng.choice(J_SPECS, size=nfeat or 2, replace=False))
        return st.NLDFSettingsVJ(level, theta, rho_mult, list(map(str, specs)), [rand_params(rng, level, s) for s in specs])
    if version == "i":
        l0 = specs[0] if specs else list(map(str, rng.choice(I0_SPECS, size=2, replace=False)))
        l1 = specs[1] if specs else list(I1_SPECS)
        dots = specs[2] if specs else [(-1, 0), (0, 1), (1, 1)][: int(rng.integers(1, 4))]
        return st.NLDFSettingsVI(level, theta, rho_mult, l0, l1, [tuple(d) for d in dots])
    if version == "ij":
        l0 = list(map(str, rng.choice(I0_SPECS, size=2, replace=False)))
        l1 = list(I1_SPECS)
        dots = [(-1, 0), (0, 1)]
        js = list(map(str, rng.choice(J_SPECS, size=2, replace=False)))
        return st.NLDFSettingsVIJ(level, theta, rho_mult, l0, l1, dots, js, [rand_params(rng, level, s) for s in js])
    if version == "k":
        n = nfeat or 2
        return st.NLDFSettingsVK(level, theta, rho_mult, [rand_params(rng, level) for _ in range(n)], "exponential")
    raise ValueError(version)


def sdmx_settings(kind, rng=None):
    from ciderpress.dft import settings as st
    if kind == "sdmx":
        return st.SDMXSettings([0, 1, 2])
    if kind == "sdmx01":
        return st.SDMXSettings([0, 1])
    if kind == "sdmxg":
        return st.SDMXGSettings([0, 1], 1)
    if kind == "sdmx1":
        return st.SDMX1Settings([0, 1], 1)
    if kind == "sdmx1b":   # two vector (l = 1) terms in one settings object
        return st.SDMX1Settings([0, 1], 2)
    if kind == "sdmxg1b":
        return st.SDMXG1Settings([1, 0, 2], 1, 2)
    if kind == "sdmxg1":
        return st.SDMXG1Settings([0, 1], 1, 1)
    if kind == "sdmxfull":
        # {ratio: ([pows], [n0, nd, n1, n1d])}
        return st.SDMXFullSettings({1.0: ([0, 1], [2, 1, 1, 0]), 2.0: ([0, 1], [1, 0, 0, 0])})
    raise ValueError(kind)


def feature_settings(slmode="npa", nldf=None, sdmx=None, nlof=None, normalize=True):
    from ciderpress.dft import settings as st
    fs = st.FeatureSettings(sl_settings=st.SemilocalSettings(slmode), nldf_settings=nldf, sdmx_settings=sdmx,
                            nlof_settings=nlof)
    if normalize:
        fs.assign_reasonable_normalizer()
    return fs


FAMILIES = {
    # name: (slmode choices, nldf version or None, level, sdmx kind or None)
    "sl-nst": ("nst", None, None, None),
    "sl-npa": ("npa", None, None, None),
    "sl-ns": ("ns", None, None, None),
    "sl-np": ("np", None, None, None),
    "vj-mgga": ("npa", "j", "MGGA", None),
    "vj-gga": ("np", "j", "GGA", None),
    "vi-mgga": ("npa", "i", "MGGA", None),
    "vi-gga": ("np", "i", "GGA", None),
    "vij-mgga": ("npa", "ij", "MGGA", None),
    "vij-gga": ("np", "ij", "GGA", None),
    "vk-mgga": ("npa", "k", "MGGA", None),
    "vk-gga": ("np", "k", "GGA", None),
    "sdmx": ("npa", None, None, "sdmx"),
    "sdmxg": ("npa", None, None, "sdmxg"),
    "sdmx1": ("npa", None, None, "sdmx1"),
    "sdmxg1": ("npa", None, None, "sdmxg1"),
    "sdmx1b": ("npa", None, None, "sdmx1b"),
    "sdmxg1b": ("npa", None, None, "sdmxg1b"),
    "vj+sdmx": ("npa", "j", "MGGA", "sdmx01"),
    "vj-nst": ("nst", "j", "MGGA", None),
    "vj-expnt": ("npa", "j", "MGGA", None),
}


def family_settings(family, rng, normalize=True):
    slmode, ver, level, sd = FAMILIES[family]
    nl = None
    if ver:
        nl = nldf_settings(ver, rng, level=level, rho_mult="expnt" if family.endswith("expnt") else "one")
    sx = sdmx_settings(sd) if sd else None
    return feature_settings(slmode, nl, sx, normalize=normalize)


# ---------------------------------------------------------------------------------------------
# synthetic models

def rand_feature_list(settings, rng, nmax=None, mixed=False):
    """Random FeatureList reading raw (normalised) features 1..nfeat-1 (index 0 is the density).  mixed=True appends maps of
    other classes that read raw features ALREADY read by an earlier map (identity LMap, three-argument WMap): all maps of a
    list accumulate into one raw-derivative buffer."""
    from ciderpress.dft import transform_data as td
    nf = settings.nfeat
    nsl = settings.sl_settings.nfeat
    maps = []
    idxs = list(range(1, nf))
    if nmax and len(idxs) > nmax:
        idxs = sorted(rng.choice(idxs, size=nmax, replace=False).tolist())
    for i in idxs:
        g = float(np.exp(rng.uniform(np.log(0.1), np.log(2.0))))
        if i < nsl:
            maps.append(td.UMap(i, g))
        else:
            maps.append(td.SignedUMap(i, g))
    if mixed and idxs:
        sl = [i for i in idxs if i < nsl]
        nl = [i for i in idxs if i >= nsl]
        if sl:
            maps.append(td.LMap(int(rng.choice(sl)), bounds=(0.0, 10.0)))
        if nl and len(sl) >= 2:
            a, b = [int(v) for v in rng.choice(sl, size=2, replace=False)]
            maps.append(td.WMap(a, b, int(rng.choice(nl)), float(rng.uniform(0.2, 2.0)), float(rng.uniform(0.2, 2.0))))
        if nl:
            maps.append(td.LMap(int(rng.choice(nl)), bounds=(-10.0, 10.0)))
    return td.FeatureList(maps)


def rand_evaluator(kind, n1, rng, nctrl=12, amp=0.5):
    from ciderpress.dft import xc_evaluator as xe
    from ciderpress.models.kernels import DiffConstantKernel, DiffRBF
    ls = np.exp(rng.uniform(np.log(0.3), np.log(1.5), size=n1))
    ctrl = rng.uniform(-0.5, 1.0, size=(nctrl, n1))
    alpha = rng.normal(size=nctrl) * amp / np.sqrt(nctrl)
    kern = DiffConstantKernel(float(rng.uniform(0.5, 2.0))) * DiffRBF(ls)
    if kind == "rbf":
        return xe.RBFEvaluator(kern, ctrl, alpha)
    if kind == "kernel":
        return xe.KernelEvaluator(kern, ctrl, alpha)
    if kind == "linear":
        return xe.GlobalLinearEvaluator(rng.normal(size=n1) * amp * 0.3)
    if kind == "subrbf" and n1 >= 2:
        from ciderpress.models.kernels import SubsetRBF
        idx = sorted(rng.choice(n1, size=n1 - 1, replace=False).tolist())
        k = DiffConstantKernel(float(rng.uniform(0.5, 2.0))) * SubsetRBF(idx, ls[idx])
        return xe.RBFEvaluator(k, ctrl, alpha)  # control points over all features; full-width derivative buffer
    if kind == "subrbf":
        return xe.RBFEvaluator(kern, ctrl, alpha)
    if kind == "spinrbf":
        # polarised model: control points carry both spin channels, shape (2, nctrl, n1)
        ctrl2 = rng.uniform(-0.5, 1.0, size=(2, nctrl, n1))
        return xe.SpinRBFEvaluator(kern, ctrl2, alpha)
    raise ValueError(kind)


def synth_model(settings, rng, mode="SEP", evaluator="rbf", mul_base="lda_x", add_base="zero_xc", nkernels=1,
                nctrl=12, amp=0.5, nmaps=None):
    """MappedXC built from the repository's own classes with random parameters."""
    from ciderpress.dft import baselines as bl
    from ciderpress.dft import xc_evaluator as xe
    kernels = []
    for _ in range(nkernels):
        fl = rand_feature_list(settings, rng, nmax=nmaps)
        evs = evaluator if isinstance(evaluator, (list, tuple)) else [evaluator]
        fe = [rand_evaluator(k, fl.nfeat, rng, nctrl=nctrl, amp=amp) for k in evs]
        kernels.append(xe.MappedDFTKernel(fe, fl, mode, getattr(bl, mul_base), getattr(bl, add_base)))
    return xe.MappedXC(kernels, settings)


def make_ks(mol, model, spin="rks", level=1, xmix=1.0, xc=None, xkernel=None, ckernel=None, nldf_kwargs=None,
            rhocut=None, prune="nwchem", atom_grid=None, density_fit=False):
    from pyscf import dft

    from ciderpress.pyscf.dft import make_cider_calc
    from ciderpress.pyscf.nldf_convolutions import PySCFNLDFInitializer
    ks = dft.RKS(mol) if spin == "rks" else dft.UKS(mol)
    if density_fit:
        ks = ks.density_fit()
    ks.grids.level = level
    if atom_grid:
        ks.grids.atom_grid = atom_grid
    import pyscf.dft.gen_grid as gg
    ks.grids.prune = {"nwchem": gg.nwchem_prune, "sg1": gg.sg1_prune, "treutler": gg.treutler_prune, None: None}[prune]
    nldf_init = None
    if nldf_kwargs and model.settings.has_nldf:
        nldf_init = PySCFNLDFInitializer(model.settings.nldf_settings, **nldf_kwargs)
    ks = make_cider_calc(ks, model, xmix=xmix, xc=xc, xkernel=xkernel, ckernel=ckernel, nldf_init=nldf_init,
                         rhocut=rhocut)
    ks.build()
    ks.grids.build(with_non0tab=True)
    return ks


def nr_eval(ks, dm, max_memory=2000):
    """Call the CIDER numerical integrator the way pyscf's get_veff does."""
    ni = ks._numint
    xc = ks.xc
    if np.ndim(dm) == 2 or (np.ndim(dm) == 3 and ks.__class__.__name__.find("RKS") >= 0 and False):
        return ni.nr_rks(ks.mol, ks.grids, xc, dm, max_memory=max_memory)
    return ni.nr_uks(ks.mol, ks.grids, xc, dm, max_memory=max_memory)


# ---------------------------------------------------------------------------------------------
# pointwise admissible density data

def pointwise_rho(rng, n, nspin=1, mgga=True, lo=1e-6, hi=1e2):
    """rho_data of shape (nspin, 5, n): rho, grad (3), tau with tau >= |grad|^2/(8 rho)."""
    out = np.zeros((nspin, 5, n))
    for s in range(nspin):
        rho = np.exp(rng.uniform(np.log(lo), np.log(hi), size=n))
        s2 = np.exp(rng.uniform(np.log(1e-4), np.log(20.0), size=n))
        mag = np.sqrt(s2) * 2 * (3 * np.pi ** 2) ** (1.0 / 3) * rho ** (4.0 / 3)
        d = rng.normal(size=(3, n))
        d /= np.linalg.norm(d, axis=0)
        out[s, 0] = rho
        out[s, 1:4] = d * mag
        tauw = mag ** 2 / (8 * rho)
        out[s, 4] = tauw * (1.0 + np.exp(rng.uniform(np.log(1e-3), np.log(10.0), size=n)))
    return out


def synth_model2(settings, rng, mode="SEP", evaluator="rbf", mul_base="GGA_X_PBE", add_base=None, nkernels=1,
                 nctrl=12, amp=0.5, nmaps=None):
    """MappedXC2 (libxc-backed baselines) with random parameters."""
    from ciderpress.dft import xc_evaluator2 as xe2
    kernels = []
    for _ in range(nkernels):
        fl = rand_feature_list(settings, rng, nmax=nmaps)
        evs = evaluator if isinstance(evaluator, (list, tuple)) else [evaluator]
        fe = [rand_evaluator(k, fl.nfeat, rng, nctrl=nctrl, amp=amp) for k in evs]
        kernels.append(xe2.MappedDFTKernel2(fe, fl, mode, mul_base, add_base))
    return xe2.MappedXC2(kernels, settings)


MIXES = {
    "pure": dict(xmix=1.0),
    "xmix": dict(xmix=0.25, xkernel="GGA_X_PBE", ckernel="GGA_C_PBE"),
    "xc": dict(xmix=0.6, xc="0.4*LDA_X + LDA_C_VWN"),
    "mgga": dict(xmix=0.5, xkernel="MGGA_X_R2SCAN", ckernel="MGGA_C_R2SCAN"),
}


def build_model(cfg, rng):
    """cfg: family, mode, evaluator, model ('xc1' | 'xc2'), mul_base/add_base optional."""
    st = family_settings(cfg["family"], rng)
    ev = cfg.get("evaluator", "rbf")
    if cfg.get("mode") == "POL":
        ev = "spinrbf"  # only the spin evaluator accepts the (2, n, N1) descriptor layout of POL mode
    if isinstance(ev, str) and "+" in ev:
        ev = ev.split("+")
    if cfg.get("model") == "xc2m":
        # several libxc-backed kernels of different spin modes and baselines in one model (they share the potential tuple):
        # correlation-like NPOL kernel FIRST, spin-separable exchange kernel after it (or the order given in cfg["order"])
        from ciderpress.dft import xc_evaluator2 as xe2
        parts = {"c": synth_model2(st, rng, mode="NPOL", evaluator=ev, mul_base="GGA_C_PBE", add_base="GGA_C_PBE").kernels[0],
                 "x": synth_model2(st, rng, mode="SEP", evaluator=ev, mul_base=cfg.get("mul_base", "GGA_X_PBE")).kernels[0],
                 "x2": synth_model2(st, rng, mode="SEP", evaluator=ev, mul_base="LDA_X").kernels[0]}
        return xe2.MappedXC2([parts[k] for k in cfg.get("order", ["c", "x"])], st)
    if cfg.get("model", "xc1") == "xc2":
        return synth_model2(st, rng, mode=cfg.get("mode", "SEP"), evaluator=ev, mul_base=cfg.get("mul_base", "GGA_X_PBE"),
                            add_base=cfg.get("add_base"), nkernels=cfg.get("nkernels", 1))
    return synth_model(st, rng, mode=cfg.get("mode", "SEP"), evaluator=ev, mul_base=cfg.get("mul_base", "lda_x"),
                       add_base=cfg.get("add_base", "zero_xc"), nkernels=cfg.get("nkernels", 1))


def vary_system(mol, kind):
    """The same molecule as another KIND of input: 'cart' (Cartesian d/f functions), 'fshell' (one extra f primitive on the
    heaviest atom), 'bohr' (coordinates specified in Bohr), 'gshell' (one extra g primitive)."""
    from pyscf import gto
    atoms = [(mol.atom_symbol(i), tuple(mol.atom_coord(i))) for i in range(mol.natm)]
    basis = mol.basis
    kw = dict(unit="Bohr", spin=mol.spin, charge=mol.charge, verbose=0)
    if kind in ("fshell", "gshell"):
        heavy = int(np.argmax(mol.atom_charges()))
        sym = mol.atom_symbol(heavy)
        per = {}
        for i in range(mol.natm):
            s_ = mol.atom_symbol(i)
            per[s_] = gto.basis.load(basis, s_) if isinstance(basis, str) else basis[s_]
        per[sym] = list(per[sym]) + [[3 if kind == "fshell" else 4, [1.1, 1.0]]]
        basis = per
    return gto.M(atom=atoms, basis=basis, cart=(kind == "cart"), **kw)


def build_ks(cfg, rng, mol=None, model=None):
    mol = mol or make_mol(cfg["mol"], cfg.get("basis", "6-31g"), rng, jitter=cfg.get("jitter", 0.03))
    if cfg.get("system"):
        mol = vary_system(mol, cfg["system"])
    model = model or build_model(cfg, rng)
    nk = {}
    if cfg.get("plan_type"):
        nk["plan_type"] = cfg["plan_type"]
    if cfg.get("interp"):
        nk["interpolator_type"] = cfg["interp"]
    if cfg.get("aux_lambd"):
        nk["aux_lambd"] = cfg["aux_lambd"]
    ks = make_ks(mol, model, spin=cfg.get("spin", "rks"), level=cfg.get("level", 0), nldf_kwargs=nk or None,
                 prune=cfg.get("prune", "nwchem"), rhocut=cfg.get("rhocut"), **MIXES[cfg.get("mix", "pure")])
    return mol, model, ks
