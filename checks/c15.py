"""C15 - covariance kernels are valid and their gradients match their values.

Workload: kernels are drawn from a small random grammar over the classes of ciderpress/models/kernels.py
(leaf classes with random hyper-parameters / bounds incl. "fixed" / index sets, compositions sum, product,
integer power, linear transform; depth <= 3) and evaluated on generated sample matrices X, Y
(n in {1, 2, 30, 100}; coincident rows, near-duplicates 1e-8 apart, far-apart rows).

Oracles (DESIGN.md section 5, C15).  Every oracle is evaluated on each *leaf* kernel object and on the *root* of
each composite; composite nodes additionally get the exact algebra identities, so a failure is attributed to the
class that causes it: mechanism = "<Class>:<relation>", or "<implementation site>[<configuration class>]:<relation>"
for relations that a configuration class can affect (see leaf_name), e.g. "DiffAdditiveMixin[order>=4]:theta-gradient".
A root oracle is skipped (tagged) when one of the tree's leaves already failed that relation.
 symmetry       k(X) == k(X)^T                                                     (1e-12 of max|diag|)
 psd            lambda_min(k(X)) >= -1e-10 * n * max|diag|
 transpose      k(X, Y) == k(Y, X)^T                                               (1e-12)
 diag           diag(X) == diag k(X)                                               (1e-12)
 self           k(X) == k(X, X)   (classes without a white/noise term)             (1e-12)
 algebra        DiffSum/DiffProduct/DiffExponentiation/DiffTransform value, theta-gradient and input-gradient
                equal the documented combination of their parts; Subset*/Partial*/ADKernel == base kernel on the
                sliced columns (scattered input gradient, zeros elsewhere); SpinSym* == sum of the four spin
                blocks and invariant under exchange of the alpha/beta columns (values, both gradients)   (1e-12)
 theta-size     gradient.shape == (n, n, theta.size) and theta.size / exp(theta) equal the non-fixed
                hyper-parameters of the generated specification (fixed ones excluded)
 theta-gradient k(X, eval_gradient=True)[1] vs 5-point finite differences in theta (log space)    (1e-6)
 input-gradient k_and_deriv(X, Y)[1] vs 5-point finite differences of k(X, Y) in X; shape (n, m, nfeat);
                k_and_deriv(X, Y)[0] == k(X, Y); k_and_deriv(X) == k_and_deriv(X, X)                (1e-6 / 1e-12)
 dft            DFTKernel.get_k / get_k_and_deriv / get_kctrl in SEP / NPOL / POL against their definitions
                written here from the docstrings, FD of get_k in the raw features, control-point reduction
                returns a subset of its input whose pivoted-Cholesky residual is below ctrl_tol.
"""
import copy
import json
import os

import numpy as np

from vlib.oracles import rng_for

PROPERTY = "C15"
PROP_NO = 15
RULE = ("one kernel per case: (a) every leaf class x random hyper-parameters / bounds (default, custom, "
        "'fixed') / isotropic-anisotropic / order / index sets, (b) random compositions (sum, product, integer power, "
        "DiffTransform, scalar operands through the operator overloads) of depth <= 3, (c) DFTKernel objects in "
        "SEP/NPOL/POL x nspin 1/2 over such kernels; each kernel is evaluated on generated X (n in {1,2,30,100}) and "
        "Y with coincident, near-duplicate and far-apart rows. A kernel is non-trivial when at least one gradient "
        "oracle (theta or input) was conclusive with a non-zero analytic gradient, or - for classes that declare no "
        "gradient - when its value oracles ran on n >= 2; distinct = distinct kernel specification digest")
MIN_NONTRIVIAL = {"quick": 80, "thorough": 1500}
ASSUMPTIONS = [
    "hyper-parameters are drawn inside the default sklearn bounds (1e-5, 1e5) (length scales 0.1..10 and, rarely, "
    "1e-3 / 1e3; amplitudes 1e-2..10); the density-noise kernels are only evaluated on their domain (positive "
    "density column)",
    "only positive-semidefiniteness-preserving compositions are generated (integer exponents 1..3, non-negative "
    "scales)",
    "operations a class explicitly declares unsupported are skipped and tagged, not failed: "
    "DiffAntisymRBF(eval_gradient=True) raises NotImplementedError by design; the noise kernels, QARBF, SingleRBF, "
    "SingleDot, ADKernel, SpinSymKernel define no k_and_deriv; k(X) != k(X, X) for white/noise terms by sklearn "
    "convention",
    "finite-difference oracles: 5-point stencil at step h and h/2, h = smallest candidate step whose a-priori rounding "
    "bound (16 eps |k| / h) is below tol/300 (else tol/30) of the derivative scale; a component is skipped (not failed) "
    "when the two estimates differ by more than tol/30, when a finer candidate step disagrees by more than its own "
    "rounding bound, or when no step qualifies; scale = max entry of the analytic / numerical gradient component "
    "over the whole matrix; tolerance 1e-6 (measured floor 3e-8 over 2 seeds of the thorough tier)",
    "exact relations use 1e-12 of the kernel scale (measured floor 1e-14); for DiffAddLLRBF / SubsetAddLLRBF standing "
    "alone the scale is max(kernel scale, sum_n scale_n p1^n) because their Newton-Girard evaluation cancels terms of "
    "that size when the per-column factor exceeds 1 (observed value noise up to 1e-4 of the kernel scale for "
    "order > number of columns and small length scales; not counted as a violation, reported as an observation); "
    "inside compositions and DFTKernel objects AddLLRBF leaves are restricted to the well-conditioned range "
    "(order <= columns, length scale >= 1.5, no far-apart rows); DiffAntisymRBF uses scale >= 4 (four cancelling "
    "terms of size <= 1)",
    "far-apart rows (30x / 1000x the box) are always present for bounded kernels, with probability 0.3 for the "
    "polynomial / linear ones (their values grow with |x|, relative oracles then only see the far rows)",
    "k_and_deriv(X) (Y omitted) is the derivative with the second argument held fixed, as documented in "
    "DiffRBF.k_and_deriv",
    "DFTKernel: POL mode with nspin == 1 must return the derivative of the returned kernel values with respect to the "
    "single-channel input, i.e. the sum of the two channel partials of the nspin == 2 result on the duplicated input "
    "(this is what the orbital-derivative covariances in train.py need, cf. C16). Baseline callables are not exercised "
    "(they belong to C04/C11)",
    "trusted: numpy / scipy / scikit-learn base classes (RBF, ConstantKernel, WhiteKernel, Sum, Product, "
    "Exponentiation value formulas), numpy.linalg.eigvalsh",
]
FINE_NAMES = bool(os.environ.get("C15_FINE_ORACLE_NAMES"))  # per-class oracle names (calibration runs)
EPS = 2.3e-16
FD_NOISE = 16 * EPS  # a-priori rounding of one stencil evaluation relative to the kernel scale (x 1/h)
TOL_EXACT = 1e-12
TOL_PSD = 1e-10
TOL_FD = 1e-6
FD_GUARD = 30  # a finite-difference component is conclusive only if its self-error is below TOL_FD / FD_GUARD

# classes that declare no input-gradient (no k_and_deriv method) / no theta-gradient
NO_XGRAD = ("DensityNoise", "ExponentialDensityNoise", "FittedDensityNoise", "QARBF", "SingleRBF", "SingleDot",
            "ADKernel", "SpinSymKernel")
NO_THETA_GRAD = ("DiffAntisymRBF",)
NOISE = ("DensityNoise", "ExponentialDensityNoise", "FittedDensityNoise")
UNBOUNDED = ("DiffLinearKernel", "DiffPolyKernel", "SubsetPoly", "SpinSymPoly", "DiffAddLLRBF", "SubsetAddLLRBF",
             "SingleDot")

LEAF_TYPES = ["DiffRBF", "DiffAntisymRBF", "DiffLinearKernel", "DiffPolyKernel", "DiffARBF", "DiffARBFV2",
              "DiffAddLLRBF", "DiffAddRQ", "PartialRBF", "PartialARBF", "DiffConstantKernel", "DiffWhiteKernel",
              "SubsetRBF", "SubsetARBF", "SubsetAddLLRBF", "SubsetAddRQ", "SubsetPoly", "SpinSymRBF", "SpinSymARBF",
              "SpinSymPoly", "DensityNoise", "ExponentialDensityNoise", "FittedDensityNoise", "QARBF", "SingleRBF",
              "SingleDot", "ADKernel", "SpinSymKernel", "DiffTransform"]
# leaves used inside random compositions (weight); classes with many declared gaps are rarer so that most trees
# are fully checkable end to end
TREE_POOL = {"DiffRBF": 5, "DiffAntisymRBF": 0.5, "DiffLinearKernel": 2, "DiffPolyKernel": 3, "DiffARBF": 4,
             "DiffARBFV2": 3, "DiffAddLLRBF": 3, "DiffAddRQ": 3, "PartialRBF": 0.7, "PartialARBF": 0.7,
             "DiffConstantKernel": 2, "DiffWhiteKernel": 1.5, "SubsetRBF": 3, "SubsetARBF": 3, "SubsetAddLLRBF": 2,
             "SubsetAddRQ": 2, "SubsetPoly": 2, "SpinSymRBF": 2, "SpinSymARBF": 2, "SpinSymPoly": 2,
             "DensityNoise": 0.3, "ExponentialDensityNoise": 0.3, "FittedDensityNoise": 0.3}
# leaves whose every declared operation is expected to work: used for the DFTKernel workload
CLEAN_POOL = {"DiffRBF": 5, "DiffPolyKernel": 2, "DiffARBF": 3, "DiffARBFV2": 2, "DiffAddLLRBF": 1, "DiffAddRQ": 2,
              "DiffConstantKernel": 1, "SubsetRBF": 3, "SubsetARBF": 3, "SubsetPoly": 1, "SpinSymRBF": 1,
              "DiffLinearKernel": 0.5}


# ------------------------------------------------------------------------------------------------ generation
def _loguni(rng, lo, hi, size=None):
    return np.exp(rng.uniform(np.log(lo), np.log(hi), size=size))


def _jl(v):
    """numpy -> plain JSON value"""
    if np.ndim(v) == 0:
        return float(v)
    return [float(x) for x in np.ravel(v)]


def _bounds(rng, vals, default=(1e-5, 1e5), p_fixed=0.25):
    """Returns (bounds spec or None for 'leave the default', is_fixed)."""
    u = rng.random()
    if u < p_fixed:
        return "fixed", True
    if u < 0.6:
        return None, False
    lo = max(default[0], float(np.min(vals)) / 10 ** rng.uniform(0.1, 3.0))
    hi = min(default[1], float(np.max(vals)) * 10 ** rng.uniform(0.1, 3.0))
    return [lo, hi], False


def _lenscale(rng, d, p_aniso=0.6):
    if rng.random() < 0.06:
        base = [1e-3, 1e3][int(rng.integers(2))]
        lo, hi = base * 0.5, base * 2.0
    else:
        lo, hi = 0.1, 10.0
    if rng.random() < p_aniso:
        return _jl(_loguni(rng, lo, hi, size=d))
    return float(_loguni(rng, lo, hi))


def _order(rng):
    u = rng.random()
    if u < 0.04:
        return 0
    if u < 0.12:
        return int(rng.integers(4, 6))
    return int(rng.integers(1, 4))


def _index_spec(rng, d, size=None, allow_slice=True):
    """Random index set over d columns: ({'list'|'array'|'slice': ...}, columns)."""
    size = int(rng.integers(1, d + 1)) if size is None else size
    if allow_slice and rng.random() < 0.35:
        step = int(rng.integers(1, 3))
        start = int(rng.integers(0, max(1, d - (size - 1) * step)))
        stop = start + (size - 1) * step + 1
        if stop <= d:
            sl = [start, stop, step]
            return {"slice": sl}, list(range(*sl))
    cols = [int(c) for c in rng.permutation(d)[:size]]
    return {("array" if rng.random() < 0.3 else "list"): cols}, cols


def _mk_index(spec):
    if "slice" in spec:
        return slice(*spec["slice"])
    if "array" in spec:
        return np.array(spec["array"], dtype=int)
    return list(spec["list"])


def _hp(name, vals, fixed):
    return {"name": name, "vals": _jl(np.atleast_1d(vals)), "fixed": bool(fixed)}


def _leaf(cls, d, kw, hps, args=None, **extra):
    nth = sum(len(h["vals"]) for h in hps if not h["fixed"])
    thv = sorted(v for h in hps if not h["fixed"] for v in h["vals"])
    bk = [("fixed" if h["fixed"] else "free") for h in hps]
    sp = {"t": "leaf", "cls": cls, "nfeat": d, "args": args or [], "kw": kw, "nth": nth, "thvals": thv, "hpstate": bk}
    sp.update(extra)
    return sp


def _rbf_kw(rng, d, p_aniso=0.6):
    ls = _lenscale(rng, d, p_aniso)
    b, fx = _bounds(rng, ls)
    kw = {"length_scale": ls}
    if b is not None:
        kw["length_scale_bounds"] = b
    return kw, [_hp("length_scale", ls, fx)]


def _additive_kw(rng, d, with_alpha=False, order=None, benign=False):
    order = _order(rng) if order is None else order
    ls = _lenscale(rng, d)
    if benign:  # well-conditioned AddLLRBF configuration (see _ll_budget): order <= columns, |x y| / (alpha l^2) <~ 10
        order = int(rng.integers(1, min(d, 3) + 1))
        ls = _jl(_loguni(rng, 1.5, 10.0, size=d)) if isinstance(ls, list) else float(_loguni(rng, 1.5, 10.0))
    sc = _jl(_loguni(rng, 0.01, 10.0, size=order + 1))
    b1, f1 = _bounds(rng, ls)
    b2, f2 = _bounds(rng, sc)
    kw = {"order": order, "length_scale": ls, "scale": sc}
    if with_alpha:
        kw["alpha"] = float(_loguni(rng, 0.5, 4.0))
    if b1 is not None:
        kw["length_scale_bounds"] = b1
    if b2 is not None:
        kw["scale_bounds"] = b2
    return kw, [_hp("length_scale", ls, f1), _hp("scale", sc, f2)]


def _poly_kw(rng, d):
    g = _jl(_loguni(rng, 0.05, 2.0, size=d)) if rng.random() < 0.5 else float(_loguni(rng, 0.05, 2.0))
    b, fx = _bounds(rng, g)
    kw = {"gamma": g, "order": int(rng.integers(1, 5)), "factorial": bool(rng.integers(2))}
    if b is not None:
        kw["gamma_bounds"] = b
    return kw, [_hp("gamma", g, fx)]


_SUBSET_BASE = {"SubsetRBF": "DiffRBF", "SubsetARBF": "DiffARBF", "SubsetAddLLRBF": "DiffAddLLRBF",
                "SubsetAddRQ": "DiffAddRQ", "SubsetPoly": "DiffPolyKernel"}
_SPINSYM_BASE = {"SpinSymRBF": "DiffRBF", "SpinSymARBF": "DiffARBF", "SpinSymPoly": "DiffPolyKernel"}


def _base_kw(rng, base, d, benign=False):
    if base == "DiffAddLLRBF":
        return _additive_kw(rng, d, with_alpha=True, benign=benign)
    if base == "DiffRBF":
        return _rbf_kw(rng, d)
    if base in ("DiffARBF", "DiffARBFV2"):
        return _additive_kw(rng, d)
    if base in ("DiffAddLLRBF", "DiffAddRQ"):
        return _additive_kw(rng, d, with_alpha=True)
    if base == "DiffPolyKernel":
        return _poly_kw(rng, d)
    raise KeyError(base)


def gen_leaf(rng, cls, d, benign=False):
    """Random specification of a leaf kernel of class cls acting on d columns (None if d is unsuitable)."""
    if cls in ("DiffRBF", "DiffARBF", "DiffARBFV2", "DiffAddLLRBF", "DiffAddRQ", "DiffPolyKernel"):
        kw, hps = _base_kw(rng, cls, d, benign)
        return _leaf(cls, d, kw, hps)
    if cls == "DiffAntisymRBF":
        if d < 3:
            return None
        ls = _jl(_loguni(rng, 0.1, 10.0, size=d - 1))
        b, fx = _bounds(rng, ls)
        kw = {"length_scale": ls}
        if b is not None:
            kw["length_scale_bounds"] = b
        return _leaf(cls, d, kw, [_hp("length_scale", ls, fx)])
    if cls == "DiffLinearKernel":
        return _leaf(cls, d, {}, [])
    if cls == "DiffConstantKernel":
        v = float(_loguni(rng, 0.01, 10.0))
        b, fx = _bounds(rng, v)
        kw = {"constant_value": v}
        if b is not None:
            kw["constant_value_bounds"] = b
        return _leaf(cls, d, kw, [_hp("constant_value", v, fx)])
    if cls == "DiffWhiteKernel":
        v = float(_loguni(rng, 1e-4, 1.0))
        b, fx = _bounds(rng, v)
        kw = {"noise_level": v}
        if b is not None:
            kw["noise_level_bounds"] = b
        return _leaf(cls, d, kw, [_hp("noise_level", v, fx)])
    if cls in ("PartialRBF", "PartialARBF"):
        if rng.random() < 0.5:
            start = int(rng.integers(0, d))
            cols = list(range(start, d))
            # documented as the slice X[:, start:], so "the last n features" (negative start) names the same columns
            sel = {"start": start - d if rng.random() < 0.35 else start}
        else:
            ispec, cols = _index_spec(rng, d, allow_slice=False)
            sel = {"active_dims": ispec}
        if cls == "PartialRBF":
            kw, hps = _rbf_kw(rng, len(cols))
            base = "DiffRBF"
            bkw = dict(kw)
        else:
            kw, hps = _additive_kw(rng, len(cols), order=int(rng.integers(1, 4)))
            base = "DiffARBF"
            bkw = dict(kw)
            if rng.random() < 0.3:  # documented back-compatible scalar scale, expanded at the first call
                s = kw["scale"][0]
                kw["scale"] = s
                bkw["scale"] = [s] * (kw["order"] + 1)
                hps[1] = _hp("scale", bkw["scale"], hps[1]["fixed"])
        kw = dict(kw)
        kw.update(sel)
        return _leaf(cls, d, kw, hps, base={"cls": base, "kw": bkw, "cols": cols})
    if cls in _SUBSET_BASE:
        ispec, cols = _index_spec(rng, d)
        kw, hps = _base_kw(rng, _SUBSET_BASE[cls], len(cols), benign)
        return _leaf(cls, d, kw, hps, args=[ispec], base={"cls": _SUBSET_BASE[cls], "kw": kw, "cols": cols})
    if cls in _SPINSYM_BASE:
        if d < 2:
            return None
        m = int(rng.integers(1, d // 2 + 1))
        if rng.random() < 0.4:
            a, b = {"slice": [0, m, 1]}, {"slice": [m, 2 * m, 1]}
            ca, cb = list(range(m)), list(range(m, 2 * m))
        else:
            perm = [int(c) for c in rng.permutation(d)]
            ca, cb = perm[:m], perm[m:2 * m]
            a, b = {"list": ca}, {"list": cb}
        kw, hps = _base_kw(rng, _SPINSYM_BASE[cls], m)
        return _leaf(cls, d, kw, hps, args=[a, b], base={"cls": _SPINSYM_BASE[cls], "kw": kw, "alpha": ca, "beta": cb})
    if cls == "DensityNoise":
        return _leaf(cls, d, {"index": int(rng.integers(d))}, [])
    if cls == "ExponentialDensityNoise":
        v = float(rng.uniform(0.3, 3.0))
        b, fx = _bounds(rng, v, default=(0.1, 10.0))
        kw = {"exponent": v}
        if b is not None:
            kw["exponent_bounds"] = b
        return _leaf(cls, d, kw, [_hp("exponent", v, fx)])
    if cls == "FittedDensityNoise":
        v = float(_loguni(rng, 0.1, 20.0))
        b, fx = _bounds(rng, v)
        kw = {"decay_rate": v}
        if b is not None:
            kw["decay_rate_bounds"] = b
        return _leaf(cls, d, kw, [_hp("decay_rate", v, fx)])
    if cls == "QARBF":
        ls = _jl(_loguni(rng, 0.1, 10.0, size=d))
        sc = _jl(_loguni(rng, 0.01, 10.0, size=1 + d + d * (d - 1) // 2))
        b, fx = _bounds(rng, sc)
        kw = {"ndim": d, "length_scale": ls, "scale": sc}
        if b is not None:
            kw["scale_bounds"] = b
        return _leaf(cls, d, kw, [_hp("scale", sc, fx)])
    if cls == "SingleRBF":
        v = float(_loguni(rng, 0.1, 10.0))
        b, fx = _bounds(rng, v)
        kw = {"length_scale": v, "index": int(rng.integers(d))}
        if b is not None:
            kw["length_scale_bounds"] = b
        return _leaf(cls, d, kw, [_hp("length_scale", v, fx)])
    if cls == "SingleDot":
        v = float(_loguni(rng, 0.1, 3.0))
        b, fx = _bounds(rng, v)
        kw = {"sigma_0": v, "index": int(rng.integers(d))}
        if b is not None:
            kw["sigma_0_bounds"] = b
        return _leaf(cls, d, kw, [_hp("sigma_0", v, fx)])
    if cls == "ADKernel":
        ispec, cols = _index_spec(rng, d, allow_slice=False)
        inner = gen_leaf(rng, ["DiffRBF", "DiffPolyKernel", "DiffARBF"][int(rng.integers(3))], len(cols))
        sp = _leaf(cls, d, {"active_dims": ispec}, [], inner=inner, base={"cols": cols})
        sp["nth"], sp["thvals"], sp["hpstate"] = inner["nth"], inner["thvals"], inner["hpstate"]
        return sp
    if cls == "SpinSymKernel":
        if d < 2:
            return None
        m = int(rng.integers(1, d // 2 + 1))
        perm = [int(c) for c in rng.permutation(d)]
        ca, cb = perm[:m], perm[m:2 * m]
        inner = gen_leaf(rng, ["DiffRBF", "DiffPolyKernel", "DiffARBF"][int(rng.integers(3))], m)
        sp = _leaf(cls, d, {"up_active_dims": {"list": ca}, "down_active_dims": {"list": cb}}, [], inner=inner,
                   base={"alpha": ca, "beta": cb})
        sp["nth"], sp["thvals"], sp["hpstate"] = inner["nth"], inner["thvals"], inner["hpstate"]
        return sp
    raise KeyError(cls)


def _pick(rng, pool, d, allow_noise=True):
    names = [k for k in pool if allow_noise or k not in NOISE]
    w = np.array([pool[k] for k in names], dtype=float)
    for _ in range(50):
        cls = names[int(rng.choice(len(names), p=w / w.sum()))]
        sp = gen_leaf(rng, cls, d, benign=True)
        if sp is not None:
            return sp
    return gen_leaf(rng, "DiffRBF", d)


def gen_transform(rng, d, inner_depth, pool, allow_noise=False):
    m = int(rng.integers(1, d + 2))
    mat = rng.normal(size=(d, m)) * rng.uniform(0.3, 1.5)
    sp = {"t": "transform", "nfeat": d, "matrix": [_jl(r) for r in mat],
          "std": _jl(rng.uniform(0.3, 3.0, size=d)) if rng.random() < 0.6 else None,
          "avg": _jl(rng.normal(size=d)) if rng.random() < 0.6 else None,
          "a": gen_tree(rng, m, inner_depth, pool, allow_noise=False)}
    return sp


def gen_tree(rng, d, depth, pool, allow_noise=True):
    """Random composition of depth <= depth over d columns."""
    if depth <= 0 or rng.random() < 0.2:
        return _pick(rng, pool, d, allow_noise)
    op = ["sum", "prod", "pow", "transform", "scalar"][int(rng.choice(5, p=[0.3, 0.3, 0.15, 0.13, 0.12]))]
    if op in ("sum", "prod"):
        return {"t": op, "nfeat": d, "how": ["op", "ctor"][int(rng.integers(2))],
                "a": gen_tree(rng, d, depth - 1, pool, allow_noise), "b": gen_tree(rng, d, depth - 1, pool, allow_noise)}
    if op == "pow":
        return {"t": "pow", "nfeat": d, "how": ["op", "ctor"][int(rng.integers(2))], "p": int(rng.integers(1, 4)),
                "a": gen_tree(rng, d, depth - 1, pool, allow_noise)}
    if op == "transform":
        return gen_transform(rng, d, depth - 1, pool)
    # scalar operand through the operator overloads: k + c, c + k, k * c, c * k
    return {"t": ["sum", "prod"][int(rng.integers(2))], "nfeat": d, "how": ["scalar_r", "scalar_l"][int(rng.integers(2))],
            "c": float(_loguni(rng, 0.05, 5.0)), "a": gen_tree(rng, d, depth - 1, pool, allow_noise)}


def _leaves(sp):
    if sp["t"] == "leaf":
        return [sp]
    out = _leaves(sp["a"])
    if "b" in sp:
        out += _leaves(sp["b"])
    return out


def _depth(sp):
    if sp["t"] == "leaf":
        return 0
    return 1 + max(_depth(sp["a"]), _depth(sp["b"]) if "b" in sp else 0)


def _brief(sp):
    """Compact structural description (no random values) used for tags."""
    if sp["t"] == "leaf":
        return sp["cls"]
    if sp["t"] == "transform":
        return "T(%s)" % _brief(sp["a"])
    if sp["t"] == "pow":
        return "(%s)**%d" % (_brief(sp["a"]), sp["p"])
    sym = "+" if sp["t"] == "sum" else "*"
    if "b" in sp:
        return "(%s%s%s)" % (_brief(sp["a"]), sym, _brief(sp["b"]))
    return "(%s%sc)" % (_brief(sp["a"]), sym)


def _strip(sp):
    """Specification without cached objects (JSON serialisable)."""
    return {k: (_strip(v) if isinstance(v, dict) and "t" in v else v) for k, v in sp.items() if not k.startswith("_")}


# ------------------------------------------------------------------------------------------------ construction
def _conv_kw(kw, as_array=True):
    out = {}
    for k, v in kw.items():
        if k.endswith("_bounds"):
            out[k] = v if isinstance(v, str) else tuple(v)
        elif k in ("length_scale", "gamma") and isinstance(v, list):
            out[k] = np.array(v, dtype=float)
        elif k == "scale" and isinstance(v, list):
            out[k] = np.array(v, dtype=float) if as_array else list(v)
        elif k in ("active_dims", "up_active_dims", "down_active_dims") and isinstance(v, dict):
            out[k] = _mk_index(v)
        else:
            out[k] = v
    return out


def build(sp):
    """Construct the kernel object of a specification; caches it in sp['_k']."""
    from ciderpress.models import kernels as K
    t = sp["t"]
    if t == "leaf":
        cls = getattr(K, sp["cls"])
        args = [_mk_index(a) for a in sp["args"]]
        kw = _conv_kw(sp["kw"], as_array=(len(json.dumps(sp["kw"])) % 2 == 0))
        if "inner" in sp:
            kw["k"] = build(sp["inner"])
        k = cls(*args, **kw)
    elif t in ("sum", "prod"):
        a = build(sp["a"])
        if not isinstance(a, K.DiffKernelMixin) and sp["how"] == "op":
            # plain sklearn kernels (noise classes) on the left would dispatch to sklearn's own operators
            sp["how"] = "ctor"
        if "b" in sp:
            b = build(sp["b"])
            if sp["how"] == "op":
                k = a + b if t == "sum" else a * b
            else:
                k = K.DiffSum(a, b) if t == "sum" else K.DiffProduct(a, b)
        else:
            c = sp["c"]
            if not isinstance(a, K.DiffKernelMixin):  # plain sklearn kernel: build the same node explicitly
                ck = K.DiffConstantKernel(c)
                pair = (a, ck) if sp["how"] == "scalar_r" else (ck, a)
                k = K.DiffSum(*pair) if t == "sum" else K.DiffProduct(*pair)
            elif sp["how"] == "scalar_r":
                k = a + c if t == "sum" else a * c
            else:
                k = c + a if t == "sum" else c * a
    elif t == "pow":
        a = build(sp["a"])
        if not isinstance(a, K.DiffKernelMixin):
            sp["how"] = "ctor"
        k = a ** sp["p"] if sp["how"] == "op" else K.DiffExponentiation(a, sp["p"])
    elif t == "transform":
        a = build(sp["a"])
        k = K.DiffTransform(a, np.array(sp["matrix"], dtype=float),
                            std=None if sp["std"] is None else np.array(sp["std"]),
                            avg=None if sp["avg"] is None else np.array(sp["avg"]))
    else:
        raise KeyError(t)
    sp["_k"] = k
    return k


def _node_name(sp):
    if sp["t"] == "leaf":
        return sp["cls"]
    return {"sum": "DiffSum", "prod": "DiffProduct", "pow": "DiffExponentiation", "transform": "DiffTransform"}[sp["t"]]


def _expected_theta(sp):
    """(number of free hyper-parameter elements, sorted values) of a specification."""
    if sp["t"] == "leaf":
        return sp["nth"], list(sp["thvals"])
    n, v = _expected_theta(sp["a"])
    if "b" in sp:
        n2, v2 = _expected_theta(sp["b"])
        n, v = n + n2, v + v2
    elif "c" in sp:
        n, v = n + 1, v + [sp["c"]]
    return n, sorted(v)


_ADDITIVE_V2 = ("DiffARBFV2", "DiffAddLLRBF", "DiffAddRQ", "SubsetAddLLRBF", "SubsetAddRQ")


def _qual(sp):
    """Mechanism qualifier of a leaf: the configuration class that known findings are matched by."""
    if sp["t"] != "leaf":
        return ""
    cls, o, q = sp["cls"], sp["kw"].get("order"), ""
    if "Poly" in cls:
        return "[order=1]" if o == 1 else ""
    if o is not None and o >= 4:
        q += "[order>=4]"
    if o == 0:
        q += "[order=0]"
    if cls in _ADDITIVE_V2 and sp["hpstate"] == ["fixed", "free"]:
        q += "[length_scale-fixed,scale-free]"
    return q


# ------------------------------------------------------------------------------------------------ samples
def gen_samples(rng, d, n, m, positive, far):
    """X (n, d), Y (m, d) with coincident rows, near-duplicates (1e-8) and far-apart rows; special rows are put in
    the first 30 rows so that the finite-difference subsets X[:30], Y[:30] contain them."""
    spread = [0.3, 1.0, 3.0][int(rng.integers(3))]
    X = rng.uniform(-1, 1, size=(n, d)) * spread
    Y = rng.uniform(-1, 1, size=(m, d)) * spread
    feats = []
    offs = [30.0, 1e3][int(rng.integers(2))] * spread

    def rows(k, cnt):
        return [int(r) for r in rng.permutation(min(k, 30))[:cnt]]
    if n == 2:
        mode = int(rng.integers(3))
        if mode == 0:
            X[1] = X[0]
            feats.append("coincident")
        elif mode == 1:
            X[1] = X[0] + 1e-8 * rng.normal(size=d)
            feats.append("near-duplicate")
        elif far:
            X[1] += offs
            feats.append("far-apart")
    elif n > 2:
        r = rows(n, 8)
        X[r[1]] = X[r[0]]
        X[r[2]] = X[r[0]]
        X[r[4]] = X[r[3]] + 1e-8 * rng.normal(size=d)
        feats += ["coincident", "near-duplicate"]
        if far:
            u = rng.normal(size=d)
            X[r[5]] += offs * u / np.linalg.norm(u)
            X[r[6]] += offs
            X[r[7]] = X[r[6]] + 0.3 * spread * rng.normal(size=d)
            feats.append("far-apart")
    if m >= 2 and n >= 1:
        r = rows(m, 4)
        s = rows(n, 2)
        Y[r[0]] = X[s[0]]
        feats.append("x-y-coincident")
        if m > 2:
            Y[r[1]] = X[s[-1]] + 1e-8 * rng.normal(size=d)
            if far:
                Y[r[2]] -= offs
    if positive:
        X = np.abs(X) + 0.05
        Y = np.abs(Y) + 0.05
    return np.ascontiguousarray(X), np.ascontiguousarray(Y), feats, spread


# ------------------------------------------------------------------------------------------------ oracles
class _Fail(Exception):
    pass


def _call(rec, name, op, f, *a, **kw):
    """Run a kernel operation; an exception is a failed oracle of its own (mechanism '<Class>:<op>-raises')."""
    mech = _m(name, op + "-raises") if op else name  # DFTKernel entry points: one mechanism per (method, mode)
    try:
        out = f(*a, **kw)
    except Exception as e:  # noqa
        _unlock(getattr(f, "__self__", f))
        rec.require(_on("op_returns", name), False, mechanism=mech,
                    detail={"class": str(name), "exception": "%s: %s" % (type(e).__name__, str(e)[:200])})
        raise _Fail(mech)
    rec.require(_on("op_returns", name), True, mechanism=mech)
    return out


class _Nm(str):
    """Class name of the kernel under test plus a map relation -> mechanism prefix (or full mechanism) for the
    configuration classes / implementation sites that findings are keyed by."""
    q = {}


def _m(name, rel):
    v = getattr(name, "q", {}).get(rel)
    if v is None:
        return "%s:%s" % (name, rel)
    return v if ":" in v else "%s:%s" % (v, rel)


_ARBF_IMPL = ("DiffARBF", "SubsetARBF", "SpinSymARBF", "PartialARBF")
_K_AND_DERIV_RELS = ("k_and_deriv-raises", "k_and_deriv-value", "input-gradient-shape", "input-gradient",
                     "k_and_deriv(X)-vs-(X,X)")


def leaf_name(sp):
    """Mechanism naming of a leaf. A relation that a configuration class can affect is keyed by the implementation
    site and that class ("DiffAdditiveMixin[order>=4]:theta-gradient" for every additive kernel sharing the mixin),
    every other relation by the public class name."""
    cls, kw = sp["cls"], sp["kw"]
    nm = _Nm(cls)
    if "inner" in sp:  # ADKernel / SpinSymKernel delegate to the wrapped kernel
        nm.q = dict(leaf_name(sp["inner"]).q)
        nm.q["diag-raises"] = "%s:diag" % cls
        return nm
    q = {}
    o = kw.get("order")
    if "Poly" in cls:
        if o == 1:
            q["call(eval_gradient)-raises"] = q["k_and_deriv-raises"] = "DiffPolyKernel[order=1]"
    elif o is not None and cls != "QARBF":
        impl = "DiffARBF" if cls in _ARBF_IMPL else "DiffAdditiveMixin"
        if o >= 4:
            q["theta-gradient"] = q["input-gradient"] = impl + "[order>=4]"
        if o == 0:
            q["value-shape-or-nonfinite"] = impl + "[order=0]"
            q["call-raises"] = impl + "[order=0]:value-shape-or-nonfinite"  # SpinSym*: the scalar cannot be block-summed
            q["theta-setter-raises"] = impl + "[order=0]"  # one-element scale vector becomes a scalar in the setter
        if cls in _ADDITIVE_V2 and sp["hpstate"] == ["fixed", "free"]:
            q["call(eval_gradient)-raises"] = "DiffAdditiveMixin[length_scale-fixed,scale-free]"
    if cls in ("PartialRBF", "PartialARBF"):
        # k_and_deriv of the partial kernels is one call site: all of its failure modes share one mechanism
        for r in _K_AND_DERIV_RELS + ("subset-vs-base-input-gradient",):
            q[r] = "%s:k_and_deriv" % cls
    nm.q = q
    return nm


_COMPOSITE = ("DiffSum", "DiffProduct", "DiffExponentiation", "DiffTransform")


def _on(rel, name):
    """Oracle name: relation x kernel family (the class itself is carried by the mechanism string)."""
    if FINE_NAMES:
        q = sorted(set(v.split(":")[0] for v in getattr(name, "q", {}).values()))
        return "%s[%s%s]" % (rel, name, ("~" + ",".join(q)) if q else "")
    base = name.split("[")[0]
    if base.startswith("DFTKernel"):
        return "%s[%s]" % (rel, name)
    fam = "composite" if base in _COMPOSITE else "AddLLRBF" if "AddLLRBF" in base else "leaf"
    return "%s[%s]" % (rel, fam)


def _unlock(k):
    """An exception inside a _SubsetMixin/_SpinSymMixin call leaves the object locked (columns no longer sliced);
    reset it so that the following oracles see the kernel as constructed."""
    if hasattr(k, "_locked"):
        k._locked = False
    for a in ("k1", "k2", "kernel", "k"):
        if hasattr(k, a) and hasattr(getattr(k, a), "get_params"):
            _unlock(getattr(k, a))


def _rel(a, b, scale=None):
    a = np.asarray(a, dtype=float)
    b = np.asarray(b, dtype=float)
    if a.shape != b.shape:
        return float("nan")
    if a.size == 0:
        return 0.0
    d = np.abs(a - b)
    if not np.all(np.isfinite(d)):
        return float("nan")
    s = max(float(np.max(np.abs(a))), float(np.max(np.abs(b)))) if scale is None else scale
    return 0.0 if s == 0 else float(np.max(d)) / s


def structural(rec, k, name, X, Y, det, white, st, budget=0.0):
    """symmetry / psd / transpose / diag / self oracles for one kernel object. st: relation -> bool."""
    n = X.shape[0]
    try:
        Kxx = np.asarray(_call(rec, name, "call", k, X), dtype=float)
    except _Fail:
        for r in ("value", "diag", "psd"):
            st[r] = False
        return None
    ok = rec.require(_on("shape_kxx", name), Kxx.shape == (n, n) and bool(np.all(np.isfinite(Kxx))),
                     mechanism=_m(name, "value-shape-or-nonfinite"),
                     detail=dict(det, shape=list(np.shape(Kxx))))
    if not ok:
        st["value"] = st["psd"] = st["diag"] = False
        return None
    scale = float(np.max(np.abs(np.diag(Kxx)))) if n else 0.0
    scale = max(scale, float(np.max(np.abs(Kxx)))) if n else 0.0
    scale = max(scale, budget)  # rounding budget of ill-conditioned evaluations (see _ll_budget)
    if scale == 0.0:
        scale = 1.0
    rec.check(_on("symmetry", name), float(np.max(np.abs(Kxx - Kxx.T))) / scale, TOL_EXACT, mechanism=_m(name, "symmetry"),
              detail=det)
    w = np.linalg.eigvalsh(0.5 * (Kxx + Kxx.T))
    st["psd"] = rec.check(_on("psd", name), max(0.0, -float(w[0])) / (n * scale), TOL_PSD, mechanism=_m(name, "psd"),
                          detail=dict(det, min_eig=float(w[0]), scale=scale, n=n)) and st.get("psd", True)
    try:
        Kxy = np.asarray(_call(rec, name, "call", k, X, Y), dtype=float)
        Kyx = np.asarray(_call(rec, name, "call", k, Y, X), dtype=float)
        s2 = max(scale, float(np.max(np.abs(Kxy))) if Kxy.size else 0.0)
        rec.check(_on("transpose", name), _rel(Kxy, Kyx.T, s2), TOL_EXACT, mechanism=_m(name, "transpose"), detail=det)
    except _Fail:
        st["value"] = False
    try:
        dg = np.asarray(_call(rec, name, "diag", k.diag, X), dtype=float)
        st["diag"] = rec.check(_on("diag", name), _rel(dg, np.diag(Kxx), scale), TOL_EXACT, mechanism=_m(name, "diag"),
                               detail=dict(det, diag=dg[:3].tolist(), diag_of_k=np.diag(Kxx)[:3].tolist())) \
            and st.get("diag", True)
    except _Fail:
        st["diag"] = False
    if not white:
        try:
            Kx2 = np.asarray(_call(rec, name, "call", k, X, X.copy()), dtype=float)
            rec.check(_on("self", name), _rel(Kxx, Kx2, scale), TOL_EXACT, mechanism=_m(name, "k(X)-vs-k(X,X)"), detail=det)
        except _Fail:
            pass
    return Kxx


def _fd5(f, h):
    return (-f(2 * h) + 8 * f(h) - 8 * f(-h) + f(-2 * h)) / (12 * h)


def _fd_compare(fd, steps, ana, noise):
    """Compare an analytic derivative array with 5-point finite differences fd(h).

    The step is the smallest of `steps` whose a-priori rounding bound (noise / h, noise = FD_NOISE * value scale) is
    below TOL_FD / 300 (else TOL_FD / FD_GUARD) of the derivative scale - truncation error only decreases with h, so this is the most
    accurate admissible step, and a step much wider than the kernel's features (both estimates ~ 0, agreeing with
    each other but not with the derivative) can never be selected because of its small self-error.
    Returns (self_error, error, scale); self_error = max(|fd(h) - fd(h/2)|, rounding bound) / scale."""
    sa = float(np.max(np.abs(ana))) if np.size(ana) else 0.0
    steps = sorted(steps)
    sc = sa
    if sa == 0.0:
        # analytic derivative identically zero: the numerical one must vanish at every step
        sc = max(float(np.max(np.abs(fd(h)))) for h in steps)
        if sc == 0.0:
            return 0.0, 0.0, 0.0
    j = None
    for thr in (TOL_FD / 300, TOL_FD / FD_GUARD):
        for jj, hh in enumerate(steps):
            if noise / (hh / 2) <= thr * sc:
                j = jj
                break
        if j is not None:
            break
    if j is None:
        return float("inf"), float("nan"), sc
    h = steps[j]
    d1, d2 = fd(h), fd(h / 2)
    sc = max(sc, float(np.max(np.abs(d2))))
    se = max(float(np.max(np.abs(d2 - d1))), noise / (h / 2)) / sc
    if j > 0:
        # every finer candidate must agree within its own (larger) rounding bound: rejects a step in the flat regime
        # (h much wider than the kernel's features), where fd(h) and fd(h/2) agree with each other (both ~ 0) but not
        # with the derivative. If even the finest step cannot resolve the derivative scale the component is
        # inconclusive.
        if noise / steps[0] >= 0.1 * sc:
            return float("inf"), float("nan"), sc
        for jj in range(j):
            d3 = fd(steps[jj])
            se = max(se, (float(np.max(np.abs(d2 - d3))) - 3 * noise / steps[jj]) / sc)
    er = float(np.max(np.abs(d2 - ana))) / sc
    return se, er, sc


def theta_gradient(rec, k, name, X, sp, det, st, budget=0.0):
    """theta bookkeeping and theta-gradient vs finite differences. Returns (conclusive, nonzero)."""
    n = X.shape[0]
    mech = _m(name, "theta-gradient")
    try:
        th = np.array(_call(rec, name, "theta", lambda: k.theta), dtype=float)
    except _Fail:
        st["theta"] = False
        return False, False
    nexp, vexp = _expected_theta(sp)
    okb = rec.require(_on("theta_size", name), th.size == nexp, mechanism=_m(name, "theta-size"),
                      detail=dict(det, theta_size=int(th.size), expected=nexp))
    if okb and nexp:
        rec.check(_on("theta_values", name), _rel(np.sort(np.exp(th)), np.array(vexp)), TOL_EXACT,
                  mechanism=_m(name, "theta-values"), detail=det)
    try:
        Kg, G = _call(rec, name, "call(eval_gradient)", k, X, eval_gradient=True)
        K0 = _call(rec, name, "call", k, X)
    except _Fail:
        st["theta"] = False
        return False, False
    G = np.asarray(G, dtype=float)
    ok = rec.require(_on("theta_grad_shape", name), G.shape == (n, n, th.size), mechanism=_m(name, "theta-gradient-shape"),
                     detail=dict(det, shape=list(G.shape), theta_size=int(th.size)))
    kscale = max(float(np.max(np.abs(K0))), 1e-300)
    rec.check(_on("value_with_gradient", name), _rel(Kg, K0, kscale), TOL_EXACT, mechanism=_m(name, "value-with-gradient"),
              detail=det)
    if not ok:
        st["theta"] = False
        return False, False
    if th.size == 0:
        return True, False
    conclusive, nonzero, worst, wself = 0, False, 0.0, 0.0
    for c in range(th.size):
        def f(t):
            kk = copy.deepcopy(k)
            tt = th.copy()
            tt[c] += t
            kk.theta = tt
            return np.asarray(kk(X), dtype=float)
        try:
            se, er, sc = _fd_compare(lambda h: _fd5(f, h), (2e-2, 1e-2, 5e-3, 2e-3, 1e-3, 5e-4), G[:, :, c], FD_NOISE * max(kscale, budget))
        except Exception as e:  # theta setter / call failure
            rec.require(_on("op_returns", name), False, mechanism=_m(name, "theta-setter-raises"),
                        detail={"exception": "%s: %s" % (type(e).__name__, str(e)[:200])})
            st["theta"] = False
            return False, False
        wself = max(wself, se)
        if not se <= TOL_FD / FD_GUARD:
            continue
        conclusive += 1
        nonzero = nonzero or sc > 1e-12 * kscale
        worst = max(worst, er)
        good = rec.check(_on("theta_fd", name), er, TOL_FD, mechanism=mech,
                         detail=dict(det, component=c, n_theta=int(th.size), err=er, fd_self_err=se))
        if not good:
            st["theta"] = False
            break
    rec.note(_on("theta_fd_self", name), wself)
    return conclusive > 0, nonzero


def input_gradient(rec, k, name, X, Y, sp, det, white, st, budget=0.0):
    """k_and_deriv(X, Y) vs k(X, Y) and finite differences in X. Returns (conclusive, nonzero)."""
    n, d = X.shape
    m = Y.shape[0]
    mech = _m(name, "input-gradient")
    try:
        kv, dk = _call(rec, name, "k_and_deriv", k.k_and_deriv, X, Y)
        Kxy = np.asarray(_call(rec, name, "call", k, X, Y), dtype=float)
    except _Fail:
        st["x"] = False
        return False, False
    kv = np.asarray(kv, dtype=float)
    dk = np.asarray(dk, dtype=float)
    kscale = max(float(np.max(np.abs(Kxy))), 1e-300)
    okv = rec.check(_on("k_and_deriv_value", name), _rel(kv, Kxy, kscale), TOL_EXACT, mechanism=_m(name, "k_and_deriv-value"),
                    detail=det)
    oks = rec.require(_on("input_grad_shape", name), dk.shape == (n, m, d), mechanism=_m(name, "input-gradient-shape"),
                      detail=dict(det, shape=list(dk.shape), expected=[n, m, d]))
    if not (okv and oks):
        st["x"] = False
        return False, False
    if not white:
        try:
            k1, dk1 = _call(rec, name, "k_and_deriv", k.k_and_deriv, X)
            k2, dk2 = _call(rec, name, "k_and_deriv", k.k_and_deriv, X, X.copy())
            gs = max(float(np.max(np.abs(dk2))) if np.size(dk2) else 0.0, 1e-300)
            rec.check(_on("k_and_deriv_self", name), max(_rel(k1, k2), _rel(dk1, dk2, gs)), TOL_EXACT,
                      mechanism=_m(name, "k_and_deriv(X)-vs-(X,X)"), detail=det)
        except _Fail:
            st["x"] = False
    # form of the data: integer-valued samples stored as integers must give what the same values stored as floats give
    # (added after a seeded change that allocated the gradient buffer with the dtype of the samples)
    try:
        Xi = np.rint(2 * X[: min(n, 7)]).astype(np.int64)
        Yi = np.rint(2 * Y[: min(m, 5)]).astype(np.int64)
        if np.all(X > 0):
            Xi, Yi = np.maximum(Xi, 1), np.maximum(Yi, 1)
        kf, dkf = k.k_and_deriv(Xi.astype(float), Yi.astype(float))
        ki, dki = k.k_and_deriv(Xi, Yi)
        kf, dkf, ki, dki = (np.asarray(a, dtype=float) for a in (kf, dkf, ki, dki))
        if np.all(np.isfinite(kf)) and np.all(np.isfinite(dkf)):
            gs_i = max(float(np.max(np.abs(dkf))) if dkf.size else 0.0, 1e-300)
            ks_i = max(float(np.max(np.abs(kf))) if kf.size else 0.0, 1e-300)
            rec.check(_on("integer_samples", name), max(_rel(ki, kf, ks_i), _rel(dki, dkf, gs_i)), TOL_EXACT,
                      mechanism=_m(name, "input-gradient"), detail=dict(det, form="int64 samples"))
    except Exception as e:  # noqa: BLE001 - a kernel that refuses integer arrays is not judged here
        rec.note(_on("integer_samples_not_evaluated", name), repr(e)[:120])
    conclusive, nonzero, wself = 0, False, 0.0
    for i in range(d):
        def fd(h):
            hr = (X[:, i] + h) - X[:, i]  # exactly representable step per row

            def f(c):
                Xp = X.copy()
                Xp[:, i] = X[:, i] + c * hr
                return np.asarray(k(Xp, Y), dtype=float)
            return (-f(2) + 8 * f(1) - 8 * f(-1) + f(-2)) / (12 * hr[:, None])
        se, er, sc = _fd_compare(fd, (3e-2, 1e-2, 3e-3, 1e-3, 3e-4, 1e-4, 3e-5, 1e-5, 3e-6), dk[:, :, i], FD_NOISE * max(kscale, budget))
        wself = max(wself, se)
        if not se <= TOL_FD / FD_GUARD:
            continue
        conclusive += 1
        nonzero = nonzero or sc > 0
        good = rec.check(_on("input_fd", name), er, TOL_FD, mechanism=mech,
                         detail=dict(det, column=i, err=er, fd_self_err=se))
        if not good:
            st["x"] = False
            break
    rec.note(_on("input_fd_self", name), wself)
    return conclusive > 0, nonzero


# ------------------------------------------------------------------------------------------------ definitions
def _ll_budget(lf, X, Y):
    """Rounding budget of a (Subset)AddLLRBF leaf. Its per-dimension factor k0 = (1 + x y / (alpha l^2)) exp(..) is not
    bounded by 1; the Newton-Girard recursion then computes the elementary symmetric polynomials e_n by cancellation
    of terms of size p1^n (p1 = sum_dims |k0|), so the value carries an absolute rounding error of about
    eps * sum_n scale_n p1^n (measured: <= 2.5 eps of it on 10^4 random configurations). Relations that are exact
    in exact arithmetic are compared on max(scale of k, this budget); it equals the kernel scale (no effect) unless
    order exceeds the number of active columns or one column dominates. 0 for every other class
    (DiffAntisymRBF: see below)."""
    if lf["cls"] == "DiffAntisymRBF":
        # k_s = k(x0,y0) - k(x0,y1) - k(x1,y0) + k(x1,y1): four terms of size <= 1 cancel when x0 ~ x1, so entries carry
        # an absolute rounding error of ~ eps * 4 whatever the (possibly tiny) scale of the result
        return 4.0
    if "AddLLRBF" not in lf["cls"]:
        return 0.0
    kw = lf["kw"]
    cols = lf["base"]["cols"] if "base" in lf else list(range(X.shape[1]))
    Z = np.vstack([X, Y])[:, cols]
    ls = np.asarray(kw["length_scale"], dtype=float)
    k0 = np.abs(1 + Z[:, None, :] * Z[None, :, :] / (kw["alpha"] * ls ** 2)) * np.exp(-0.5 * ((Z[:, None, :] - Z[None, :, :]) / ls) ** 2)
    p1 = float(np.max(np.sum(k0, axis=-1)))
    return float(sum(sc * p1 ** m for m, sc in enumerate(np.atleast_1d(kw["scale"]))))


def _swap(X, ca, cb):
    X2 = X.copy()
    X2[:, ca] = X[:, cb]
    X2[:, cb] = X[:, ca]
    return X2


def leaf_definition(rec, sp, k, name, X, Y, det, st, budget=0.0):
    """Exact definitional identities of the index / spin / partial / legacy wrapper classes and ARBF cross-check."""
    from ciderpress.models import kernels as K
    cls = sp["cls"]
    n, d = X.shape
    m = Y.shape[0]
    has_theta = cls not in NO_THETA_GRAD
    has_x = cls not in NO_XGRAD

    def cmp_(tag, a, b, mech):
        a = np.asarray(a, dtype=float)
        b = np.asarray(b, dtype=float)
        if budget and a.shape == b.shape and a.size:
            sc = max(float(np.max(np.abs(a))), float(np.max(np.abs(b))), 10 * budget)
            return rec.check(_on(tag, name), _rel(a, b, sc), TOL_EXACT, mechanism=_m(name, mech), detail=det)
        return rec.check(_on(tag, name), _rel(a, b), TOL_EXACT, mechanism=_m(name, mech), detail=det)

    base = sp.get("base")
    try:
        if cls in _SUBSET_BASE or cls in ("PartialRBF", "PartialARBF", "ADKernel"):
            cols = base["cols"]
            kb = build(sp["inner"]) if cls == "ADKernel" else getattr(K, base["cls"])(**_conv_kw(base["kw"]))
            Xs, Ys = np.ascontiguousarray(X[:, cols]), np.ascontiguousarray(Y[:, cols])
            cmp_("subset_value", _call(rec, name, "call", k, X, Y), kb(Xs, Ys), "subset-vs-base-value")
            if has_theta:
                v1, g1 = _call(rec, name, "call(eval_gradient)", k, X, eval_gradient=True)
                v2, g2 = kb(Xs, eval_gradient=True)
                cmp_("subset_value", v1, v2, "subset-vs-base-value")
                cmp_("subset_theta_grad", g1, g2, "subset-vs-base-theta-gradient")
            if has_x and st.get("x", True):
                v1, dk1 = _call(rec, name, "k_and_deriv", k.k_and_deriv, X, Y)
                v2, dk2s = kb.k_and_deriv(Xs, Ys)
                dk2 = np.zeros((n, m, d))
                dk2[:, :, cols] = dk2s
                cmp_("subset_value", v1, v2, "subset-vs-base-value")
                if np.shape(dk1) == dk2.shape:
                    cmp_("subset_input_grad", dk1, dk2, "subset-vs-base-input-gradient")
        elif cls in _SPINSYM_BASE or cls == "SpinSymKernel":
            ca, cb = base["alpha"], base["beta"]
            X2, Y2 = _swap(X, ca, cb), _swap(Y, ca, cb)
            v = np.asarray(_call(rec, name, "call", k, X, Y), dtype=float)
            # _SpinSymMixin symmetrises each argument separately; the legacy SpinSymKernel (k_up + k_down) is only
            # invariant under the simultaneous exchange in both arguments
            pairs = (("XY", (X2, Y2)),) if cls == "SpinSymKernel" else (("X", (X2, Y)), ("Y", (X, Y2)), ("XY", (X2, Y2)))
            for nm, (a, b) in pairs:
                cmp_("spin_exchange", v, _call(rec, name, "call", k, a, b), "spin-exchange-invariance")
            cmp_("spin_exchange", _call(rec, name, "call", k, X), _call(rec, name, "call", k, X2), "spin-exchange-invariance")
            if has_theta:
                g1 = _call(rec, name, "call(eval_gradient)", k, X, eval_gradient=True)[1]
                g2 = _call(rec, name, "call(eval_gradient)", k, X2, eval_gradient=True)[1]
                cmp_("spin_exchange_theta_grad", g1, g2, "spin-exchange-theta-gradient")
            kb = build(sp["inner"]) if cls == "SpinSymKernel" else getattr(K, base["cls"])(**_conv_kw(base["kw"]))
            Xa, Xb, Ya, Yb = X[:, ca], X[:, cb], Y[:, ca], Y[:, cb]
            if cls == "SpinSymKernel":
                ref = kb(Xa, Ya) + kb(Xb, Yb)
            else:
                ref = kb(Xa, Ya) + kb(Xa, Yb) + kb(Xb, Ya) + kb(Xb, Yb)
            cmp_("spin_blocks", v, ref, "spin-block-sum-value")
            if has_x and st.get("x", True):
                v1, dk1 = _call(rec, name, "k_and_deriv", k.k_and_deriv, X, Y)
                v2, dk2 = _call(rec, name, "k_and_deriv", k.k_and_deriv, X, Y2)
                v3, dk3 = _call(rec, name, "k_and_deriv", k.k_and_deriv, X2, Y)
                dk3s = dk3.copy()
                dk3s[:, :, ca] = dk3[:, :, cb]
                dk3s[:, :, cb] = dk3[:, :, ca]
                cmp_("spin_exchange_input_grad", dk1, dk2, "spin-exchange-input-gradient")
                cmp_("spin_exchange_input_grad", dk1, dk3s, "spin-exchange-input-gradient")
                da1, db1 = kb.k_and_deriv(Xa, Ya)[1], kb.k_and_deriv(Xb, Ya)[1]
                da2, db2 = kb.k_and_deriv(Xa, Yb)[1], kb.k_and_deriv(Xb, Yb)[1]
                ref = np.zeros((n, m, d))
                ref[:, :, ca] = da1 + da2
                ref[:, :, cb] = db1 + db2
                cmp_("spin_blocks_input_grad", dk1, ref, "spin-block-sum-input-gradient")
        elif cls in ("DiffARBF", "DiffARBFV2"):
            # the two implementations of the additive RBF kernel must agree (skipped when either one raises: that
            # is reported by the class's own oracles)
            other = getattr(K, "DiffARBFV2" if cls == "DiffARBF" else "DiffARBF")(**_conv_kw(sp["kw"]))
            try:
                v1, g1 = k(X, eval_gradient=True)
                v2, g2 = other(X, eval_gradient=True)
                a, b = k.k_and_deriv(X, Y), other.k_and_deriv(X, Y)
            except Exception:
                rec.tag("skipped", "ARBF-vs-ARBFV2: one implementation raised")
                return
            cmp_("arbf_vs_arbfv2", v1, v2, "ARBF-vs-ARBFV2-value")
            if not _qual(sp):
                cmp_("arbf_vs_arbfv2", g1, g2, "ARBF-vs-ARBFV2-theta-gradient")
                cmp_("arbf_vs_arbfv2", a[1], b[1], "ARBF-vs-ARBFV2-input-gradient")
            cmp_("arbf_vs_arbfv2", a[0], b[0], "ARBF-vs-ARBFV2-value")
    except _Fail:
        pass


def node_algebra(rec, sp, X, Y, det):
    """Exact composition identities of one composite node against its (already built) children."""
    k = sp["_k"]
    name = _node_name(sp)
    t = sp["t"]
    leaves = [lf["cls"] for lf in _leaves(sp)]
    can_theta = not any(c in NO_THETA_GRAD for c in leaves) and all(lf.get("_st", {}).get("theta", True) for lf in _leaves(sp))
    can_x = not any(c in NO_XGRAD for c in leaves) and all(lf.get("_st", {}).get("x", True) for lf in _leaves(sp))
    if not all(lf.get("_st", {}).get("value", True) for lf in _leaves(sp)):
        rec.tag("skipped", "algebra: an operand failed its value oracle")
        return
    from ciderpress.models import kernels as K
    want = {"sum": K.DiffSum, "prod": K.DiffProduct, "pow": K.DiffExponentiation, "transform": K.DiffTransform}[t]
    rec.require(_on("node_type", name), type(k) is want, mechanism="DiffKernelMixin:operator-returns-wrong-class",
                detail=dict(det, got=type(k).__name__))

    def cmp_(tag, a, b, what):
        return rec.check(_on("algebra_" + tag, name), _rel(a, b), TOL_EXACT, mechanism="%s:algebra-%s" % (name, what),
                         detail=det)
    try:
        if t == "transform":
            ki = sp["a"]["_k"]
            M = np.array(sp["matrix"])
            std = None if sp["std"] is None else np.array(sp["std"])
            avg = None if sp["avg"] is None else np.array(sp["avg"])

            def tr(Z):
                Z = Z if avg is None else Z - avg
                Z = Z if std is None else Z / std
                return Z.dot(M)
            Xt, Yt = tr(X), tr(Y)
            cmp_("value", _call(rec, name, "call", k, X, Y), ki(Xt, Yt), "value")
            cmp_("value", _call(rec, name, "call", k, X), ki(Xt), "value")
            cmp_("diag", _call(rec, name, "diag", k.diag, X), ki.diag(Xt), "diag")
            if can_theta:
                cmp_("theta_grad", _call(rec, name, "call(eval_gradient)", k, X, eval_gradient=True)[1],
                     ki(Xt, eval_gradient=True)[1], "theta-gradient")
            if can_x:
                v, dk = _call(rec, name, "k_and_deriv", k.k_and_deriv, X, Y)
                vi, dki = ki.k_and_deriv(Xt, Yt)
                ref = dki.dot(M.T)
                if std is not None:
                    ref = ref / std
                cmp_("value", v, vi, "value")
                cmp_("input_grad", dk, ref, "input-gradient")
            return
        ka = sp["a"]["_k"]
        kb = sp["b"]["_k"] if "b" in sp else None
        c = sp.get("c")

        def parts(f):
            """values of the two operands in node order (scalar operands are constant kernels)."""
            va = f(ka)
            if kb is not None:
                return va, f(kb)
            return (va, None) if sp["how"] == "scalar_r" else (None, va)
        if t in ("sum", "prod"):
            for args in ((X, Y), (X,)):
                a, b = parts(lambda kk: np.asarray(kk(*args), dtype=float))
                a = np.full_like(b, c) if a is None else a
                b = np.full_like(a, c) if b is None else b
                cmp_("value", _call(rec, name, "call", k, *args), a + b if t == "sum" else a * b, "value")
            da, db = parts(lambda kk: np.asarray(kk.diag(X), dtype=float))
            da = np.full_like(db, c) if da is None else da
            db = np.full_like(da, c) if db is None else db
            cmp_("diag", _call(rec, name, "diag", k.diag, X), da + db if t == "sum" else da * db, "diag")
            if can_theta:
                ra, rb = parts(lambda kk: kk(X, eval_gradient=True))
                n = X.shape[0]
                if ra is None:
                    ra = (np.full((n, n), c), np.full((n, n, 1), c))
                if rb is None:
                    rb = (np.full((n, n), c), np.full((n, n, 1), c))
                if t == "sum":
                    ref = np.dstack((ra[1], rb[1]))
                else:
                    ref = np.dstack((ra[1] * rb[0][:, :, None], rb[1] * ra[0][:, :, None]))
                cmp_("theta_grad", _call(rec, name, "call(eval_gradient)", k, X, eval_gradient=True)[1], ref,
                     "theta-gradient")
            if can_x:
                ra, rb = parts(lambda kk: kk.k_and_deriv(X, Y))
                shp = (X.shape[0], Y.shape[0])
                if ra is None:
                    ra = (np.full(shp, c), np.zeros(shp + (X.shape[1],)))
                if rb is None:
                    rb = (np.full(shp, c), np.zeros(shp + (X.shape[1],)))
                v, dk = _call(rec, name, "k_and_deriv", k.k_and_deriv, X, Y)
                if t == "sum":
                    rv, rd = ra[0] + rb[0], ra[1] + rb[1]
                else:
                    rv, rd = ra[0] * rb[0], ra[0][:, :, None] * rb[1] + rb[0][:, :, None] * ra[1]
                cmp_("value", v, rv, "value")
                cmp_("input_grad", dk, rd, "input-gradient")
        elif t == "pow":
            p = sp["p"]
            for args in ((X, Y), (X,)):
                cmp_("value", _call(rec, name, "call", k, *args), np.asarray(ka(*args), dtype=float) ** p, "value")
            cmp_("diag", _call(rec, name, "diag", k.diag, X), np.asarray(ka.diag(X), dtype=float) ** p, "diag")
            if can_theta:
                v, g = ka(X, eval_gradient=True)
                cmp_("theta_grad", _call(rec, name, "call(eval_gradient)", k, X, eval_gradient=True)[1],
                     g * (p * v ** (p - 1))[:, :, None], "theta-gradient")
            if can_x:
                v, dk = ka.k_and_deriv(X, Y)
                vv, dd = _call(rec, name, "k_and_deriv", k.k_and_deriv, X, Y)
                cmp_("value", vv, v ** p, "value")
                cmp_("input_grad", dd, (p * v ** (p - 1))[:, :, None] * dk, "input-gradient")
    except _Fail:
        pass


# ------------------------------------------------------------------------------------------------ drivers
def _full_checks(rec, sp, k, name, X, Y, det, leafset, budget=0.0):
    """All value and gradient oracles on one kernel object; returns status dict."""
    white = any(c in NOISE or c == "DiffWhiteKernel" for c in leafset)
    st = {}
    nfd = min(30, X.shape[0])
    mfd = min(30, Y.shape[0])
    Xf, Yf = np.ascontiguousarray(X[:nfd]), np.ascontiguousarray(Y[:mfd])
    Kxx = structural(rec, k, name, X, Y, det, white, st, budget)
    res = {"theta": (False, False), "x": (False, False)}
    if Kxx is None:
        st["theta"] = st["x"] = False
        return st, res
    if any(c in NO_THETA_GRAD for c in leafset):
        rec.tag("skipped", "theta-gradient:%s declares eval_gradient NotImplemented" %
                ",".join(sorted(set(c for c in leafset if c in NO_THETA_GRAD))))
        st["theta"] = False
    else:
        res["theta"] = theta_gradient(rec, k, name, Xf, sp, det, st, budget)
    if any(c in NO_XGRAD for c in leafset):
        rec.tag("skipped", "input-gradient:%s define no k_and_deriv" %
                ",".join(sorted(set(c for c in leafset if c in NO_XGRAD))))
        st["x"] = False
    else:
        res["x"] = input_gradient(rec, k, name, Xf, Yf, sp, det, white, st, budget)
    return st, res


def _tag_leaf(rec, lf):
    rec.tag("leaf_class", lf["cls"])
    for s in lf["hpstate"]:
        rec.tag("hyperparameter_state", s)
    kw = lf["kw"]
    for key in ("length_scale", "gamma"):
        if key in kw:
            rec.tag("anisotropic", isinstance(kw[key], list))
            v = np.atleast_1d(kw[key])
            if np.any(v < 0.01) or np.any(v > 100):
                rec.tag("extreme_length_scale", True)
    for key in kw:
        if key.endswith("_bounds"):
            rec.tag("bounds", "fixed" if kw[key] == "fixed" else "custom")
    if not any(key.endswith("_bounds") for key in kw) and lf["hpstate"]:
        rec.tag("bounds", "default")
    if "order" in kw:
        rec.tag("order[%s]" % lf["cls"], kw["order"])
    for a in lf["args"]:
        rec.tag("index_type", list(a.keys())[0])
    if "active_dims" in kw or "start" in kw:
        rec.tag("partial_selector", "active_dims" if "active_dims" in kw else "start")


def run_kernel(rec, rng, sp, nset):
    """Build one specification and evaluate every oracle on it. Returns True if counted as non-trivial."""
    d = sp["nfeat"]
    leaves = _leaves(sp)
    leafset = [lf["cls"] for lf in leaves]
    positive = any(c in NOISE for c in leafset)
    unbounded = any(c in UNBOUNDED for c in leafset) or any("inner" in lf and lf["inner"]["cls"] in UNBOUNDED for lf in leaves)
    has_ll = any("AddLLRBF" in c for c in leafset)
    far = ((not unbounded) or rng.random() < 0.3) and not has_ll
    n = int(nset[int(rng.integers(len(nset)))])
    m = int(nset[int(rng.integers(len(nset)))])
    X, Y, feats, spread = gen_samples(rng, d, n, m, positive, far)
    rec.tag("n", n)
    rec.tag("m", m)
    rec.tag("nfeat", d)
    rec.tag("sample_features", feats)
    rec.tag("depth", _depth(sp))
    rec.tag("structure", "leaf" if sp["t"] == "leaf" else "depth%d:%s" % (_depth(sp), _node_name(sp)))
    spec_json = _strip(sp)
    det = {"kernel": spec_json, "n": n, "m": m, "sample_features": feats, "spread": spread}
    try:
        build(sp)
    except Exception as e:  # construction of a valid specification must not fail
        rec.require("construct", False, mechanism="%s:construction-raises" % _node_name(sp),
                    detail=dict(det, exception="%s: %s" % (type(e).__name__, str(e)[:200])))
        return False
    nontrivial = False
    # leaves
    for lf in leaves:
        _tag_leaf(rec, lf)
        cls = lf["cls"]
        ldet = dict(det, leaf=_strip(lf))
        # leaves below a DiffTransform act on transformed columns of a different width: give them their own samples
        if lf["nfeat"] == d and not _under_transform(sp, lf):
            Xl, Yl = X, Y
        else:
            Xl, Yl, _, _ = gen_samples(rng, lf["nfeat"], n, m, positive, far and cls not in UNBOUNDED)
        lname = leaf_name(lf)
        budget = _ll_budget(lf, Xl, Yl)
        if budget:
            rec.note("ll_rounding_budget", budget)
        st, res = _full_checks(rec, lf, lf["_k"], lname, Xl, Yl, ldet, [cls], budget)
        lf["_st"] = st
        leaf_definition(rec, lf, lf["_k"], lname, Xl[:30], Yl[:30], ldet, st, budget)
        if sp is lf:
            nontrivial = _is_nontrivial(res, cls, n)
    if sp["t"] == "leaf":
        return nontrivial
    # composite nodes: exact algebra at every node, full oracles at the root
    for node in _internal(sp):
        rec.tag("operator", "%s[%s]" % (_node_name(node), node.get("how", "ctor")))
        if node["t"] == "pow":
            rec.tag("exponent", node["p"])
        Xn, Yn = (X, Y) if (node["nfeat"] == d and not _under_transform(sp, node)) else \
            gen_samples(rng, node["nfeat"], min(n, 30), min(m, 30), False, False)[:2]
        node_algebra(rec, node, Xn[:30], Yn[:30], dict(det, node=_brief(node)))
    name = _Nm(_node_name(sp))
    # a gradient failure at the root of a tree that contains a leaf of a configuration class keyed for gradients
    # (e.g. additive order >= 4, whose leaf-level error can be below the tolerance) is attributed to that class
    name.q = {}
    for lf in leaves:
        for r in ("theta-gradient", "input-gradient"):
            v = leaf_name(lf).q.get(r)
            if v and r not in name.q:
                name.q[r] = v
    leaf_ok = {r: all(lf["_st"].get(r, True) for lf in leaves) for r in ("theta", "x", "diag", "psd", "value")}
    st, res = {}, {"theta": (False, False), "x": (False, False)}
    white = any(c in NOISE or c == "DiffWhiteKernel" for c in leafset)
    if not leaf_ok["value"]:
        rec.tag("root_skipped", "all: a leaf failed its value oracle")
        return False
    # a relation already refuted at a leaf is attributed there; the root oracle for it is skipped
    k = sp["_k"]
    Kxx = None
    if leaf_ok["diag"] and leaf_ok["psd"]:
        Kxx = structural(rec, k, name, X, Y, det, white, st)
    else:
        rec.tag("root_skipped", "structural: a leaf failed diag/psd")
    Xf, Yf = np.ascontiguousarray(X[:30]), np.ascontiguousarray(Y[:30])
    if any(c in NO_THETA_GRAD for c in leafset):
        rec.tag("skipped", "theta-gradient:DiffAntisymRBF declares eval_gradient NotImplemented")
    elif not leaf_ok["theta"]:
        rec.tag("root_skipped", "theta-gradient: a leaf failed it")
    else:
        res["theta"] = theta_gradient(rec, k, name, Xf, sp, det, st)
    if any(c in NO_XGRAD for c in leafset):
        rec.tag("skipped", "input-gradient:%s define no k_and_deriv" % ",".join(sorted(set(c for c in leafset if c in NO_XGRAD))))
    elif not leaf_ok["x"]:
        rec.tag("root_skipped", "input-gradient: a leaf failed it")
    else:
        res["x"] = input_gradient(rec, k, name, Xf, Yf, sp, det, white, st)
    return _is_nontrivial(res, name, n)


def _is_nontrivial(res, cls, n):
    if (res["theta"][0] and res["theta"][1]) or (res["x"][0] and res["x"][1]):
        return True
    # classes with no gradient at all (no free hyper-parameter, no k_and_deriv): value oracles on n >= 2
    return cls in NO_XGRAD and n >= 2


def _internal(sp):
    """Composite nodes, children first."""
    if sp["t"] == "leaf":
        return []
    out = _internal(sp["a"])
    if "b" in sp:
        out += _internal(sp["b"])
    return out + [sp]


def _under_transform(root, node):
    """True if node lies strictly below a DiffTransform node of root."""
    def rec_(sp, below):
        if sp is node:
            return below
        if sp["t"] == "leaf":
            return None
        nb = below or sp["t"] == "transform"
        r = rec_(sp["a"], nb)
        if r is None and "b" in sp:
            r = rec_(sp["b"], nb)
        return r
    return bool(rec_(root, False))


# ------------------------------------------------------------------------------------------------ DFTKernel
def _run_dft(case, rec, rng):
    from ciderpress.dft.transform_data import FeatureList, LMap, UMap, VMap
    from ciderpress.models.dft_kernel import DFTKernel
    mode = case["mode"]
    nspin = case["nspin"]
    rec.tag("dft_mode", mode)
    rec.tag("dft_nspin", nspin)
    for rep in range(case["nk"]):
        N0 = int(rng.integers(3, 7))
        N1 = int(rng.integers(2, 6))
        maps, mdesc = [], []
        for j in range(N1):
            i = int(rng.integers(N0))
            u = int(rng.integers(3))
            if u == 0:
                g = float(_loguni(rng, 0.1, 3.0))
                maps.append(UMap(i, g))
                mdesc.append(("U", i, g, 1.0, 0.0))
            elif u == 1:
                g, s, c = float(_loguni(rng, 0.1, 3.0)), float(rng.uniform(0.5, 2)), float(rng.uniform(-0.5, 0.5))
                maps.append(VMap(i, g, s, c))
                mdesc.append(("V", i, g, s, c))
            else:
                maps.append(LMap(i))
                mdesc.append(("L", i, 0.0, 0.0, 0.0))
        fl = FeatureList(maps)

        def desc(x0):  # x0 (N0, ns) -> (ns, N1), from the documented map formulas
            out = np.empty((x0.shape[1], N1))
            for j, (c, i, g, s, ce) in enumerate(mdesc):
                out[:, j] = x0[i] if c == "L" else -ce + s * g * x0[i] / (1 + g * x0[i])
            return out
        while True:  # additive orders restricted to the range the tree's own tests and the mapping code cover
            sp = gen_tree(rng, N1, int(rng.integers(0, 3)), CLEAN_POOL, allow_noise=False)
            if not any(_qual(lf) for lf in _leaves(sp)):
                break
        kern = build(sp)
        rec.tag("dft_kernel_structure", sp["cls"] if sp["t"] == "leaf" else "depth%d:%s" % (_depth(sp), _node_name(sp)))
        det = {"mode": mode, "nspin": nspin, "kernel": _strip(sp), "maps": mdesc, "N0": N0}
        ctol = [1e-5, 1e-3, 1e-8][int(rng.integers(3))]
        nmax = None if rng.random() < 0.6 else int(rng.integers(3, 12))
        dk = DFTKernel(kern, fl, mode, lambda x: None, None, ctrl_tol=ctol, ctrl_nmax=nmax)
        # control points from two raw-feature blocks (one unpolarised, one polarised), with duplicates
        blocks = []
        for ns_c, nsamp_c in ((1, int(rng.integers(5, 15))), (2, int(rng.integers(5, 15)))):
            b = _loguni(rng, 0.05, 4.0, size=(ns_c, N0, nsamp_c))
            b[:, :, 1] = b[:, :, 0]
            b[:, :, 2] = b[:, :, 0] * (1 + 1e-9)
            blocks.append(b)
        reduce = rng.random() < 0.7
        rec.tag("dft_reduce", reduce)
        # definition of the control-point pool
        if mode == "POL":
            pool = np.concatenate([np.stack([desc(b[0]), desc(b[-1])]) for b in blocks], axis=1)
        elif mode == "SEP":
            pool = np.concatenate([desc(b[s]) for b in blocks for s in range(b.shape[0])], axis=0)
        else:
            pool = np.concatenate([desc(b.mean(0)) for b in blocks], axis=0)
        try:
            dk.set_control_points(blocks, reduce=reduce)
        except Exception as e:
            rec.require("dft_set_control_points", False, mechanism="DFTKernel.set_control_points[%s]" % mode,
                        detail=dict(det, exception="%s: %s" % (type(e).__name__, str(e)[:200])))
            continue
        ctrl = np.asarray(dk.X1ctrl)

        def kdef(A, B):  # A, B: (n, N1) or (2, n, N1) in POL
            if mode == "POL":
                return kern(A[0], B[0]) * kern(A[1], B[1]) + kern(A[0], B[1]) * kern(A[1], B[0])
            return kern(A, B)
        axis = 1 if mode == "POL" else 0
        npool = pool.shape[axis]
        if not reduce:
            rec.check("dft_ctrl_pool[%s]" % mode, _rel(ctrl, pool), TOL_EXACT, mechanism="DFTKernel.X0Tlist_to_X1array[%s]" % mode,
                      detail=det)
        else:
            # subset of the pool (exact rows, distinct), size bound, promised conditioning
            P2 = np.moveaxis(pool, axis, 0).reshape(npool, -1)
            C2 = np.moveaxis(ctrl, axis, 0).reshape(ctrl.shape[axis], -1)
            idx = []
            for r in C2:
                hit = np.where(np.all(P2 == r, axis=1))[0]
                hit = [h for h in hit if h not in idx]
                idx.append(hit[0] if hit else -1)
            is_subset = all(i >= 0 for i in idx)
            rec.require("dft_reduce_subset[%s]" % mode, is_subset and len(idx) >= 1,
                        mechanism="DFTKernel._reduce_npts[%s]" % mode, detail=det)
            if nmax is not None:
                rec.require("dft_reduce_nmax[%s]" % mode, len(idx) <= nmax, mechanism="DFTKernel._reduce_npts[%s]" % mode,
                            detail=det)
            if is_subset:
                S = kdef(pool, pool)
                dg = np.diag(S).copy()
                if np.all(dg > 0):
                    Sn = S / np.sqrt(dg[:, None] * dg[None, :])
                    I = np.array(idx)
                    SII = Sn[np.ix_(I, I)]
                    # control points are returned in pivot order: every selected pivot exceeded ctrl_tol ...
                    try:
                        L = np.linalg.cholesky(SII)
                        piv = np.diag(L) ** 2
                    except np.linalg.LinAlgError:
                        L, piv = None, np.array([-1.0])
                    rec.check("dft_reduce_pivots[%s]" % mode, max(0.0, ctol - float(np.min(piv))) / ctol, 1e-3 + 1e-9 / ctol,
                              mechanism="DFTKernel._reduce_npts[%s]" % mode,
                              detail=dict(det, min_pivot=float(np.min(piv)), ctrl_tol=ctol))
                    if L is not None and (nmax is None or len(idx) < nmax):
                        # ... and every point not selected is represented within ctrl_tol (Schur-complement diagonal)
                        from scipy.linalg import solve_triangular
                        V = solve_triangular(L, Sn[I, :], lower=True)
                        resid = 1.0 - np.einsum("ij,ij->j", V, V)
                        rec.check("dft_reduce_residual[%s]" % mode, max(0.0, float(np.max(resid)) - ctol) / ctol, 1e-3 + 1e-9 / ctol,
                                  mechanism="DFTKernel._reduce_npts[%s]" % mode,
                                  detail=dict(det, max_resid=float(np.max(resid)), ctrl_tol=ctol, nsel=len(idx), npool=npool))
                        rec.tag("dft_reduced", len(idx) < npool)
        # covariance of the control points
        try:
            Kmm = np.asarray(_call(rec, "DFTKernel.get_kctrl[%s]" % mode, None, dk.get_kctrl))
        except _Fail:
            continue
        rec.check("dft_kctrl[%s]" % mode, _rel(Kmm, kdef(ctrl, ctrl)), TOL_EXACT, mechanism="DFTKernel.get_kctrl[%s]" % mode, detail=det)
        nc = Kmm.shape[0]
        sc = max(float(np.max(np.abs(np.diag(Kmm)))), 1e-300)
        rec.check("dft_kctrl_symmetry[%s]" % mode, float(np.max(np.abs(Kmm - Kmm.T))) / sc, TOL_EXACT,
                  mechanism="DFTKernel.get_kctrl[%s]" % mode, detail=det)
        w = np.linalg.eigvalsh(0.5 * (Kmm + Kmm.T))
        rec.check("dft_kctrl_psd[%s]" % mode, max(0.0, -float(w[0])) / (nc * sc), TOL_PSD, mechanism="DFTKernel.get_kctrl[%s]" % mode,
                  detail=dict(det, min_eig=float(w[0])))
        # kernel between samples and control points
        ns = int(rng.integers(3, 12))
        X0T = _loguni(rng, 0.05, 4.0, size=(nspin, N0, ns))
        X0T[:, :, 0] = blocks[0][:1, :, 0] if nspin == 1 else blocks[1][:, :, 0]  # a sample on a control point
        try:
            kk = np.asarray(_call(rec, "DFTKernel.get_k[%s]" % mode, None, dk.get_k, X0T))
        except _Fail:
            continue
        if mode == "SEP":
            ref = np.stack([kern(desc(X0T[s]), ctrl).T for s in range(nspin)], axis=1)
        elif mode == "NPOL":
            ref = kern(desc(X0T.mean(0)), ctrl).T
        else:
            A = np.stack([desc(X0T[0]), desc(X0T[-1])])
            ref = kdef(A, ctrl).T
        rec.require("dft_k_shape[%s]" % mode, kk.shape == ref.shape, mechanism="DFTKernel.get_k[%s]" % mode,
                    detail=dict(det, shape=list(kk.shape), expected=list(ref.shape)))
        rec.check("dft_k[%s]" % mode, _rel(kk, ref), TOL_EXACT, mechanism="DFTKernel.get_k[%s]" % mode, detail=det)
        try:
            k2, dkd = _call(rec, "DFTKernel.get_k_and_deriv[%s]" % mode, None, dk.get_k_and_deriv, X0T)
        except _Fail:
            continue
        rec.check("dft_k_and_deriv_value[%s]" % mode, _rel(k2, kk), TOL_EXACT, mechanism="DFTKernel.get_k_and_deriv[%s]" % mode, detail=det)
        oks = rec.require("dft_deriv_shape[%s]" % mode, np.shape(dkd) == (nc, nspin, N0, ns),
                          mechanism="DFTKernel.get_k_and_deriv[%s]" % mode, detail=dict(det, shape=list(np.shape(dkd))))
        if not oks:
            continue
        if mode == "POL" and nspin == 1:
            try:
                k3, dkd3 = _call(rec, "DFTKernel.get_k_and_deriv[POL]", None, dk.get_k_and_deriv, np.concatenate([X0T, X0T], axis=0))
            except _Fail:
                continue
            gs = max(float(np.max(np.abs(dkd3))), 1e-300)
            # unpolarised input feeds both channels: total derivative = sum of the two channel partials
            rec.check("dft_pol_rks_vs_uks", max(_rel(k2, k3), _rel(dkd[:, 0], dkd3[:, 0] + dkd3[:, 1], gs)), TOL_EXACT,
                      mechanism="DFTKernel.get_k_and_deriv[POL]", detail=det)
        fac = 1.0
        worst, concl = 0.0, 0
        for s in range(nspin):
            for j in range(N0):
                def fd(h):
                    hr = (X0T[s, j] * (1 + h)) - X0T[s, j]  # relative step (raw features are positive)

                    def f(c):
                        Z = X0T.copy()
                        Z[s, j] = X0T[s, j] + c * hr
                        return np.asarray(dk.get_k(Z), dtype=float)
                    d = (-f(2) + 8 * f(1) - 8 * f(-1) + f(-2)) / (12 * hr)
                    return fac * (d[:, s] if mode == "SEP" else d)
                noise = FD_NOISE * float(np.max(np.abs(kk))) / float(np.min(X0T[s, j]))
                se, er, scl = _fd_compare(fd, (1e-2, 3e-3, 1e-3, 3e-4, 1e-4, 3e-5, 1e-5), dkd[:, s, j, :], noise)
                if not se <= TOL_FD / FD_GUARD:
                    continue
                concl += 1
                worst = max(worst, er)
                rec.check("dft_deriv_fd[%s]" % mode, er, TOL_FD, mechanism="DFTKernel.get_k_and_deriv[%s]" % mode,
                          detail=dict(det, spin=s, raw_index=j, err=er, fd_self_err=se))
        if concl:
            rec.nontrivial("dft|%s|%d|%s" % (mode, nspin, json.dumps(_strip(sp), sort_keys=True)))
        if rec.sample is None:
            rec.set_sample({"kind": "dft", "mode": mode, "nspin": nspin, "kernel": _brief(sp), "nctrl": int(nc), "npool": int(npool),
                            "reduce": bool(reduce), "fd_err_max": worst, "fd_components_conclusive": concl})


# ------------------------------------------------------------------------------------------------ harness interface
def gen_cases(tier, seed):
    """One kernel per case (cases are batched per worker process by the runner), so that a finding in one kernel
    does not remove the other kernels of a batch from the non-trivial count."""
    quick = tier == "quick"
    cases = []
    # (a) leaf sweep: every leaf class
    nd = 4 if quick else 40
    for ic, cls in enumerate(LEAF_TYPES):
        for r in range(nd):
            cases.append({"id": "leaf-%s-%02d" % (cls, r), "kind": "leaf", "cls": cls, "draw": r, "seed": seed,
                          "idx": 1000 + ic * 100 + r, "_threads": 1, "_timeout": 600, "_weight": 1.0})
    # (b) random compositions
    nt = 150 if quick else 2000
    for i in range(nt):
        cases.append({"id": "tree-%04d" % i, "kind": "tree", "seed": seed, "idx": 10000 + i, "_threads": 1,
                      "_timeout": 600, "_weight": 3.0})
    # (c) DFTKernel
    nrep = 3 if quick else 30
    i = 0
    for mode in ("SEP", "NPOL", "POL"):
        for nspin in (1, 2):
            for r in range(nrep):
                cases.append({"id": "dft-%s-%d-%02d" % (mode, nspin, r), "kind": "dft", "mode": mode, "nspin": nspin, "nk": 1,
                              "seed": seed, "idx": 50000 + i, "_threads": 1, "_timeout": 600, "_weight": 2.0})
                i += 1
    # evidence samples are taken from the first cases: lead with one case of each kind
    lead = ["tree-0000", "dft-SEP-2-00", "leaf-SpinSymARBF-00", "dft-NPOL-1-00"]
    cases.sort(key=lambda c: lead.index(c["id"]) if c["id"] in lead else len(lead))
    return cases


def run_case(case, rec):
    import contextlib
    import io
    with contextlib.redirect_stdout(io.StringIO()):  # QARBF.__call__ prints its scale vector on every call
        _run_case(case, rec)


def _run_case(case, rec):
    rng = rng_for(case["seed"], PROP_NO, case["idx"])
    if case["kind"] == "dft":
        _run_dft(case, rec, rng)
        return
    nset = (1, 2, 30, 30, 30, 100, 100)
    if case["kind"] == "leaf":
        cls = case["cls"]
        d = int(rng.integers(1, 7)) if case["draw"] else 4
        sp = None
        while sp is None:
            if cls == "DiffTransform":
                sp = gen_transform(rng, d, 0, TREE_POOL)
            else:
                sp = gen_leaf(rng, cls, d)
            d = min(d + 1, 6)
    else:
        d = int(rng.integers(2, 7))
        sp = gen_tree(rng, d, int(rng.integers(1, 4)), TREE_POOL)
        if sp["t"] == "leaf":
            sp = {"t": "prod", "nfeat": d, "how": "op", "a": sp, "b": _pick(rng, TREE_POOL, d)}
    if run_kernel(rec, rng, sp, nset):
        rec.nontrivial(json.dumps(_strip(sp), sort_keys=True)[:4000])
    nexp, _ = _expected_theta(sp)
    rec.set_sample({"kind": case["kind"], "structure": _brief(sp), "depth": _depth(sp), "nfeat": sp["nfeat"],
                    "theta_size": nexp, "kernel": _strip(sp), "oracle_max": {k: v["obs"] for k, v in rec.oracles.items() if v["obs"] > 0},
                    "fd_self_errors": {k: v for k, v in rec.notes.items() if "self" in k}})
