#!/usr/bin/env python3
"""Store a confirmed seeded change under /verif/seeded/<id>/ (patch.diff, demo.py, meta.json).
usage: tools/store_seed.py <seed src dir> <seed id> <trial result json> [--note "..."] [--missed-first "what was strengthened"]"""
import json
import os
import shutil
import sys

VERIF = os.path.dirname(os.path.dirname(os.path.abspath(__file__)))
src, sid, res = sys.argv[1:4]
note = sys.argv[sys.argv.index("--note") + 1] if "--note" in sys.argv else ""
missed = sys.argv[sys.argv.index("--missed-first") + 1] if "--missed-first" in sys.argv else None
dst = os.path.join(VERIF, "seeded", sid)
os.makedirs(dst, exist_ok=True)
shutil.copy(os.path.join(src, "patch.diff"), dst)
if os.path.exists(os.path.join(src, "demo.py")):
    shutil.copy(os.path.join(src, "demo.py"), dst)
notes = {}
if os.path.exists(os.path.join(src, "notes.json")):
    try:
        notes = json.load(open(os.path.join(src, "notes.json")))
    except ValueError:
        notes = {"raw": open(os.path.join(src, "notes.json")).read()[:2000]}
r = json.load(open(res))
meta = {
    "id": sid,
    "property": notes.get("property", sid[:3]),
    "author": "independent sub-agent given only the property text and a scratch worktree of /repo",
    "summary": notes.get("summary"),
    "files": notes.get("files"),
    "needs_to_manifest": notes.get("needs_to_manifest"),
    "magnitude": notes.get("magnitude"),
    "confirmed_by_me": {
        "how": "tools/try_seed.py: scratch worktree of /repo HEAD + patch; pinned baseline suite; demo.py without and with the patch; ./check <id> quick tier with VERIF_REPO=<worktree>",
        "baseline_suite_passed_with_patch": r.get("baseline_passed"),
        "demo_exit_without_patch": (r.get("demo_unpatched") or [None])[0],
        "demo_exit_with_patch": (r.get("demo_patched") or [None])[0],
    },
    "checks": {p: {"exit": c["exit"], "mechanisms": c["mechanisms"]} for p, c in r.get("checks", {}).items()},
    "caught_by": [p for p, c in r.get("checks", {}).items() if c["exit"] == 1],
    "missed_at_first": missed,
    "note": note,
}
json.dump(meta, open(os.path.join(dst, "meta.json"), "w"), indent=1)
print("stored", dst, "caught_by", meta["caught_by"])
