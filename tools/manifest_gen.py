#!/usr/bin/env python3
"""Regenerates /verif/MANIFEST.json from tools/checks_meta.json (keeps it schema-valid)."""
import json
import os

ROOT = os.path.dirname(os.path.dirname(os.path.abspath(__file__)))
props = [json.loads(l)["id"] for l in open(os.path.join(ROOT, "properties.jsonl"))]
CHECKS = json.load(open(os.path.join(ROOT, "tools", "checks_meta.json")))
BASE = "cd /repo && /venv/bin/python -m pytest -ra -q -p no:cacheprovider --timeout=900 --continue-on-collection-errors"
NOT_YET = "check not implemented yet (framework under construction)"

checks, na = [], []
for p in props:
    modpath = os.path.join(ROOT, "checks", p.lower() + ".py")
    if p in CHECKS and os.path.exists(modpath):
        c = CHECKS[p]
        checks.append({
            "property_id": p,
            "quick_cmd": "./check %s --tier quick" % p,
            "thorough_cmd": "./check %s --tier thorough" % p,
            "evidence_file": "evidence/%s.json" % p,
            "replay_cmd_template": "./check %s --replay {path}" % p,
            "engine": "vlib.runner",
            "level_claimed": {"category": c.get("category", "exploration"), "text": c["text"], "design_ref": c["ref"]},
            "level_note": c["note"],
            "technique": c["technique"],
        })
    else:
        na.append({"property_id": p, "reason": NOT_YET})

m = {
 "version": 1,
 "setup_cmd": "./setup.sh",
 "hooks": {"guard": "CIDERPRESS_VERIF", "enable": "no source hooks: the harness redirects ciderpress.lib.load.load_library to libraries it builds from the working tree (vlib/boot.py); sanitizer variants are separate builds",
           "baseline_off_cmd": BASE, "source_commits": [], "add_only": True},
 "engines": [{"name": "vlib.runner", "path": "vlib/runner.py", "serves_properties": [c["property_id"] for c in checks],
              "kind_free_text": "runtime monitoring harness: generated workloads against the real code in worker subprocesses, differential / finite-difference / adjoint / reference-model oracles, ctypes boundary monitor, ASan+UBSan and TSan (with OpenMP annotation shim) builds"}],
 "checks": checks,
 "not_applicable": na,
 "notes": "See DESIGN.md. Exit codes: 0 held on everything explored, 1 violation (VIOLATION line), 2 inconclusive. Known findings and repaired defects: known_findings.json (matched by mechanism; status known -> KNOWN-FINDING line and exit 0, status fixed -> suppresses nothing). Seeded property-breaking changes used to validate the checks: seeded/<id>/ (replay with tools/try_seed.py). Checks run against $VERIF_REPO (default /repo) and rebuild its C libraries on every run when the sources changed.",
}
json.dump(m, open(os.path.join(ROOT, "MANIFEST.json"), "w"), indent=1)
print("manifest: %d checks, %d not_applicable" % (len(checks), len(na)))
