#!/bin/bash
# build_libs.sh <variant> [repo_root] [out_root]
# Builds the repository's C libraries (libmcider, libnumint, libxc_utils, libfft_wrapper)
# directly with gcc from <repo_root>/ciderpress/lib into <out_root>/<variant>/.
# variant: plain | o3 | asan | tsan.  Rebuilds only when sources/flags changed (hash stamp).
set -euo pipefail
VARIANT="${1:-plain}"
REPO="${2:-${VERIF_REPO:-/repo}}"
HERE="$(cd "$(dirname "${BASH_SOURCE[0]}")" && pwd)"
OUTROOT="${3:-${VERIF_BUILD:-$HERE/../.build}}"
L="$REPO/ciderpress/lib"
# one build directory per repository root, so that scratch copies never replace /repo's build
REPO_REAL="$(cd "$REPO" && pwd -P)"
if [ "$REPO_REAL" = "/repo" ]; then SUB=""; else SUB="alt_$(echo -n "$REPO_REAL" | sha1sum | cut -c1-10)/"; fi
OUT="$OUTROOT/$SUB$VARIANT"
mkdir -p "$(dirname "$OUT")"
PYSCF_DEPS="$(/venv/bin/python -c 'import os,pyscf;print(os.path.join(os.path.dirname(pyscf.__file__),"lib","deps"))')"
CC="${CC:-gcc}"
case "$VARIANT" in
  plain) CFLAGS="-O2 -g -fopenmp -fPIC"; LDX="" ;;
  o3)    CFLAGS="-O3 -g -fopenmp -fPIC"; LDX="" ;;
  asan)  CFLAGS="-O1 -g -fopenmp -fPIC -fno-omit-frame-pointer -fsanitize=address,undefined -fno-sanitize-recover=undefined"; LDX="" ;;
  tsan)  CFLAGS="-O1 -g -fopenmp -fPIC -fno-omit-frame-pointer -fsanitize=thread"
         LDX="-Wl,--wrap=GOMP_parallel -Wl,--wrap=GOMP_barrier -Wl,--wrap=GOMP_loop_end -Wl,--wrap=GOMP_critical_start -Wl,--wrap=GOMP_critical_end -Wl,--wrap=GOMP_atomic_start -Wl,--wrap=GOMP_atomic_end" ;;
  *) echo "unknown variant $VARIANT" >&2; exit 2 ;;
esac
MC="frac_lapl cider_coefs cider_grids spline sph_harm conv_interpolation convolutions fast_sdmx pbc_tools debug_numint model_utils"
SRC=""
for f in $MC; do SRC="$SRC $L/mod_cider/$f.c"; done
ALLSRC="$SRC $L/numint_cider/nr_numint.c $L/xc_utils/libxc_baselines.c $L/fft_wrapper/cider_fft.c"
HASH=$( (cat $ALLSRC "$L"/mod_cider/*.h "$L"/fft_wrapper/cider_fft.h "$L"/fft_wrapper/config.h.in \
         "$HERE"/fftw_ref/fftw3.h "$HERE"/fftw_ref/fftw_ref.c "$HERE"/gomp_tsan_wrap.c "$HERE"/build_libs.sh; \
         [ -f "$L/fft_wrapper/cider_fft_config.h" ] && cat "$L/fft_wrapper/cider_fft_config.h"; \
         echo "$CFLAGS $LDX $($CC --version | head -1)") | sha256sum | cut -d' ' -f1)
if [ -f "$OUT/.stamp" ] && [ "$(cat "$OUT/.stamp")" = "$HASH" ] && [ -f "$OUT/libmcider.so" ] \
   && [ -f "$OUT/libnumint.so" ] && [ -f "$OUT/libxc_utils.so" ] && [ -f "$OUT/libfft_wrapper.so" ]; then
  echo "build_libs: $VARIANT up to date ($OUT)"; exit 0
fi
TMP="$OUT.tmp.$$"
rm -rf "$TMP"; mkdir -p "$TMP/inc"
# config header (only used if the repo tree does not carry a generated one beside cider_fft.h)
sed -e 's/#cmakedefine01 HAVE_MPI/#define HAVE_MPI 0/' -e 's/#cmakedefine FFT_BACKEND @FFT_BACKEND@/#define FFT_BACKEND 2/' \
    "$L/fft_wrapper/config.h.in" > "$TMP/inc/cider_fft_config.h"
cp "$HERE/fftw_ref/fftw3.h" "$TMP/inc/fftw3.h"
INC="-I$TMP/inc -I$L -I$L/fft_wrapper -I$L/mod_cider"
RP="-Wl,-rpath,\$ORIGIN"
SHIM=""
if [ "$VARIANT" = tsan ]; then
  $CC -O1 -g -fPIC -c "$HERE/gomp_tsan_wrap.c" -o "$TMP/gomp_tsan_wrap.o"
  SHIM="$TMP/gomp_tsan_wrap.o"
fi
(
  # FFTW reference double, then the wrapper linked against it
  $CC $CFLAGS -shared $INC "$HERE/fftw_ref/fftw_ref.c" -o "$TMP/libfftw3_ref.so" -lm &&
  $CC $CFLAGS -shared $INC "$L/fft_wrapper/cider_fft.c" $SHIM $LDX -o "$TMP/libfft_wrapper.so" -L"$TMP" -lfftw3_ref -lm "$RP"
) &
P1=$!
( $CC $CFLAGS -shared $INC "$L/numint_cider/nr_numint.c" $SHIM $LDX -o "$TMP/libnumint.so" -lopenblas -lm ) &
P2=$!
( $CC $CFLAGS -shared $INC -I"$PYSCF_DEPS/include" "$L/xc_utils/libxc_baselines.c" $SHIM $LDX -o "$TMP/libxc_utils.so" \
    -L"$PYSCF_DEPS/lib" -lxc -lopenblas -lm "-Wl,-rpath,$PYSCF_DEPS/lib" ) &
P3=$!
OBJS=""
PIDS=""
for f in $MC; do
  $CC $CFLAGS $INC -c "$L/mod_cider/$f.c" -o "$TMP/$f.o" &
  PIDS="$PIDS $!"
  OBJS="$OBJS $TMP/$f.o"
done
for p in $PIDS; do wait $p; done
wait $P1; wait $P2; wait $P3
$CC $CFLAGS -shared $OBJS $SHIM $LDX -o "$TMP/libmcider.so" -L"$TMP" -lfft_wrapper -lopenblas -lm "$RP"
rm -f "$TMP"/*.o
echo "$HASH" > "$TMP/.stamp"
rm -rf "$OUT"; mv "$TMP" "$OUT"
echo "build_libs: built $VARIANT in $OUT"
