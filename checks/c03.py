"""C03 - declared uniform-scaling powers hold; normalised features are scale invariant.

Oracles (DESIGN.md section 5, C03):
 pointwise   (rho, sigma, tau) -> (l^3 rho, l^8 sigma, l^5 tau): exponents scale as l^2, semilocal features as l^usp,
             normalisers as l^(u + get_usp()), normalised nonlocal features have power 0 for every settings class
 generator   feature generators on an EXACTLY scaled system (coordinates / l, every AO exponent x l^2, the l = 1 grid,
             exponent ladder and auxiliary basis transported): raw features at corresponding grid points equal
             l^usp x unscaled with usp from get_feat_usps(); exponent-like and density-like columns included
 energy      exchange-like model reading only power-0 features with LDA-exchange baseline: E[n_l] = l E[n],
             vmat_l = l vmat
"""
import copy

import numpy as np

from vlib.oracles import rng_for

PROPERTY = "C03"
PROP_NO = 3
RULE = ("pointwise case = settings class x random parameters x random l in [0.3, 3] x admissible pointwise data away from "
        "the absolute cut-offs; generator case = (feature family, RKS|UKS, molecule, basis, l in {0.6..2.2}, plan, "
        "interpolator) with the scaled system constructed exactly; a feature column is non-trivial when its RMS over "
        "points with rho > 1e-4 is > 1e-10 and l differs from 1 by > 10%; distinct = (case, feature column | relation)")
MIN_NONTRIVIAL = {"quick": 150, "thorough": 1500}
ASSUMPTIONS = ["the auxiliary basis, exponent ladder (alpha_min, alpha_max), radial spline parameter aparam and the "
               "integration grid are transported with the system; with the DEFAULT auxiliary basis (exponents snapped "
               "to a fixed geometric grid) covariance holds only to the truncation error of the expansion (C02), which "
               "is recorded but not decided here",
               "absolute cut-offs (rhocut, expcut, 1e-16 regularisers) are not scale covariant by design: points with "
               "rho < 1e-4 are excluded (the 1e-16 regulariser of s^2 equals rho^(8/3) at rho = 1e-6) from the per-point comparison; cut-offs of the generator and integrator (rhocut, expcut) are transported too; tolerances 3e-7 relative; a wrong power shows as |l^du - 1| >= 0.1"]
TOL_PW = 1e-11
TOL_GEN = 3e-7   # per-point features on the exactly scaled system (floor 9e-8: absolute cut-offs rhocut/expcut)
# fractional-Laplacian features from the orbitals on the exactly scaled system, relative to the largest value of the feature:
# eval_kao itself is covariant to 1e-15, but FLNumInt contracts with pyscf's AO-pair screening (absolute thresholds on
# Gaussian overlaps, which do not scale), so a pair can be kept on one side and dropped on the other: 4.7e-8 observed in the
# thorough tier (first bound 1e-9 came from quick runs without such a flip and raised a false alarm there)
TOL_FLAPL = 3e-7
TOL_E = 3e-7     # energies / XC matrices (floor 4e-7 for a weakly bound UKS case)

FAMS = ["sl-npa", "sl-nst", "sl-ns", "sl-np", "vj-mgga", "vj-gga", "vi-mgga", "vi-gga", "vij-mgga", "vk-mgga", "vk-gga",
        "vj-expnt", "sdmx", "sdmxg", "sdmx1", "sdmxg1", "vj+sdmx"]
NLDF = {"vj-mgga", "vj-gga", "vi-mgga", "vi-gga", "vij-mgga", "vk-mgga", "vk-gga", "vj-expnt", "vj+sdmx"}
INVARIANT_SL = {"sl-npa", "sl-np", "vj-mgga", "vj-gga", "vi-mgga", "vi-gga", "vij-mgga", "vk-mgga", "vk-gga", "vj-expnt",
                "sdmx", "sdmxg", "sdmx1", "sdmxg1", "vj+sdmx"}


def gen_cases(tier, seed):
    rng = rng_for(seed, PROP_NO, 0)
    cases = []
    npw = 24 if tier == "quick" else 240
    for i in range(npw):
        cases.append({"id": "pw-%03d" % i, "kind": "pw", "seed": seed, "idx": 100 + i, "_threads": 1})
    reps = 2 if tier == "quick" else 8
    j = 0
    for rep in range(reps):
        for fam in FAMS:
            spin = "rks" if (j + rep) % 3 != 2 else "uks"
            c = dict(family=fam, spin=spin, mol=str(rng.choice(["H2O", "HF", "LiH", "He"] if spin == "rks" else ["NH2", "Li"])),
                     basis=str(rng.choice(["6-31g", "sto-3g", "def2-svp"], p=[0.5, 0.25, 0.25])), level=int(rng.integers(0, 2)),
                     mode=str(rng.choice(["SEP", "NPOL"], p=[0.7, 0.3])), evaluator="rbf", mix="pure", model="xc1",
                     lam=float(rng.choice([0.6, 0.75, 1.3, 1.7, 2.2])))
            if fam in NLDF:
                c["plan_type"] = str(rng.choice(["gaussian", "spline"]))
                c["interp"] = str(rng.choice(["onsite_direct", "onsite_spline"]))
            cases.append({"id": "gen-%03d-%s-%s" % (j, fam, spin), "kind": "gen", "cfg": c, "seed": seed, "idx": 4000 + j,
                          "_threads": 2, "_weight": 5.0 if fam in NLDF else 1.5, "_timeout": 1800})
            j += 1
    # fractional-Laplacian features through the PySCF path (eval_kao / FLNumInt / get_descriptors) on a scaled molecule
    nfl = 4 if tier == "quick" else 32
    for i in range(nfl):
        cases.append({"id": "flapl-%03d" % i, "kind": "flapl", "seed": seed, "idx": 8000 + i, "_threads": 2, "_weight": 2.0,
                      "lam": [0.6, 1.7, 2.2, 0.75, 1.3][i % 5], "_timeout": 900})
    return cases


def run_case(case, rec):
    rng = rng_for(case["seed"], PROP_NO, case["idx"])
    if case["kind"] == "pw":
        _pw(case, rec, rng)
    elif case["kind"] == "flapl":
        _flapl(case, rec, rng)
    else:
        _gen(case, rec, rng)


# ----------------------------------------------------------------------------------------------------- pointwise
def _scale_rho(rho, lam):
    out = rho.copy()
    out[:, 0] *= lam ** 3
    out[:, 1:4] *= lam ** 4
    out[:, 4] *= lam ** 5
    return out


def _pw(case, rec, rng):
    from ciderpress.dft import settings as st
    from ciderpress.dft.plans import SemilocalPlan

    from vlib import gen
    lam = float(np.exp(rng.uniform(np.log(0.3), np.log(3.0))))
    n = 50
    for nspin in (1, 2):
        rho = gen.pointwise_rho(rng, n, nspin=nspin, lo=1e-3, hi=1e2)
        rl = _scale_rho(rho, lam)
        # exponents
        for k in range(3):
            a0, gm, tm = float(rng.uniform(0.5, 4)), float(rng.uniform(0, 0.1)), float(rng.uniform(0, 0.06))
            r, sig, tau = rho[0, 0], np.sum(rho[0, 1:4] ** 2, axis=0), rho[0, 4]
            r2, sig2, tau2 = rl[0, 0], np.sum(rl[0, 1:4] ** 2, axis=0), rl[0, 4]
            a = st.get_cider_exponent(r, sig.copy(), tau.copy(), a0=a0, grad_mul=gm, tau_mul=tm, nspin=nspin)[0]
            b = st.get_cider_exponent(r2, sig2.copy(), tau2.copy(), a0=a0, grad_mul=gm, tau_mul=tm, nspin=nspin)[0]
            rec.check("exponent_scales_lambda2[mgga]", float(np.max(np.abs(b / (lam ** 2 * a) - 1))), TOL_PW,
                      mechanism="get_cider_exponent:usp!=2")
            a = st.get_cider_exponent_gga(r, sig.copy(), a0=a0, grad_mul=gm, nspin=nspin)[0]
            b = st.get_cider_exponent_gga(r2, sig2.copy(), a0=a0, grad_mul=gm, nspin=nspin)[0]
            rec.check("exponent_scales_lambda2[gga]", float(np.max(np.abs(b / (lam ** 2 * a) - 1))), TOL_PW,
                      mechanism="get_cider_exponent_gga:usp!=2")
        # semilocal features
        for mode in ("nst", "npa", "ns", "np"):
            s = st.SemilocalSettings(mode)
            p = SemilocalPlan(s, nspin)
            f1 = p.get_feat(rho)
            f2 = p.get_feat(rl)
            usps = np.asarray(s.get_feat_usps(), dtype=float)
            ratio = f2 / (f1 * lam ** usps[None, :, None])
            rec.check("semilocal_usp[%s]" % mode, float(np.max(np.abs(ratio - 1))), 1e-9,
                      mechanism="SemilocalSettings[%s].get_feat_usps" % mode, detail={"lam": lam})
            rec.nontrivial("sl|%s|%d" % (mode, nspin))
    # density tails (1e-7 .. 1e-3, far above the 1e-10 cutoffs): the reduced gradient keeps its declared power up to the
    # documented 1e-16 regulariser of its denominator, whose relative weight is 1e-16 / (b rho^(4/3)) (7e-8 at 1e-7) -
    # added after a seeded change that moved the regulariser into the squared denominator (2.5 % at rho = 1e-6)
    bconst = 2 * (3 * np.pi ** 2) ** (1.0 / 3)
    for nspin in (1, 2):
        rho = gen.pointwise_rho(rng, n, nspin=nspin, lo=1e-7, hi=1e-3)
        lam_t = float(np.exp(rng.uniform(np.log(0.5), np.log(2.0))))
        rl = _scale_rho(rho, lam_t)
        for mode in ("npa", "np"):
            sset = st.SemilocalSettings(mode)
            p = SemilocalPlan(sset, nspin)
            f1, f2 = p.get_feat(rho), p.get_feat(rl)
            usps = np.asarray(sset.get_feat_usps(), dtype=float)
            dev = np.abs(f2[:, 1] / (f1[:, 1] * lam_t ** usps[1]) - 1)
            rmin = np.minimum(rho[:, 0], rl[:, 0])      # the regulariser acts on the per-spin density
            allowed = 1e-9 + 4 * 2e-16 / (bconst * rmin ** (4.0 / 3))
            rec.check("reduced_gradient_usp_in_tails[%s]" % mode, float(np.max(dev / allowed)), 1.0,
                      mechanism="SemilocalSettings[%s]:s2-power-in-density-tails" % mode, detail={"lam": lam_t, "nspin": nspin})
            rec.nontrivial("tail|%s|%d" % (mode, nspin))
    # settings classes: declared powers + recommended normalisers -> power 0 for nonlocal features; normalisers scale
    fam = FAMS[case["idx"] % len(FAMS)]
    fs = gen.family_settings(fam, rng)
    if case["idx"] % 3 == 0:
        # fractional-Laplacian block with every optional group (l1 dots, F^d dots, F^dd) - added after a seeded change of
        # the index bookkeeping in FracLaplSettings.get_reasonable_normalizer (ld_dots together with ndd) went unnoticed
        nk0 = int(rng.integers(1, 5))
        slist = sorted(set(float(x) for x in rng.choice([-1.0, -0.5, -0.25, 0.25, 0.5, 0.75, 1.0], size=nk0, replace=False)))
        nk0 = len(slist)
        full = case["idx"] % 6 == 0      # every second one has all optional groups non-empty
        nk1 = int(rng.integers(1 if full else 0, nk0 + 1))
        nd1 = int(rng.integers(1 if full else 0, nk1 + 1))
        ndd = int(rng.integers(1 if full else 0, nd1 + 1))
        pool1 = [(-1, j) for j in range(nk1)] + [(i, j) for i in range(nk1) for j in range(i, nk1)]
        l1 = [pool1[int(i)] for i in rng.permutation(len(pool1))[: int(rng.integers(0, min(3, len(pool1)) + 1))]] if pool1 else []
        poold = [(-1, j) for j in range(nd1)] + [(i, j) for i in range(nd1) for j in range(nd1)]
        ld = [poold[int(i)] for i in rng.permutation(len(poold))[: int(rng.integers(1 if full else 0, min(3, len(poold)) + 1))]] if poold else []
        fl = st.FracLaplSettings(slist, nk0, nk1, l1, nd1=nd1, ld_dots=ld, ndd=ndd)
        fam = "nlof[nk1=%d,nl1=%d,nd1=%d,nld=%d,ndd=%d]" % (nk1, len(l1), nd1, len(ld), ndd)
        fs = gen.feature_settings(str(rng.choice(["npa", "nst", "np", "ns"])), None, None, fl)
    rec.tag("family", fam)
    u_raw = np.asarray(fs.get_feat_usps(), dtype=float)
    u_norm = np.asarray(fs.get_feat_usps(with_normalizers=True), dtype=float)
    nsl = fs.sl_settings.nfeat
    rec.check("normalised_nonlocal_power_zero", float(np.max(np.abs(u_norm[nsl:]))) if fs.nfeat > nsl else 0.0, 1e-12,
              mechanism="get_reasonable_normalizer:power!=0[%s]" % type(fs.nldf_settings if fs.has_nldf else (fs.sdmx_settings if not fam.startswith("nlof") else fs.nlof_settings)).__name__,
              detail={"usps": u_norm.tolist()})
    rec.require("lengths_agree", len(u_raw) == fs.nfeat == len(fs.normalizers.get_usps()), mechanism="usps-length[%s]" % fam)
    # normaliser list: feed raw features scaled by their declared powers, output must scale by u_norm
    for nspin in (1, 2):
        rho = gen.pointwise_rho(rng, n, nspin=nspin, lo=1e-3, hi=1e2)
        rl = _scale_rho(rho, lam)
        X = np.zeros((nspin, fs.nfeat, n))
        X2 = np.zeros_like(X)
        p = SemilocalPlan(fs.sl_settings, nspin)
        X[:, :nsl] = p.get_feat(rho)
        X2[:, :nsl] = p.get_feat(rl)
        nl = rng.normal(size=(nspin, fs.nfeat - nsl, n))
        X[:, nsl:] = nl
        X2[:, nsl:] = nl * lam ** u_raw[None, nsl:, None]
        N1 = fs.normalizers.get_normalized_feature_vector(X)
        N2 = fs.normalizers.get_normalized_feature_vector(X2)
        sc = np.maximum(np.abs(N1) * lam ** u_norm[None, :, None], 1e-300)
        rec.check("normaliser_scaling", float(np.max(np.abs(N2 - N1 * lam ** u_norm[None, :, None]) / sc)), 1e-9,
                  mechanism="FeatNormalizerList:scaling-power[%s]" % fs.sl_settings.mode, detail={"lam": lam, "family": fam})
        rec.nontrivial("norm|%s|%d" % (fam, nspin))
    # ueg vector consistent with the declared powers: ueg(l^3 rho) = l^usp ueg(rho)
    try:
        ug1 = fs.ueg_vector(0.7)
        ug2 = fs.ueg_vector(0.7 * lam ** 3)
        m = np.abs(ug1) > 1e-14
        rec.check("ueg_power_law", float(np.max(np.abs(ug2[m] / (ug1[m] * lam ** u_raw[m]) - 1))) if m.any() else 0.0, 1e-10,
                  mechanism="ueg_vector:power-law[%s]" % fam)
    except NotImplementedError:
        rec.tag("ueg_vector", "not implemented for " + fam)
    rec.set_sample({"kind": "pw", "lam": lam, "family": fam, "usps_raw": u_raw.tolist(), "usps_normalised": u_norm.tolist()})


# ----------------------------------------------------------------------------------------------------- generator
def scaled_mol(mol, lam):
    from pyscf import gto
    basis = {}
    for sym, shells in mol._basis.items():
        new = []
        for sh in shells:
            head = [x for x in sh if not isinstance(x, (list, tuple))]
            prims = [list(x) for x in sh if isinstance(x, (list, tuple))]
            new.append(head + [[p[0] * lam ** 2] + p[1:] for p in prims])
        basis[sym] = new
    xyz = mol.atom_coords() / lam
    return gto.M(atom=[(mol.atom_symbol(i), tuple(xyz[i])) for i in range(mol.natm)], basis=basis, unit="Bohr",
                 spin=mol.spin, charge=mol.charge, verbose=0)


def _scale_basis_dict(b, lam):
    out = {}
    for sym, shells in b.items():
        new = []
        for sh in shells:
            head = [x for x in sh if not isinstance(x, (list, tuple))]
            prims = [list(x) for x in sh if isinstance(x, (list, tuple))]
            new.append(head + [[p[0] * lam ** 2] + p[1:] for p in prims])
        out[sym] = new
    return out


def _transport_grids(ks1, ksl, mol_l, lam):
    g1, gl = ks1.grids, ksl.grids
    gl.coords = np.ascontiguousarray(g1.coords / lam)
    gl.weights = np.ascontiguousarray(g1.weights / lam ** 3)
    if hasattr(g1, "grids_indexer") and g1.grids_indexer is not None:
        ind = copy.deepcopy(g1.grids_indexer)
        ind.rad_arr = np.ascontiguousarray(ind.rad_arr / lam)
        ind.all_weights = np.ascontiguousarray(ind.all_weights / lam ** 3)
        gl.grids_indexer = ind
    mask = gl.make_mask(mol_l, gl.coords)
    gl.non0tab = mask
    gl.screen_index = mask


FL_ORDERS = [-1.0, -0.5, -0.25, 0.25, 0.5, 0.75, 1.0, 1.0 / 3, 0.125, 0.625, 2.0 / 3, 0.28, 0.29, 0.335]


def _flapl(case, rec, rng):
    """F_s[n_lambda](r / lambda) = lambda^u F_s[n](r) for the fractional-Laplacian features computed from the orbitals, with
    conventional orders (multiples of 1/4) and unusual ones (1/3, 1/8, 0.29 ...: any real order is legal)."""
    from ciderpress.dft import settings as st
    from ciderpress.pyscf.analyzers import RHFAnalyzer, UHFAnalyzer
    from ciderpress.pyscf.descriptors import get_descriptors
    from pyscf.dft import numint as pn
    from vlib import gen
    lam = case["lam"]
    i = case["idx"]
    molname = ["H2O", "LiH", "NH2", "HF", "Li"][i % 5]
    nspin = 2 if molname in ("NH2", "Li") else 1
    mol1 = gen.make_mol(molname, ["6-31g", "def2-svp", "sto-3g"][i % 3], rng, jitter=0.03 if molname != "Li" else 0.0)
    mol_l = scaled_mol(mol1, lam)
    S1, Sl = mol1.intor("int1e_ovlp"), mol_l.intor("int1e_ovlp")
    T1, Tl = mol1.intor("int1e_kin"), mol_l.intor("int1e_kin")
    chk = max(float(np.max(np.abs(S1 - Sl))), float(np.max(np.abs(Tl - lam ** 2 * T1))) / max(1.0, float(np.max(np.abs(T1)))))
    if chk > 1e-10:
        rec.set_inconclusive("scaled molecule construction not validated (%.2e)" % chk)
        return
    nk0 = int(rng.integers(1, 4))
    slist = [float(x) for x in rng.choice(FL_ORDERS, size=nk0, replace=False)]
    if i % 4 == 0:
        # two orders closer than 0.01 in one settings object (each needs its own 1F1 tables)
        pair = [[0.29, 0.28], [1.0 / 3, 0.335], [0.255, 0.25], [-0.245, -0.25]][(i // 4) % 4]
        slist = [float(x) for x in pair] + [x for x in slist if x not in pair][: max(0, nk0 - 2)]
        nk0 = len(slist)
    if i % 2 == 1 and not any(abs(x * 100 - round(x * 100)) > 1e-9 for x in slist):
        slist[0] = float(rng.choice([1.0 / 3, 0.125, 0.625, 2.0 / 3, 0.335]))
    nk1 = int(rng.integers(0, nk0 + 1))
    nd1 = int(rng.integers(0, nk1 + 1))
    ndd = int(rng.integers(0, nd1 + 1))
    pool1 = [(-1, j) for j in range(nk1)] + [(a, b) for a in range(nk1) for b in range(a, nk1)]
    l1 = [pool1[int(q)] for q in rng.permutation(len(pool1))[: int(rng.integers(0, min(3, len(pool1)) + 1))]] if pool1 else []
    poold = [(-1, j) for j in range(nd1)] + [(a, b) for a in range(nd1) for b in range(nd1)]
    ld = [poold[int(q)] for q in rng.permutation(len(poold))[: int(rng.integers(0, min(3, len(poold)) + 1))]] if poold else []
    if nk0 == 1 and nd1 == 0:
        # one order without F^d features: eval_flapl_gto drops the component axis and FLNumInt.eval_rho then fails with a
        # ValueError (section 6 of DESIGN, observations) - no feature is produced, so there is nothing to judge here
        extra = [x for x in FL_ORDERS if x not in slist]
        slist.append(float(extra[int(rng.integers(len(extra)))]))
        nk0 = 2
    fl = st.FracLaplSettings(slist, nk0, nk1, l1, nd1=nd1, ld_dots=ld, ndd=ndd)
    rec.tag("lambda", lam)
    rec.tag("mol", molname)
    rec.tag("frac_lapl_orders", "conventional" if all(abs(x * 4 - round(x * 4)) < 1e-12 for x in slist) else "unusual")
    rec.tag("frac_lapl_groups", "nk1=%d,nl1=%d,nd1=%d,nld=%d,ndd=%d" % (nk1, len(l1), nd1, len(ld), ndd))
    dm = gen.psd_dm(mol1, rng, nspin)
    Ana = RHFAnalyzer if nspin == 1 else UHFAnalyzer
    a1, al = Ana(mol1, dm, grids_level=0), Ana(mol_l, dm, grids_level=0)
    al.grids.coords = np.ascontiguousarray(a1.grids.coords / lam)
    al.grids.weights = np.ascontiguousarray(a1.grids.weights / lam ** 3)
    d1 = np.asarray(get_descriptors(a1, fl))
    dl = np.asarray(get_descriptors(al, fl))
    d1 = d1.reshape((nspin,) + d1.shape[-2:])
    dl = dl.reshape((nspin,) + dl.shape[-2:])
    usps = np.asarray(fl.get_feat_usps(), dtype=float)
    rec.require("flapl_feature_count", d1.shape[1] == len(usps) == fl.nfeat, mechanism="FracLaplSettings:usps-length")
    ao = pn.eval_ao(mol1, a1.grids.coords)
    rho = pn.eval_rho(mol1, ao, dm if nspin == 1 else dm[0] + dm[1])
    keep = rho > 1e-4
    worst = 0.0
    for sp in range(nspin):
        for k in range(d1.shape[1]):
            a = d1[sp, k, keep] * lam ** usps[k]
            b = dl[sp, k, keep]
            if float(np.sqrt(np.mean(a ** 2))) < 1e-10:
                continue
            err = float(np.max(np.abs(a - b))) / max(float(np.max(np.abs(a))), 1e-300)
            worst = max(worst, err)
            rec.check("flapl_feature_scaling", err, TOL_FLAPL, mechanism="usp[nlof:%d]" % k,
                      detail={"lam": lam, "slist": slist, "declared_usp": float(usps[k]), "feature_index": k, "spin": sp,
                              "apparent_power": float(np.log(np.sqrt(np.mean(b ** 2)) / np.sqrt(np.mean(d1[sp, k, keep] ** 2))) / np.log(lam))})
            rec.nontrivial("flapl|%s|%d|%d" % (slist, k, sp))
    rec.set_sample({"kind": "flapl", "lam": lam, "slist": slist, "usps": usps.tolist(), "worst": worst, "npoints": int(keep.sum())})


def _gen(case, rec, rng):
    import ciderpress.pyscf.nldf_convolutions as nc

    from checks.c06 import _Capture
    from vlib import gen
    cfg = dict(case["cfg"])
    lam = cfg.pop("lam")
    fam = cfg["family"]
    for k in ("family", "spin", "mol", "basis", "level", "mode", "plan_type", "interp"):
        if cfg.get(k) is not None:
            rec.tag(k, cfg[k])
    rec.tag("lambda", lam)
    mol1 = gen.make_mol(cfg["mol"], cfg["basis"], rng, jitter=0.03 if cfg["mol"] not in ("He", "Li") else 0.0)
    model = gen.build_model(cfg, rng)
    nspin = 1 if cfg["spin"] == "rks" else 2
    dm = gen.psd_dm(mol1, rng, nspin)
    mol_l = scaled_mol(mol1, lam)
    S1, Sl = mol1.intor("int1e_ovlp"), mol_l.intor("int1e_ovlp")
    T1, Tl = mol1.intor("int1e_kin"), mol_l.intor("int1e_kin")
    chk = max(float(np.max(np.abs(S1 - Sl))), float(np.max(np.abs(Tl - lam ** 2 * T1))) / max(1.0, float(np.max(np.abs(T1)))))
    if chk > 1e-10:
        rec.set_inconclusive("scaled molecule construction not validated (%.2e)" % chk)
        return
    theta0 = model.settings.nldf_settings.theta_params[0] if model.settings.has_nldf else 1.0
    amin, amax = theta0 / 256, 10000.0

    def build(mol, l):
        c = dict(cfg)
        nk = {}
        if model.settings.has_nldf:
            nk = dict(alpha_min=amin * l ** 2, alpha_max=amax * l ** 2, aparam=0.03 / l, rhocut=1e-10 * l ** 3,
                      expcut=1e-10 * l ** 2)
            if cfg.get("plan_type"):
                nk["plan_type"] = cfg["plan_type"]
            if cfg.get("interp"):
                nk["interpolator_type"] = cfg["interp"]
        ks = gen.make_ks(mol, model, spin=cfg["spin"], level=cfg["level"], nldf_kwargs=nk or None, rhocut=1e-9 * l ** 3,
                         **gen.MIXES["pure"])
        return ks
    orig_aug = nc.aug_etb_for_cider
    try:
        ks1 = build(mol1, 1.0)
        cap = _Capture(ks1)
        n1, e1, v1 = gen.nr_eval(ks1, dm)
        f1 = cap.features()
        cap.release()

        def transported_aug(mol, **kw):
            return _scale_basis_dict(orig_aug(mol1, **kw), lam)
        nc.aug_etb_for_cider = transported_aug
        ksl = build(mol_l, lam)
        _transport_grids(ks1, ksl, mol_l, lam)
        cap = _Capture(ksl)
        nl_, el, vl = gen.nr_eval(ksl, dm)
        fl = cap.features()
        cap.release()
        f_reuse = None
        if model.settings.has_nldf and model.settings.has_sdmx:
            # a user scanning lambda with ONE calculator: the integrator that has seen the unscaled molecule is handed the
            # scaled one (both nonlocal generators have to follow the molecule); its SDMX block must be that of a fresh
            # calculator (the NLDF block depends on the un-scaled cut-offs of this integrator and is not compared)
            cap = _Capture(ks1)
            ni1 = ks1._numint
            (ni1.nr_rks if nspin == 1 else ni1.nr_uks)(mol_l, ksl.grids, ks1.xc, dm)
            f_reuse = cap.features()
            cap.release()
    finally:
        nc.aug_etb_for_cider = orig_aug
    if f_reuse is not None:
        nm = _feature_names(model.settings)
        cols = [k for k, x in enumerate(nm) if x.startswith("sdmx")]
        wk = ksl.grids.weights != 0
        a, b = fl[:, cols][..., wk], f_reuse[:, cols][..., wk]
        rec.check("reused_integrator_follows_scaled_molecule", float(np.max(np.abs(a - b))) / max(float(np.max(np.abs(a))), 1e-300), 1e-9,
                  mechanism="scaled-system:reused-integrator[sdmx-block]", detail={"lam": lam, "family": fam})
    v1, vl = np.asarray(v1), np.asarray(vl)
    rec.check("nelec_preserved", float(np.max(np.abs(np.atleast_1d(nl_) - np.atleast_1d(n1)))) / float(np.max(np.abs(np.atleast_1d(n1)))), 1e-12,
              mechanism="scaled-system:nelec")
    usps = np.asarray(model.settings.get_feat_usps(), dtype=float)
    w = ks1.grids.weights
    from pyscf.dft import numint as pn
    ao = pn.eval_ao(mol1, ks1.grids.coords)
    rho = pn.eval_rho(mol1, ao, dm if nspin == 1 else dm[0] + dm[1])
    keep = (w != 0) & (rho > 1e-4)
    names = _feature_names(model.settings)
    worst = 0.0
    for s in range(f1.shape[0]):
        for k in range(f1.shape[1]):
            a = f1[s, k, keep] * lam ** usps[k]
            b = fl[s, k, keep]
            rms = float(np.sqrt(np.mean(a ** 2)))
            if rms < 1e-10:
                continue
            err = float(np.max(np.abs(a - b))) / max(float(np.max(np.abs(a))), 1e-300)
            worst = max(worst, err)
            rec.check("feature_scaling[%s]" % names[k].split(":")[0], err, TOL_GEN, mechanism="usp[%s]" % names[k],
                      detail={"lam": lam, "declared_usp": float(usps[k]), "feature": names[k], "spin": s,
                              "apparent_power": float(np.log(np.sqrt(np.mean(b ** 2)) / np.sqrt(np.mean(f1[s, k, keep] ** 2))) / np.log(lam))})
            if abs(lam - 1) > 0.1:
                rec.nontrivial("%s|%d|%d" % (names[k], s, k))
    if fam in INVARIANT_SL:
        es = max(abs(e1), 1e-6)
        rec.check("energy_scales_lambda", abs(el - lam * e1) / (lam * es), TOL_E, mechanism="E[n_lambda]!=lambda*E[n][%s]" % fam,
                  detail={"E1": float(e1), "El": float(el), "lam": lam})
        rec.check("vmat_scales_lambda", float(np.max(np.abs(vl - lam * v1))) / (lam * max(float(np.max(np.abs(v1))), 1e-6)), TOL_E,
                  mechanism="vmat[n_lambda]!=lambda*vmat[n][%s]" % fam)
        if abs(lam - 1) > 0.1 and abs(e1) > 1e-6:
            rec.nontrivial("energy")
    rec.set_sample({"cfg": cfg, "lam": lam, "E1": float(e1), "E_lambda": float(el), "ratio": float(el / e1) if e1 else None,
                    "worst_feature_rel_err": worst, "usps": usps.tolist(), "npoints": int(keep.sum())})


def _feature_names(fs):
    names = ["sl%d:%s" % (i, fs.sl_settings.mode) for i in range(fs.sl_settings.nfeat)]
    if fs.has_nldf:
        st = fs.nldf_settings
        specs = []
        if st.version in ("j", "ij", "k"):
            specs += ["%s:%s" % (st.version, s) for s in st.feat_specs]
        if st.version in ("i", "ij"):
            specs += ["i:%s" % s for s in st.l0_feat_specs]
            specs += ["i:dot%s" % (tuple(d),) for d in st.l1_feat_dots]
        specs = specs[: st.nfeat] + ["nldf%d" % k for k in range(len(specs), st.nfeat)]
        names += ["nldf-%s-%s" % (sp, st.rho_mult) for sp in specs]
    if fs.has_sdmx:
        names += ["sdmx%d:%s" % (i, type(fs.sdmx_settings).__name__) for i in range(fs.sdmx_settings.nfeat)]
    return names
