/* OpenMP happens-before annotation shim for ThreadSanitizer (gcc/libgomp).
 *
 * libgomp synchronises fork/join/barriers with futexes that TSan does not see, so an
 * un-annotated TSan run reports every reuse of a stack slot or buffer across parallel
 * regions as a race.  This object is linked INTO the tsan build of the repository's
 * libraries with -Wl,--wrap=GOMP_parallel,... and adds only happens-before edges that the
 * OpenMP specification guarantees:
 *   fork   : master's writes before GOMP_parallel  ->  every worker's body
 *   join   : every worker's body                    ->  master after GOMP_parallel
 *   barrier / end of a non-nowait worksharing loop  : all-to-all
 *   critical: release at end, acquire at start
 * It never removes an edge and never generates a report; it can only hide a race that
 * OpenMP semantics already order.  GOMP_loop_end_nowait, GOMP_single_start and the dynamic
 * loop iterators add no edges.
 */
#include <stdbool.h>
#include <stddef.h>

extern void __tsan_acquire(void *addr);
extern void __tsan_release(void *addr);

typedef void (*gomp_fn)(void *);

struct wrapinfo {
    gomp_fn fn;
    void *data;
    char fork_token;
    char join_token;
};

static char barrier_token;
static char critical_token;
static char atomic_token;

static long n_regions, n_worker_entries, n_barriers, n_loop_ends, n_criticals;

long verif_gomp_shim_counter(int which) {
    switch (which) {
    case 0: return __atomic_load_n(&n_regions, __ATOMIC_RELAXED);
    case 1: return __atomic_load_n(&n_worker_entries, __ATOMIC_RELAXED);
    case 2: return __atomic_load_n(&n_barriers, __ATOMIC_RELAXED);
    case 3: return __atomic_load_n(&n_loop_ends, __ATOMIC_RELAXED);
    case 4: return __atomic_load_n(&n_criticals, __ATOMIC_RELAXED);
    }
    return -1;
}

static void tramp(void *arg) {
    struct wrapinfo *w = (struct wrapinfo *)arg;
    __tsan_acquire(&w->fork_token);
    __atomic_add_fetch(&n_worker_entries, 1, __ATOMIC_RELAXED);
    w->fn(w->data);
    __tsan_release(&w->join_token);
}

extern void __real_GOMP_parallel(gomp_fn fn, void *data, unsigned num_threads, unsigned flags);
void __wrap_GOMP_parallel(gomp_fn fn, void *data, unsigned num_threads, unsigned flags) {
    struct wrapinfo w;
    w.fn = fn;
    w.data = data;
    __atomic_add_fetch(&n_regions, 1, __ATOMIC_RELAXED);
    __tsan_release(&w.fork_token);
    __real_GOMP_parallel(tramp, &w, num_threads, flags);
    __tsan_acquire(&w.join_token);
}

extern void __real_GOMP_barrier(void);
void __wrap_GOMP_barrier(void) {
    __atomic_add_fetch(&n_barriers, 1, __ATOMIC_RELAXED);
    __tsan_release(&barrier_token);
    __real_GOMP_barrier();
    __tsan_acquire(&barrier_token);
}

extern void __real_GOMP_loop_end(void);
void __wrap_GOMP_loop_end(void) {
    __atomic_add_fetch(&n_loop_ends, 1, __ATOMIC_RELAXED);
    __tsan_release(&barrier_token);
    __real_GOMP_loop_end();
    __tsan_acquire(&barrier_token);
}

extern void __real_GOMP_critical_start(void);
void __wrap_GOMP_critical_start(void) {
    __real_GOMP_critical_start();
    __atomic_add_fetch(&n_criticals, 1, __ATOMIC_RELAXED);
    __tsan_acquire(&critical_token);
}
extern void __real_GOMP_critical_end(void);
void __wrap_GOMP_critical_end(void) {
    __tsan_release(&critical_token);
    __real_GOMP_critical_end();
}

extern void __real_GOMP_atomic_start(void);
void __wrap_GOMP_atomic_start(void) {
    __real_GOMP_atomic_start();
    __tsan_acquire(&atomic_token);
}
extern void __real_GOMP_atomic_end(void);
void __wrap_GOMP_atomic_end(void) {
    __tsan_release(&atomic_token);
    __real_GOMP_atomic_end();
}
