"""C19 - CIDER integration grids are PySCF's grids plus an exact index map.

Every case builds one ``CiderGrids`` for a jittered molecule of the pool with one configuration of
(grid level | atom_grid override, prune scheme, lmax, alignment, sort_grids, radial scheme, Becke scheme, radii
adjustment), builds ``pyscf.dft.gen_grid.Grids`` with the same settings, and decides (DESIGN.md section 5, C19):

 points          lexicographically sorted (x, y, z, w) tables of the two grids are equal (exact; pyscf's generator was
                 measured deterministic and the tables bitwise equal on the unchanged tree).
 tables          structural invariants of the indexer tables (dtype, monotone rad_loc, ar_loc/ra_loc/ga_loc consistent,
                 every shell a Lebedev size, every shell's ylm block inside ylm).
 shells          per atom the multiset {(radius, angular size)} of the indexer equals pyscf's radial scheme + pruning
                 scheme evaluated independently by the harness (exact).
 injective       idx_map has no repeated entry and stays inside the atom-ordered grid; without density pruning it is a
                 permutation.
 coords          atom-ordered coordinates are rebuilt from the indexer tables only (atom position of ar_loc[r] +
                 rad_arr[r] * dirs[ylm_loc[r] + j]) and rebuilt[idx_map] == grids.coords[:n] (1e-13 of the extent;
                 floor 1.8e-15); all_weights[idx_map] == grids.weights[:n] (exact).
 owner           iatom_list == owning atom of idx_map (atom offsets from the harness' own shell count) and == pyscf's
                 atm_idx of the same point (matched through the sorted tables).
 padding         weights[n:] == 0 exactly, coords[n:] pyscf's dummy point, indexer.padding == size - n == pyscf's
                 _padding_size(n, alignment).
 unsorted        sort_grids=False gives the identity map.
 density prune   after prune_by_density_(rho, thr) (a sequence of thresholds; rho normalised to the electron count on
                 the current grid) coords / weights / idx_map equal the expected kept set computed from the state
                 before the call (exact), the table still equals pyscf's own prune_by_density_ of the reference grid
                 (same rho transported through the row matching), and all relations above hold again; a density that
                 fails pyscf's electron-count test and threshold 0 leave everything untouched.
 rebuild         build() after pruning reproduces the first build exactly; changing the level rebuilds a consistent
                 grid.
 ylm             per distinct (ylm block, Lebedev size): 4 pi sum_j w_j Y_lm(j) Y_l'm'(j) = delta for l, l' <= min(lmax,
                 degree // 2) (1e-12; floor 3e-15), columns above are exactly zero, each l block spans the degree-l real
                 spherical harmonics of an independent implementation (pyscf.symm.sph), dirs are unit vectors equal to
                 the Lebedev points (1e-14; floor 2e-16).
 C round trip    reduce_ylm_to_angc (C) == the definition evaluated with numpy; reduce_angc_to_ylm(4 pi w * .) of it
                 returns the input on the supported (l, m) and zero above (1e-12).
 lmax            CiderGrids(mol, lmax=L).build() must work for every L the constructor accepts; if it raises, that is
                 a failure and the remaining oracles run with lmax forwarded by the harness (build(full_lmax=L)).
"""
import os
import traceback

import numpy as np

from vlib.oracles import rng_for

PROPERTY = "C19"
PROP_NO = 19
RULE = ("case = (molecule of the pool with random geometry jitter, grid level or atom_grid override in tuple / per-element "
        "/ partial / 'default'-key form, prune scheme, lmax, alignment, sort_grids, with_non0tab, radial scheme, Becke "
        "scheme, radii adjustment, sequence of density-pruning thresholds, rebuild / relevel history), drawn from balanced "
        "independent shuffles of every axis; a case is non-trivial when the CIDER grid was built, has >= 100 real points in "
        ">= 2 radial shells and every oracle group (points, map, padding, shells, ylm, C round trip) was evaluated on it; "
        "distinct = distinct case (configuration + geometry)")
MIN_NONTRIVIAL = {"quick": 32, "thorough": 500}
ASSUMPTIONS = [
    "pyscf.dft.gen_grid.Grids of the installed pyscf (2.14) with equal attribute settings is the reference by definition",
    "exact (bitwise) comparison of points, weights and maps: pyscf's generator was measured deterministic and the "
    "Becke partition is evaluated pointwise, so no reassociation enters; coordinate reconstruction tolerance 1e-13 of "
    "the grid extent (floor 1.8e-15), ylm orthonormality 1e-12 (floor 3e-15), dirs 1e-14 (floor 2e-16)",
    "supported degree of a shell with an n-point Lebedev rule of degree d is min(lmax, d // 2)",
    "lmax = 0 is only driven through the advertised constructor path and in an ASan worker: with lmax forwarded, "
    "recursive_sph_harm (sph_harm.c:99-108) writes the l = 1 entries unconditionally and overruns an nlm = 1 row",
    "ghost atoms and n_ang given as a Lebedev order instead of a point count are outside the quantifier",
    "rho for density pruning is a positive sum of atom-centred exponentials normalised on the current grid",
]
REQUIRED_CALLS = ["libmcider.recursive_sph_harm_vec", "libmcider.reduce_ylm_to_angc", "libmcider.reduce_angc_to_ylm"]

TOL_COORD = 1e-13
TOL_YLM = 1e-12
TOL_DIRS = 1e-14
TOL_RT = 1e-12

EXTRA_MOLS = {
    "Ne": ([("Ne", (0.0, 0.0, 0.0))], 0, 0),
    "Ar": ([("Ar", (0.0, 0.0, 0.0))], 0, 0),
    "CH4": ([("C", (0.0, 0.0, 0.0)), ("H", (0.629, 0.629, 0.629)), ("H", (-0.629, -0.629, 0.629)),
             ("H", (-0.629, 0.629, -0.629)), ("H", (0.629, -0.629, -0.629))], 0, 0),
    "HCl": ([("H", (0.0, 0.0, 0.0)), ("Cl", (0.0, 0.0, 1.275))], 0, 0),
    "NaF": ([("Na", (0.0, 0.0, 0.0)), ("F", (0.0, 0.0, 1.93))], 0, 0),
    "SiH3": ([("Si", (0.0, 0.0, 0.1)), ("H", (1.39, 0.0, -0.3)), ("H", (-0.695, 1.204, -0.3)),
              ("H", (-0.695, -1.204, -0.3))], 1, 0),
    "CH2OH+": ([("C", (0.0, 0.0, 0.0)), ("O", (1.25, 0.0, 0.0)), ("H", (-0.55, 0.94, 0.0)), ("H", (-0.55, -0.94, 0.0)),
                ("H", (1.7, 0.85, 0.0))], 0, 1),
}
# molecules with an effective core potential (mol.atom_charge is then Z minus the core electrons; grids go by the element):
# added after a seeded change of the nuclear-charge lookup that only matters under an ECP
ECP_MOLS = {"HCl/ecp": ("HCl", {"Cl": "lanl2dz"}), "NaF/ecp": ("NaF", {"Na": "lanl2dz"}), "SiH3/ecp": ("SiH3", {"Si": "lanl2dz"})}
MOL_NAMES = (["He", "Li", "H", "H2", "LiH", "HF", "H2O", "NH2", "NH3", "H2O2", "CH3", "OH-", "HOF", "O2"] + sorted(EXTRA_MOLS)
             + sorted(ECP_MOLS))
ATOM_GRIDS = [(20, 50), (35, 110), (50, 194), (25, 86), (30, 302), (40, 146), (15, 26), (60, 434), (12, 14), (45, 74),
              (28, 170), (18, 38), (10, 6), (55, 266)]
THRESHOLDS = [1e-9, 1e-7, 1e-5, 1e-3, 1e-1, 0.0]


# ------------------------------------------------------------------------------------------------------------
# case generation (runner side: no ciderpress / pyscf import)

def _balanced(rng, values, n):
    """n draws with exactly balanced marginals: whole cycles of `values` plus a random remainder, shuffled."""
    values = list(values)
    arr = values * (n // len(values))
    rest = n - len(arr)
    if rest:
        arr += [values[int(i)] for i in rng.permutation(len(values))[:rest]]
    return [arr[int(i)] for i in rng.permutation(len(arr))]


def _elements(name):
    from vlib import gen
    atoms = (gen.MOLS.get(ECP_MOLS[name][0] if name in ECP_MOLS else name) or EXTRA_MOLS[ECP_MOLS[name][0] if name in ECP_MOLS else name])[0]
    out = []
    for a in atoms:
        if a[0] not in out:
            out.append(a[0])
    return out, len(atoms)


def gen_cases(tier, seed):
    rng = rng_for(seed, PROP_NO, 0)
    quick = tier == "quick"
    n = 60 if quick else 800
    ax = {
        "mol": _balanced(rng, MOL_NAMES, n),
        "level": _balanced(rng, [0, 1, 2] if quick else [0, 1, 2, 3, 4], n),
        "ag_form": _balanced(rng, ["none"] * 5 + ["tuple"] * 3 + ["dict-full", "dict-partial"], n),
        "prune": _balanced(rng, ["nwchem", "sg1", "treutler", "none"] if quick else
                           ["nwchem"] * 3 + ["sg1"] * 2 + ["treutler"] * 2 + ["none"] * 2 + ["sgx"], n),
        "lmax": _balanced(rng, [10] * 32 + [3] * 6 + [6] * 6 + [1] * 2 + [2] * 2 + [0] * 2, n),
        "alignment": _balanced(rng, [8] * 5 + [1, 0, 16, 13, 64], n),
        "sort": _balanced(rng, [True] * 4 + [False], n),
        "non0tab": _balanced(rng, [False] * 3 + [True], n),
        "radi": _balanced(rng, ["treutler_ahlrichs"] * 5 + ["gauss_chebyshev", "delley", "mura_knowles", "becke"], n),
        "becke": _balanced(rng, ["original_becke"] * 3 + ["stratmann"], n),
        "radii_adjust": _balanced(rng, ["treutler"] * 3 + ["becke", "none"], n),
    }
    default_every = 30 if quick else 100  # the 'default' key of atom_grid (pyscf documents it): a few cases
    cases = []
    for i in range(n):
        cfg = {k: v[i] for k, v in ax.items()}
        elems, natm = _elements(cfg["mol"])
        form = cfg["ag_form"]
        if i % default_every == 7:
            form = cfg["ag_form"] = "dict-default"
        pick = [list(ATOM_GRIDS[int(j)]) for j in rng.choice(len(ATOM_GRIDS), size=len(elems) + 1, replace=True)]
        if not quick and cfg["level"] >= 3:
            pick = [p if p[1] < 400 else [p[0], 194] for p in pick]  # keep the largest grids bounded
        if form == "none":
            cfg["atom_grid"] = None
        elif form == "tuple":
            cfg["atom_grid"] = pick[0]
        elif form == "dict-full":
            cfg["atom_grid"] = {e: pick[k] for k, e in enumerate(elems)}
        elif form == "dict-partial":
            cfg["atom_grid"] = {elems[int(rng.integers(len(elems)))]: pick[0], "Xe": pick[-1]}
        else:
            d = {"default": pick[-1]}
            if len(elems) > 1:
                d[elems[0]] = pick[0]
            cfg["atom_grid"] = d
        nthr = int(rng.integers(1, 4))
        cfg["thresholds"] = [float(THRESHOLDS[int(j)]) for j in rng.choice(len(THRESHOLDS), size=nthr, replace=False)]
        cfg["offnorm"] = bool(rng.random() < 0.3)
        cfg["rebuild"] = bool(rng.random() < 0.3)
        cfg["relevel"] = bool(rng.random() < 0.15)
        cfg["reset_hist"] = [None, None, "before-build", "build-reset-reset", "setting-then-reset"][int(rng.integers(5))]
        cfg["nalpha"] = int(rng.integers(1, 5))
        case = {"id": "g%03d-%s-l%d-%s-L%d" % (i, cfg["mol"], cfg["level"], cfg["prune"], cfg["lmax"]), "cfg": cfg,
                "seed": seed, "idx": 100 + i, "_threads": 2, "_weight": float(natm * (1 + cfg["level"]) ** 1.5),
                "_timeout": 900}
        if cfg["lmax"] < 1:
            case["_variant"] = "asan"
            case["_weight"] = 0.5
        cases.append(case)
    # angular degrees above the default: lmax 16..24 on shells with 350..974 Lebedev points (supported degree of a shell is
    # min(lmax, order // 2): 15 for 350 points, 17 for 434, 20 for 590, 23 for 770, 26 for 974) - added after a seeded
    # change of the points -> degree table that only matters for lmax >= 17
    big = [(12, 434), (10, 590), (8, 770), (14, 350), (8, 974), (10, 302)]
    nhi = 6 if quick else 36
    for j in range(nhi):
        cfg = {k: v[j % n] for k, v in ax.items()}
        cfg.update(mol=["HF", "He", "H2O", "LiH"][j % 4], level=0, ag_form="tuple", atom_grid=list(big[j % len(big)]),
                   prune=["none", "treutler", "nwchem"][j % 3], lmax=[17, 20, 24, 16, 18, 23][(j + j // 6) % 6],
                   thresholds=[1e-7], offnorm=False, rebuild=False, relevel=False, nalpha=2)
        _, natm = _elements(cfg["mol"])
        cases.append({"id": "hiL%02d-%s-%dx%d-%s-L%d" % (j, cfg["mol"], cfg["atom_grid"][0], cfg["atom_grid"][1], cfg["prune"], cfg["lmax"]),
                      "cfg": cfg, "seed": seed, "idx": 5000 + j, "_threads": 2, "_weight": float(natm * 4), "_timeout": 900})
    return cases


def classify_sanitizer(blocks):
    out = []
    for kind, b in blocks:
        if "recursive_sph_harm" in b:
            mech = "recursive_sph_harm_vec:writes-l1-entries-into-nlm1-row[lmax=0]"
        else:
            mech = kind + ":unclassified"
        out.append({"id": "sanitizer", "oracle": kind, "mechanism": mech, "detail": b[:1500]})
    return out


# ------------------------------------------------------------------------------------------------------------
# worker side

def _mol(cfg, rng):
    from vlib import gen
    name = cfg["mol"]
    ecp = None
    if name in ECP_MOLS:
        name, ecp = ECP_MOLS[name]
    if name in gen.MOLS:
        atoms, spin, charge = gen.MOLS[name]
    else:
        atoms, spin, charge = EXTRA_MOLS[name]
    # random atom order: element-grouped listings hide per-element / per-atom table mix-ups
    atoms = [atoms[int(i)] for i in rng.permutation(len(atoms))]
    if ecp is None:
        return gen.make_mol(None, "sto-3g", rng, jitter=0.05, atoms=atoms, spin=spin, charge=charge)
    from pyscf import gto
    xyz = np.array([a[1] for a in atoms], dtype=float) + 0.05 * rng.normal(size=(len(atoms), 3))
    basis = {a[0]: ("lanl2dz" if a[0] in ecp else "sto-3g") for a in atoms}
    return gto.M(atom=[(a[0], tuple(x)) for a, x in zip(atoms, xyz)], basis=basis, ecp=ecp, spin=spin or 0, charge=charge or 0, verbose=0)


def _atom_grid(cfg, drop_default=False):
    ag = cfg["atom_grid"]
    if ag is None:
        return {}
    if isinstance(ag, (list, tuple)):
        return tuple(int(x) for x in ag)
    return {k: tuple(int(x) for x in v) for k, v in ag.items() if not (drop_default and k == "default")}


def _apply(g, cfg, level=None, drop_default=False):
    from pyscf.dft import gen_grid as gg
    from pyscf.dft import radi
    g.level = cfg["level"] if level is None else level
    g.atom_grid = _atom_grid(cfg, drop_default)
    g.prune = {"nwchem": gg.nwchem_prune, "sg1": gg.sg1_prune, "treutler": gg.treutler_prune, "none": None,
               "sgx": getattr(gg, "sgx_prune", gg.nwchem_prune)}[cfg["prune"]]
    g.radi_method = getattr(radi, cfg["radi"])
    g.becke_scheme = getattr(gg, cfg["becke"])
    g.radii_adjust = {"treutler": radi.treutler_atomic_radii_adjust, "becke": radi.becke_atomic_radii_adjust,
                      "none": None}[cfg["radii_adjust"]]
    g.alignment = cfg["alignment"]
    return g


def _lebedev(n):
    """(n, 4) Lebedev points and weights as pyscf generates them."""
    from pyscf.dft import gen_grid as gg
    f = getattr(gg, "MakeAngularGrid", None)
    if callable(f):
        return np.asarray(f(int(n)), dtype=float).reshape(-1, 4)
    import ctypes
    grid = np.empty((n, 4))
    gg.libdft.MakeAngularGrid(grid.ctypes.data_as(ctypes.c_void_p), ctypes.c_int(n))
    return grid


def _table(coords, weights):
    t = np.column_stack([np.asarray(coords, dtype=float), np.asarray(weights, dtype=float)])
    order = np.lexsort(t.T[::-1])
    return t[order], order


def _maxdiff(a, b):
    a = np.asarray(a)
    b = np.asarray(b)
    if a.shape != b.shape:
        return float("inf")
    if a.size == 0:
        return 0.0
    d = np.abs(a - b)
    return float(np.max(d)) if np.all(np.isfinite(d)) else float("nan")


def _frames(e):
    return [f.name for f in traceback.extract_tb(e.__traceback__)]


def _build_cider(rec, mol, cfg, bk, level=None, drop_default=False, report=True):
    """Build through the advertised interface.  Returns (grids or None, path description)."""
    from ciderpress.pyscf.gen_cider_grid import CiderGrids
    L = int(cfg["lmax"])
    if L < 1:
        # l = 1 harmonics are always tabulated (they carry the grid directions), so lmax < 1 is not a usable
        # setting: it must be rejected with an exception before the C tabulation is reached (ASan worker).
        try:
            g = _apply(CiderGrids(mol, lmax=L), cfg, level, drop_default)
            g.build(**bk)
            raised = False
        except Exception as e:  # noqa: BLE001
            raised = True
            rec.tag("lmax_lt_1_rejected_with", type(e).__name__)
        if report:
            rec.require("lmax_below_1_rejected", raised, mechanism="CiderGrids:accepts-lmax<1")
        return None, "rejected"
    try:
        g = _apply(CiderGrids(mol, lmax=L), cfg, level, drop_default)
        g.build(**bk)
        if report:
            rec.require("build_accepts_advertised_arguments", True)
        return g, "advertised"
    except Exception as e:  # noqa: BLE001 - any exception on valid input is the event
        frames = _frames(e)
        mech = "CiderGrids.build:raises[%s]" % type(e).__name__
        detail = {"lmax": L, "exception": "%s: %s" % (type(e).__name__, str(e)[:200]), "frames": frames[-4:]}
        if L != 10:
            try:
                c10 = dict(cfg, lmax=10)
                _apply(CiderGrids(mol, lmax=10), c10, level, drop_default).build(**bk)
                ok10 = True
            except Exception:  # noqa: BLE001
                ok10 = False
            detail["same_configuration_with_lmax_10_builds"] = ok10
            if ok10 and "from_tabs" in frames:
                mech = "CiderGrids:lmax-not-forwarded"
        if report:
            rec.require("build_accepts_advertised_arguments", False, mechanism=mech, detail=detail)
    if L < 1:
        return None, "none"
    try:
        g = _apply(CiderGrids(mol, lmax=L), cfg, level, drop_default)
        g.build(full_lmax=L, **bk)
        return g, "lmax-forwarded-by-harness"
    except Exception as e:  # noqa: BLE001
        rec.require("build_with_forwarded_lmax", False, mechanism="CiderGrids.build:raises-with-forwarded-lmax[%s]" % type(e).__name__,
                    detail={"lmax": L, "exception": "%s: %s" % (type(e).__name__, str(e)[:200]), "frames": _frames(e)[-4:]})
        return None, "none"


def _build_ref(mol, cfg, bk, level=None, drop_default=False):
    from pyscf.dft import gen_grid as gg
    p = _apply(gg.Grids(mol), cfg, level, drop_default)
    p.build(**bk)
    return p


def _expected_shells(mol, cfg, level=None, drop_default=False):
    """Per atom: (radii, angular sizes) from pyscf's radial scheme and pruning scheme, evaluated by the harness."""
    from pyscf import gto
    from pyscf.dft import gen_grid as gg
    from pyscf.dft import radi
    ag = _atom_grid(cfg, drop_default)
    if isinstance(ag, tuple):
        ag = {mol.atom_symbol(ia): ag for ia in range(mol.natm)}
    default = ag.get("default")
    prune = {"nwchem": gg.nwchem_prune, "sg1": gg.sg1_prune, "treutler": gg.treutler_prune, "none": None,
             "sgx": getattr(gg, "sgx_prune", gg.nwchem_prune)}[cfg["prune"]]
    radi_method = getattr(radi, cfg["radi"])
    lev = cfg["level"] if level is None else level
    out = []
    for ia in range(mol.natm):
        symb = mol.atom_symbol(ia)
        chg = gto.charge(symb)
        conf = ag.get(symb, default)
        if conf is not None:
            n_rad, n_ang = conf
        else:
            n_rad, n_ang = gg._default_rad(chg, lev), gg._default_ang(chg, lev)
        rad, dr = radi_method(n_rad, chg, ia)
        angs = np.asarray(prune(chg, rad, n_ang)) if callable(prune) else np.full(len(rad), n_ang)
        out.append((np.asarray(rad, dtype=float), angs.astype(int)))
    return out


class _Static:
    """Quantities derived once per build from the indexer tables (independent of grids.coords)."""


def _check_tables(rec, mol, ind, L, shells):
    """Structure + shells + reconstruction.  Returns _Static or None when the tables are unusable."""
    from pyscf.dft import gen_grid as gg
    M = "AtomicGridsIndexer:tables-inconsistent"
    natm = mol.natm
    ok = True
    ok &= rec.require("tables_types", all(getattr(ind, k).dtype == np.int32 for k in ("ar_loc", "ra_loc", "rad_loc", "ylm_loc"))
                      and ind.rad_arr.dtype == np.float64 and ind.ylm.dtype == np.float64
                      and all(getattr(ind, k).flags.c_contiguous for k in ("rad_arr", "ar_loc", "ra_loc", "rad_loc", "ylm",
                                                                          "ylm_loc", "dirs")), mechanism=M + "[dtype/layout]")
    nrad = ind.rad_arr.size
    ok &= rec.require("tables_shapes", ind.natm == natm and ind.ar_loc.shape == (nrad,) and ind.ra_loc.shape == (natm + 1,)
                      and ind.rad_loc.shape == (nrad + 1,) and ind.ylm_loc.shape == (nrad,) and ind.lmax == L
                      and ind.nlm == (L + 1) ** 2 and ind.ylm.ndim == 2 and ind.ylm.shape[1] == (L + 1) ** 2
                      and ind.dirs.shape == (ind.ylm.shape[0], 3) and ind.nrad == nrad, mechanism=M + "[shape]")
    if not ok:
        return None
    ns = np.diff(ind.rad_loc.astype(np.int64))
    ok &= rec.require("tables_rad_loc", ind.rad_loc[0] == 0 and np.all(ns > 0) and int(ind.rad_loc[-1]) == ind.all_weights.size
                      and ind.ngrids == ind.all_weights.size, mechanism=M + "[rad_loc]")
    ok &= rec.require("tables_atom_ranges", ind.ra_loc[0] == 0 and ind.ra_loc[-1] == nrad and np.all(np.diff(ind.ra_loc) > 0)
                      and all(np.all(ind.ar_loc[ind.ra_loc[a]:ind.ra_loc[a + 1]] == a) for a in range(natm)),
                      mechanism=M + "[ar_loc/ra_loc]")
    ok &= rec.require("tables_ga_loc", np.array_equal(np.asarray(ind.ga_loc), ind.rad_loc[ind.ra_loc]), mechanism=M + "[ga_loc]")
    ok &= rec.require("tables_shell_sizes_lebedev", bool(np.all(np.isin(ns, gg.LEBEDEV_NGRID))), mechanism=M + "[shell size]")
    ok &= rec.require("tables_ylm_blocks_inside", bool(np.all(ind.ylm_loc >= 0) and np.all(ind.ylm_loc + ns <= ind.ylm.shape[0])),
                      mechanism=M + "[ylm_loc]")
    if not ok:
        return None
    # shells: multiset {(radius, n_ang)} per atom against the harness' own evaluation of pyscf's schemes
    good = True
    off = [0]
    for a in range(natm):
        r0, r1 = int(ind.ra_loc[a]), int(ind.ra_loc[a + 1])
        have = sorted(zip(ind.rad_arr[r0:r1].tolist(), ns[r0:r1].tolist()))
        want = sorted(zip(shells[a][0].tolist(), shells[a][1].tolist()))
        good &= have == want
        off.append(off[-1] + int(shells[a][1].sum()))
    rec.require("shells_equal_pyscf_scheme", good, mechanism="AtomicGridsIndexer:shells-differ-from-pyscf-scheme")
    rec.require("atom_offsets", np.array_equal(np.asarray(off), np.asarray(ind.ga_loc, dtype=np.int64)),
                mechanism="AtomicGridsIndexer:ga_loc-differs-from-shell-count")
    st = _Static()
    st.ns = ns
    st.off = np.asarray(off, dtype=np.int64)
    shell = np.repeat(np.arange(nrad), ns)
    j = np.arange(int(ns.sum())) - ind.rad_loc[shell]
    st.shell = shell
    st.recon = mol.atom_coords()[ind.ar_loc[shell]] + ind.rad_arr[shell][:, None] * ind.dirs[ind.ylm_loc[shell] + j]
    owner = np.empty(int(ns.sum()), dtype=np.int64)
    if off[-1] == owner.size:
        for a in range(natm):
            owner[off[a]:off[a + 1]] = a
    else:
        owner[:] = ind.ar_loc[shell]
    st.owner = owner
    st.owner_tables = ind.ar_loc[shell]
    rec.require("owner_tables_agree", np.array_equal(st.owner, st.owner_tables), mechanism=M + "[owner]")
    return st


def _check_state(rec, mol, g, p, st, cfg, stage, full=True):
    """Relations between the current grids arrays, the index map and the reference grid p.  Returns summary."""
    ind = g.grids_indexer
    S = "" if stage == "build" else "[%s]" % stage
    pm = "CiderGrids" if stage in ("build", "rebuild", "relevel") else "CiderGrids.prune_by_density_"
    coords, w = g.coords, g.weights
    size = int(w.size)
    rec.require("arrays_layout" + S, coords.ndim == 2 and coords.shape == (size, 3) and coords.flags.c_contiguous
                and w.flags.c_contiguous and g.size == size, mechanism=pm + ":arrays-layout")
    # points against pyscf
    tc, oc = _table(coords, w)
    tp, op = _table(p.coords, p.weights)
    rec.check("points_equal_pyscf" + S, _maxdiff(tc, tp), 0.0, mechanism=pm + ":points-differ-from-pyscf",
              detail={"cider_points": int(size), "pyscf_points": int(p.weights.size)})
    idx = np.asarray(ind.idx_map)
    n = int(idx.size)
    nall = int(ind.all_weights.size)
    # injective, in range
    inj = rec.require("idx_map_injective" + S, idx.ndim == 1 and np.unique(idx).size == n,
                      mechanism="AtomicGridsIndexer:idx_map-not-injective")
    rng_ok = rec.require("idx_map_in_range" + S, n == 0 or (idx.dtype.kind in "iu" and idx.min() >= 0 and idx.max() < nall),
                         mechanism="AtomicGridsIndexer:idx_map-out-of-range")
    if full:
        rec.require("idx_map_permutation" + S, n == nall, mechanism="AtomicGridsIndexer:idx_map-not-a-permutation-after-build")
    # padding
    pad = size - n
    al = int(cfg["alignment"])
    want_pad = ((n + al - 1) // al * al - n) if al > 1 else 0
    rec.require("padding_count" + S, pad >= 0 and int(ind.padding) == pad and pad == want_pad,
                mechanism=pm + ":padding-count", detail={"size": size, "n": n, "indexer.padding": int(ind.padding),
                                                        "expected": want_pad})
    if pad > 0:
        rec.require("padding_zero_weight" + S, bool(np.all(w[n:] == 0.0)), mechanism=pm + ":padding-weight-nonzero")
        rec.require("padding_dummy_coords" + S, bool(np.all(coords[n:] == 1e-4)), mechanism=pm + ":padding-coords")
    if al > 1:
        rec.require("size_aligned" + S, size % al == 0, mechanism=pm + ":size-not-aligned")
    out = {"n": n, "size": size, "padding": pad, "recon_err": None}
    if not (rng_ok and n <= size and pad >= 0):
        return out
    # correspondence under the map
    scale = max(1.0, float(np.max(np.abs(coords[:n]))) if n else 1.0)
    err = _maxdiff(st.recon[idx], coords[:n]) / scale
    rec.check("coords_via_idx_map" + S, err, TOL_COORD, mechanism="AtomicGridsIndexer:coords-do-not-correspond",
              detail={"scale": scale})
    out["recon_err"] = err
    rec.check("weights_via_idx_map" + S, _maxdiff(ind.all_weights[idx], w[:n]), 0.0,
              mechanism="AtomicGridsIndexer:weights-do-not-correspond")
    ial = np.asarray(ind.iatom_list)
    rec.require("iatom_list_owner" + S, ial.shape == (n,) and ial.dtype == np.int32 and ial.flags.c_contiguous
                and np.array_equal(ial, st.owner[idx]), mechanism="AtomicGridsIndexer:iatom_list-not-owning-atom")
    # pyscf's atm_idx of the same point (rows matched through the sorted tables)
    patm = getattr(p, "atm_idx", None)
    if patm is not None and tc.shape == tp.shape and np.array_equal(tc, tp) and inj:
        real = np.ones(size, dtype=bool)
        real[n:] = False
        rows_real = tc[real[oc]]
        uniq = rows_real.shape[0] < 2 or bool(np.all(np.any(np.diff(rows_real, axis=0) != 0, axis=1)))
        if uniq:
            mine = np.full(size, -1, dtype=np.int64)
            mine[:n] = ial if ial.shape == (n,) else -2
            rec.require("iatom_list_equals_pyscf_atm_idx" + S, np.array_equal(mine[oc], np.asarray(patm)[op]),
                        mechanism="AtomicGridsIndexer:iatom_list-differs-from-pyscf-atm_idx")
    return out


def _real_sph_scipy(xyz, l):
    """Orthonormal real spherical harmonics of degree l at unit vectors (n, 3) from scipy's complex ones: (n, 2l+1)."""
    import scipy.special as sp
    pol = np.arccos(np.clip(xyz[:, 2], -1.0, 1.0))
    az = np.arctan2(xyz[:, 1], xyz[:, 0])
    cols = []
    for m in range(-l, l + 1):
        if hasattr(sp, "sph_harm_y"):
            y = sp.sph_harm_y(l, abs(m), pol, az)
        else:
            y = sp.sph_harm(abs(m), l, az, pol)
        if m < 0:
            cols.append(np.sqrt(2.0) * y.imag)
        elif m == 0:
            cols.append(y.real)
        else:
            cols.append(np.sqrt(2.0) * y.real)
    return np.stack(cols, axis=1)


def _check_ylm(rec, ind, L, st):
    """Orthonormality / zero-above / degree-l span / dirs per distinct (ylm block, Lebedev size)."""
    from pyscf.dft import gen_grid as gg
    from pyscf.symm import sph
    order_of = {v: k for k, v in gg.LEBEDEV_ORDER.items()}
    blocks = sorted(set(zip(ind.ylm_loc.tolist(), st.ns.tolist())))
    covered = np.zeros(ind.ylm.shape[0], dtype=bool)
    worst = {"gram": 0.0, "dirs": 0.0, "conv": 0.0}
    info = {}
    for y0, n in blocks:
        leb = _lebedev(n)
        covered[y0:y0 + n] = True
        deg = order_of[n]
        lsh = min(deg // 2, L)
        nl = (lsh + 1) ** 2
        Y = ind.ylm[y0:y0 + n]
        wq = 4 * np.pi * leb[:, 3]
        G = (Y[:, :nl].T * wq) @ Y[:, :nl]
        e = float(np.max(np.abs(G - np.eye(nl))))
        worst["gram"] = max(worst["gram"], e)
        rec.check("ylm_orthonormal", e, TOL_YLM, mechanism="ylm:not-orthonormal",
                  detail={"n_ang": n, "degree": deg, "lmax_shell": lsh})
        rec.require("ylm_zero_above_shell_lmax", bool(np.all(Y[:, nl:] == 0.0)), mechanism="ylm:nonzero-above-shell-lmax",
                    detail={"n_ang": n, "lmax_shell": lsh})
        ref = sph.real_sph_vec(leb[:, :3], min(lsh, 15), reorder_p=False)   # pyscf's cart2sph stops at l = 15
        span = 0.0
        for l in range(lsh + 1):
            Yl = Y[:, l * l:(l + 1) ** 2]
            if l <= 15:
                R = np.asarray(ref[l]).T
                worst["conv"] = max(worst["conv"], float(np.max(np.abs(Yl - R))))
            else:
                R = _real_sph_scipy(leb[:, :3], l)     # any orthonormal basis of the degree-l harmonics decides the span
            Mx = (Yl.T * wq) @ R
            span = max(span, float(np.max(np.abs(Mx @ Mx.T - np.eye(2 * l + 1)))))
        rec.check("ylm_blocks_span_degree_l_harmonics", span, TOL_YLM, mechanism="ylm:not-degree-l-harmonics",
                  detail={"n_ang": n})
        d = ind.dirs[y0:y0 + n]
        ed = max(float(np.max(np.abs(d - leb[:, :3]))), float(np.max(np.abs(np.linalg.norm(d, axis=1) - 1.0))))
        worst["dirs"] = max(worst["dirs"], ed)
        rec.check("dirs_are_lebedev_points", ed, TOL_DIRS, mechanism="AtomicGridsIndexer:dirs-not-lebedev-points",
                  detail={"n_ang": n})
        info[n] = lsh
    rec.require("ylm_rows_all_used", bool(np.all(covered)), mechanism="AtomicGridsIndexer:tables-inconsistent[unused ylm rows]")
    rec.tag("shell_sizes", sorted(info))
    rec.tag("shell_lmax", sorted(set(info.values())))
    rec.tag("ylm_matches_pyscf_real_sph_convention", bool(worst["conv"] < 1e-12))
    return worst, info


def _check_roundtrip(rec, ind, L, st, rng, nalpha, info):
    """The C projections that consume the tables: definition of ylm->angc, and angc->ylm round trip."""
    nrad, nlm = ind.nrad, ind.nlm
    th = rng.normal(size=(nrad, nlm, nalpha))
    tg = np.full((ind.ngrids, nalpha), np.nan)
    ind.reduce_angc_ylm_(th, tg, a2y=False)
    ref = np.empty_like(tg)
    wts = np.empty(ind.ngrids)
    supp = np.zeros((nrad, nlm), dtype=bool)
    for y0, n in sorted(set(zip(ind.ylm_loc.tolist(), st.ns.tolist()))):
        sh = np.where((ind.ylm_loc == y0) & (st.ns == n))[0]
        Y = ind.ylm[y0:y0 + n]
        blk = np.einsum("wl,slq->swq", Y, th[sh])
        leb = _lebedev(n)
        rows = (ind.rad_loc[sh][:, None] + np.arange(n)[None, :])
        ref[rows.ravel()] = blk.reshape(-1, nalpha)
        wts[rows.ravel()] = np.tile(4 * np.pi * leb[:, 3], len(sh))
        supp[sh, :(info[n] + 1) ** 2] = True
    scale = max(1e-300, float(np.max(np.abs(ref))))
    e1 = _maxdiff(tg, ref) / scale
    rec.check("reduce_ylm_to_angc_vs_definition", e1, TOL_RT, mechanism="reduce_ylm_to_angc:differs-from-definition")
    back = np.full((nrad, nlm, nalpha), np.nan)
    tgw = np.ascontiguousarray(ref * wts[:, None])
    ind.reduce_angc_ylm_(back, tgw, a2y=True)
    want = th * supp[:, :, None]
    e2 = _maxdiff(back, want) / max(1e-300, float(np.max(np.abs(th))))
    rec.check("angc_to_ylm_roundtrip", e2, TOL_RT, mechanism="reduce_angc_ylm_:roundtrip-not-identity-on-supported-lm")
    # the same two projections with the channel block EMBEDDED in a wider grid-side array (offset / stride, as the interpolators
    # call them: one l = 1 block of width n1 at offset n0 + 3 n1 of an array of width n0 + 4 n1), incl. a single channel
    e3 = 0.0
    for na_e, stride, off in ((1, 3, 1), (1, 5, 4), (2, 5, 1), (nalpha, nalpha + 3, 2)):
        if na_e > nalpha:
            continue
        wide = rng.normal(size=(ind.ngrids, stride))
        wide[:, off:off + na_e] = tgw[:, :na_e]
        back_e = np.full((nrad, nlm, na_e), np.nan)
        ind.reduce_angc_ylm_(back_e, np.ascontiguousarray(wide), a2y=True, offset=off)
        ea = _maxdiff(back_e, want[:, :, :na_e]) / max(1e-300, float(np.max(np.abs(th))))
        rec.check("angc_to_ylm_embedded_block", ea, TOL_RT, mechanism="reduce_angc_ylm_[a2y,offset/stride]:differs-from-plain-call",
                  detail={"nalpha": na_e, "stride": stride, "offset": off})
        wide2 = np.ascontiguousarray(rng.normal(size=(ind.ngrids, stride)))
        keep = wide2.copy()
        ind.reduce_angc_ylm_(np.ascontiguousarray(th[:, :, :na_e]), wide2, a2y=False, offset=off)
        eb = _maxdiff(wide2[:, off:off + na_e], ref[:, :na_e]) / scale
        other = np.ones(stride, dtype=bool)
        other[off:off + na_e] = False
        rec.check("ylm_to_angc_embedded_block", eb, TOL_RT, mechanism="reduce_angc_ylm_[y2a,offset/stride]:differs-from-plain-call",
                  detail={"nalpha": na_e, "stride": stride, "offset": off})
        rec.require("embedded_block_leaves_other_columns", np.array_equal(wide2[:, other], keep[:, other]),
                    mechanism="reduce_angc_ylm_[y2a,offset/stride]:writes-other-columns")
        e3 = max(e3, ea, eb)
    return max(e1, e2, e3)


def _rho(mol, coords, zeta):
    R = mol.atom_coords()
    Z = mol.atom_charges()
    rho = np.zeros(len(coords))
    for a in range(mol.natm):
        rho += Z[a] * np.exp(-zeta[a] * np.linalg.norm(coords - R[a], axis=1))
    return rho


def _snapshot(g):
    ind = g.grids_indexer
    return {"coords": g.coords.copy(), "weights": g.weights.copy(), "idx": np.array(ind.idx_map, copy=True),
            "padding": int(ind.padding), "all_weights": ind.all_weights.copy(), "iatom": np.array(ind.iatom_list, copy=True)}


def _same(a, b):
    return all(np.array_equal(a[k], b[k]) for k in ("coords", "weights", "idx", "all_weights", "iatom")) and a["padding"] == b["padding"]


def run_case(case, rec):
    from pyscf.dft import gen_grid as gg
    cfg = case["cfg"]
    rng = rng_for(case["seed"], PROP_NO, case["idx"])
    mol = _mol(cfg, rng)
    L = int(cfg["lmax"])
    bk = {"sort_grids": bool(cfg["sort"]), "with_non0tab": bool(cfg["non0tab"])}
    elems = sorted(set(mol.atom_symbol(i) for i in range(mol.natm)))
    for k in ("mol", "level", "ag_form", "prune", "lmax", "alignment", "radi", "becke", "radii_adjust"):
        rec.tag(k, cfg[k])
    rec.tag("sort_grids", bk["sort_grids"])
    rec.tag("with_non0tab", bk["with_non0tab"])
    rec.tag("natm", mol.natm)
    rec.tag("elements", elems)
    rec.tag("charge_spin", "%d/%d" % (mol.charge, mol.spin))
    rec.tag("worker_variant", os.environ.get("VERIF_VARIANT", "plain"))
    if cfg["atom_grid"] is not None:
        ag = cfg["atom_grid"]
        rec.tag("atom_grid", [str(tuple(ag))] if isinstance(ag, list) else [str(tuple(v)) for v in ag.values()])
    sample = {"cfg": cfg, "atoms": [(mol.atom_symbol(i), mol.atom_coord(i).round(6).tolist()) for i in range(mol.natm)]}

    g, path = _build_cider(rec, mol, cfg, bk)
    rec.tag("lmax_path", path)
    sample["lmax_path"] = path
    if g is None:
        rec.set_sample(sample)
        return
    p = _build_ref(mol, cfg, bk)
    drop_default = False
    if cfg["ag_form"] == "dict-default":
        # does the CIDER generator honour pyscf's documented 'default' key?
        tc = _table(g.coords, g.weights)[0]
        tp = _table(p.coords, p.weights)[0]
        if tc.shape != tp.shape or not np.array_equal(tc, tp):
            g2, _ = _build_cider(rec, mol, cfg, bk, drop_default=True, report=False)
            same_wo = g2 is not None and np.array_equal(_table(g2.coords, g2.weights)[0], tc)
            if same_wo:
                rec.require("atom_grid_default_key_honoured", False, mechanism="CiderGrids:atom_grid-default-key-ignored",
                            detail={"atom_grid": cfg["atom_grid"], "cider_points": int(g.size), "pyscf_points": int(p.size),
                                    "cider_equals_cider_without_default_key": True})
                # keep deciding the remaining relations against the settings the CIDER generator effectively used
                drop_default = True
                p = _build_ref(mol, cfg, bk, drop_default=True)
                rec.tag("reference", "pyscf grid without the ignored 'default' key")
        else:
            rec.require("atom_grid_default_key_honoured", True)
    ind = g.grids_indexer
    rec.require("indexer_present", ind is not None and ind.all_weights is not None and ind.idx_map is not None,
                mechanism="CiderGrids:no-indexer-after-build")
    if ind is None or ind.idx_map is None:
        rec.set_sample(sample)
        return
    shells = _expected_shells(mol, cfg, drop_default=drop_default)
    st = _check_tables(rec, mol, ind, L, shells)
    if st is None:
        rec.set_sample(sample)
        return
    s0 = _check_state(rec, mol, g, p, st, cfg, "build", full=True)
    if not bk["sort_grids"]:
        rec.require("unsorted_map_is_identity", np.array_equal(np.asarray(ind.idx_map), np.arange(ind.all_weights.size)),
                    mechanism="CiderGrids:unsorted-map-not-identity")
    else:
        rec.tag("sorted_map_is_nontrivial_permutation", bool(np.any(np.asarray(ind.idx_map) != np.arange(ind.idx_map.size))))
    rec.check("sum_weights_equal_pyscf", abs(float(np.sum(ind.all_weights)) - float(np.sum(p.weights)))
              / max(1e-300, abs(float(np.sum(p.weights)))), 1e-12, mechanism="AtomicGridsIndexer:all_weights-sum")
    worst, info = _check_ylm(rec, ind, L, st)
    rt = _check_roundtrip(rec, ind, L, st, rng, int(cfg["nalpha"]), info)
    first = _snapshot(g)
    # ---- history: a grids object built (or not yet built) for ANOTHER geometry and then re-targeted with reset(mol) must
    # give exactly the grid of a fresh object (SCF.reset / as_scanner / geometry optimisers do this) - added after a seeded
    # early return in CiderGrids.reset that dropped the re-targeting when no indexer existed at that moment
    if cfg.get("reset_hist") and path == "advertised":
        from pyscf import gto

        from ciderpress.pyscf.gen_cider_grid import CiderGrids
        molB = gto.M(atom=[(mol.atom_symbol(i), tuple(mol.atom_coord(i) + 0.4 * (i + 1) * np.array([0.3, -0.5, 0.8])))
                           for i in range(mol.natm)], unit="Bohr", basis=mol.basis, ecp=mol.ecp, spin=mol.spin, charge=mol.charge,
                     verbose=0)
        pat = cfg["reset_hist"]
        g2 = _apply(CiderGrids(molB, lmax=L), cfg, None, drop_default)
        if pat == "build-reset-reset":
            g2.build(**bk)
            g2.reset(molB)
            g2.reset(mol)
        elif pat == "setting-then-reset":
            g2.build(**bk)
            g2.level = (int(cfg["level"]) + 1) % 3
            g2.level = cfg["level"]
            g2.reset(mol)
        else:  # reset before the first build
            g2.reset(mol)
        g2.build(**bk)
        rec.require("reset_retargets_molecule", g2.mol is mol and _same(first, _snapshot(g2)),
                    mechanism="CiderGrids.reset:molecule-not-retargeted[%s]" % pat)
        rec.tag("history", "reset(mol):" + pat)
    sample.update({"points": s0["n"], "size": s0["size"], "padding": s0["padding"], "nrad": int(ind.nrad),
                   "coords_reconstruction_err": s0["recon_err"], "ylm_gram_err": worst["gram"], "dirs_err": worst["dirs"],
                   "ylm_minus_pyscf_real_sph": worst["conv"], "c_roundtrip_err": rt, "shell_lmax": {str(k): v for k, v in info.items()}})
    rec.tag("padding_present", s0["padding"] > 0)

    # ---- density pruning: sequence of thresholds on the same objects
    zeta = rng.uniform(1.5, 4.0, size=mol.natm)
    dropped_total = 0
    stages = []
    for it, thr in enumerate(cfg["thresholds"]):
        pre = _snapshot(g)
        n_pre = pre["idx"].size
        rho = _rho(mol, g.coords, zeta)
        nel = float(np.dot(rho, g.weights))
        if n_pre == 0 or not nel > 0:
            break  # everything was pruned away by the previous threshold; no admissible density left
        rho *= mol.nelectron / nel
        tc, oc = _table(g.coords, g.weights)
        tp, op = _table(p.coords, p.weights)
        if tc.shape != tp.shape or not np.array_equal(tc, tp):
            break  # already reported; transporting rho to the reference needs equal tables
        rho_p = np.empty_like(rho)
        rho_p[op] = rho[oc]
        if it == 0 and cfg["offnorm"]:
            # electron count off by 50%: pyscf's rule rejects the density, nothing may change
            g.prune_by_density_(rho * 1.5, max(thr, 1e-7))
            rec.require("rejected_density_leaves_state", _same(pre, _snapshot(g)),
                        mechanism="CiderGrids.prune_by_density_:changes-state-on-rejected-density")
            rec.tag("density_prune_rejected_density", True)
        accepted = abs(float(np.dot(rho, g.weights)) - mol.nelectron) < gg.NELEC_ERROR_TOL * float(np.dot(rho, g.weights))
        g.prune_by_density_(rho.copy(), thr)
        p.prune_by_density_(rho_p.copy(), thr)
        stage = "prune"
        rec.tag("density_threshold", thr)
        ind = g.grids_indexer
        if thr == 0 or not accepted:
            rec.require("threshold_zero_leaves_state", _same(pre, _snapshot(g)),
                        mechanism="CiderGrids.prune_by_density_:changes-state-at-threshold-0")
            stages.append({"thr": thr, "kept": int(n_pre), "of": int(n_pre)})
            continue
        mask = np.abs(rho * pre["weights"]) > thr / pre["weights"].size
        kept = int(np.count_nonzero(mask))
        exp_idx = pre["idx"][mask[:n_pre]]
        okk = (g.coords.shape[0] >= kept and np.array_equal(g.coords[:kept], pre["coords"][mask])
               and np.array_equal(g.weights[:kept], pre["weights"][mask]) and np.array_equal(np.asarray(ind.idx_map), exp_idx))
        rec.require("kept_set_expected[prune]", okk, mechanism="CiderGrids.prune_by_density_:kept-set-differs",
                    detail={"threshold": thr, "expected_kept": kept, "idx_map_size": int(np.asarray(ind.idx_map).size),
                            "size": int(g.weights.size), "call_in_sequence": it + 1})
        rec.require("all_weights_untouched[prune]", np.array_equal(ind.all_weights, pre["all_weights"]),
                    mechanism="CiderGrids.prune_by_density_:modifies-all_weights")
        _check_state(rec, mol, g, p, st, cfg, stage, full=False)
        if g.non0tab is None:
            rec.require("non0tab_after_prune", False, mechanism="CiderGrids.prune_by_density_:no-screen-index")
        dropped_total += n_pre - kept
        stages.append({"thr": thr, "kept": kept, "of": int(n_pre)})
    sample["density_prune"] = stages
    rec.tag("density_prune_dropped_points", "yes" if dropped_total > 0 else "no")

    # ---- history: rebuild on the same object reproduces the first build; relevel gives a consistent new grid
    if cfg["rebuild"]:
        g.build(**({"full_lmax": L} if path != "advertised" else {}), **bk)
        rec.require("rebuild_reproduces_first_build", _same(first, _snapshot(g)), mechanism="CiderGrids.build:rebuild-differs")
        rec.tag("history", "prune+rebuild")
    if cfg["relevel"]:
        lev2 = (int(cfg["level"]) + 1) % 3
        g.level = lev2
        rec.require("reset_on_setting_change", g.grids_indexer is None and g.coords is None,
                    mechanism="CiderGrids.reset:stale-indexer-after-setting-change")
        g.build(**({"full_lmax": L} if path != "advertised" else {}), **bk)
        p2 = _build_ref(mol, cfg, bk, level=lev2, drop_default=drop_default)
        st2 = _check_tables(rec, mol, g.grids_indexer, L, _expected_shells(mol, cfg, level=lev2, drop_default=drop_default))
        if st2 is not None:
            _check_state(rec, mol, g, p2, st2, cfg, "relevel", full=True)
        rec.tag("history", "relevel")
    rec.set_sample(sample)
    if s0["n"] >= 100 and ind.nrad >= 2 and s0["recon_err"] is not None:
        rec.nontrivial()
