"""Loader redirection and ctypes boundary monitor.  Import this before any ciderpress module.

* The repository root is a parameter (VERIF_REPO, default /repo); it is put first on sys.path so
  that the working tree is what gets imported, and that is asserted.
* ciderpress.lib.load.load_library is replaced by a loader that takes the shared objects from
  <VERIF_BUILD>/<VERIF_VARIANT>/ (built by build/build_libs.sh from the working tree) and returns a
  thin proxy which counts calls per entry point and can scan / snapshot / size-check the numpy
  arrays passed across the boundary.
"""
import collections
import ctypes
import os
import sys
import threading

import numpy

VERIF_ROOT = os.path.dirname(os.path.dirname(os.path.abspath(__file__)))
REPO = os.path.abspath(os.environ.get("VERIF_REPO", "/repo"))
VARIANT = os.environ.get("VERIF_VARIANT", "plain")
BUILD = os.path.abspath(os.environ.get("VERIF_BUILD", os.path.join(VERIF_ROOT, ".build")))
_real = os.path.realpath(REPO)
if _real == "/repo":
    LIBDIR = os.path.join(BUILD, VARIANT)
else:
    import hashlib as _hl
    LIBDIR = os.path.join(BUILD, "alt_" + _hl.sha1(_real.encode()).hexdigest()[:10], VARIANT)

if REPO not in sys.path[:1]:
    sys.path.insert(0, REPO)

_lock = threading.Lock()
CALLS = collections.Counter()  # "lib.func" -> number of calls
BYTES = collections.Counter()  # "lib.func" -> bytes of numpy data passed
NONFINITE = []  # (entry point, arg index, count) in scan mode
STRICT_ERRORS = []  # strings, strict mode
SNAPSHOT_DIFFS = []  # (entry point, arg index) read-only arrays that changed
MODE = {"scan": False, "strict": False, "snapshot": None}
# snapshot: dict entry-point -> tuple of argument indices declared read-only


def _ival(a):
    return int(getattr(a, "value", a))


def _size(a):
    """Number of elements behind a pointer-like argument, or None when unknown."""
    arr = getattr(a, "_arr", None)
    if isinstance(arr, numpy.ndarray):
        return arr.size
    n = getattr(a, "_length_", None)  # ctypes arrays
    if n is not None:
        return int(n)
    return None


def _need(errs, name, what, have, need):
    if have is not None and have < need:
        errs.append("%s %s has %d elements, C reads/writes %d" % (name, what, have, need))


def _rule_coefs_gto(name, a):
    # (p, dp, exp_g, alphas, ngrids, nalpha, featid, extra_args)
    errs = []
    ng, na, fid = _ival(a[4]), _ival(a[5]), _ival(a[6])
    _need(errs, name, "p", _size(a[0]), ng * na)
    _need(errs, name, "dp", _size(a[1]), ng * na)
    _need(errs, name, "exp_g", _size(a[2]), ng)
    _need(errs, name, "alphas", _size(a[3]), na)
    if fid == 3:  # se_erf_rinv: the kernel reads extra_args[0]
        _need(errs, name, "extra_args", _size(a[7]), 1)
    return errs


def _rule_se_kernel(name, a):
    # (out, outd, xin, xctrl, actrl, exps, n, nctrl, nfeat)
    errs = []
    n, nc, nf = _ival(a[6]), _ival(a[7]), _ival(a[8])
    spin = 2 if name.endswith("_spin") else 1
    _need(errs, name, "out", _size(a[0]), n)
    _need(errs, name, "outd", _size(a[1]), spin * n * nf)
    _need(errs, name, "xin", _size(a[2]), spin * n * nf)
    _need(errs, name, "xctrl", _size(a[3]), spin * nc * nf)
    _need(errs, name, "actrl", _size(a[4]), nc)
    _need(errs, name, "exps", _size(a[5]), nf - (1 if name.endswith("_antisym") else 0))
    return errs


# entry point (without library prefix) -> rule; evaluated in strict mode only
SIZE_RULES = {
    "cider_coefs_gto_gq": _rule_coefs_gto, "cider_coefs_gto_qg": _rule_coefs_gto,
    "evaluate_se_kernel": _rule_se_kernel, "evaluate_se_kernel_antisym": _rule_se_kernel,
    "evaluate_se_kernel_spin": _rule_se_kernel,
}


def _arrays_of(args):
    out = []
    for i, a in enumerate(args):
        arr = getattr(a, "_arr", None)
        if isinstance(arr, numpy.ndarray):
            out.append((i, arr))
    return out


class FuncProxy:
    __slots__ = ("_f", "_name", "__weakref__")

    def __init__(self, f, name):
        object.__setattr__(self, "_f", f)
        object.__setattr__(self, "_name", name)

    @property
    def _as_parameter_(self):
        CALLS[self._name + "@fnptr"] += 1
        return self._f

    def __getattr__(self, k):
        return getattr(self._f, k)

    def __setattr__(self, k, v):
        setattr(self._f, k, v)

    def __call__(self, *args):
        name = self._name
        arrs = None
        if MODE["scan"] or MODE["strict"] or MODE["snapshot"]:
            arrs = _arrays_of(args)
        snap = None
        if MODE["strict"]:
            for i, a in arrs:
                if not (a.flags.c_contiguous or a.flags.f_contiguous):
                    STRICT_ERRORS.append("%s arg%d non-contiguous shape=%s strides=%s" % (name, i, a.shape, a.strides))
                if a.dtype not in (numpy.float64, numpy.int32, numpy.complex128, numpy.int64, numpy.uint8, numpy.int8, numpy.bool_):
                    STRICT_ERRORS.append("%s arg%d dtype=%s" % (name, i, a.dtype))
        if MODE["strict"]:
            rule = SIZE_RULES.get(name.split(".", 1)[-1])
            if rule is not None:
                try:
                    STRICT_ERRORS.extend(rule(name, args))
                except Exception as e:  # a rule must never break the call
                    STRICT_ERRORS.append("%s size-rule-error %s" % (name, e))
        if MODE["snapshot"] and name in MODE["snapshot"]:
            snap = [(i, a, a.tobytes()) for i, a in arrs if i in MODE["snapshot"][name]]
        with _lock:
            CALLS[name] += 1
            if arrs:
                BYTES[name] += sum(a.nbytes for _, a in arrs)
        res = self._f(*args)
        if MODE["scan"]:
            for i, a in arrs:
                if a.dtype.kind in "fc" and a.size:
                    bad = int(a.size - numpy.count_nonzero(numpy.isfinite(a)))
                    if bad:
                        NONFINITE.append((name, i, bad))
        if snap:
            for i, a, b in snap:
                if a.tobytes() != b:
                    SNAPSHOT_DIFFS.append((name, i))
        return res


class LibProxy:
    def __init__(self, lib, libname):
        self.__dict__["_lib"] = lib
        self.__dict__["_libname"] = libname
        self.__dict__["_cache"] = {}

    def __getattr__(self, k):
        if k.startswith("__") and k.endswith("__"):
            raise AttributeError(k)
        c = self.__dict__["_cache"]
        if k not in c:
            f = getattr(self.__dict__["_lib"], k)
            c[k] = FuncProxy(f, self.__dict__["_libname"] + "." + k)
        return c[k]

    def __getitem__(self, k):
        return self.__getattr__(k)

    @property
    def _handle(self):
        return self.__dict__["_lib"]._handle

    @property
    def _name(self):
        return self.__dict__["_lib"]._name


_LIBS = {}


def load_library(libname):
    if libname not in _LIBS:
        raw = numpy.ctypeslib.load_library(libname, LIBDIR)
        if os.environ.get("VERIF_NO_PROXY"):
            _LIBS[libname] = raw
        else:
            _LIBS[libname] = LibProxy(raw, libname)
    return _LIBS[libname]


def raw_library(libname):
    lib = load_library(libname)
    return lib.__dict__["_lib"] if isinstance(lib, LibProxy) else lib


def install():
    import ciderpress
    import ciderpress.lib.load as _ld

    here = os.path.realpath(os.path.dirname(os.path.dirname(ciderpress.__file__)))
    if here != os.path.realpath(REPO):
        raise RuntimeError("ciderpress imported from %s, expected %s" % (here, REPO))
    _ld.load_library = load_library
    import ciderpress.lib as _l

    _l.load_library = load_library


install()


def counters(prefix=None):
    with _lock:
        d = dict(CALLS)
    if prefix:
        d = {k: v for k, v in d.items() if k.startswith(prefix)}
    return d


def reset_counters():
    with _lock:
        CALLS.clear()
        BYTES.clear()
    del NONFINITE[:]
    del STRICT_ERRORS[:]
    del SNAPSHOT_DIFFS[:]


def shim_counters():
    """OpenMP annotation shim counters (tsan variant only)."""
    out = {}
    for libname in ("libmcider", "libnumint", "libfft_wrapper", "libxc_utils"):
        try:
            raw = raw_library(libname)
            f = raw.verif_gomp_shim_counter
        except (OSError, AttributeError):
            continue
        f.restype = ctypes.c_long
        out[libname] = [int(f(ctypes.c_int(i))) for i in range(5)]
    return out
