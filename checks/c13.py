"""C13 - uniform-electron-gas reference values match the computed features.

What the settings objects *report* for a uniform density rho (``ueg_vector``, ``ueg_const``, ``get_ueg``,
``get_vmap_heg_value``) is compared with what the feature definitions *give* for that density
(DESIGN.md section 5, C13):

 sl        SemilocalSettings.ueg_vector(rho) vs the real SemilocalPlan.get_feat on (rho, grad = 0, tau = C_F rho^5/3),
           four modes x both nspin conventions.
 nldf      closed-form NLDFSettingsVI/VJ/VIJ/VK.ueg_vector vs independent 1-D radial quadrature (scipy.integrate.quad)
           of the documented kernels for a constant density, 4 pi rho b int r^2 k(a_i, a_0, r) dr, every spec x
           rho_mult x GGA/MGGA x random parameters; exponents from the repository's own exponent routines at the UEG,
           which are themselves compared with the documented formula a = pi (rho/2)^(2/3) A.
 sdmx      SDMX constants (SDMXSettings / SDMXGSettings / SDMXFullSettings / SADMSettings) vs nested 1-D quadrature of
           the UEG density matrix n1(u) = 3 rho j1(kF u)/(kF u) through the documented h(u; R), rho0(R),
           -1/4 * 4 pi int dR R^(2-j) |rho0|^2, evaluated twice (real space, and in momentum space where n1 is the
           Fourier transform of the Fermi sphere); assembly of ueg_vector for all six SDMX settings classes.
 norm      get_ueg(rho) of every normaliser class vs the normaliser actually applied to UEG inputs through
           FeatNormalizerList.get_normalized_feature_vector; FeatNormalizerList.ueg_vector and
           FeatureSettings.ueg_vector(with_normalizers=True) vs the product and vs the applied normalisation.
 fl        FracLaplSettings.ueg_vector / _get_fl_ueg vs quadrature of (1/pi^2) int_0^kF k^(2+2s) dk.
 vmap      get_vmap_heg_value vs the map value.
 model     one synthetic MappedXC per family with maps centred on the reported (normalised) UEG values: transformed
           features vanish and the model returns its baseline (LDA exchange) at the UEG.
 power law ueg_vector(lambda^3 rho) = lambda^usp ueg_vector(rho) with usp from get_feat_usps().
"""
import inspect
import math
import warnings

import numpy as np

from vlib.oracles import rng_for

PROPERTY = "C13"
PROP_NO = 13
RULE = ("cases = (settings class x spec set x rho_mult x GGA/MGGA x random parameter draw) for NLDF, one case per SDMX "
        "constant (class, j, 0/0d family, ratio), normaliser class x semilocal mode, one FeatureSettings + synthetic "
        "model per feature family, FracLapl parameter draws; every sub-case is evaluated at ~20 densities log-uniform "
        "in [1e-3, 1e2]; a sub-case is non-trivial when the reference value is non-zero and the oracle's own "
        "self-consistency (two quadrature resolutions / two representations) is below tol/10; distinct = distinct "
        "(class, spec/constant, parameter draw)")
MIN_NONTRIVIAL = {"quick": 250, "thorough": 2000}
ASSUMPTIONS = [
    "UEG inputs: grad rho = 0, tau = (3/10)(3 pi^2)^(2/3) rho^(5/3), spin-unpolarised (nspin = 1 convention; for nspin = 2 "
    "each channel carries rho/2 and tau/2); the UEG density matrix is n1(u) = 3 rho j1(kF u)/(kF u), kF = (3 pi^2 rho)^(1/3)",
    "NLDF kernels are read from docs/features/nldf.rst; for the version-j specs the page does not spell out (se_ar2, "
    "se_a2r4, se_erf_rinv) they are read from the settings.py docstrings with 'a' = the exponent at the OUTPUT point "
    "a_i(r) multiplying exp(-(a_i(r)+a_0(r'))|r-r'|^2) (DESIGN C02 reading); rho_mult='expnt' multiplies n(r') by a_0(r')",
    "se_erf_rinv: the docstring ('squared-exponential * 1/r with short-range erf damping') fixes neither the length that "
    "makes 1/r dimensionless nor the prefactor; convention pinned ONCE (spec se_erf_rinv, MGGA, rho_mult=one, rho = 1, "
    "a0 = 1, tau_mul = 0.03125, erf_mul = 2; closed form / quadrature = 1 - 2e-16 on the pinned tree): "
    "k = exp(-(a_i+a_0) r^2) * sqrt(pi) erf(sqrt(c) r) / (2 sqrt(c) r), c = erf_mul * a_i, i.e. k -> 1 for r -> 0; all other "
    "densities / parameters / levels are decided with it",
    "SDMX: docs/features/sdmx.rst formulas times the global factor -1/4 (nspin = 1) that the page does not state "
    "(plans.py get_features); SDMXFullSettings ratio features are not documented at all: read from SDMXFullPlan as "
    "-1/4 * 4 pi int dR R^(2-j) [rho0(R)^2 + rho0(R/sqrt(r)) rho0(R sqrt(r))]/2 (and the same with d/dR, R^(4-j)); this "
    "reading reproduces all twelve j = 0, 1 table constants to <= 1e-12",
    "fractional Laplacian: (-Laplace')^s acts on n1 in Fourier space (multiplier k^(2s)); F^dd_s = sum_i d_i d'_i "
    "(-Laplace')^s n1 (reading of ciderpress/pyscf/frac_lapl.py); _get_fl_ueg is only exercised for -1.45 <= s <= 1 (the "
    "range the repository uses is [-1, 0.5])",
    "tolerances: 1e-10 (NLDF closed form vs scipy quad; measured floor 1.3e-15), 1e-9 (SDMX / FracLapl constants; floor "
    "1.5e-13 = last digits of the hard-coded j = 1 constant), 1e-12 (algebraic identities: power law, products, semilocal, "
    "normalisers, model baseline; floor 4e-16)",
    "not covered: the fast NLDF/SDMX pipelines on a plateau density (truncation-limited, belongs with C02), "
    "SADMSettings('exact') and HybridSettings (deprecated / not implemented), nspin = 2 for nonlocal features",
]
TOL_NLDF = 1e-10
TOL_QUAD = 1e-9
TOL_EXACT = 1e-12

CF = 0.3 * (3 * math.pi ** 2) ** (2.0 / 3)  # tau_0 / n^(5/3), docs/features/sl.rst
LDA_X = -0.75 * (3.0 / math.pi) ** (1.0 / 3)  # exchange energy density of the UEG / n^(4/3)
NH = (2 / math.pi) ** 1.5 * 4 / (4 - math.sqrt(2))  # prefactor of h(u; R), docs/features/sdmx.rst
J_SPECS = ["se", "se_ar2", "se_a2r4", "se_erf_rinv"]
I0_SPECS = ["se", "se_r2", "se_apr2", "se_ap", "se_ap2r2", "se_lapl"]
I1_SPECS = ["se_grad", "se_rvec"]
ALL_DOTS = [(-1, 0), (-1, 1), (0, 0), (0, 1), (1, 1)]
MODECLASS = {"npa": "npa|nst", "nst": "npa|nst", "np": "np|ns", "ns": "np|ns"}
FAMILIES = ["sl-nst", "sl-npa", "sl-ns", "sl-np", "vj-mgga", "vj-gga", "vi-mgga", "vi-gga", "vij-mgga", "vij-gga",
            "vk-mgga", "vk-gga", "sdmx", "sdmxg", "sdmx1", "sdmxg1", "vj+sdmx", "vj-nst", "vj-expnt", "vi-all-mgga",
            "vi-all-gga", "vk-expnt", "sdmxfull", "nlof-npa", "nlof-np",
            # several non-semilocal blocks in one FeatureSettings (block order sl, nldf, nlof, sdmx, hyb): added after a seeded
            # change of the order in which FeatureSettings.ueg_vector concatenates its blocks went unnoticed
            "all-npa", "nlof+sdmx-nst", "nldf+nlof-np", "nlof+sdmxfull-npa"]


# ---------------------------------------------------------------------------------------------
# small helpers

def _densities(rng, n):
    return np.exp(rng.uniform(np.log(1e-3), np.log(1e2), size=n))


def _cmp(a, b):
    """max_i |a_i - b_i| / max(|a_i|, |b_i|) (0/0 = 0): component-wise relative error."""
    a = np.atleast_1d(np.asarray(a, dtype=float))
    b = np.atleast_1d(np.asarray(b, dtype=float))
    if a.shape != b.shape:
        return float("nan")
    den = np.maximum(np.abs(a), np.abs(b))
    d = np.abs(a - b)
    if not np.all(np.isfinite(d)):
        return float("nan")
    return float(np.max(np.where(den > 0, d / np.where(den > 0, den, 1.0), 0.0))) if a.size else 0.0


def _quad(f, a, b, epsabs=0.0, epsrel=1e-13, limit=200):
    from scipy.integrate import quad
    with warnings.catch_warnings():
        warnings.simplefilter("ignore")
        return quad(f, a, b, epsabs=epsabs, epsrel=epsrel, limit=limit)


def _radial(kern, width):
    """4 pi int_0^inf r^2 kern(r) dr for a kernel that decays like exp(-width r^2) (scaled variable t = sqrt(width) r)."""
    s = math.sqrt(width)

    def f(t):
        r = t / s
        return t * t * kern(r)
    v1, e1 = _quad(f, 0.0, 3.0)
    v2, e2 = _quad(f, 3.0, 13.0, epsabs=1e-16 * abs(v1))
    return 4 * math.pi * (v1 + v2) / s ** 3


def _erf_rinv(x):
    # sqrt(pi) erf(x) / (2 x), -> 1 for x -> 0
    if x < 1e-4:
        return 1.0 - x * x / 3.0
    return 0.5 * math.sqrt(math.pi) * math.erf(x) / x


def _kernel_j(spec, ai, a0, erf_mul=None):
    e = ai + a0
    if spec == "se":
        return lambda r: math.exp(-e * r * r)
    if spec == "se_ar2":
        return lambda r: ai * r * r * math.exp(-e * r * r)
    if spec == "se_a2r4":
        return lambda r: ai * ai * r ** 4 * math.exp(-e * r * r)
    if spec == "se_erf_rinv":
        c = math.sqrt(erf_mul * ai)
        return lambda r: math.exp(-e * r * r) * _erf_rinv(c * r)
    raise ValueError(spec)


def _kernel_i(spec, a):
    g = lambda r: math.exp(-a * r * r)  # noqa: E731
    if spec == "se":
        return g
    if spec == "se_r2":
        return lambda r: r * r * g(r)
    if spec == "se_apr2":
        return lambda r: a * r * r * g(r)
    if spec == "se_ap":
        return lambda r: a * g(r)
    if spec == "se_ap2r2":
        return lambda r: a * a * r * r * g(r)
    if spec == "se_lapl":
        return lambda r: (4 * a * a * r * r - 2 * a) * g(r)
    raise ValueError(spec)


def _kernel_i1_radial(spec, a):
    # radial part of the vector kernels (r' - r) k(a, |r' - r|): |r' - r| k
    if spec == "se_grad":
        return lambda r: r * a * math.exp(-a * r * r)
    if spec == "se_rvec":
        return lambda r: r * math.exp(-a * r * r)
    raise ValueError(spec)


def _rand_params(rng, level, erf=False):
    a0 = float(np.exp(rng.uniform(np.log(0.4), np.log(5.0))))
    gm = float(rng.uniform(0.0, 0.1)) if rng.random() < 0.7 else 0.0
    p = [a0, gm]
    if level == "MGGA":
        tm = float(rng.uniform(0.0, 0.05)) if rng.random() < 0.85 else 0.0
        p.append(min(tm, 0.1 * a0))  # keeps a0 - tau_fac > 0 (tau_fac = 5.80 tau_mul)
    if erf:
        p.append(float(np.exp(rng.uniform(np.log(0.2), np.log(6.0)))))
    return p


def _ueg_exponent(st, level, params, rho):
    """The repository's own exponent at UEG inputs (sigma = 0, tau = tau_UEG), nspin = 1."""
    if level == "MGGA":
        return st.get_cider_exponent(float(rho), 0.0, CF * rho ** (5.0 / 3), a0=params[0], grad_mul=params[1],
                                     tau_mul=params[2], nspin=1)[0]
    return st.get_cider_exponent_gga(float(rho), 0.0, a0=params[0], grad_mul=params[1], nspin=1)[0]


def _power_law(rec, name, mech, settings, rhos, vec_fn=None, usps=None):
    """ueg_vector(lambda^3 rho) = lambda^usp ueg_vector(rho)."""
    vec_fn = vec_fn or (lambda r: np.asarray(settings.ueg_vector(float(r)), dtype=float))
    usps = np.asarray(settings.get_feat_usps() if usps is None else usps, dtype=float)
    v0 = vec_fn(rhos[0])
    ok = rec.require(name + ":shape", v0.shape == usps.shape, mechanism=mech + ":len(usps)",
                     detail={"nfeat": int(v0.size), "nusp": int(usps.size)})
    if not ok:
        return
    worst = 0.0
    for r in rhos[1:]:
        worst = max(worst, _cmp(vec_fn(r), v0 * (r / rhos[0]) ** (usps / 3.0)))
    rec.check(name, worst, TOL_EXACT, mechanism=mech + ":usp-power-law", detail={"usps": usps.tolist()})


# ---------------------------------------------------------------------------------------------
# SDMX reference: nested quadrature of the documented integrals for the UEG density matrix

_GL = {}


def _gl(n, a, b):
    key = (n, a, b)
    if key not in _GL:
        x, w = np.polynomial.legendre.leggauss(n)
        _GL[key] = (0.5 * (b - a) * x + 0.5 * (b + a), 0.5 * (b - a) * w)
    return _GL[key]


def _j1_over_x(x):
    out = np.empty_like(x)
    sm = x < 0.3
    x2 = x[sm] ** 2
    out[sm] = (1.0 / 3 - x2 / 30 + x2 ** 2 / 840 - x2 ** 3 / 45360 + x2 ** 4 / 3991680 - x2 ** 5 / 518918400)
    xl = x[~sm]
    out[~sm] = (np.sin(xl) - xl * np.cos(xl)) / xl ** 3
    return out


def _rho0_real(R, rho, kf, deriv, n):
    """rho0(R) = int d^3u h(u; R) n1(u) (or its R-derivative), u = R x, Gauss-Legendre in x on [0, 6.5]."""
    x, w = _gl(n, 0.0, 6.5)
    e1 = np.exp(-2 * x * x)
    e2 = e1 * e1
    n1 = 3 * rho * _j1_over_x(kf * R * x)
    if not deriv:
        return float(np.dot(w, 4 * math.pi * x * x * NH * (e1 - e2) * n1))
    # d/dR [R^-3 (E1 - E2)] at fixed u, E1 = exp(-2u^2/R^2), E2 = exp(-4u^2/R^2); d^3u = 4 pi R^3 x^2 dx
    return float(np.dot(w, 4 * math.pi * x * x * NH / R * (-3 * (e1 - e2) + 4 * x * x * e1 - 8 * x * x * e2) * n1))


def _rho0_mom(R, rho, kf, deriv, n):
    """Same quantity from n1(u) = 2 int_{k<kF} d^3k/(2 pi)^3 exp(i k u): rho0 = (1/pi^2) int_0^kF k^2 h^(k; R) dk."""
    t, w = _gl(n, 0.0, 1.0)
    c1 = NH * (math.pi / 2) ** 1.5
    c2 = NH * (math.pi / 4) ** 1.5
    q2 = (kf * t * R) ** 2
    if not deriv:
        f = c1 * np.exp(-q2 / 8) - c2 * np.exp(-q2 / 16)
    else:
        k2 = (kf * t) ** 2
        f = -c1 * np.exp(-q2 / 8) * k2 * R / 4 + c2 * np.exp(-q2 / 16) * k2 * R / 8
    return float(kf ** 3 / math.pi ** 2 * np.dot(w, t * t * f))


def _sdmx_feature(j, rho, rep, deriv=False, ratio=1.0, n=None):
    """-1/4 * 4 pi int dR R^(2-j) rho0(R/sqrt(r)) rho0(R sqrt(r))   (R^(4-j) and d/dR of both factors if deriv)."""
    kf = (3 * math.pi ** 2 * rho) ** (1.0 / 3)
    sr = math.sqrt(ratio)
    inner = _rho0_real if rep == "real" else _rho0_mom
    n = n or (600 if rep == "real" else 240)
    pw = (4 if deriv else 2) - j

    def g(s):
        if s <= 0:
            return 0.0
        R = s / kf
        if ratio == 1.0:
            a = inner(R, rho, kf, deriv, n)
            p = a * a
        else:
            a = inner(R / sr, rho, kf, deriv, n)
            b = inner(R * sr, rho, kf, deriv, n)
            p = a * b  # the chain-rule factors 1/sqrt(r) and sqrt(r) of the two R-derivatives cancel
        return R ** pw * p / kf
    tot = 0.0
    for lo, hi in ((0.0, 4.0), (4.0, 12.0), (12.0, 30.0), (30.0, 70.0)):
        v, _ = _quad(g, lo, hi, epsabs=1e-17 * abs(tot), epsrel=1e-12)
        tot += v
    return -0.25 * 4 * math.pi * tot


def _sdmx_reference(j, rho, deriv, ratio):
    """Reference value and the oracle's own self-error (two representations x two resolutions)."""
    vm = _sdmx_feature(j, rho, "mom", deriv, ratio)
    vm2 = _sdmx_feature(j, rho, "mom", deriv, ratio, n=360)
    vr = _sdmx_feature(j, rho, "real", deriv, ratio)
    vr2 = _sdmx_feature(j, rho, "real", deriv, ratio, n=900)
    selferr = max(abs(vm2 / vm - 1), abs(vr2 / vr - 1), abs(vr / vm - 1))
    return vr, vm, selferr


# ---------------------------------------------------------------------------------------------
# case generation

def gen_cases(tier, seed):
    q = tier == "quick"
    cases = []
    idx = [0]

    def add(cid, kind, weight=1.0, **kw):
        idx[0] += 1
        c = {"id": cid, "kind": kind, "seed": seed, "idx": idx[0], "ndens": 20, "_threads": 1, "_weight": weight,
             "_timeout": 1800}
        c.update(kw)
        cases.append(c)
    add("sl", "sl", ndraw=1 if q else 10)
    nb = 1 if q else 10
    for ver in ("i", "j", "ij", "k"):
        for level in ("GGA", "MGGA"):
            for mult in ("one", "expnt"):
                for b in range(nb):
                    add("nldf-v%s-%s-%s-b%d" % (ver, level, mult, b), "nldf", weight=3.0, version=ver, level=level,
                        rho_mult=mult, ndraw=6)
    add("nldf-pin-erf", "nldf_pin")
    nd = 20 if q else 60
    for j in (0, 1, 2):
        for fam in ("0", "0d"):
            for ratio in (1.0, 1.5, 2.0):
                add("sdmx-%s-j%d-r%.1f" % (fam, j, ratio), "sdmx", weight=8.0, j=j, fam=fam, ratio=ratio, ndens=nd,
                    nref=3 if q else 15)
    for b in range(1 if q else 4):
        add("sdmx-assembly-b%d" % b, "sdmx_assembly", ndraw=12 if q else 30)
    for cls in ("SDMXSettings", "SDMXGSettings", "SDMX1Settings", "SDMXG1Settings", "SDMXFullSettings"):
        add("sdmx-plan-%s" % cls, "sdmx_plan", cls=cls, ndens=4 if q else 20)
    for cls in ("ConstantNormalizer", "DensityNormalizer", "InhomogeneityNormalizer", "GeneralNormalizer",
                "from_exponent_params"):
        for mc in ("npa", "nst", "np", "ns"):
            add("norm-%s-%s" % (cls, mc), "norm", cls=cls, mode=mc, ndraw=8 if q else 80)
    for mc in ("npa", "nst", "np", "ns"):
        for mix in ("safe", "all"):
            add("normlist-%s-%s" % (mc, mix), "normlist", mode=mc, mix=mix, ndraw=6 if q else 60)
    for rep in range(1 if q else 6):
        for fam in FAMILIES:
            add("fs-%s-r%d" % (fam, rep), "fs", weight=2.0, family=fam)
    for b in range(1 if q else 4):
        add("fl-l0-b%d" % b, "fl", ndd=False, ndraw=8 if q else 40)
        add("fl-ndd-b%d" % b, "fl", ndd=True, ndraw=4 if q else 20)
    add("fl-ueg-fn", "fl_fn", ndraw=40 if q else 400)
    add("vmap", "vmap", ndraw=200 if q else 2000)
    return cases


def run_case(case, rec):
    rng = rng_for(case["seed"], PROP_NO, case["idx"])
    rec.tag("kind", case["kind"])
    {"sl": _run_sl, "nldf": _run_nldf, "nldf_pin": _run_nldf_pin, "sdmx": _run_sdmx, "sdmx_assembly": _run_sdmx_assembly,
     "sdmx_plan": _run_sdmx_plan, "norm": _run_norm, "normlist": _run_normlist, "fs": _run_fs, "fl": _run_fl, "fl_fn": _run_fl_fn,
     "vmap": _run_vmap}[case["kind"]](case, rec, rng)


# ---------------------------------------------------------------------------------------------
# semilocal

def _run_sl(case, rec, rng):
    from ciderpress.dft import plans
    from ciderpress.dft import settings as st
    worst_all = 0.0
    for d in range(case["ndraw"]):
        rhos = _densities(rng, case["ndens"])
        # low uniform densities as well (down to 10 x the package's 1e-10 floor): the uniform-gas semilocal features carry no
        # regulariser on the unchanged tree (alpha = tau / tau_unif = 1 exactly, s^2 = 0) - added after a seeded
        # "+ 1e-16" division guard in get_alpha that only matters below rho = 3e-5
        rhos = np.concatenate([rhos, np.exp(rng.uniform(np.log(1e-9), np.log(1e-3), size=max(4, case["ndens"] // 3)))])
        n = rhos.size
        for mode in ("nst", "npa", "ns", "np"):
            s = st.SemilocalSettings(mode)
            rec.tag("slmode", mode)
            ref = np.array([s.ueg_vector(float(r)) for r in rhos]).T  # (nfeat, n)
            for nspin in (1, 2):
                rec.tag("nspin", nspin)
                plan = plans.SemilocalPlan(s, nspin)
                rd = np.zeros((nspin, 5, n))
                rd[:, 0] = rhos / nspin
                rd[:, 4] = CF * rhos ** (5.0 / 3) / nspin
                feat = plan.get_feat(rd)
                err = max(_cmp(feat[sp], ref) for sp in range(nspin))
                worst_all = max(worst_all, err)
                rec.check("sl_plan_vs_ueg_vector[%s]" % mode, err, TOL_EXACT,
                          mechanism="SemilocalSettings.ueg_vector[%s]" % mode, detail={"nspin": nspin})
                rec.nontrivial("%s|%d|%d" % (mode, nspin, d))
            _power_law(rec, "sl_power_law[%s]" % mode, "SemilocalSettings.ueg_vector[%s]" % mode, s, rhos)
            rec.require("sl_nfeat[%s]" % mode, ref.shape[0] == s.nfeat, mechanism="SemilocalSettings.ueg_vector[%s]:nfeat" % mode)
    rec.set_sample({"kind": "sl", "rho": float(rhos[0]), "npa_ueg": st.SemilocalSettings("npa").ueg_vector(float(rhos[0])).tolist(),
                    "worst_rel_err": worst_all})


# ---------------------------------------------------------------------------------------------
# NLDF

def _make_nldf(st, rng, version, level, mult):
    theta = _rand_params(rng, level)
    info = {"theta": theta}
    if version in ("j", "ij"):
        js = [str(s) for s in rng.permutation(J_SPECS)]
        jp = [_rand_params(rng, level, erf=(s == "se_erf_rinv")) for s in js]
        info.update(j_specs=js, j_params=jp)
    if version in ("i", "ij"):
        l0 = [str(s) for s in rng.permutation(I0_SPECS)]
        l1 = [str(s) for s in rng.permutation(I1_SPECS)]
        nd = int(rng.integers(1, len(ALL_DOTS) + 1))
        dots = [ALL_DOTS[i] for i in sorted(rng.choice(len(ALL_DOTS), size=nd, replace=False))]
        info.update(l0=l0, l1=l1, dots=dots)
    if version == "j":
        s = st.NLDFSettingsVJ(level, theta, mult, js, jp)
    elif version == "i":
        s = st.NLDFSettingsVI(level, theta, mult, l0, l1, dots)
    elif version == "ij":
        s = st.NLDFSettingsVIJ(level, theta, mult, l0, l1, dots, js, jp)
    else:
        kp = [_rand_params(rng, level) for _ in range(3)]
        info.update(k_params=kp)
        s = st.NLDFSettingsVK(level, theta, mult, kp, "exponential")
    return s, info


def _nldf_reference(st, s, info, version, level, mult, rho):
    """List of (label, reference value) in feature order, from radial quadrature of the documented kernels."""
    a0 = _ueg_exponent(st, level, info["theta"], rho)
    b = a0 if mult == "expnt" else 1.0
    out = []
    if version in ("j", "ij"):
        for spec, p in zip(info["j_specs"], info["j_params"]):
            ai = _ueg_exponent(st, level, p, rho)
            k = _kernel_j(spec, ai, a0, erf_mul=p[-1] if spec == "se_erf_rinv" else None)
            out.append((spec, rho * b * _radial(k, ai + a0)))
    if version == "k":
        for p in info["k_params"]:
            ai = _ueg_exponent(st, level, p, rho)
            damp = math.exp(-1.5 * a0 / ai)
            out.append(("se", rho * b * damp * _radial(lambda r: math.exp(-ai * r * r), ai)))
    if version in ("i", "ij"):
        for spec in info["l0"]:
            out.append((spec, rho * b * _radial(_kernel_i(spec, a0), a0)))
        # vector features: int (r'-r) k(|r'-r|) n d^3r' = n * [int r^3 k dr] * [int rhat dOmega]; the angular factor
        # (z component: 2 pi int_{-1}^{1} mu dmu) vanishes, and grad n = 0, so every dot product is zero
        ang = 2 * math.pi * _quad(lambda mu: mu, -1.0, 1.0, epsabs=1e-14)[0]
        vec = {-1: 0.0}
        for i1, spec in enumerate(info["l1"]):
            s3 = a0 ** 1.5
            rad = _quad(lambda t: t * t * _kernel_i1_radial(spec, a0)(t / math.sqrt(a0)), 0.0, 13.0)[0] / s3
            vec[i1] = rho * b * rad * ang
        for (jj, kk) in info["dots"]:
            out.append(("l1_dots", vec[jj] * vec[kk]))
    return out, a0


def _run_nldf(case, rec, rng):
    from ciderpress.dft import settings as st
    version, level, mult = case["version"], case["level"], case["rho_mult"]
    clsname = {"i": "NLDFSettingsVI", "j": "NLDFSettingsVJ", "ij": "NLDFSettingsVIJ", "k": "NLDFSettingsVK"}[version]
    rec.tag("class", clsname)
    rec.tag("level", level)
    rec.tag("rho_mult", mult)
    worst = {}
    sample = None
    for d in range(case["ndraw"]):
        s, info = _make_nldf(st, rng, version, level, mult)
        rec.tag("spec", s.feat_spec_list)
        rhos = _densities(rng, case["ndens"])
        try:
            s.ueg_vector(1.0)
        except IndexError as e:
            if level == "GGA" and mult == "expnt":
                rec.require("ueg_vector_evaluates", False, mechanism="NLDFSettings._ueg_rho_mult[GGA,expnt]",
                            detail={"class": clsname, "theta_params": info["theta"], "error": "IndexError: %s" % e})
            else:
                rec.require("ueg_vector_evaluates", False, mechanism="%s.ueg_vector:raises[%s,%s]" % (clsname, level, mult),
                            detail={"info": info, "error": repr(e)})
            continue
        rec.require("ueg_vector_evaluates", True)
        ok_nt = True
        for rho in rhos:
            rho = float(rho)
            rep = np.asarray(s.ueg_vector(rho), dtype=float)
            ref, a0 = _nldf_reference(st, s, info, version, level, mult, rho)
            if not rec.require("nldf_nfeat", rep.size == len(ref) == s.nfeat, mechanism="%s.ueg_vector:nfeat" % clsname):
                ok_nt = False
                break
            # the exponent routines at the UEG vs the documented formula a = pi (n/2)^(2/3) A
            adoc = math.pi * (rho / 2) ** (2.0 / 3) * info["theta"][0]
            fn = "get_cider_exponent" if level == "MGGA" else "get_cider_exponent_gga"
            rec.check("exponent_at_ueg[%s]" % level, abs(a0 / adoc - 1), 1e-13, mechanism="%s[UEG]" % fn)
            tm = info["theta"][2] if level == "MGGA" else info["theta"][1]
            rec.check("_get_ueg_expnt", abs(st._get_ueg_expnt(info["theta"][0], tm, rho) / adoc - 1), 1e-13,
                      mechanism="_get_ueg_expnt")
            for (label, r), v in zip(ref, rep):
                if label == "l1_dots":
                    scale = rho * (math.pi / a0) ** 1.5
                    err = abs(v - r) / scale
                    rec.check("nldf_l1_dots_zero", err, 1e-14, mechanism="%s.ueg_vector[l1_dots]" % clsname)
                    continue
                err = abs(v / r - 1) if r != 0 else float("nan")
                worst[label] = max(worst.get(label, 0.0), err)
                rec.check("nldf_quad[v%s:%s]" % (version, label), err, TOL_NLDF,
                          mechanism="%s.ueg_vector[%s]" % (clsname, label),
                          detail={"rho": rho, "level": level, "rho_mult": mult, "reported": float(v), "quadrature": float(r),
                                  "info": info})
            if sample is None:
                sample = {"class": clsname, "level": level, "rho_mult": mult, "rho": rho, "info": info,
                          "labels": [l for l, _ in ref], "reported": rep.tolist(), "quadrature": [float(r) for _, r in ref]}
        _power_law(rec, "nldf_power_law[v%s]" % version, "%s.ueg_vector" % clsname, s, rhos[:6])
        if ok_nt:
            rec.nontrivial("%s|%s|%s|%d" % (version, level, mult, d))
    if sample:
        sample["worst_rel_err_per_spec"] = worst
        rec.set_sample(sample)


def _run_nldf_pin(case, rec, rng):
    """Records the one configuration at which the se_erf_rinv convention was pinned (see ASSUMPTIONS)."""
    from ciderpress.dft import settings as st
    theta = [1.0, 0.0, 0.03125]
    p = [1.0, 0.0, 0.03125, 2.0]
    s = st.NLDFSettingsVJ("MGGA", theta, "one", ["se_erf_rinv"], [p])
    rho = 1.0
    a0 = _ueg_exponent(st, "MGGA", theta, rho)
    ai = _ueg_exponent(st, "MGGA", p, rho)
    ref = rho * _radial(_kernel_j("se_erf_rinv", ai, a0, erf_mul=2.0), ai + a0)
    # the same integral without any prefactor: exp(-(ai+a0) r^2) erf(sqrt(c) r) / r
    c = 2.0 * ai
    raw = rho * _radial(lambda r: math.exp(-(ai + a0) * r * r) * (math.erf(math.sqrt(c) * r) / r if r > 0 else 0.0), ai + a0)
    rep = float(s.ueg_vector(rho)[0])
    rec.note("pinned_prefactor_times_sqrt_c", rep / raw * math.sqrt(c))
    rec.note("sqrt(pi)/2", 0.5 * math.sqrt(math.pi))
    rec.check("nldf_quad[vj:se_erf_rinv]", abs(rep / ref - 1), TOL_NLDF, mechanism="NLDFSettingsVJ.ueg_vector[se_erf_rinv]")
    rec.tag("class", "NLDFSettingsVJ")
    rec.tag("spec", "se_erf_rinv")
    rec.nontrivial("pin")
    rec.set_sample({"kind": "pin se_erf_rinv", "rho": rho, "reported": rep, "quadrature": ref,
                    "prefactor*sqrt(c)": rep / raw * math.sqrt(c)})


# ---------------------------------------------------------------------------------------------
# SDMX

def _run_sdmx(case, rec, rng):
    from ciderpress.dft import settings as st
    j, fam, ratio = case["j"], case["fam"], case["ratio"]
    deriv = fam == "0d"
    rec.tag("j", j)
    rec.tag("sdmx_family", "H_j^" + fam)
    rec.tag("ratio", ratio)
    usp = 3 + j
    # objects under test
    tests = []  # (name, mechanism, callable rho -> reported value, callable (cross, base) -> reference)
    counts = [0, 1, 0, 0] if deriv else [1, 0, 0, 0]
    full = st.SDMXFullSettings({ratio: ([j], counts)})
    mech_full = "SDMXFullSettings._get_ueg_const[%s,j=%d]" % (fam, j)
    const_full = full._get_ueg_const()[(ratio, j, deriv)]
    if ratio == 1.0:
        if not deriv:
            s = st.SDMXSettings([j])
            tests.append(("SDMXSettings", "SDMXSettings.ueg_const[j=%d]" % j, lambda r: s.ueg_vector(r)[0]))
            s1 = st.SDMX1Settings([j], 1)
            tests.append(("SDMX1Settings", "SDMXSettings.ueg_const[j=%d]" % j, lambda r: s1.ueg_vector(r)[0]))
            if j == 1:
                sa = st.SADMSettings("smooth")
                tests.append(("SADMSettings", "SADMSettings.ueg_const[smooth]", lambda r: sa.ueg_vector(r)[0]))
        else:
            sg = st.SDMXGSettings([j], 1)
            tests.append(("SDMXGSettings", "SDMXGSettings.ueg_const[0d,j=%d]" % j, lambda r: sg.ueg_vector(r)[1]))
            sg1 = st.SDMXG1Settings([j], 1, 1)
            tests.append(("SDMXG1Settings", "SDMXGSettings.ueg_const[0d,j=%d]" % j, lambda r: sg1.ueg_vector(r)[1]))
    tests.append(("SDMXFullSettings", mech_full, lambda r: full.ueg_vector(r)[0]))
    for t in tests:
        rec.tag("class", t[0])
    rhos = _densities(rng, case["ndens"])
    nref = case["nref"]  # densities with the full nested quadrature (the rest through the exact scaling of the integral)
    worst = {}
    consts_seen = []
    selfworst = 0.0
    for ir, rho in enumerate(rhos):
        rho = float(rho)
        if ir < nref:
            vr, vm, se = _sdmx_reference(j, rho, deriv, ratio)
            base_r, base_m = vr, vm
            if ratio != 1.0:
                b_r, b_m, se2 = _sdmx_reference(j, rho, deriv, 1.0)
                se = max(se, se2)
                base_r, base_m = 0.5 * (vr + b_r), 0.5 * (vm + b_m)  # what SDMXFullPlan's feature is for ratio != 1
            selfworst = max(selfworst, se)
            if se > TOL_QUAD / 10:
                rec.note("oracle_self_error_rho=%.3e" % rho, se)
                continue
            cross_const = vm / rho ** (usp / 3.0)  # dimensionless constants of this draw
            base_const = base_m / rho ** (usp / 3.0)
            consts_seen.append(cross_const)
            # the private table entry is the pure cross term
            rec.check("sdmx_table_vs_quad[%s]" % fam, abs(const_full / cross_const - 1), TOL_QUAD, mechanism=mech_full,
                      detail={"ratio": ratio, "j": j, "table": const_full, "quadrature": cross_const, "rho": rho})
            for name, mech, fn in tests:
                rep = float(fn(rho))
                for tag, ref in (("real", base_r), ("mom", base_m)):
                    err = abs(rep / ref - 1)
                    worst[name] = max(worst.get(name, 0.0), err)
                    rec.check("sdmx_quad_%s[%s]" % (tag, fam), err, TOL_QUAD, mechanism=mech,
                              detail={"class": name, "ratio": ratio, "j": j, "rho": rho, "reported": rep, "quadrature": ref})
        elif consts_seen:
            # remaining densities: the integral scales exactly as rho^(1 + j/3) (substitute s = kF R); use the constant
            # obtained by quadrature at the first density
            cc = base_const
            for name, mech, fn in tests:
                rep = float(fn(rho))
                err = abs(rep / (cc * rho ** (usp / 3.0)) - 1)
                worst[name] = max(worst.get(name, 0.0), err)
                rec.check("sdmx_quad_scaled[%s]" % fam, err, TOL_QUAD, mechanism=mech,
                          detail={"class": name, "ratio": ratio, "j": j, "rho": rho, "reported": rep})
    if consts_seen:
        # the dimensionless constant must not depend on the density at which the quadrature was run
        rec.check("sdmx_oracle_density_independence", max(abs(c / consts_seen[0] - 1) for c in consts_seen), 1e-10,
                  mechanism="harness:sdmx-quadrature")
        for name, _, _ in tests:
            rec.nontrivial("%s|%s|%d|%.1f" % (name, fam, j, ratio))
    else:
        rec.set_inconclusive("SDMX quadrature did not self-converge (%.2e)" % selfworst)
    rec.set_sample({"kind": "sdmx", "j": j, "family": fam, "ratio": ratio, "table_constant": const_full,
                    "quadrature_constant": consts_seen[0] if consts_seen else None, "oracle_self_error": selfworst,
                    "worst_rel_err_per_class": worst})


def _run_sdmx_assembly(case, rec, rng):
    """ueg_vector of every SDMX settings class = its own constants, in the feature order of the plans
    (H^0 for pows, H^0d for pows[:ndt], H^1 (zero) for pows[:n1]; Full: per sorted ratio 0-terms then 0d-terms, then
    all l = 1 terms), times rho^(usp/3); normalisers from get_reasonable_normalizer map the l = 0 part to 1."""
    from ciderpress.dft import settings as st
    sfull = st.SDMXFullSettings({1.0: ([0], [1, 0, 0, 0])})
    table = sfull._get_ueg_const()
    c0 = dict((j, st.SDMXSettings([j]).ueg_const[0]) for j in (0, 1, 2))
    cd = dict((j, st.SDMXGSettings([j], 1).ueg_const[1]) for j in (0, 1, 2))
    for d in range(case["ndraw"]):
        npow = int(rng.integers(1, 4))
        pows = [int(p) for p in rng.permutation([0, 1, 2])[:npow]]
        ndt = int(rng.integers(0, npow + 1))
        n1 = int(rng.integers(0, npow + 1))
        rhos = _densities(rng, 5)
        objs = [
            ("SDMXSettings", st.SDMXSettings(pows), [c0[p] for p in pows], list(pows)),
            ("SDMXGSettings", st.SDMXGSettings(pows, ndt), [c0[p] for p in pows] + [cd[p] for p in pows[:ndt]],
             pows + pows[:ndt]),
            ("SDMX1Settings", st.SDMX1Settings(pows, n1), [c0[p] for p in pows] + [0.0] * n1, pows + pows[:n1]),
            ("SDMXG1Settings", st.SDMXG1Settings(pows, ndt, n1),
             [c0[p] for p in pows] + [cd[p] for p in pows[:ndt]] + [0.0] * n1, pows + pows[:ndt] + pows[:n1]),
        ]
        ratios = sorted(float(r) for r in rng.choice([1.0, 1.5, 2.0], size=int(rng.integers(1, 4)), replace=False))
        sd = {}
        exp_c, exp_p, l1p = [], [], []
        for r in ratios:
            cnt = [int(rng.integers(0, npow + 1)) for _ in range(4)]
            sd[r] = (list(pows), cnt)
        for r in ratios:
            for p in pows[:sd[r][1][0]]:
                exp_c.append(0.5 * (table[(r, p, False)] + table[(1.0, p, False)]))
                exp_p.append(p)
            for p in pows[:sd[r][1][1]]:
                exp_c.append(0.5 * (table[(r, p, True)] + table[(1.0, p, True)]))
                exp_p.append(p)
        for r in ratios:
            l1p += pows[:sd[r][1][2]] + pows[:sd[r][1][3]]
        objs.append(("SDMXFullSettings", st.SDMXFullSettings(sd), exp_c + [0.0] * len(l1p), exp_p + l1p))
        for name, s, consts, ps in objs:
            rec.tag("class", name)
            mech = "%s.ueg_vector:assembly" % name
            usps = np.asarray(s.get_feat_usps(), dtype=float)
            if not rec.require("sdmx_assembly_nfeat", len(consts) == s.nfeat == usps.size, mechanism=mech + ":nfeat"):
                continue
            rec.check("sdmx_assembly_usps", _cmp(usps, 3.0 + np.asarray(ps, dtype=float)), 0.0, mechanism=mech + ":usps")
            worst = 0.0
            for rho in rhos:
                rep = np.asarray(s.ueg_vector(float(rho)), dtype=float)
                exp = np.asarray(consts) * rho ** (1 + np.asarray(ps, dtype=float) / 3.0)
                worst = max(worst, _cmp(rep, exp))
            rec.check("sdmx_assembly", worst, TOL_EXACT, mechanism=mech, detail={"pows": pows, "ndt": ndt, "n1": n1})
            rec.nontrivial("%s|%d" % (name, d))
    rec.set_sample({"kind": "sdmx assembly", "pows": pows, "ndt": ndt, "n1": n1, "full_settings": {str(k): v for k, v in sd.items()}})


def _run_sdmx_plan(case, rec, rng):
    """The real SDMX plan classes fed with the exact UEG rho0(R_q) (quadrature) at their own R_q = sqrt(2/alpha_q):
    ties the reported vector to the code that computes the features (global -1/4, feature order, 0d / l = 1 families).
    Limited by the plan's Gaussian interpolation in R (measured 2e-4 with lambda = 1.5, 50 exponents); tolerance 2e-3."""
    from ciderpress.dft import plans
    from ciderpress.dft import settings as st
    cls = case["cls"]
    rec.tag("class", cls)
    pows = [int(p) for p in rng.permutation([0, 1, 2])]
    if cls == "SDMXSettings":
        s = st.SDMXSettings(pows)
    elif cls == "SDMXGSettings":
        s = st.SDMXGSettings(pows, 3)
    elif cls == "SDMX1Settings":
        s = st.SDMX1Settings(pows, 2)
    elif cls == "SDMXG1Settings":
        s = st.SDMXG1Settings(pows, 2, 3)
    else:
        s = st.SDMXFullSettings({1.0: (pows, [3, 2, 1, 0]), 1.5: (pows, [2, 3, 0, 1]), 2.0: (pows, [3, 3, 1, 1])})
    worst = 0.0
    for rho in _densities(rng, case["ndens"]):
        rho = float(rho)
        kf = (3 * math.pi ** 2 * rho) ** (1.0 / 3)
        args = (s, 1, 1e-3 * kf * kf, 1.5, 50)
        plan = plans.SDMXFullPlan(*args) if cls == "SDMXFullSettings" else plans.SDMXPlan(*args)
        p = np.zeros((4, plan.nalpha, 1))  # [rho0, rho1_x, rho1_y, rho1_z]; rho1 = int grad h n1 = 0 by symmetry
        p[0, :, 0] = [_rho0_mom(R, rho, kf, False, 360) for R in np.sqrt(2.0 / plan.alphas)]
        n0 = plan.num_l0_feat
        feat = plan.get_features(p, l0tmp=np.empty((n0, plan.nalpha, 1)),
                                 l1tmp=np.empty((s.nfeat - n0, 3, plan.nalpha, 1)))[:, 0]
        rep = np.asarray(s.ueg_vector(rho), dtype=float)
        if not rec.require("sdmx_plan_nfeat", feat.shape == rep.shape, mechanism="%s.ueg_vector:nfeat-vs-plan" % cls):
            return
        err = _cmp(feat, rep)
        worst = max(worst, err)
        rec.check("sdmx_plan_vs_ueg_vector", err, 2e-3, mechanism="%s.ueg_vector:vs-plan.get_features" % cls,
                  detail={"pows": pows, "rho": rho, "plan": feat.tolist(), "reported": rep.tolist()})
    rec.nontrivial("sdmxplan|%s" % cls)
    rec.set_sample({"kind": "sdmx plan", "class": cls, "pows": pows, "rho": rho, "plan_features": feat.tolist(),
                    "ueg_vector": rep.tolist(), "worst_rel_err": worst})


# ---------------------------------------------------------------------------------------------
# normalisers

def _call_get_ueg(n, rho, inh):
    """get_ueg(rho, inh) with inh = value of the list's inhomogeneity variable at the UEG for the semilocal mode
    (1 for npa/nst, 0 for np/ns); falls back to get_ueg(rho) on trees whose signature has no inh argument."""
    try:
        params = [p for p in inspect.signature(n.get_ueg).parameters]
    except (TypeError, ValueError):
        params = ["rho"]
    if len(params) >= 2:
        return n.get_ueg(rho, inh)
    return n.get_ueg(rho)


def _make_norm(fn, cls, rng):
    if cls == "ConstantNormalizer":
        return fn.ConstantNormalizer(float(rng.uniform(0.3, 3)))
    if cls == "DensityNormalizer":
        return fn.DensityNormalizer(float(rng.uniform(0.3, 3)), float(rng.uniform(-2, 2)))
    if cls == "InhomogeneityNormalizer":
        return fn.InhomogeneityNormalizer(float(rng.uniform(0.3, 3)), float(rng.uniform(0.05, 2)), float(rng.choice([-1, 1]) * rng.uniform(0.2, 2)))
    if cls == "GeneralNormalizer":
        return fn.GeneralNormalizer(float(rng.uniform(0.3, 3)), float(rng.uniform(0.05, 2)), float(rng.uniform(-2, 2)),
                                    float(rng.choice([-1, 1]) * rng.uniform(0.2, 2)))
    a0 = float(rng.uniform(0.5, 3))
    return fn.get_normalizer_from_exponent_params(float(rng.uniform(-1, 1)), float(rng.choice([-1, 1]) * rng.uniform(0.3, 2)), a0,
                                                  float(rng.uniform(0.005, 0.05)) * a0, gga=bool(rng.integers(2)))


def _ueg_raw_sl(st, mode, rhos):
    return np.array([st.SemilocalSettings(mode).ueg_vector(float(r)) for r in rhos]).T  # (nsl, n)


def _run_norm(case, rec, rng):
    from ciderpress.dft import feat_normalizer as fn
    from ciderpress.dft import settings as st
    cls, mode = case["cls"], case["mode"]
    rec.tag("slmode", mode)
    inh_ueg = 1.0 if mode in ("npa", "nst") else 0.0  # tau/tau_0 resp. tau_W/tau_0 at the UEG
    worst = 0.0
    for d in range(case["ndraw"]):
        n = _make_norm(fn, cls, rng)
        name = type(n).__name__
        rec.tag("normalizer", name)
        rhos = _densities(rng, case["ndens"])
        sl = _ueg_raw_sl(st, mode, rhos)
        nsl = sl.shape[0]
        x = np.exp(rng.uniform(-2, 2, size=rhos.size)) * rng.choice([-1.0, 1.0], size=rhos.size)
        X = np.concatenate([sl, x[None]], axis=0)[None]  # (1, nsl + 1, n)
        lst = fn.FeatNormalizerList([None] * nsl + [n], slmode=mode)
        applied = lst.get_normalized_feature_vector(X)[0, nsl] / x  # the factor actually applied at UEG inputs
        reported = np.array([_call_get_ueg(n, float(r), inh_ueg) for r in rhos])
        err = _cmp(reported, applied)
        worst = max(worst, err)
        rec.check("get_ueg_vs_applied[%s]" % name, err, TOL_EXACT, mechanism="%s.get_ueg[slmode=%s]" % (name, MODECLASS[mode]),
                  detail={"params": {k: v for k, v in vars(n).items()}, "slmode": mode, "rho": float(rhos[0]),
                          "get_ueg": float(reported[0]), "applied_factor": float(applied[0]), "inh_at_ueg": inh_ueg})
        direct = n.fill_fwd(np.ones(rhos.size), rhos.copy(), np.full(rhos.size, inh_ueg))
        rec.check("fill_fwd_vs_list_routing", _cmp(direct, applied), TOL_EXACT,
                  mechanism="FeatNormalizerList._get_rho_and_inh[%s]:ueg" % mode)
        rec.nontrivial("%s|%s|%d" % (cls, mode, d))
    rec.set_sample({"kind": "norm", "class": cls, "slmode": mode, "rho": float(rhos[0]), "get_ueg": float(reported[0]),
                    "applied_factor": float(applied[0]), "worst_rel_err": worst})


def _entry_mech(n, mode, default):
    if n is None:
        return default
    return "%s.get_ueg[slmode=%s]" % (type(n).__name__, MODECLASS[mode])


def _run_normlist(case, rec, rng):
    from ciderpress.dft import feat_normalizer as fn
    from ciderpress.dft import settings as st
    mode = case["mode"]
    rec.tag("slmode", mode)
    inh_ueg = 1.0 if mode in ("npa", "nst") else 0.0
    pool = ["ConstantNormalizer", "DensityNormalizer", None]
    if case["mix"] == "all":
        pool += ["InhomogeneityNormalizer", "GeneralNormalizer", "from_exponent_params"]
    for d in range(case["ndraw"]):
        rhos = _densities(rng, case["ndens"])
        sl = _ueg_raw_sl(st, mode, rhos)
        nsl = sl.shape[0]
        nx = int(rng.integers(2, 7))
        norms = [None] * nsl + [(_make_norm(fn, c, rng) if c else None) for c in rng.choice(np.array(pool, dtype=object), size=nx)]
        rec.tag("normalizer", [type(n).__name__ for n in norms])
        x = np.exp(rng.uniform(-2, 2, size=(nx, rhos.size)))
        X = np.concatenate([sl, x], axis=0)[None]
        lst = fn.FeatNormalizerList(norms, slmode=mode)
        applied = lst.get_normalized_feature_vector(X)[0] / np.where(X[0] == 0, 1.0, X[0])
        rep = np.array([lst.ueg_vector(float(r)) for r in rhos]).T  # (nfeat, n)
        # bookkeeping: entries without an inhomogeneity factor are exactly get_ueg (1 for None)
        plain = [i for i, n in enumerate(norms) if type(n).__name__ in ("NoneType", "ConstantNormalizer", "DensityNormalizer")]
        prod = np.array([[1.0 if norms[i] is None else norms[i].get_ueg(float(r)) for r in rhos] for i in plain])
        rec.check("list_ueg_vector_vs_get_ueg", _cmp(rep[plain], prod), 1e-15, mechanism="FeatNormalizerList.ueg_vector")
        for i, n in enumerate(norms):
            if i == 1 or (X[0, i] == 0).any():
                continue  # zero raw feature (gradient variable): factor not observable
            rec.check("list_ueg_vector_vs_applied", _cmp(rep[i], applied[i]), TOL_EXACT,
                      mechanism=_entry_mech(n, mode, "FeatNormalizerList.ueg_vector"),
                      detail={"entry": i, "class": type(n).__name__, "slmode": mode})
        rec.nontrivial("%s|%s|%d" % (mode, case["mix"], d))
    rec.set_sample({"kind": "normlist", "slmode": mode, "classes": [type(n).__name__ for n in norms],
                    "ueg_vector": rep[:, 0].tolist(), "applied": applied[:, 0].tolist()})


# ---------------------------------------------------------------------------------------------
# FeatureSettings + synthetic model per family

def _family_settings(family, rng):
    from ciderpress.dft import settings as st

    from vlib import gen
    if family in gen.FAMILIES:
        return gen.family_settings(family, rng)
    if family.startswith("vi-all"):
        level = "MGGA" if family.endswith("mgga") else "GGA"
        # (-1, 1) has usp 3, for which get_reasonable_normalizer raises NotImplementedError (not this property)
        nl = st.NLDFSettingsVI(level, _rand_params(rng, level), "one", list(I0_SPECS), list(I1_SPECS),
                               [(-1, 0), (0, 0), (0, 1), (1, 1)])
        return gen.feature_settings("npa" if level == "MGGA" else "np", nl)
    if family == "vk-expnt":
        nl = st.NLDFSettingsVK("MGGA", _rand_params(rng, "MGGA"), "expnt", [_rand_params(rng, "MGGA") for _ in range(2)],
                               "exponential")
        return gen.feature_settings("npa", nl)
    if family == "sdmxfull":
        sx = st.SDMXFullSettings({1.0: ([0, 1], [2, 1, 1, 0]), 2.0: ([1, 0], [2, 1, 0, 1])})
        return gen.feature_settings("npa", None, sx)
    if family in ("all-npa", "nlof+sdmx-nst", "nldf+nlof-np", "nlof+sdmxfull-npa"):
        mode = family.rsplit("-", 1)[1]
        level = "MGGA" if mode in ("npa", "nst") else "GGA"
        fl = st.FracLaplSettings([-0.5, 0.5, 0.25], 3, 1, [(-1, 0)])
        nl = None
        sx = None
        if family in ("all-npa", "nldf+nlof-np"):
            nl = st.NLDFSettingsVJ(level, _rand_params(rng, level), "one", ["se", "se_ar2"], [_rand_params(rng, level) for _ in range(2)])
        if family in ("all-npa", "nlof+sdmx-nst"):
            sx = st.SDMXSettings([1, 0, 2])
        if family == "nlof+sdmxfull-npa":
            sx = st.SDMXFullSettings({1.0: ([0, 1], [2, 1, 0, 0]), 1.5: ([1], [1, 0, 0, 0])})
        return gen.feature_settings(mode, nl, sx, fl)
    if family.startswith("nlof"):
        fl = st.FracLaplSettings([-1.0, -0.5, 0.25, 0.5], 4, 2, [(-1, 0), (0, 1), (0, 0)])
        return gen.feature_settings(family.split("-")[1], None, None, fl)
    raise ValueError(family)


def _run_fs(case, rec, rng):
    from ciderpress.dft import baselines as bl
    from ciderpress.dft import transform_data as td
    from ciderpress.dft import xc_evaluator as xe
    from ciderpress.models.kernels import DiffConstantKernel, DiffRBF
    family = case["family"]
    rec.tag("family", family)
    try:
        fs = _family_settings(family, rng)
    except IndexError as e:
        rec.require("family_settings_build", False, mechanism="NLDFSettings._ueg_rho_mult[GGA,expnt]", detail=repr(e))
        return
    mode = fs.sl_settings.mode
    rec.tag("slmode", mode)
    norms = fs.normalizers._normalizers
    rec.tag("normalizer", [type(n).__name__ for n in norms])
    rhos = _densities(rng, case["ndens"])
    nf = fs.nfeat
    parts = [fs.sl_settings, fs.nldf_settings, fs.nlof_settings, fs.sdmx_settings, fs.hyb_settings]
    raw = np.array([fs.ueg_vector(float(r)) for r in rhos]).T  # (nfeat, n)
    cat = np.array([np.concatenate([np.asarray(p.ueg_vector(float(r)), dtype=float) for p in parts]) for r in rhos]).T
    rec.check("fs_ueg_vector_concatenation", _cmp(raw, cat), 0.0, mechanism="FeatureSettings.ueg_vector:concatenation")
    rec.require("fs_nfeat", raw.shape[0] == nf == len(norms), mechanism="FeatureSettings.ueg_vector:nfeat")
    rep = np.array([fs.ueg_vector(float(r), with_normalizers=True) for r in rhos]).T
    fac = np.array([fs.normalizers.ueg_vector(float(r)) for r in rhos]).T
    rec.check("fs_with_normalizers_vs_product", _cmp(rep, raw * fac), 1e-15, mechanism="FeatureSettings.ueg_vector[with_normalizers]:product")
    applied = fs.normalizers.get_normalized_feature_vector(raw[None].copy())[0]
    bad = {}
    for i in range(nf):
        err = _cmp(rep[i], applied[i])
        mech = _entry_mech(norms[i], mode, "FeatureSettings.ueg_vector[with_normalizers]")
        ok = rec.check("fs_with_normalizers_vs_applied", err, TOL_EXACT, mechanism=mech,
                       detail={"family": family, "entry": i, "normalizer": type(norms[i]).__name__, "slmode": mode,
                               "rho": float(rhos[0]), "reported": float(rep[i, 0]), "applied": float(applied[i, 0])})
        if not ok:
            bad[i] = mech
    usp_n = np.asarray(fs.get_feat_usps(with_normalizers=True), dtype=float)
    _power_law(rec, "fs_power_law_raw", "FeatureSettings.ueg_vector", fs, rhos[:6])
    _power_law(rec, "fs_power_law_normalized", "FeatureSettings.ueg_vector[with_normalizers]", fs, rhos[:6],
               vec_fn=lambda r: np.asarray(fs.ueg_vector(float(r), with_normalizers=True), dtype=float), usps=usp_n)
    # --- a model whose maps are centred on the reported normalised UEG values recovers its baseline at the UEG
    rep1 = np.asarray(fs.ueg_vector(1.0, with_normalizers=True), dtype=float)
    maps, used = [], []
    for i in range(1, nf):
        if abs(usp_n[i]) > 1e-12 or not np.isfinite(rep1[i]) or rep1[i] < 0:
            continue  # not scale-invariant (raw sigma / tau of the ns / nst modes): no density-independent centre
        g = float(np.exp(rng.uniform(np.log(0.1), np.log(3.0))))
        sc = float(rng.uniform(0.5, 2.0))
        maps.append(td.VMap(i, g, scale=sc, center=sc * td.get_vmap_heg_value(float(rep1[i]), g)))
        used.append(i)
    if not maps:
        rec.nontrivial("fs|%s" % family)
        rec.set_sample({"kind": "fs", "family": family, "rho": float(rhos[0]), "raw_ueg": raw[:, 0].tolist(),
                        "normalized_ueg": rep[:, 0].tolist(), "model": "no scale-invariant feature"})
        return
    fl = td.FeatureList(maps)
    n1 = fl.nfeat
    X1 = fl(applied.T.copy())  # (n, n1) transformed features at the actually normalised UEG vector
    mech_model = "MappedXC:baseline-at-UEG[%s]" % family
    for i in used:
        if i in bad:
            mech_model = bad[i]
            break
    rec.check("transformed_features_vanish_at_ueg", float(np.max(np.abs(X1))), TOL_EXACT, mechanism=mech_model,
              detail={"family": family, "used_raw_indices": used, "max_abs_per_map": np.max(np.abs(X1), axis=0).tolist()})
    ls = np.exp(rng.uniform(np.log(0.3), np.log(1.5), size=n1))
    kern = DiffConstantKernel(float(rng.uniform(0.5, 2.0))) * DiffRBF(ls)
    ctrl = rng.uniform(-0.5, 1.0, size=(10, n1))
    alpha = rng.normal(size=10)
    k0 = kern.k_and_deriv(np.zeros((1, n1)), ctrl)[0][0]
    alpha = alpha - k0 * np.dot(k0, alpha) / np.dot(k0, k0)  # f(0) = 0: the model is centred on its baseline at X1 = 0
    fevals = [xe.GlobalLinearEvaluator(rng.normal(size=n1)), xe.KernelEvaluator(kern, ctrl, alpha)]
    ref = LDA_X * rhos ** (4.0 / 3)
    worst = 0.0
    for mm in ("SEP", "NPOL"):
        for nspin in (1, 2):
            model = xe.MappedXC([xe.MappedDFTKernel(fevals, fl, mm, bl.lda_x, bl.lda_x)], fs)
            X0 = np.repeat(applied[None], nspin, axis=0).copy()
            res, dres = model(X0)
            err = _cmp(res, ref)
            worst = max(worst, err)
            rec.check("model_recovers_baseline_at_ueg", err, TOL_EXACT, mechanism=mech_model,
                      detail={"family": family, "mode": mm, "nspin": nspin, "rho": float(rhos[0]), "model": float(res[0]),
                              "lda_x": float(ref[0])})
            rec.require("model_derivative_finite", bool(np.all(np.isfinite(dres))), mechanism=mech_model + ":nonfinite")
    rec.nontrivial("fs|%s" % family)
    rec.set_sample({"kind": "fs", "family": family, "rho": float(rhos[0]), "raw_ueg": raw[:, 0].tolist(),
                    "normalized_ueg_reported": rep[:, 0].tolist(), "normalized_ueg_applied": applied[:, 0].tolist(),
                    "model_vs_lda_x_rel_err": worst})


# ---------------------------------------------------------------------------------------------
# fractional Laplacian

def _fl_quad(p, kf):
    """(1/pi^2) int_0^kF k^p dk, p > -1, with k = kF t^5 to smooth the algebraic end point."""
    v = _quad(lambda t: (t ** 5) ** p * 5 * t ** 4, 0.0, 1.0)[0]
    return kf ** (p + 1) * v / math.pi ** 2


def _run_fl(case, rec, rng):
    from ciderpress.dft import plans
    from ciderpress.dft import settings as st
    rec.tag("class", "FracLaplSettings")
    worst = 0.0
    for d in range(case["ndraw"]):
        ns = int(rng.integers(2, 5))
        slist = [float(s) for s in np.round(rng.uniform(-1.2, 1.5, size=ns), 3)]
        nk0 = int(rng.integers(1, ns + 1))
        nk1 = int(rng.integers(0, ns + 1))
        dots = [(int(a), int(b)) for a, b in rng.integers(-1, nk1, size=(int(rng.integers(0, 4)), 2))] if nk1 else []
        if nk1 == 0:
            dots = [(-1, -1)] if rng.random() < 0.5 else []
        nd1 = int(rng.integers(0, ns + 1)) if case["ndd"] else 0
        ndd = int(rng.integers(1, nd1 + 1)) if (case["ndd"] and nd1) else 0
        # ld_dots index the first nk1 cached F^d vectors in FracLaplPlan (and -1); keep them in range of both
        nld = min(nk1, nd1)
        ld = [(int(a), int(b)) for a, b in rng.integers(-1, nld, size=(int(rng.integers(0, 3)), 2))] if nld else []
        s = st.FracLaplSettings(slist, nk0, nk1, dots, nd1=nd1, ld_dots=ld, ndd=ndd)
        rec.tag("ndd", ndd)
        rhos = _densities(rng, case["ndens"])
        nzero = len(dots) + len(ld)
        for rho in rhos:
            rho = float(rho)
            kf = (3 * math.pi ** 2 * rho) ** (1.0 / 3)
            rep = np.asarray(s.ueg_vector(rho), dtype=float)
            if not rec.require("fl_nfeat", rep.size == s.nfeat == nk0 + nzero + ndd, mechanism="FracLaplSettings.ueg_vector:nfeat"):
                break
            ref0 = np.array([_fl_quad(2 + 2 * sv, kf) for sv in slist[:nk0]])
            err = _cmp(rep[:nk0], ref0)
            worst = max(worst, err)
            rec.check("fl_l0_vs_quad", err, TOL_QUAD, mechanism="FracLaplSettings.ueg_vector[l0]",
                      detail={"slist": slist, "rho": rho, "reported": rep[:nk0].tolist(), "quadrature": ref0.tolist()})
            # vector ingredients: int_{k<kF} k_vec k^(2s) d^3k = 0 by inversion symmetry; grad n = 0
            rec.check("fl_l1_dots_zero", float(np.max(np.abs(rep[nk0:nk0 + nzero]))) if nzero else 0.0, 0.0,
                      mechanism="FracLaplSettings.ueg_vector[l1_dots]")
            if ndd:
                refdd = np.array([_fl_quad(4 + 2 * sv, kf) for sv in slist[:ndd]])
                rec.check("fl_dd_vs_quad", _cmp(rep[nk0 + nzero:], refdd), TOL_QUAD, mechanism="FracLaplSettings.ueg_vector[ndd]",
                          detail={"slist": slist, "ndd": ndd, "rho": rho, "reported": rep[nk0 + nzero:].tolist(),
                                  "quadrature F^dd = kF^(5+2s)/(pi^2 (5+2s))": refdd.tolist()})
            # feature order of the real FracLaplPlan fed with UEG ingredients (l = 0 by quadrature, vectors = 0)
            plan = plans.FracLaplPlan(s, 1)
            rd = np.zeros((1, 5 + s.nrho, 1))
            rd[0, 0] = rho
            rd[0, 4] = CF * rho ** (5.0 / 3)
            rd[0, 5:5 + nk0, 0] = ref0
            if ndd:
                rd[0, 5 + s.nrho - ndd:, 0] = refdd
            feat = plan.get_feat(rd)[0, :, 0]
            mech = "FracLaplSettings.ueg_vector[ndd]" if ndd else "FracLaplSettings.ueg_vector:order-vs-FracLaplPlan"
            rec.check("fl_plan_vs_ueg_vector", _cmp(feat, rep), TOL_QUAD, mechanism=mech)
        _power_law(rec, "fl_power_law", "FracLaplSettings.ueg_vector", s, rhos[:6])
        rec.nontrivial("fl|%s|%d" % (case["ndd"], d))
    rec.set_sample({"kind": "fl", "slist": slist, "nk0": nk0, "nk1": nk1, "l1_dots": dots, "nd1": nd1, "ndd": ndd,
                    "rho": rho, "reported": rep.tolist(), "quadrature_l0": ref0.tolist(), "worst_l0_rel_err": worst})


def _run_fl_fn(case, rec, rng):
    """_get_fl_ueg(s) = F_s / (rho kF^(2s)) = 3 int_0^1 t^(2+2s) dt."""
    from ciderpress.dft import settings as st
    special = [-0.5, 0.0, 0.5, 1.0]
    svals = list(special)
    while len(svals) < case["ndraw"]:
        s = float(rng.uniform(-1.45, 1.0))
        if min(abs(s - x) for x in special) > 1e-3:
            svals.append(s)
    worst = 0.0
    for s in svals:
        ref = 3 * _quad(lambda t: (t ** 5) ** (2 + 2 * s) * 5 * t ** 4, 0.0, 1.0)[0]
        with warnings.catch_warnings():
            warnings.simplefilter("ignore")
            v = float(st._get_fl_ueg(s))
        err = abs(v / ref - 1)
        worst = max(worst, err)
        rec.check("_get_fl_ueg_vs_quad", err, TOL_QUAD, mechanism="_get_fl_ueg", detail={"s": s, "value": v, "quadrature": ref})
        rec.nontrivial("flfn|%.6f" % s)
    rec.set_sample({"kind": "_get_fl_ueg", "s": svals[5], "value": float(st._get_fl_ueg(svals[5])), "worst_rel_err": worst})


# ---------------------------------------------------------------------------------------------
# get_vmap_heg_value

def _run_vmap(case, rec, rng):
    from ciderpress.dft import transform_data as td
    worst = 0.0
    for d in range(case["ndraw"]):
        heg = float(np.exp(rng.uniform(np.log(1e-3), np.log(1e2))))
        g = float(np.exp(rng.uniform(np.log(0.01), np.log(10.0))))
        sc = float(rng.uniform(0.3, 3.0))
        c = td.get_vmap_heg_value(heg, g)
        x = np.array([[0.0], [heg]])
        y = np.zeros(1)
        td.UMap(1, g).fill_feat_(y, x)
        rec.check("vmap_heg_value_vs_umap", abs(c / y[0] - 1), 1e-15, mechanism="get_vmap_heg_value")
        td.VMap(1, g, scale=sc, center=sc * c).fill_feat_(y, x)
        worst = max(worst, abs(y[0]) / sc)
        rec.check("vmap_centred_map_vanishes_at_heg", abs(y[0]) / sc, 1e-15, mechanism="get_vmap_heg_value",
                  detail={"heg": heg, "gamma": g, "scale": sc, "center": sc * c, "value": float(y[0])})
        if d < 50:
            rec.nontrivial("vmap|%d" % d)
    rec.set_sample({"kind": "vmap", "heg": heg, "gamma": g, "center": c, "worst_abs": worst})
