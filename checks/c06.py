"""C06 - energies and features are invariant under rigid motions and atom relabelling.

For a molecule mol and mol' = g(mol) (translation, one of the 48 octahedral operations about the origin composed
with a translation, atom permutation, or a Haar-random rotation) the same synthetic model is evaluated on both with
the density matrix transported by the explicit AO representation U(g) built by the harness (validated per case
against pyscf's overlap matrices).  DESIGN.md section 5, C06.
"""
import itertools

import numpy as np

from vlib.oracles import rng_for

PROPERTY = "C06"
PROP_NO = 6
RULE = ("case = (feature family, RKS|UKS, C1-symmetric jittered molecule, basis incl. d functions, grid level, plan, "
        "interpolator) with a random synthetic model and admissible density matrix; operations per case: 1 translation "
        "(|t| <= 5 bohr), 3 octahedral operations (thorough: all 48 over the run) composed with a translation, 1 atom "
        "permutation, 1 Haar rotation at two grid levels; an operation is non-trivial when the AO representation is "
        "validated (U S U^T = S' to 1e-11), it moves the density matrix (|U dm U^T - dm| > 1e-3) and the ML share of "
        "the energy is >= 1e-3; distinct = (case, operation)")
MIN_NONTRIVIAL = {"quick": 60, "thorough": 500}
ASSUMPTIONS = ["pyscf's Becke/Lebedev grid generator maps onto itself under octahedral operations and translations "
               "(it is rebuilt for the moved molecule; trusted base)",
               "exact relations are decided at 1e-8 x scale (measured floor 4e-11); arbitrary rotations at a calibrated "
               "quadrature bound that must not grow with the grid level"]
TOL = 1e-8
OCT = []
for perm in itertools.permutations(range(3)):
    for signs in itertools.product([1, -1], repeat=3):
        m = np.zeros((3, 3))
        for i, p in enumerate(perm):
            m[i, p] = signs[i]
        OCT.append(m)

FAMS = ["sl-npa", "sl-nst", "vj-mgga", "vj-gga", "vi-mgga", "vi-gga", "vij-mgga", "vk-mgga", "sdmx", "sdmxg1",
        "vj+sdmx", "sdmx1", "vk-gga", "vj-expnt",
        # two vector (l = 1) SDMX terms in one settings object (their x, y, z blocks sit side by side in one buffer)
        "sdmx1b", "sdmxg1b"]
NLDF = {"vj-mgga", "vj-gga", "vi-mgga", "vi-gga", "vij-mgga", "vk-mgga", "vk-gga", "vj+sdmx", "vj-expnt"}


def gen_cases(tier, seed):
    rng = rng_for(seed, PROP_NO, 0)
    cases = []
    reps = 1 if tier == "quick" else 8
    i = 0
    oct_order = list(rng.permutation(48))
    for rep in range(reps):
        for fam in FAMS:
            spin = "rks" if (i + rep) % 2 == 0 else "uks"
            c = dict(family=fam, spin=spin,
                     mol=str(rng.choice(["H2O2", "HOF", "NH3", "H2O"] if spin == "rks" else ["NH2", "CH3", "HOF", "H2O2"])),
                     basis=str(rng.choice(["6-31g", "def2-svp", "sto-3g"], p=[0.4, 0.4, 0.2])),
                     level=int(rng.integers(0, 2)), mode=str(rng.choice(["SEP", "NPOL", "POL"], p=[0.6, 0.2, 0.2])),
                     evaluator="rbf", mix=str(rng.choice(["pure", "xmix"])), model="xc1", jitter=0.06)
            if fam in NLDF:
                c["plan_type"] = str(rng.choice(["gaussian", "spline"]))
                c["interp"] = str(rng.choice(["onsite_direct", "onsite_spline"]))
            elif "sdmx" in fam and (rep % 2 == (0 if fam == "sdmx" else 1)):
                # generally contracted shells with l >= 1 (ANO: several radial functions share one set of primitives): the
                # SDMX contraction routines index (contraction, m) pairs inside a shell - added after a seeded change of
                # that indexing that is consistent between forward and backward pass and only shows under rotations
                c["basis"] = "roos-dz"
            octs = [int(oct_order[(3 * i + k) % 48]) for k in range(3)]
            cases.append({"id": "m%03d-%s-%s" % (i, fam, spin), "cfg": c, "octs": octs, "seed": seed, "idx": 100 + i,
                          "_threads": 2, "_weight": 5.0 if fam in NLDF else 1.5, "_timeout": 2400})
            i += 1
    return cases


def _shell_rotation(l, R, rng):
    """Matrix D with (R phi_m)(r) = phi_m(R^-1 r) = sum_m' phi_m'(r) D[m', m] for pyscf's real spherical shell l."""
    from pyscf import gto
    if l == 0:
        return np.ones((1, 1))
    hm = gto.M(atom="He 0 0 0", basis={"He": [[l, [1.0, 1.0]]]}, verbose=0, spin=0)
    pts = rng.normal(size=(40 + 10 * l, 3))
    A = hm.eval_gto("GTOval_sph", pts)
    B = hm.eval_gto("GTOval_sph", pts @ R)  # rows: R^-1 r_k = R^T r_k  -> as row vectors r_k @ R
    D, res, rk, sv = np.linalg.lstsq(A, B, rcond=None)
    return D


def ao_representation(mol, R, rng):
    """Block-diagonal U with dm' = U dm U^T for mol' = R mol (same atom and shell order)."""
    nao = mol.nao
    U = np.zeros((nao, nao))
    ao_loc = mol.ao_loc_nr()
    cache = {}
    for ib in range(mol.nbas):
        l = mol.bas_angular(ib)
        nc = mol.bas_nctr(ib)
        if l not in cache:
            cache[l] = _shell_rotation(l, R, rng)
        D = cache[l]
        n = 2 * l + 1
        for ic in range(nc):
            p0 = ao_loc[ib] + ic * n
            U[p0:p0 + n, p0:p0 + n] = D
    return U


def moved_mol(mol, R, t, order=None):
    from pyscf import gto
    xyz = mol.atom_coords() @ R.T + t
    syms = [mol.atom_symbol(i) for i in range(mol.natm)]
    idx = list(range(mol.natm)) if order is None else list(order)
    return gto.M(atom=[(syms[i], tuple(xyz[i])) for i in idx], unit="Bohr", basis=mol.basis, spin=mol.spin,
                 charge=mol.charge, verbose=0)


def perm_matrix(mol, order):
    """P with dm' = P dm P^T for mol' whose atom k is mol's atom order[k]."""
    sl = mol.aoslice_by_atom()
    rows = []
    for a in order:
        rows.extend(range(sl[a, 2], sl[a, 3]))
    P = np.zeros((mol.nao, mol.nao))
    P[np.arange(mol.nao), rows] = 1.0
    return P


class _Capture:
    """Records the raw feature blocks (nspin, nfeat, nblk) that the integrator normalises, in grid order."""

    def __init__(self, ks):
        self.blocks = []
        nl = ks._numint.settings.normalizers
        orig = nl.get_normalized_feature_vector

        def wrapped(X0T):
            self.blocks.append(np.array(X0T, copy=True))
            return orig(X0T)
        nl.get_normalized_feature_vector = wrapped
        self._nl = nl

    def features(self):
        return np.concatenate(self.blocks, axis=-1)

    def release(self):
        try:
            del self._nl.get_normalized_feature_vector
        except AttributeError:
            pass


def _evaluate(gen, cfg, rng, mol, model, dm, level=None):
    c = dict(cfg)
    if level is not None:
        c["level"] = level
    ks = gen.build_ks(c, rng, mol=mol, model=model)[2]
    cap = _Capture(ks)
    n, e, v = gen.nr_eval(ks, dm)
    feats = cap.features()
    cap.release()
    w = ks.grids.weights
    keep = w != 0
    return float(e), np.asarray(v), feats[..., keep], np.asarray(ks.grids.coords)[keep], w[keep]


def _match_features(c0, f0, c1, f1):
    """Match grid points of the moved molecule (c1) to the images c0 of the original ones; returns max feature
    deviation relative to each feature's max, and the number of matched points."""
    from scipy.spatial import cKDTree
    tree = cKDTree(c1)
    d, j = tree.query(c0)
    ok = d < 1e-7
    if ok.sum() < 0.99 * len(c0):
        return None, int(ok.sum())
    a = f0[..., ok]
    b = f1[..., j[ok]]
    sc = np.maximum(np.max(np.abs(a), axis=-1, keepdims=True), 1e-8)
    return float(np.max(np.abs(a - b) / sc)), int(ok.sum())


def run_case(case, rec):
    from scipy.stats import special_ortho_group

    from vlib import gen
    cfg = case["cfg"]
    rng = rng_for(case["seed"], PROP_NO, case["idx"])
    for k in ("family", "spin", "mol", "basis", "level", "mode", "mix", "plan_type", "interp"):
        if cfg.get(k) is not None:
            rec.tag(k, cfg[k])
    mol = gen.make_mol(cfg["mol"], cfg["basis"], rng, jitter=cfg["jitter"])
    if case["idx"] % 4 == 2:
        mol = gen.vary_system(mol, "fshell")      # one extra f primitive on the heaviest atom (l = 3 rotations)
        rec.tag("system", "fshell")
    model = gen.build_model(cfg, rng)
    nspin = 1 if cfg["spin"] == "rks" else 2
    dm = gen.psd_dm(mol, rng, nspin)
    fam = cfg["family"]
    e0, v0, f0, c0, w0 = _evaluate(gen, cfg, rng, mol, model, dm)
    ks0 = gen.build_ks(cfg, rng, mol=mol, model=model)[2]
    ni = ks0._numint
    xm = ni.xmix
    ni.xmix = 0.0
    e_sl = float(gen.nr_eval(ks0, dm)[1])
    ni.xmix = xm
    ml_share = abs(e0 - e_sl) / max(abs(e0), 1e-300)
    S0 = mol.intor("int1e_ovlp")
    vs = max(float(np.max(np.abs(v0))), 1e-3)
    es = max(abs(e0), 1e-3)
    ops = [("translation", np.eye(3), rng.normal(size=3) * 2.5, None)]
    for k in case["octs"]:
        ops.append(("octahedral", OCT[k], rng.normal(size=3) * (1.5 if rng.random() < 0.5 else 0.0), None))
    order = list(rng.permutation(mol.natm))
    if order == list(range(mol.natm)):
        order = order[::-1]
    ops.append(("permutation", np.eye(3), np.zeros(3), order))
    sample = {"cfg": cfg, "E": e0, "ml_share": ml_share, "ops": []}

    def transport(U):
        return U @ dm @ U.T if nspin == 1 else np.stack([U @ d @ U.T for d in dm])

    for name, R, t, order_ in ops:
        mol2 = moved_mol(mol, R, t, order_)
        if name == "permutation":
            U = perm_matrix(mol, order_)
        else:
            U = ao_representation(mol, R, rng)
        # validate the harness's AO representation against pyscf integrals (inconclusive if this fails)
        S1 = mol2.intor("int1e_ovlp")
        uerr = float(np.max(np.abs(U @ S0 @ U.T - S1)))
        T0, T1 = mol.intor("int1e_kin"), mol2.intor("int1e_kin")
        uerr = max(uerr, float(np.max(np.abs(U @ T0 @ U.T - T1))) / max(1.0, float(np.max(np.abs(T0)))))
        if uerr > 1e-10:
            rec.note("U_validation_failed_%s" % name, uerr)
            rec.set_inconclusive("harness AO representation not validated (%s, %.2e)" % (name, uerr))
            continue
        dm2 = transport(U)
        e1, v1, f1, c1, w1 = _evaluate(gen, cfg, rng, mol2, model, dm2)
        mech = "%s[%s]" % (name, "nldf" if fam in NLDF else ("sdmx" if "sdmx" in fam else "semilocal"))
        de = abs(e1 - e0) / es
        vexp = U @ v0 @ U.T if nspin == 1 else np.stack([U @ x @ U.T for x in v0])
        dv = float(np.max(np.abs(v1 - vexp))) / vs
        det = {"op": name, "R": R.tolist(), "t": np.round(t, 6).tolist(), "order": order_, "dE": e1 - e0, "dv": dv}
        rec.check("energy_invariance[%s]" % name, de, TOL, mechanism=mech + ":energy", detail=det)
        rec.check("vmat_covariance[%s]" % name, dv, TOL, mechanism=mech + ":vmat", detail=det)
        df, nmatch = _match_features(c0 @ R.T + t, f0, c1, f1)
        if df is None:
            rec.note("grid_points_unmatched_%s" % name, nmatch)
            rec.require("grid_maps_onto_itself[%s]" % name, False, mechanism=mech + ":grid-points")
        else:
            # 1e-6: the Gaussian interpolation plan turns 1 ulp of rho into up to 1e-7 of a feature (DESIGN.md, C10 note);
            # the first bound, 1e-7, raised a false alarm in the thorough tier (1.05e-7); seeded changes give >= 4e-4
            rec.check("feature_invariance[%s]" % name, df, 1e-6, mechanism=mech + ":features", detail=det)
        moved = float(np.max(np.abs(dm2 - dm))) > 1e-3 or name == "translation"
        if ml_share >= 1e-3 and moved:
            rec.nontrivial("%s-%s" % (name, np.array2string(np.asarray(R, dtype=int).ravel(), separator="") if name == "octahedral" else ""))
        rec.tag("operation", name)
        if name == "octahedral":
            rec.tag("octahedral_det", int(round(np.linalg.det(R))))
        sample["ops"].append({"op": name, "dE_rel": de, "dv_rel": dv, "dfeat": df, "U_err": uerr})
    # arbitrary rotation: quadrature-limited; bound calibrated per level and must not grow with the level
    Rh = special_ortho_group.rvs(3, random_state=int(rng.integers(2 ** 31)))
    U = ao_representation(mol, Rh, rng)
    mol2 = moved_mol(mol, Rh, np.zeros(3))
    uerr = float(np.max(np.abs(U @ S0 @ U.T - mol2.intor("int1e_ovlp"))))
    if uerr < 1e-10:
        dm2 = transport(U)
        errs = {}
        for lev in (1, 3):
            ea = _evaluate(gen, cfg, rng, mol, model, dm, level=lev)[0]
            eb = _evaluate(gen, cfg, rng, mol2, model, dm2, level=lev)[0]
            errs[lev] = abs(ea - eb) / max(abs(ea), 0.02 * mol.nelectron)
        rec.check("haar_rotation_energy[level1]", errs[1], 1.5e-2, mechanism="rotation[haar]:energy-level1",
                  detail={"errs": errs})
        rec.check("haar_rotation_energy[level3]", errs[3], 3e-3, mechanism="rotation[haar]:energy-level3",
                  detail={"errs": errs})
        # The ratio err(level 3) / err(level 1) is recorded, not judged: it was an oracle at first (factor 1.5, then 3) and
        # raised false alarms in the thorough tier (seed 3: 2.7e-4 -> 1.2e-3, both inside the bounds above) - the error of one
        # random rotation is limited by the angular cut-off of the expansion as well as by the grid, so it is not monotone in
        # the level; the property does not state that it is.
        rec.note("haar_error_ratio_level3_over_level1", errs[3] / max(errs[1], 1e-300))
        rec.tag("operation", "haar")
        sample["haar"] = errs
        if ml_share >= 1e-3:
            rec.nontrivial("haar")
    rec.set_sample(sample)
