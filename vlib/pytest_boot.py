"""pytest plugin (-p vlib.pytest_boot): installs the monitored library loader before the repository's test modules import
the C libraries, so the repository's own tests run against the build selected by VERIF_VARIANT under the ctypes
boundary monitor."""
import os

from vlib import boot  # noqa: F401

if os.environ.get("VERIF_BOOT_STRICT"):
    boot.MODE["strict"] = True


def pytest_sessionfinish(session, exitstatus):
    import json
    import os
    path = os.environ.get("VERIF_PYTEST_SUMMARY")
    if path:
        with open(path, "w") as f:
            json.dump({"calls": boot.counters(), "nonfinite": boot.NONFINITE[:50], "strict": boot.STRICT_ERRORS[:50],
                       "exitstatus": int(exitstatus)}, f)
