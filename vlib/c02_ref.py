"""Reference quadrature for C02: direct numerical integration of the documented NLDF / SDMX feature integrals.

Nothing here uses the repository's auxiliary expansion, convolution or interpolation machinery.  The only repository
functions used are the pointwise exponent formulas ``get_cider_exponent`` / ``get_cider_exponent_gga`` (their own
formula is decided by C03 / C13), so that C02 isolates the integral machinery.

Quadrature: for every evaluation point r the integration grid is the union of
  * unpruned atom-centred grids (Treutler-Ahlrichs radial x Lebedev, from pyscf), shared by all evaluation points, and
  * a dedicated spherical product grid CENTRED ON r (log-spaced radial nodes, trapezoid in ln u, from 1e-2 of the
    shortest local length scale (kernel width, 1 / k_F, distance to the nearest nucleus) to 40 bohr, x Lebedev
    590 / 974, the innermost shells pruned to 50 / 194 points),
glued together by Becke's fuzzy-cell partition of unity over the natm + 1 centres (the evaluation point is a centre of
its own).  The atom-centred part resolves the nuclear cusps, the point-centred part resolves kernels that are narrow
around r (down to R -> 0 for SDMX); the partition weights sum to one at every point, so no approximation is made apart
from the quadrature itself.  Two resolutions are provided; their difference is the reference's self-error.

Measured on the pinned tree (H2O / def2-SVP, also for a strongly perturbed density): NLDF lo vs hi <= 4.5e-5 at the worst
point, 3e-6 .. 8e-6 RMS; lo vs a brute-force sum over an unpruned level-8 molecular grid (420 704 points) 2e-6 .. 8e-6
RMS.  SDMX: lo vs hi <= 1e-6 except within 0.02 bohr of a nucleus (1e-4 .. 6e-4 at 0.01 bohr: such points are not used);
the repository's fast path at lambda = 1.65 agrees with it to 1e-8 .. 1e-6.  Cost ~0.15 s (lo) / 0.35 s (hi) per
evaluation point for NLDF (all feature sets of one density share the grid), ~0.6 s / 2 s for SDMX.
"""
import math

import numpy as np

NH = (2 / math.pi) ** 1.5 * 4 / (4 - math.sqrt(2))  # prefactor of h(u; R), docs/features/sdmx.rst

RESOLUTIONS = {
    # name: (atomic nrad, atomic nang, ghost nrad, ghost nang)
    "lo": (60, 434, 70, 590),
    "hi": (90, 770, 105, 974),
}

_LEB = {}


def lebedev(n):
    if n not in _LEB:
        from pyscf.dft import LebedevGrid
        g = np.asarray(LebedevGrid.MakeAngularGrid(n))
        w = g[:, 3] / g[:, 3].sum() * 4 * math.pi
        _LEB[n] = (np.ascontiguousarray(g[:, :3]), w)
    return _LEB[n]


def _becke_step(mu):
    for _ in range(3):
        mu = mu * (1.5 - 0.5 * mu * mu)
    return mu


def _becke_products(dists, centres):
    """Unnormalised Becke cell functions P_A (3 iterations, no atomic-size adjustment); dists: (nc, n)."""
    nc = len(centres)
    P = np.ones_like(dists)
    for a in range(nc):
        for b in range(a + 1, nc):
            rab = np.linalg.norm(centres[a] - centres[b])
            f = _becke_step(np.clip((dists[a] - dists[b]) / rab, -1.0, 1.0))
            P[a] *= 0.5 * (1 - f)
            P[b] *= 0.5 * (1 + f)
    return P


class Reference:
    """Density-like quantities of one (molecule, density matrix) on the shared atomic grids, and per-point grids."""

    def __init__(self, mol, dm, res="lo"):
        """dm: the density matrix whose features are wanted (for a spin channel of an unrestricted calculation pass the
        spin-scaled matrix 2 * dm_sigma)."""
        from pyscf.dft import gen_grid, radi
        self.mol = mol
        self.dm = np.asarray(dm)
        self.res = res
        nrad, nang, self.g_nrad, self.g_nang = RESOLUTIONS[res]
        tabs = gen_grid.gen_atomic_grids(mol, atom_grid=(nrad, nang), radi_method=radi.treutler_ahlrichs, prune=None)
        self.atom_coords = mol.atom_coords(unit="Bohr")
        cs, ws, owner = [], [], []
        for ia in range(mol.natm):
            c, w = tabs[mol.atom_symbol(ia)]
            cs.append(c + self.atom_coords[ia])
            ws.append(w)
            owner.append(np.full(len(w), ia))
        self.a_coords = np.concatenate(cs)
        self.a_w0 = np.concatenate(ws)
        self.a_owner = np.concatenate(owner)
        self.a_ao = None
        self.a_rho = self._rho(self.a_coords)
        # distances of the atomic-grid points to every nucleus and the atom-atom part of the Becke cell functions
        self.a_dist = np.linalg.norm(self.a_coords[None, :, :] - self.atom_coords[:, None, :], axis=2)
        self.a_P = _becke_products(self.a_dist, self.atom_coords)

    # ---- density ingredients -----------------------------------------------------------------------------------
    def _rho(self, coords):
        """(rho, grad rho, tau) of self.dm at coords, shape (5, n)."""
        from pyscf.dft import numint
        out = np.empty((5, coords.shape[0]))
        for p0 in range(0, coords.shape[0], 40000):
            ao = numint.eval_ao(self.mol, coords[p0:p0 + 40000], deriv=1)
            out[:, p0:p0 + 40000] = numint.eval_rho(self.mol, ao, self.dm, xctype="MGGA", with_lapl=False)
        return out

    @staticmethod
    def exponent(rho5, params, level):
        """The repository's own exponent formula at (rho, sigma, tau); params = [a0, grad_mul(, tau_mul)]."""
        from ciderpress.dft import settings as st
        rho = np.ascontiguousarray(rho5[0])
        sigma = np.einsum("xg,xg->g", rho5[1:4], rho5[1:4])
        if level == "MGGA":
            return st.get_cider_exponent(rho, sigma, np.ascontiguousarray(rho5[4]), a0=params[0], grad_mul=params[1],
                                         tau_mul=params[2], nspin=1)[0]
        return st.get_cider_exponent_gga(rho, sigma, a0=params[0], grad_mul=params[1], nspin=1)[0]

    # ---- per-point integration grid ----------------------------------------------------------------------------
    def point_grid(self, r, ell, need_rho=True):
        """Integration grid for integrands singular / narrow only around r.  ell: shortest length scale of the
        integrand at r (the point-centred radial nodes start at 0.01 * min(ell, distance to the nearest nucleus)).
        Returns dict with coords, weights (Becke-partitioned), rho5 (5, n), disp = coords - r, dist."""
        r = np.asarray(r, dtype=float)
        nat = self.mol.natm
        dnuc = np.linalg.norm(self.atom_coords - r, axis=1)
        if dnuc.min() < 1e-7:
            # evaluation point on a nucleus: the atom's own grid is the point-centred grid
            w = self.a_w0 * self.a_P[self.a_owner, np.arange(len(self.a_w0))] / self.a_P.sum(axis=0)
            disp = self.a_coords - r
            return {"coords": self.a_coords, "w": w, "rho5": self.a_rho, "disp": disp,
                    "dist": np.linalg.norm(disp, axis=1), "n_atomic": len(w)}
        # ghost (point-centred) grid: log-spaced radii, trapezoid in t = ln u
        scale = min(ell, dnuc.min())
        umin = 1e-2 * scale
        umax = 40.0
        t = np.linspace(math.log(umin), math.log(umax), self.g_nrad)
        dt = t[1] - t[0]
        u = np.exp(t)
        wr = u ** 3 * dt
        wr[0] *= 0.5
        wr[-1] *= 0.5
        # the inner ball u < umin holds a fraction < (umin / ell)^3 ~ 1e-6 of any of the integrals: dropped
        # angular pruning of the innermost shells (integrands are low-order polynomials in the direction there)
        cg, wg = [], []
        for nang, lo, hi in ((50, 0.0, 0.04 * scale), (194, 0.04 * scale, 0.2 * scale), (self.g_nang, 0.2 * scale, 1e99)):
            m = (u >= lo) & (u < hi)
            if not m.any():
                continue
            dirs, wa = lebedev(nang)
            cg.append((u[m][:, None, None] * dirs[None, :, :]).reshape(-1, 3))
            wg.append((wr[m][:, None] * wa[None, :]).ravel())
        disp_g = np.concatenate(cg)
        w_g = np.concatenate(wg)
        c_g = disp_g + r
        dist_g = np.linalg.norm(disp_g, axis=1)
        # Becke partition over natm + 1 centres (the evaluation point is the last centre)
        centres = np.concatenate([self.atom_coords, r[None]], axis=0)
        dg = np.concatenate([np.linalg.norm(c_g[None, :, :] - self.atom_coords[:, None, :], axis=2), dist_g[None]], axis=0)
        Pg = _becke_products(dg, centres)
        wb_g = Pg[nat] / Pg.sum(axis=0)
        disp_a = self.a_coords - r
        dist_a = np.linalg.norm(disp_a, axis=1)
        Pa = self.a_P.copy()
        Pghost = np.ones(len(dist_a))
        for ia in range(nat):
            f = _becke_step(np.clip((self.a_dist[ia] - dist_a) / dnuc[ia], -1.0, 1.0))
            Pa[ia] *= 0.5 * (1 - f)
            Pghost *= 0.5 * (1 + f)
        wb_a = Pa[self.a_owner, np.arange(len(dist_a))] / (Pa.sum(axis=0) + Pghost)
        coords = np.concatenate([self.a_coords, c_g])
        w = np.concatenate([self.a_w0 * wb_a, w_g * wb_g])
        rho5 = np.concatenate([self.a_rho, self._rho(c_g)], axis=1) if need_rho else None
        return {"coords": coords, "w": w, "rho5": rho5, "disp": np.concatenate([disp_a, disp_g]),
                "dist": np.concatenate([dist_a, dist_g]), "n_atomic": len(dist_a)}

    def rho_at(self, pts):
        return self._rho(np.atleast_2d(np.asarray(pts, dtype=float)))


# -------------------------------------------------------------------------------------------------------------------
# NLDF integrands (docs/features/nldf.rst; se_ar2 / se_a2r4 / se_erf_rinv from the settings.py docstrings with the
# conventions pinned in checks/c13.py)

def _erf_rinv(x):
    from scipy.special import erf
    out = np.empty_like(x)
    sm = x < 1e-4
    out[sm] = 1.0 - x[sm] ** 2 / 3.0
    xl = x[~sm]
    out[~sm] = 0.5 * math.sqrt(math.pi) * erf(xl) / xl
    return out


def kernel_j(spec, ai, a0g, d2, erf_mul=None):
    """Version-j kernel at squared distance d2: ai = a_i(r) (scalar, OUTPUT point), a0g = a_0(r') on the grid."""
    e = np.exp(-(ai + a0g) * d2)
    if spec == "se":
        return e
    if spec == "se_ar2":
        return ai * d2 * e
    if spec == "se_a2r4":
        return (ai * d2) ** 2 * e
    if spec == "se_erf_rinv":
        return e * _erf_rinv(np.sqrt(erf_mul * ai * d2))
    raise ValueError(spec)


def kernel_i0(spec, a0g, d2):
    g = np.exp(-a0g * d2)
    if spec == "se":
        return g
    if spec == "se_r2":
        return d2 * g
    if spec == "se_apr2":
        return a0g * d2 * g
    if spec == "se_ap":
        return a0g * g
    if spec == "se_ap2r2":
        return a0g ** 2 * d2 * g
    if spec == "se_lapl":
        return (4 * a0g ** 2 * d2 - 2 * a0g) * g
    raise ValueError(spec)


def kernel_i1(spec, a0g, d2):
    """Scalar part of the vector kernels; the integrand is (r' - r) * this."""
    g = np.exp(-a0g * d2)
    if spec == "se_grad":
        return a0g * g
    if spec == "se_rvec":
        return g
    raise ValueError(spec)


def nldf_reference(ref, pts, descs):
    """Features of the documented integrals at the points pts (n, 3) for a list of feature-set descriptions.

    desc: dict(version, level, theta, rho_mult, j_specs, j_params, l0, l1, dots, k_params)
    Returns a list of (nfeat, n) arrays in the repository's feature order (j / k features, then l0, then dots)."""
    pts = np.atleast_2d(pts)
    rho_pts = ref.rho_at(pts)
    prep = []
    amax = np.zeros(len(pts))
    for desc in descs:
        ver, lev = desc["version"], desc["level"]
        has_i = ver in ("i", "ij")
        l0 = list(desc.get("l0") or []) if has_i else []
        l1 = list(desc.get("l1") or []) if has_i else []
        dots = [tuple(d) for d in (desc.get("dots") or [])] if has_i else []
        jspecs = list(desc.get("j_specs") or []) if ver in ("j", "ij") else []
        jparams = list(desc.get("j_params") or []) if ver in ("j", "ij") else list(desc.get("k_params") or []) if ver == "k" else []
        a0_pts = ref.exponent(rho_pts, desc["theta"], lev)
        ai_pts = [ref.exponent(rho_pts, p, lev) for p in jparams]
        amax = np.maximum(amax, a0_pts)
        for a in ai_pts:
            amax = np.maximum(amax, a)
        prep.append((desc, ver, lev, l0, l1, dots, jspecs, jparams, ai_pts,
                     np.zeros((len(jparams) + len(l0) + len(dots), len(pts)))))
    for ip, r in enumerate(pts):
        n_r = max(rho_pts[0, ip], 1e-12)
        ell = min((3 * math.pi ** 2 * n_r) ** (-1.0 / 3), 1.0 / math.sqrt(amax[ip]))
        g = ref.point_grid(r, ell)
        rho5 = g["rho5"]
        d2 = g["dist"] ** 2
        a0_cache = {}
        for desc, ver, lev, l0, l1, dots, jspecs, jparams, ai_pts, out in prep:
            key = (lev, tuple(desc["theta"]))
            if key not in a0_cache:
                a0_cache[key] = ref.exponent(rho5, desc["theta"], lev)
            a0g = a0_cache[key]
            wf = g["w"] * rho5[0] * (a0g if desc["rho_mult"] == "expnt" else 1.0)
            k = 0
            if ver in ("j", "ij"):
                for spec, p, ai in zip(jspecs, jparams, ai_pts):
                    out[k, ip] = np.dot(wf, kernel_j(spec, ai[ip], a0g, d2, erf_mul=p[-1] if spec == "se_erf_rinv" else None))
                    k += 1
            elif ver == "k":
                for ai in ai_pts:
                    out[k, ip] = np.dot(wf, np.exp(-ai[ip] * d2 - 1.5 * a0g / ai[ip]))
                    k += 1
            for spec in l0:
                out[k, ip] = np.dot(wf, kernel_i0(spec, a0g, d2))
                k += 1
            vecs = {-1: rho_pts[1:4, ip]}
            for i1, spec in enumerate(l1):
                vecs[i1] = g["disp"].T @ (wf * kernel_i1(spec, a0g, d2))
            for (a, b) in dots:
                out[k, ip] = float(np.dot(vecs[a], vecs[b]))
                k += 1
    return [p[-1] for p in prep]


# -------------------------------------------------------------------------------------------------------------------
# SDMX (docs/features/sdmx.rst)

def _h_family(u, R):
    """h, dh/dR, (dh/du)/u, d/dR[(dh/du)/u] at distances u (array) for one R."""
    x2 = (u / R) ** 2
    e1 = np.exp(-2 * x2)
    e2 = e1 * e1
    h = NH / R ** 3 * (e1 - e2)
    hR = NH / R ** 4 * (-3 * (e1 - e2) + 4 * x2 * e1 - 8 * x2 * e2)
    hu = NH / R ** 5 * (-4 * e1 + 8 * e2)  # (dh/du) / u
    huR = NH / R ** 6 * (20 * e1 - 40 * e2 - 16 * x2 * e1 + 64 * x2 * e2)
    return h, hR, hu, huR


def sdmx_profiles(ref, pts, Rgrid_fn):
    """rho0(R), d rho0/dR, rho1(R) (3-vector), d rho1/dR for every point.

    Returns list over points of dict(R, rho0, rho0d, rho1 (3, nR), rho1d (3, nR), n)."""
    from pyscf.dft import numint
    pts = np.atleast_2d(pts)
    if ref.a_ao is None:
        ref.a_ao = np.concatenate([numint.eval_ao(ref.mol, ref.a_coords[p0:p0 + 40000], deriv=0)
                                   for p0 in range(0, len(ref.a_coords), 40000)])
    ao_pts = numint.eval_ao(ref.mol, pts, deriv=0)
    dphi = ao_pts @ ref.dm  # (n, nao): (D phi(r))_mu
    rho_pts = np.einsum("pi,pi->p", dphi, ao_pts)
    res = []
    for ip, r in enumerate(pts):
        n_r = max(rho_pts[ip], 1e-12)
        ell = (3 * math.pi ** 2 * n_r) ** (-1.0 / 3)
        R = Rgrid_fn(ell)
        g = ref.point_grid(r, 5.0 * R[0], need_rho=False)
        na = g["n_atomic"]
        n1 = np.empty(len(g["w"]))
        n1[:na] = ref.a_ao @ dphi[ip]
        if len(g["w"]) > na:
            for p0 in range(na, len(g["w"]), 40000):
                n1[p0:p0 + 40000] = numint.eval_ao(ref.mol, g["coords"][p0:p0 + 40000], deriv=0) @ dphi[ip]
        wn = g["w"] * n1
        # only points within reach of h matter for a given R: h ~ exp(-2 u^2 / R^2)
        u = g["dist"]
        order = np.argsort(u)
        u_s = u[order]
        wn_s = wn[order]
        dv_s = (g["disp"][order] * wn_s[:, None]).T  # (3, n): (r' - r) w n1
        rho0 = np.empty(len(R))
        rho0d = np.empty(len(R))
        rho1 = np.empty((3, len(R)))
        rho1d = np.empty((3, len(R)))
        for iR, Rv in enumerate(R):
            m = int(np.searchsorted(u_s, 4.6 * Rv))  # exp(-2 * 4.6^2) = 4e-19
            h, hR, hu, huR = _h_family(u_s[:m], Rv)
            rho0[iR] = np.dot(wn_s[:m], h)
            rho0d[iR] = np.dot(wn_s[:m], hR)
            # grad_r h(|r' - r|; R) = -(dh/du) (r' - r)/u
            rho1[:, iR] = -(dv_s[:, :m] @ hu)
            rho1d[:, iR] = -(dv_s[:, :m] @ huR)
        res.append({"R": R, "rho0": rho0, "rho0d": rho0d, "rho1": rho1, "rho1d": rho1d, "n": float(rho_pts[ip])})
    return res


def log_R_grid(nR, lo=0.01, hi=80.0):
    def fn(ell):
        return np.exp(np.linspace(math.log(lo * ell), math.log(hi), nR))
    return fn


def _trapz_log(R, f, small_R_power=None):
    """int_0^inf f(R) dR for samples on a log-uniform grid: trapezoid in t = ln R plus the analytic inner piece
    int_0^R0 when f ~ R^p there."""
    t = np.log(R)
    dt = t[1] - t[0]
    y = f * R
    s = dt * (np.sum(y) - 0.5 * (y[0] + y[-1]))
    if small_R_power is not None:
        s += f[0] * R[0] / (small_R_power + 1.0)
        s += dt * dt / 12.0 * (small_R_power + 1.0) * y[0]  # Euler-Maclaurin end correction, dy/dt = (p + 1) y at R0
    return s


def sdmx_feature(prof, j, family, prefac=-0.25):
    """prefac * 4 pi int dR R^p |.|^2 for family in '0', '0d', '1', '1d' (docs/features/sdmx.rst)."""
    R = prof["R"]
    if family == "0":
        f = R ** (2.0 - j) * prof["rho0"] ** 2
        p = 2.0 - j
    elif family == "0d":
        f = R ** (4.0 - j) * prof["rho0d"] ** 2
        p = 6.0 - j  # d rho0/dR ~ R
    elif family == "1":
        f = R ** (4.0 - j) * np.sum(prof["rho1"] ** 2, axis=0)
        p = 4.0 - j
    elif family == "1d":
        f = R ** (6.0 - j) * np.sum(prof["rho1d"] ** 2, axis=0)
        p = 8.0 - j
    else:
        raise ValueError(family)
    return prefac * 4 * math.pi * _trapz_log(R, f, small_R_power=p)


def _shifted(t, g, sh, small_power):
    """g(t - sh), g(t + sh) for samples g on the uniform grid t = ln R (cubic spline; beyond the sampled range
    g ~ R^small_power for R -> 0 and 0 for R -> inf)."""
    from scipy.interpolate import CubicSpline
    cs = CubicSpline(t, g)
    lo = np.where(t - sh >= t[0], cs(np.maximum(t - sh, t[0])), g[0] * np.exp(small_power * (t - sh - t[0])))
    hi = np.where(t + sh <= t[-1], cs(np.minimum(t + sh, t[-1])), 0.0)
    return lo, hi


def sdmx_cross_feature(prof, j, family, ratio, prefac=-0.25):
    """SDMXFullSettings cross term (not documented; convention of checks/c13.py extended to l = 1):
    prefac * 4 pi int dR R^p g(R / sqrt(ratio)) . g(R sqrt(ratio)) with g = rho0, d rho0/dR (chain-rule factors of the
    two arguments cancel) or the vector rho1."""
    R = prof["R"]
    t = np.log(R)
    sh = 0.5 * math.log(ratio)
    if family == "0":
        lo, hi = _shifted(t, prof["rho0"], sh, 0.0)
        f, pw, sp = lo * hi, 2.0 - j, 2.0 - j
    elif family == "0d":
        lo, hi = _shifted(t, prof["rho0d"], sh, 1.0)
        f, pw, sp = lo * hi, 4.0 - j, 6.0 - j
    elif family == "1":
        f = 0.0
        for x in range(3):
            lo, hi = _shifted(t, prof["rho1"][x], sh, 0.0)
            f = f + lo * hi
        pw, sp = 4.0 - j, 4.0 - j
    else:
        raise ValueError(family)
    return prefac * 4 * math.pi * _trapz_log(R, R ** pw * f, small_R_power=sp)
