"""C05 - every reverse-mode operator is the exact adjoint of its forward operator.

Oracle (DESIGN.md section 5, C05): the dot-product test
    |<A x, y> - <x, B y>| <= 1e-12 * (|A x||y| + |x||B y|)
with random x, y of the operators' exact shapes, called on the Python wrappers of every forward/backward
pair of the nonlocal-feature pipeline, with the real index structures of a molecule / grid:

 reduce_angc_ylm_             AtomicGridsIndexer.reduce_angc_ylm_(a2y=True) vs (a2y=False), incl. offset / stride > nalpha
 convert_rad2orb_             ATCBasis.convert_rad2orb_(rad2orb=True) vs (False) for atco_inp, atco_out and the l-1 basis of
                              the interpolator; zero_output=True (garbage in the output must be ignored) and =False (+=)
 multiply_atc_integrals       ConvolutionCollection(.K).multiply_atc_integrals(fwd=True) vs (fwd=False); zeroed and
                              pre-filled outputs (the C routine accumulates)
 conv2spline/spline2conv      orbital basis <-> radial spline coefficients incl. fill_l1_coeff_fwd/bwd
 interpolate_fwd/bwd          spline coefficients <-> grid incl. add_lp1_term_fwd/bwd
 project_orb2grid/grid2orb    the full orbital <-> grid projection incl. the onsite-direct terms (add_lp1_onsite_new_*)
 get_transformed_interpolation_terms   plan transform fwd=True vs fwd=False, i = -1, 0, ..; gaussian / spline plans;
                              coef_order gq and qg; inplace True/False; strided views as the generator passes them
 _perform_fwd/_bwd_convolution  the composite of all of the above exactly as LCAONLDFGenerator chains them
 SDMX _contract_ao_to_bas / _contract_ao_to_bas_bwd (l0 and l1 variants), contract_shl_to_alpha_l1(_bwd), and the full
 quadratic feature map F(dm): <dF/d dm [D], w> with dF[D] = (F(dm+D) - F(dm-D))/2 (exact, F is quadratic) versus
 <D, V + V^T>, V = get_vxc_(0, w) (the integrator applies hermi_sum to what get_vxc_ accumulates).

Rounding-noise guard.  The composite with a Gaussian plan contains two Cholesky solves with the exponent-overlap
matrix (cond 6e4 / 7e5 / 4e7 for aux_lambd 2.0 / 1.8 / 1.6) and the inverse-overlap-weighted convolution tensors: its
dot test has a *measured* floor of 2e-13 / 8e-11 / 6e-8 (random x, y; 1e-15 .. 1e-11 with quadrature-weighted x, y)
although every stage pair is adjoint to <= 5e-17 and the composite is bitwise the product of the stages.  Whenever the
plain mismatch exceeds the tolerance, the rounding self-error of the two sides is measured by re-evaluating them on
inputs rescaled by 1.1, 0.7, 1.3, 0.9 (exactly the same linear map, re-sampled rounding); the sub-case is a violation only
if the mismatch exceeds 1e-12 * scale + 100 x that self-error, otherwise it is recorded under "<pair>[noise-limited]" and
not counted as non-trivial.  (Same discipline as the FD self-error guard.)  Consequently the oracle
"_perform_fwd/_bwd_convolution" reports plain values up to just below 1e-12 and everything above in the noise-limited
bin (about 6 % of the composite draws, all with Gaussian plans and lambda <= 1.8); a wrong direction flag in the backward
composite is still detected in every Gaussian configuration including lambda = 1.6 (self-test).  All other pairs have
measured floors <= 1.3e-14 (plan transform at lambda 1.6) and <= 1.4e-15 (SDMX feature map), i.e. never reach the guard.
"""
import ctypes
import os
import re

import numpy as np

from vlib.oracles import adjoint_mismatch, rng_for

PROPERTY = "C05"
PROP_NO = 5
RULE = ("case = one configuration: (molecule with 1/2/3/4/5 atoms, AO basis, grid level 0-1, pruning) x NLDF version j/i/ij/k x "
        "GGA/MGGA x plan gaussian/spline x interpolator onsite_direct/onsite_spline/train_gen x aux_lambd 1.6/1.8/2.0 x aux lmax "
        "2/4/6/10 x OMP threads 1/3/16 (plus plan-only cases for coef_order gq/qg, SDMX settings x basis x block size, and "
        "generators taken from a real PySCF calculator); per pair 2-8 random (x, y) of the operators' exact shapes incl. random "
        "offset/stride and zeroed / pre-filled outputs; a sub-case is non-trivial when |Ax| > 0, |By| > 0, everything is finite "
        "and the plain dot test is conclusive at 1e-12 (not noise-limited); distinct = distinct (case, pair, variant, draw)")
MIN_NONTRIVIAL = {"quick": 1500, "thorough": 20000}
ASSUMPTIONS = [
    "operators are called with the argument conventions of LCAONLDFGenerator._perform_fwd/_bwd_convolution and "
    "EXXSphGenerator.get_features/get_vxc_ (C-contiguous float64, zeroed accumulation buffers unless stated)",
    "scratch columns of the l+1 terms (last n1 columns of f_gq) are outputs of neither direction: forward leaves zeros, "
    "backward ignores and overwrites them in its (copied) input",
    "SDMX get_vxc_ returns half of the gradient; the integrator's hermi_sum supplies the transpose (V + V^T is compared)",
    "tolerance 1e-12 on |<Ax,y>-<x,By>|/(|Ax||y|+|x||By|); measured floors over seeds 0-4 / both tiers: NLDF stage pairs "
    "<= 5e-17, plan transform <= 1.3e-14 (Cholesky solve, cond 4e7 at lambda 1.6), SDMX contraction <= 5e-17, SDMX feature map "
    "<= 1.4e-15, composite 1e-20..6e-8 (conditioning of the Gaussian plan) -> rounding-noise guard, see module docstring",
    "grids indexer lmax is the package default 10 (other values cannot be built, see C19); aux-basis lmax is varied",
]
REQUIRED_CALLS = [
    "libmcider.reduce_angc_to_ylm", "libmcider.reduce_ylm_to_angc",
    "libmcider.contract_rad_to_orb", "libmcider.contract_orb_to_rad",
    "libmcider.multiply_atc_integrals", "libmcider.multiply_atc_integrals_vk",
    "libmcider.project_conv_to_spline", "libmcider.project_spline_to_conv",
    "libmcider.fill_l1_coeff_fwd", "libmcider.fill_l1_coeff_bwd",
    "libmcider.compute_mol_convs_single_new", "libmcider.compute_pot_convs_single_new",
    "libmcider.add_lp1_term_fwd", "libmcider.add_lp1_term_bwd",
    "libmcider.add_lp1_onsite_new_fwd", "libmcider.add_lp1_onsite_new_bwd",
    "libmcider.SDMXcontract_ao_to_bas", "libmcider.SDMXcontract_ao_to_bas_bwd",
    "libmcider.SDMXcontract_ao_to_bas_l1", "libmcider.SDMXcontract_ao_to_bas_l1_bwd",
    "libmcider.contract_shl_to_alpha_l1", "libmcider.contract_shl_to_alpha_l1_bwd",
]

# Worker environment (the runner copies os.environ when it spawns workers; wall-clock is never a verdict, this only
# keeps the 16-thread cases affordable): the OpenMP regions of libmcider call BLAS per thread, so BLAS itself stays
# single-threaded (no nested 16 x 16 oversubscription), and idle OpenMP threads sleep instead of spinning.
os.environ.setdefault("OPENBLAS_NUM_THREADS", "1")
os.environ.setdefault("OMP_WAIT_POLICY", "PASSIVE")

TOL = 1e-12
NOISE_FACTOR = 100.0
PROBE_SCALES = (1.1, 0.7, 1.3, 0.9)

# 5-atom, three-element molecule (gen.MOLS stops at 4 atoms)
EXTRA_MOLS = {
    "CH3F": ([("C", (0.0, 0.0, 0.0)), ("F", (0.0, 0.0, 1.383)), ("H", (1.03, 0.0, -0.36)),
              ("H", (-0.515, 0.892, -0.36)), ("H", (-0.515, -0.892, -0.36))], 0, 0),
    "CH4": ([("C", (0.0, 0.0, 0.0)), ("H", (0.629, 0.629, 0.629)), ("H", (-0.629, -0.629, 0.629)),
             ("H", (-0.629, 0.629, -0.629)), ("H", (0.629, -0.629, -0.629))], 0, 0),
    "HCl": ([("H", (0.0, 0.0, 0.0)), ("Cl", (0.0, 0.0, 1.275))], 0, 0),
}
NATM = {"HCl": 2, "He": 1, "Li": 1, "H2": 2, "LiH": 2, "HF": 2, "H2O": 3, "HOF": 3, "NH2": 3, "NH3": 4, "H2O2": 4, "CH3F": 5, "CH4": 5}


# ---------------------------------------------------------------------------------------------
# case generation

def _nldf_cfgs(tier, rng):
    vers = [("j", "MGGA"), ("i", "MGGA"), ("ij", "MGGA"), ("k", "MGGA"), ("j", "GGA"), ("i", "GGA"), ("ij", "GGA"), ("k", "GGA")]
    mols = ["He", "HF", "H2O", "CH3F", "LiH", "HOF", "NH3", "CH4", "Li", "H2O2"]
    interps = ["onsite_direct", "onsite_spline"] if tier == "quick" else ["onsite_direct", "onsite_spline", "train_gen"]
    lams = [1.8, 1.6, 2.0]
    lmaxs = [10, 6, 4, 2, 10, 6]
    # the runner gives a 16-thread worker the whole machine, i.e. those cases run one after the other: keep them ~5 %
    threads = [1, 3, 1, 16, 1, 3, 1, 3, 1, 1, 1, 3, 1, 1, 3, 1, 1, 3, 1, 1] if tier == "thorough" else [1, 3, 16, 1, 3, 1]
    nrep = 5 if tier == "quick" else 70
    cfgs = []
    n = 0
    for rep in range(nrep):
        for iv, (ver, lvl) in enumerate(vers):
            # stratified: every axis cycles with a different period, offsets drawn per repetition
            c = dict(kind="nldf", ver=ver, sl=lvl)
            c["mol"] = mols[(n * 3 + rep) % len(mols)] if rep else mols[iv % 4]
            c["plan"] = ["gaussian", "spline"][(n + rep // 2) % 2]
            c["interp"] = interps[(n + rep) % len(interps)]
            c["lam"] = lams[(n + rep // 3) % 3]
            c["lmax"] = lmaxs[(n + rep) % len(lmaxs)]
            c["level"] = int((n // 2 + rep) % 2)
            c["basis"] = ["6-31g", "6-31g", "def2-svp", "sto-3g"][int(rng.integers(4))]
            c["prune"] = "nwchem" if rng.random() < 0.8 else None
            c["threads"] = threads[n % len(threads)]
            if NATM[c["mol"]] >= 4 and c["lmax"] == 10 and c["level"] == 1:
                c["level"] = 0  # keep the largest spline tensors (natm x 200 x 121 x 4 x nq) affordable
            cfgs.append(c)
            n += 1
    if tier == "quick":
        # one train_gen configuration per l1 / non-l1 family also in the quick tier
        cfgs.append(dict(kind="nldf", ver="ij", sl="MGGA", mol="HF", plan="gaussian", interp="train_gen", lam=1.8, lmax=6,
                         level=0, basis="6-31g", prune="nwchem", threads=3))
        cfgs.append(dict(kind="nldf", ver="k", sl="GGA", mol="H2O", plan="spline", interp="train_gen", lam=2.0, lmax=4,
                         level=0, basis="6-31g", prune="nwchem", threads=1))
    return cfgs


def _plan_cfgs(tier):
    out = []
    for ver, lvl in [("j", "MGGA"), ("ij", "GGA"), ("k", "MGGA"), ("i", "MGGA")]:
        for plan in ("gaussian", "spline"):
            for order in ("gq", "qg"):
                lams = [1.6, 1.8, 2.0] if tier == "thorough" else [[1.6, 1.8, 2.0][(len(out)) % 3]]
                for lam in lams:
                    out.append(dict(kind="plan", ver=ver, sl=lvl, plan=plan, order=order, lam=lam, threads=1))
    if tier == "thorough":
        out = out + [dict(c, rep=1) for c in out if c["plan"] == "gaussian"]
    return out


def _dense_cfgs(tier):
    """Stand-alone interpolators on user coordinates packed into a thin shell around one atom: 10^4 - 4x10^4 points in one
    or two radial spline intervals (molecular grids of small systems put at most a few thousand there)."""
    out = []
    n = 2 if tier == "quick" else 10
    for i in range(n):
        out.append(dict(kind="dense", mol=["HF", "H2O"][i % 2], npts=[30000, 12000, 40000, 9001, 17000][i % 5],
                        r0=[2.0, 0.7, 4.5][i % 3], width=[0.05, 0.02, 0.2][(i // 2) % 3], lmax=[3, 2, 4][i % 3],
                        n0n1=[(3, 1), (2, 0), (4, 0), (1, 1)][i % 4], atom=i % 2, threads=[3, 1, 7, 16][i % 4]))
    return out


def _sdmx_cfgs(tier, rng):
    kinds = ["sdmx", "sdmxg", "sdmx1", "sdmxg1", "sdmxfull"]
    mols = ["HF", "H2O", "He", "NH3", "LiH", "CH3F", "HOF", "H2O2"]
    bases = ["6-31g", "cc-pvdz", "def2-svp", "sto-3g"]
    threads = [1, 3, 1, 16, 3, 1] if tier == "quick" else [1, 3, 1, 16, 3, 1, 1, 3, 1, 1, 3, 1]
    nrep = 2 if tier == "quick" else 24
    out = []
    n = 0
    for rep in range(nrep):
        for kind in kinds:
            c = dict(kind="sdmx", skind=kind, mol=mols[(n + rep) % len(mols)], basis=bases[(n + rep // 2) % len(bases)],
                     nspin=1 + (n % 2), threads=threads[n % len(threads)])
            if NATM[c["mol"]] >= 4 and c["basis"] in ("cc-pvdz", "def2-svp") and kind == "sdmxfull":
                c["basis"] = "6-31g"
            if n % 4 == 3:
                # general contractions with l >= 1 (several radial functions per p / d shell): second-row cc-pVDZ, Roos ANO
                c["mol"], c["basis"] = [("HCl", "cc-pvdz"), ("H2O", "roos-dz"), ("HF", "roos-dz")][(n // 4) % 3]
            # block of grid points as the integrator passes them: usually several hundred, sometimes tiny / odd sizes
            c["ngrid"] = int(rng.choice([5, 17, 127, 300, 513, 800, 1200], p=[0.06, 0.06, 0.1, 0.28, 0.2, 0.2, 0.1]))
            out.append(c)
            n += 1
    return out


def _ks_cfgs(tier):
    base = [
        dict(family="vj-mgga", spin="rks", mol="H2O", plan_type="gaussian", interp="onsite_direct", aux_lambd=1.8),
        dict(family="vij-gga", spin="uks", mol="NH2", plan_type="spline", interp="onsite_spline", aux_lambd=2.0),
        dict(family="vj+sdmx", spin="rks", mol="HF", plan_type="spline", interp="onsite_direct", aux_lambd=1.8),
        dict(family="sdmxg1", spin="uks", mol="NH2"),
    ]
    if tier == "thorough":
        more = []
        for fam in ["vi-mgga", "vk-gga", "vij-mgga", "vk-mgga", "vj-gga", "vi-gga", "sdmx", "sdmx1", "sdmxg"]:
            for spin, mol in (("rks", "HF"), ("uks", "NH2")):
                c = dict(family=fam, spin=spin, mol=mol)
                if fam.startswith("v"):
                    c.update(plan_type=["gaussian", "spline"][len(more) % 2], interp=["onsite_direct", "onsite_spline"][(len(more) // 2) % 2],
                             aux_lambd=[1.6, 1.8, 2.0][len(more) % 3])
                more.append(c)
        base = base + more
    out = []
    for i, c in enumerate(base):
        c = dict(c)
        c.update(basis="6-31g", level=i % 2, mode="SEP", evaluator="rbf", mix="pure", model="xc1")
        out.append(dict(kind="ks", cfg=c, threads=[3, 1][i % 2]))
    return out


def _weight(c):
    if c["kind"] == "nldf":
        w = NATM[c["mol"]] * (c["lmax"] + 1) ** 2 / 121.0 * (1 + c["level"]) * (1.5 if c["ver"] in ("j", "ij") else 1.0)
        return 0.5 + w
    if c["kind"] == "sdmx":
        return 0.5 + NATM[c["mol"]] * c["ngrid"] / 1000.0 * (2 if c["skind"] == "sdmxfull" else 1)
    if c["kind"] == "ks":
        return 3.0
    if c["kind"] == "dense":
        return 2.0
    return 0.3


def gen_cases(tier, seed):
    rng = rng_for(seed, PROP_NO, 0)
    cfgs = _nldf_cfgs(tier, rng) + _plan_cfgs(tier) + _sdmx_cfgs(tier, rng) + _ks_cfgs(tier) + _dense_cfgs(tier)
    cases = []
    itag = {"onsite_direct": "dir", "onsite_spline": "spl", "train_gen": "tg"}
    for i, c in enumerate(cfgs):
        if c["kind"] == "nldf":
            name = "nldf-%s-v%s%s-%s-%s-l%.1f-L%d" % (c["mol"], c["ver"], c["sl"][0], c["plan"][:3], itag[c["interp"]], c["lam"], c["lmax"])
        elif c["kind"] == "plan":
            name = "plan-v%s-%s-%s-l%.1f%s" % (c["ver"], c["plan"][:3], c["order"], c["lam"], "-r1" if c.get("rep") else "")
        elif c["kind"] == "sdmx":
            name = "sdmx-%s-%s-%s-n%d" % (c["skind"], c["mol"], c["basis"], c["ngrid"])
        elif c["kind"] == "dense":
            name = "dense-%s-n%d-r%.1f-L%d" % (c["mol"], c["npts"], c["r0"], c["lmax"])
        else:
            name = "ks-%s-%s-%s" % (c["cfg"]["family"], c["cfg"]["spin"], c["cfg"]["mol"])
        cases.append({"id": "c%04d-%s" % (i, name), "cfg": c, "seed": seed, "idx": 100 + i, "_threads": c["threads"],
                      "_weight": _weight(c), "_timeout": 1500})
    # a small subset again under ASan+UBSan (stride / offset mistakes that leave the array show there)
    nasan = ({"nldf": 4, "plan": 1, "sdmx": 3, "ks": 0, "dense": 0} if tier == "quick"
             else {"nldf": 24, "plan": 4, "sdmx": 12, "ks": 2, "dense": 1})
    chosen = []
    count = {k: 0 for k in nasan}
    classes = set()
    for prefer_new in (True, False):
        for cs in cases:
            c = cs["cfg"]
            k = c["kind"]
            if count[k] >= nasan[k] or cs in chosen:
                continue
            if k == "nldf" and (NATM[c["mol"]] > 3 or c["lmax"] > 6):
                continue
            if k == "sdmx" and (NATM[c["mol"]] > 3 or c["ngrid"] > 600):
                continue
            cl = (k, c.get("ver"), c.get("skind"), c.get("interp"))
            if prefer_new and cl in classes:
                continue
            classes.add(cl)
            count[k] += 1
            chosen.append(cs)
    extra = []
    for cs in chosen:
        a = dict(cs)
        a["id"] = cs["id"] + "-asan"
        a["idx"] = cs["idx"] + 50000
        a["_variant"] = "asan"
        a["_threads"] = 3
        a["_weight"] = 3 * cs["_weight"]
        extra.append(a)
    return cases + extra


# ---------------------------------------------------------------------------------------------
# the oracle

class _Ctx:
    """Per-case bookkeeping: worst observation per pair, sub-case numbering."""

    def __init__(self, rec, rng):
        self.rec = rec
        self.rng = rng
        self.worst = {}
        self.n = {}
        self.example = {}
        self.noise_limited = 0


def _finite(a):
    return bool(np.all(np.isfinite(a)))


def _pair(ctx, name, mech, fwd, bwd, x, y, variant=""):
    """Dot test of one (x, y) draw.  fwd(x) -> A x and bwd(y) -> B y must not modify their arguments and must return
    arrays of the shapes of y and x.  Returns True when the sub-case passed."""
    rec = ctx.rec
    x0, y0 = x.copy(), y.copy()
    Ax = np.asarray(fwd(x))
    By = np.asarray(bwd(y))
    label = name
    rec.tag("pair_variant", name + (("[%s]" % variant) if variant else ""))
    if not (np.array_equal(x, x0) and np.array_equal(y, y0)):
        raise RuntimeError("harness error: operator closure modified its argument (%s)" % label)
    if Ax.shape != y.shape or By.shape != x.shape:
        rec.require(label + ":shape", False, mechanism=mech.replace(":adjoint", ":shape"),
                    detail={"Ax": Ax.shape, "y": y.shape, "By": By.shape, "x": x.shape})
        return False
    if not rec.require(label + ":finite", _finite(Ax) and _finite(By), mechanism=mech.replace(":adjoint", ":nonfinite")):
        return False
    obs, lhs, rhs = adjoint_mismatch(Ax, y, x, By)
    nax, nby = float(np.linalg.norm(Ax)), float(np.linalg.norm(By))
    den = nax * float(np.linalg.norm(y)) + float(np.linalg.norm(x)) * nby
    k = ctx.n[label] = ctx.n.get(label, 0) + 1
    detail = {"lhs": lhs, "rhs": rhs, "|Ax|": nax, "|By|": nby, "variant": variant}
    if obs <= TOL:
        rec.check(label, obs, TOL, mechanism=mech, detail=detail)
        if nax > 0 and nby > 0:
            rec.nontrivial("%s|%s|%d" % (label, variant, k))
        if obs >= ctx.worst.get(label, -1.0):
            ctx.worst[label] = obs
            ctx.example[label] = {"lhs": lhs, "rhs": rhs, "normalised_mismatch": obs}
        return True
    # rounding self-error of the two sides: same linear maps on rescaled inputs
    nl, nr = 0.0, 0.0
    for s in PROBE_SCALES:
        ls = float(np.vdot(np.ravel(np.asarray(fwd(x * s))), np.ravel(y))) / s
        rs = float(np.vdot(np.ravel(x), np.ravel(np.asarray(bwd(y * s))))) / s
        nl = max(nl, abs(ls - lhs))
        nr = max(nr, abs(rs - rhs))
    noise = nl + nr
    eff = abs(lhs - rhs) / (den + NOISE_FACTOR * noise / TOL) if den > 0 else float("nan")
    detail.update({"plain_normalised_mismatch": obs, "rounding_self_error_lhs": nl, "rounding_self_error_rhs": nr})
    if eff <= TOL:
        ctx.noise_limited += 1
        rec.check(label + "[noise-limited]", eff, TOL, mechanism=mech, detail=detail)
        rec.tag("noise_limited", name)
        rec.note("noise_limited_plain_max[%s]" % label, max(obs, rec.notes.get("noise_limited_plain_max[%s]" % label, 0.0)))
        return True
    rec.check(label, obs, TOL, mechanism=mech, detail=detail)
    return False


def _randn(rng, shape):
    return rng.standard_normal(size=shape)


# ---------------------------------------------------------------------------------------------
# NLDF pipeline pairs

def _mol(cfg, rng):
    from vlib import gen
    name = cfg["mol"]
    if name in EXTRA_MOLS:
        atoms, spin, charge = EXTRA_MOLS[name]
        return gen.make_mol(None, cfg.get("basis", "6-31g"), rng, jitter=0.03, atoms=atoms, spin=spin, charge=charge)
    return gen.make_mol(name, cfg.get("basis", "6-31g"), rng, jitter=0.03)


def _build_generator(cfg, rng):
    from pyscf.dft import gen_grid

    from ciderpress.pyscf.gen_cider_grid import CiderGrids
    from ciderpress.pyscf.nldf_convolutions import PyscfNLDFGenerator
    from vlib import gen
    mol = _mol(cfg, rng)
    grids = CiderGrids(mol)
    grids.level = cfg["level"]
    grids.prune = gen_grid.nwchem_prune if cfg.get("prune", "nwchem") == "nwchem" else None
    grids.build(with_non0tab=False)
    st = gen.nldf_settings(cfg["ver"], rng, level=cfg["sl"], rho_mult="one" if rng.random() < 0.7 else "expnt")
    g = PyscfNLDFGenerator.from_mol_and_settings(mol, grids.grids_indexer, 1, st, plan_type=cfg["plan"], aux_lambd=cfg["lam"],
                                                 interpolator_type=cfg["interp"], lmax=cfg["lmax"])
    g.interpolator.set_coords(grids.coords)  # as NLDFNumInt.initialize_feature_generators does
    return mol, grids, g


def _test_reduce(ctx, ind, nal, nrep):
    rng = ctx.rng
    mech = "reduce_angc_ylm_:adjoint"
    ng = ind.ngrids
    for r in range(nrep):
        q = int([nal, 1, 3, nal][r % 4])
        stride = q + int(rng.choice([0, 0, 1, 4]))
        off = int(rng.integers(0, stride - q + 1))
        gx = _randn(rng, (ng, stride))
        gy = _randn(rng, (ng, stride))
        state = {"ok_cols": True, "ok_in": True}

        def fwd(xw):
            full = gx.copy()
            full[:, off:off + q] = xw
            ref = full.copy()
            out = _randn(rng, (ind.nrad, ind.nlm, q))  # documented: overwritten, need not be initialised
            ind.reduce_angc_ylm_(out, full, a2y=True, offset=off)
            state["ok_in"] = state["ok_in"] and np.array_equal(full, ref)
            return out

        def bwd(yy):
            full = gy.copy()
            yin = yy.copy()
            ind.reduce_angc_ylm_(yin, full, a2y=False, offset=off)
            mask = np.ones(stride, bool)
            mask[off:off + q] = False
            state["ok_cols"] = state["ok_cols"] and np.array_equal(full[:, mask], gy[:, mask])
            state["ok_in"] = state["ok_in"] and np.array_equal(yin, yy)
            return full[:, off:off + q].copy()

        _pair(ctx, "reduce_angc_ylm_", mech, fwd, bwd, _randn(rng, (ng, q)), _randn(rng, (ind.nrad, ind.nlm, q)),
              variant="offset/stride" if stride > q else "")
        ctx.rec.require("reduce_angc_ylm_:window", state["ok_cols"], mechanism="reduce_angc_ylm_:writes-outside-offset-window",
                        detail={"stride": stride, "offset": off, "nalpha": q})
        ctx.rec.require("reduce_angc_ylm_:input", state["ok_in"], mechanism="reduce_angc_ylm_:modifies-input")


def _test_rad2orb(ctx, atco, which, ind, nal, nrep):
    rng = ctx.rng
    mech = "convert_rad2orb_[%s]:adjoint" % which
    nao = atco.nao
    for r in range(nrep):
        q = int([nal, 2, nal, 1][r % 4])
        stride = q + int(rng.choice([0, 0, 2, 5]))
        off = int(rng.integers(0, stride - q + 1))
        accumulate = bool(r % 2)
        gp = _randn(rng, (nao, stride))
        gt = _randn(rng, (ind.nrad, ind.nlm, q))
        state = {"ok_cols": True, "ok_in": True}
        mask = np.ones(stride, bool)
        mask[off:off + q] = False

        def fwd(th):
            out = gp.copy()
            tin = th.copy()
            atco.convert_rad2orb_(tin, out, ind, ind.rad_arr, rad2orb=True, offset=off, zero_output=not accumulate)
            state["ok_cols"] = state["ok_cols"] and np.array_equal(out[:, mask], gp[:, mask])
            state["ok_in"] = state["ok_in"] and np.array_equal(tin, th)
            win = out[:, off:off + q]
            return win - gp[:, off:off + q] if accumulate else win.copy()

        def bwd(pw):
            full = gp.copy()
            full[:, off:off + q] = pw
            ref = full.copy()
            out = gt.copy()
            atco.convert_rad2orb_(out, full, ind, ind.rad_arr, rad2orb=False, offset=off, zero_output=not accumulate)
            state["ok_in"] = state["ok_in"] and np.array_equal(full, ref)
            return out - gt if accumulate else out

        _pair(ctx, "convert_rad2orb_", mech, fwd, bwd, _randn(rng, (ind.nrad, ind.nlm, q)), _randn(rng, (nao, q)),
              variant=("accumulate" if accumulate else "zero_output") + (",offset/stride" if stride > q else ""))
        ctx.rec.require("convert_rad2orb_:window", state["ok_cols"], mechanism="convert_rad2orb_:writes-outside-offset-window",
                        detail={"stride": stride, "offset": off, "nalpha": q, "basis": which})
        ctx.rec.require("convert_rad2orb_:input", state["ok_in"], mechanism="convert_rad2orb_:modifies-input")


def _test_multiply(ctx, ccl, vtag, nrep):
    rng = ctx.rng
    mech = "multiply_atc_integrals[%s]:adjoint" % vtag
    nin, nout = ccl.atco_inp.nao, ccl.atco_out.nao
    nb = ccl.nalpha if ccl.is_vk else ccl.nbeta
    for r in range(nrep):
        mode = ["zeroed", "prefilled", "output=None", "prefilled"][r % 4]
        if mode == "output=None" and ccl.is_vk:
            # ConvolutionCollectionK.multiply_atc_integrals allocates (atco_inp.nao, nalpha) for a missing output and then
            # asserts (atco_out.nao, nalpha): AssertionError whenever the two bases differ.  Not an adjointness question
            # (the generator always passes its own buffer); recorded as an observation only.
            mode = "zeroed"
        prefill = mode == "prefilled"
        p_out = _randn(rng, (nout, nb)) if prefill else np.zeros((nout, nb))
        p_in = _randn(rng, (nin, ccl.nalpha)) if prefill else np.zeros((nin, ccl.nalpha))
        state = {"ok_in": True}

        def fwd(x):
            xin = x.copy()
            if mode == "output=None":
                res = ccl.multiply_atc_integrals(xin, fwd=True)
                state["ok_in"] = state["ok_in"] and np.array_equal(xin, x)
                return res
            out = p_out.copy()
            res = ccl.multiply_atc_integrals(xin, output=out, fwd=True)
            state["ok_in"] = state["ok_in"] and np.array_equal(xin, x) and res is out
            return out - p_out

        def bwd(y):
            yin = y.copy()
            if mode == "output=None":
                res = ccl.multiply_atc_integrals(yin, fwd=False)
                state["ok_in"] = state["ok_in"] and np.array_equal(yin, y)
                return res
            out = p_in.copy()
            res = ccl.multiply_atc_integrals(yin, output=out, fwd=False)
            state["ok_in"] = state["ok_in"] and np.array_equal(yin, y) and res is out
            return out - p_in

        _pair(ctx, "multiply_atc_integrals", mech, fwd, bwd, _randn(rng, (nin, ccl.nalpha)), _randn(rng, (nout, nb)),
              variant=mode)
        ctx.rec.require("multiply_atc_integrals:input", state["ok_in"], mechanism="multiply_atc_integrals[%s]:modifies-input" % vtag)


def _ygrid_rows(itp):
    """Number of rows of the grid-side array of project_orb2grid / project_grid2orb."""
    n = itp.all_coords.shape[0]
    gi = getattr(itp, "grids_indexer", None)
    return n + (gi.padding if gi is not None else 0)


def _test_interpolator(ctx, itp, itag, nrep):
    rng = ctx.rng
    nao, nin, nout, n1 = itp.atco.nao, itp.num_in, itp.num_out, itp._n1
    shape_s = (itp.atco.natm, itp.nrad, itp.nlm, 4, nout)
    nsub = 2 if int(np.prod(shape_s)) <= 25_000_000 else 1
    # orbital <-> spline coefficients (fill_l1_coeff_fwd/bwd inside)
    for r in range(nsub):
        _pair(ctx, "conv2spline/spline2conv", "conv2spline/spline2conv[%s]:adjoint" % itag,
              lambda x: itp.conv2spline(x.copy()), lambda y: itp.spline2conv(y.copy()),
              _randn(rng, (nao, nin)), _randn(rng, shape_s), variant="l1" if n1 else "")
    # spline coefficients <-> grid (add_lp1_term_fwd/bwd inside)
    ngx = itp.all_coords.shape[0]
    for r in range(nsub):
        _pair(ctx, "interpolate_fwd/bwd", "interpolate_fwd/interpolate_bwd[%s]:adjoint" % itag,
              lambda x: itp.interpolate_fwd(x.copy()), lambda y: itp.interpolate_bwd(y.copy()),
              _randn(rng, shape_s), _randn(rng, (ngx, nout)), variant="l1" if n1 else "")
    # full projection
    ny = _ygrid_rows(itp)
    direct = bool(getattr(itp, "onsite_direct", False))
    for r in range(nrep):
        mode = ["zeroed", "zeroed", "prefilled-grid", "prefilled-orb"][r % 4]
        if mode == "prefilled-orb" and direct:
            mode = "zeroed"  # onsite-direct grid2orb zeroes part of f_uq (convert_rad2orb_ zero_output=True): generator passes zeros
        pg = _randn(rng, (ny, nout))
        if n1:
            pg[:, nout - n1:] = 0.0  # scratch columns of the l+1 terms
        pu = _randn(rng, (nao, nin))

        def fwd(x):
            if mode == "prefilled-grid":
                out = pg.copy()
                res = itp.project_orb2grid(x.copy(), f_gq=out)
                return res - pg
            return itp.project_orb2grid(x.copy())

        def bwd(y):
            if mode == "prefilled-orb":
                out = pu.copy()
                res = itp.project_grid2orb(y.copy(), f_uq=out)
                return res - pu
            return itp.project_grid2orb(y.copy())

        _pair(ctx, "project_orb2grid/grid2orb", "project_orb2grid/grid2orb[%s]:adjoint" % itag, fwd, bwd,
              _randn(rng, (nao, nin)), _randn(rng, (ny, nout)), variant=mode + (",l1" if n1 else ""))
    if n1:
        out = itp.project_orb2grid(_randn(rng, (nao, nin)))
        ctx.rec.require("project_orb2grid:scratch-columns-zero", not np.any(out[:, nout - n1:]),
                        mechanism="project_orb2grid[%s]:scratch-columns-nonzero" % itag)


def _test_plan_transform(ctx, plan, ptag, order, nrep, strided_nextra=0):
    rng = ctx.rng
    nal = plan.nalpha
    nsets = plan.nldf_settings.num_feat_param_sets
    ilist = [-1] + list(range(nsets))
    for i in ilist:
        itag = "i=-1" if i < 0 else "i>=0"
        mech = "get_transformed_interpolation_terms[%s,%s,%s]:adjoint" % (ptag, order, itag)
        for r in range(nrep):
            n = int(rng.choice([1, 7, 60, 400]))
            shape = (n, nal) if order == "gq" else (nal, n)
            inplace = bool(r % 2)
            strided = bool(strided_nextra and order == "gq" and inplace and r % 4 == 3)
            state = {"ok_in": True}

            def run(v, fwd):
                if strided:
                    # the generator transforms conv_vq[:, :nalpha], a view with row stride num_out > nalpha
                    big = _randn(rng, (n, nal + strided_nextra))
                    ref = big.copy()
                    big[:, :nal] = v
                    res = plan.get_transformed_interpolation_terms(big[:, :nal], i=i, fwd=fwd, inplace=True)
                    state["ok_in"] = state["ok_in"] and np.array_equal(big[:, nal:], ref[:, nal:])
                    return np.array(big[:, :nal])
                vin = v.copy()
                res = plan.get_transformed_interpolation_terms(vin, i=i, fwd=fwd, inplace=inplace)
                if inplace:
                    return vin
                state["ok_in"] = state["ok_in"] and np.array_equal(vin, v)
                return np.array(res)

            _pair(ctx, "get_transformed_interpolation_terms", mech, lambda x: run(x, True), lambda y: run(y, False),
                  _randn(rng, shape), _randn(rng, shape),
                  variant="%s,%s%s" % (itag, "inplace" if inplace else "copy", ",strided-view" if strided else ""))
            ctx.rec.require("get_transformed_interpolation_terms:input", state["ok_in"],
                            mechanism="get_transformed_interpolation_terms[%s,%s]:modifies-input" % (ptag, order))


def _test_composite(ctx, g, ny, w_atom, w_grid, tag, nrep):
    rng = ctx.rng
    nal = g.plan.nalpha
    ng = g.grids_indexer.ngrids
    nout = g.interpolator.num_out
    mech = "_perform_fwd_convolution/_perform_bwd_convolution[%s]:adjoint" % tag
    for r in range(nrep):
        x = _randn(rng, (ng, nal))
        y = _randn(rng, (ny, nout))
        variant = "random"
        if r % 2 == 1:
            # as in get_features: theta_gq = p_gq * func_g * all_weights
            x *= w_atom[:, None]
            variant = "x*weights"
        if r % 4 >= 2 and w_grid is not None and w_grid.shape[0] == ny:
            # as in get_potential: vf_gq derives from vfeat = vxc * weights
            y *= w_grid[:, None]
            variant += ",y*weights"
        _pair(ctx, "_perform_fwd/_bwd_convolution", mech,
              lambda xx: np.array(g._perform_fwd_convolution(xx.copy())), lambda yy: np.array(g._perform_bwd_convolution(yy.copy())),
              x, y, variant=variant)


def _run_generator(ctx, g, w_grid, cfgtag, nrep, light=False):
    """All NLDF pairs on one generator (plan, ccl, interpolator, grids_indexer of a real molecule / grid)."""
    ind, plan, ccl, itp = g.grids_indexer, g.plan, g.ccl, g.interpolator
    nal = plan.nalpha
    ver = plan.nldf_settings.nldf_type
    vtag = "v" + ver
    itag = cfgtag["interp"]
    ptag = cfgtag["plan"]
    rec = ctx.rec
    rec.tag("nalpha", nal)
    rec.tag("num_out", itp.num_out)
    rec.tag("n0,n1", "%d,%d" % (itp._n0, itp._n1))
    rec.tag("interpolator_class", type(itp).__name__)
    rec.tag("ccl_class", type(ccl).__name__)
    rec.tag("aux_lmax_inp", int(np.max(ccl.atco_inp.bas[:, 1])))
    rec.tag("natm", ind.natm)
    if not light:
        _test_reduce(ctx, ind, nal, nrep)
        _test_rad2orb(ctx, ccl.atco_inp, "atco_inp", ind, nal, nrep)
        _test_rad2orb(ctx, ccl.atco_out, "atco_out", ind, nal, max(2, nrep // 2))
        if getattr(itp, "l1atco", None) is not None:
            _test_rad2orb(ctx, itp.l1atco, "l1atco", ind, 3 * itp._n1, 2)
    _test_multiply(ctx, ccl, vtag, nrep)
    _test_interpolator(ctx, itp, itag, nrep)
    _test_plan_transform(ctx, plan, ptag, plan.coef_order, 2 if light else 4, strided_nextra=max(0, ccl.num_out - nal))
    # Gaussian plans with a dense exponent ladder are noise-limited (see module docstring): fewer, probed draws there
    ncomp = 4 if (ptag == "gaussian" and float(plan.lambd) < 1.9 and ver != "k") else max(4, nrep)
    _test_composite(ctx, g, _ygrid_rows(itp), ind.all_weights, w_grid, "%s,%s" % (vtag, ptag), ncomp)


def _run_nldf(case, rec, rng):
    cfg = case["cfg"]
    for k in ("mol", "basis", "level", "ver", "sl", "plan", "interp", "lam", "lmax", "prune"):
        rec.tag({"ver": "version", "sl": "sl_level", "lam": "aux_lambd", "lmax": "aux_lmax_requested"}.get(k, k), cfg.get(k))
    mol, grids, g = _build_generator(cfg, rng)
    rec.tag("ngrids", int(grids.coords.shape[0]))
    ctx = _Ctx(rec, rng)
    big = NATM[cfg["mol"]] * (cfg["lmax"] + 1) ** 2 * (1 + cfg["level"]) > 500
    nrep = 4 if big else 6
    _run_generator(ctx, g, grids.weights, {"interp": cfg["interp"], "plan": cfg["plan"]}, nrep)
    _finish(ctx, cfg)


def _run_plan(case, rec, rng):
    from ciderpress.dft.plans import NLDFGaussianPlan, NLDFSplinePlan
    from vlib import gen
    cfg = case["cfg"]
    st = gen.nldf_settings(cfg["ver"], rng, level=cfg["sl"])
    lam = cfg["lam"]
    # as PyscfNLDFGenerator.from_mol_and_settings builds it
    alpha_min = st.theta_params[0] / 256
    alpha_max = 10000
    formula = "etb" if cfg["plan"] == "gaussian" else "zexp"
    ratio = alpha_max / alpha_min + (1 if formula == "etb" else 0)
    nalpha = int(np.ceil(np.log(ratio) / np.log(lam))) + 1
    cls = NLDFGaussianPlan if cfg["plan"] == "gaussian" else NLDFSplinePlan
    plan = cls(st, int(rng.integers(1, 3)), alpha_min, lam, nalpha, coef_order=cfg["order"], alpha_formula=formula)
    for k, v in (("version", cfg["ver"]), ("sl_level", cfg["sl"]), ("plan", cfg["plan"]), ("coef_order", cfg["order"]),
                 ("aux_lambd", lam), ("nalpha", nalpha)):
        rec.tag(k, v)
    ctx = _Ctx(rec, rng)
    _test_plan_transform(ctx, plan, cfg["plan"], cfg["order"], 12, strided_nextra=3)
    _finish(ctx, cfg)


# ---------------------------------------------------------------------------------------------
# SDMX pairs

def _sdmx_settings(kind):
    from ciderpress.dft import settings as st
    from vlib import gen
    if kind == "sdmxfull":
        return st.SDMXFullSettings({1.0: ([0, 1, 2], [3, 1, 1, 1]), 2.0: ([0, 1], [2, 1, 1, 0])})
    return gen.sdmx_settings(kind)


def _test_sdmx(ctx, ex, mol, coords, weights, stag, nrep, dm_nspin=1):
    from ciderpress.pyscf import sdmx as sx
    from vlib import gen
    rng, rec = ctx.rng, ctx.rec
    libcider = sx.libcider
    ng = coords.shape[0]
    nao = mol.nao_nr()
    nrf = int(sx._get_nrf(mol))
    ao_loc = mol.ao_loc_nr()
    shls = (0, mol.nbas)
    ncomp = 1 + 6 * ex.deriv
    ltag = "l1" if ex.deriv else "l0"
    rec.tag("sdmx_l", ltag)
    rec.tag("sdmx_nalpha", ex.plan.nalpha)
    rec.tag("sdmx_plan", type(ex.plan).__name__)
    rec.tag("general_contraction", bool(np.any(mol._bas[:, 3] > 1)))
    rec.tag("block_ngrids", ng)

    # 1. wrappers exactly as get_features / _eval_crho_potential call them
    def fwd(c):  # c: (ngrids, nao) with memory layout (nao, ngrids) like _dot_ao_dm's result
        return ex._contract_ao_to_bas(mol, np.asfortranarray(c.copy()), shls, ao_loc, coords)

    def bwd(b):
        return np.array(ex._contract_ao_to_bas_bwd(mol, b.copy(), shls, ao_loc, coords))

    mech = "_contract_ao_to_bas/_contract_ao_to_bas_bwd[%s]:adjoint" % ltag
    for r in range(nrep):
        _pair(ctx, "_contract_ao_to_bas/_bwd", mech, fwd, bwd, np.asfortranarray(_randn(rng, (ng, nao))),
              _randn(rng, (ncomp, nrf, ng)), variant=ltag)
    # 2. the forward wrapper hands np.empty to C: every element must be written (poisoned buffer at helper level)
    b0 = np.full((ncomp, nrf, ng), np.nan)
    c0 = np.asfortranarray(_randn(rng, (ng, nao)))
    ex._contract_ao_to_bas_helper(mol, b0, c0, shls, ao_loc, coords, ylm=None, bwd=False)
    rec.require("_contract_ao_to_bas:writes-all-output", _finite(b0), mechanism="SDMXcontract_ao_to_bas[%s]:leaves-output-unwritten" % ltag,
                detail={"unwritten": int(np.sum(~np.isfinite(b0))), "ngrids": ng})
    # 3. alpha contraction of the l1 path (called inline by get_features / _eval_crho_potential)
    if ex.deriv:
        nalpha = ex.plan.nalpha
        cao = ex.get_cao(mol, coords, save_buf=False)
        nsh = cao.shape[-1]

        def afwd(b):
            tmp = np.full((4, nalpha, ng), np.nan)
            bb = np.ascontiguousarray(b)
            libcider.contract_shl_to_alpha_l1(ctypes.c_int(ng), ctypes.c_int(nalpha), ctypes.c_int(nsh),
                                              tmp.ctypes.data_as(ctypes.c_void_p), bb.ctypes.data_as(ctypes.c_void_p),
                                              cao.ctypes.data_as(ctypes.c_void_p))
            return tmp

        def abwd(p):
            bb = np.full((7, nsh, ng), np.nan).transpose(0, 2, 1)
            pp = np.ascontiguousarray(p)
            libcider.contract_shl_to_alpha_l1_bwd(ctypes.c_int(ng), ctypes.c_int(nalpha), ctypes.c_int(nsh),
                                                  pp.ctypes.data_as(ctypes.c_void_p), bb.ctypes.data_as(ctypes.c_void_p),
                                                  cao.ctypes.data_as(ctypes.c_void_p))
            return np.ascontiguousarray(bb.transpose(0, 2, 1))

        for r in range(max(2, nrep // 2)):
            _pair(ctx, "contract_shl_to_alpha_l1/_bwd", "contract_shl_to_alpha_l1/_bwd:adjoint", afwd, abwd,
                  _randn(rng, (7, nsh, ng)), _randn(rng, (4, nalpha, ng)))
    # 4. full feature map, quadratic in dm: derivative vs get_vxc_
    mech = "get_features/get_vxc_[%s]:adjoint" % stag
    for r in range(max(2, nrep // 2)):
        ndm = 1 if r % 2 == 0 else 2
        dms = np.stack([gen.psd_dm(mol, rng) for _ in range(ndm)])
        dm = dms[0] if ndm == 1 else dms
        scale = float(np.linalg.norm(dms[0]))

        def dF(D):
            fp = ex.get_features(dm + D, mol, coords)
            fm = ex.get_features(dm - D, mol, coords)
            return 0.5 * (fp - fm)

        def vx(w):
            ex.get_features(dm, mol, coords)  # (re)fills the cache get_vxc_ reads
            v = np.zeros_like(dm)
            ex.get_vxc_(v, w.copy())  # accumulates into v
            return v + np.swapaxes(v, -1, -2)  # hermi_sum in nr_rks / nr_uks

        D = np.stack([gen.sym_direction(nao, rng) for _ in range(ndm)])
        D *= 0.5 * scale / np.linalg.norm(D[0])
        D = D[0] if ndm == 1 else D
        nfeat = ex.plan.settings.nfeat
        w = _randn(rng, (nfeat, ng) if ndm == 1 else (ndm, nfeat, ng))
        variant = "ndm=%d" % ndm
        if r % 4 >= 2 and weights is not None:
            w = w * weights
            variant += ",w*weights"
        _pair(ctx, "get_features/get_vxc_", mech, dF, vx, D, w, variant=variant)


def _run_sdmx(case, rec, rng):
    from pyscf.dft.gen_grid import Grids

    from ciderpress.pyscf import sdmx as sx
    cfg = case["cfg"]
    mol = _mol(cfg, rng)
    grids = Grids(mol)
    grids.level = 0
    grids.build()
    n = min(cfg["ngrid"], grids.coords.shape[0])
    i0 = int(rng.integers(0, grids.coords.shape[0] - n + 1))
    coords = np.ascontiguousarray(grids.coords[i0:i0 + n])
    weights = np.ascontiguousarray(grids.weights[i0:i0 + n])
    ex = sx.EXXSphGenerator.from_settings_and_mol(_sdmx_settings(cfg["skind"]), cfg["nspin"], mol)
    for k, v in (("sdmx_kind", cfg["skind"]), ("mol", cfg["mol"]), ("basis", cfg["basis"]), ("nspin", cfg["nspin"]), ("natm", mol.natm)):
        rec.tag(k, v)
    ctx = _Ctx(rec, rng)
    _test_sdmx(ctx, ex, mol, coords, weights, cfg["skind"], 6)
    _finish(ctx, cfg)


# ---------------------------------------------------------------------------------------------
# generators taken from a real calculator

def _run_ks(case, rec, rng):
    from vlib import gen
    cfg = case["cfg"]["cfg"]
    mol, model, ks = gen.build_ks(cfg, rng)
    nspin = 1 if cfg["spin"] == "rks" else 2
    dm = gen.psd_dm(mol, rng, nspin)
    gen.nr_eval(ks, dm)
    ni = ks._numint
    for k in ("family", "spin", "mol", "plan_type", "interp", "aux_lambd", "level"):
        if cfg.get(k) is not None:
            rec.tag({"plan_type": "plan", "aux_lambd": "aux_lambd"}.get(k, k), cfg[k])
    rec.tag("integrator", type(ni).__name__)
    ctx = _Ctx(rec, rng)
    g = getattr(ni, "nldfgen", None)
    if g is not None:
        rec.tag("version", g.plan.nldf_settings.nldf_type)
        _run_generator(ctx, g, ks.grids.weights, {"interp": cfg.get("interp", "onsite_direct"), "plan": cfg.get("plan_type", "gaussian")}, 4, light=True)
    ex = getattr(ni, "sdmxgen", None)
    if ex is not None and getattr(ni, "has_sdmx", True):
        n = min(700, ks.grids.coords.shape[0])
        coords = np.ascontiguousarray(ks.grids.coords[:n])
        ex._cached_ao_data = None
        _test_sdmx(ctx, ex, mol, coords, np.ascontiguousarray(ks.grids.weights[:n]), cfg["family"], 4)
    rec.require("ks:has-generator", g is not None or ex is not None, mechanism="harness:no-generator-on-calculator")
    _finish(ctx, cfg)


def _finish(ctx, cfg):
    rec = ctx.rec
    rec.tag("threads", os.environ.get("OMP_NUM_THREADS", "?"))
    rec.tag("variant", os.environ.get("VERIF_VARIANT", "plain"))
    worst = sorted(ctx.worst.items(), key=lambda kv: -kv[1])[:8]
    rec.set_sample({"cfg": cfg, "pairs_evaluated": dict(ctx.n), "worst_normalised_mismatch": dict(worst),
                    "example": {k: ctx.example[k] for k, _ in worst[:3]}, "noise_limited_subcases": ctx.noise_limited,
                    "tolerance": TOL})


def _run_dense(case, rec, rng):
    from pyscf import gto
    from ciderpress.dft.lcao_interpolation import ATCBasis, LCAOInterpolator
    from ciderpress.pyscf.nldf_convolutions import aug_etb_for_cider, get_gamma_lists_from_mol
    cfg = case["cfg"]
    for k in ("mol", "npts", "r0", "width", "lmax", "n0n1"):
        rec.tag("dense_" + k, str(cfg[k]))
    from vlib import gen
    mol = gen.make_mol(cfg["mol"], "sto-3g", rng, jitter=0.05)
    mol2 = gto.M(atom=mol._atom, unit="Bohr", basis=aug_etb_for_cider(mol, lmax=cfg["lmax"]), verbose=0, spin=mol.spin)
    atco = ATCBasis(*get_gamma_lists_from_mol(mol2))
    n0, n1 = cfg["n0n1"]
    itp = LCAOInterpolator(mol2.atom_coords(unit="Bohr"), atco, n0, n1)
    d = rng.normal(size=(cfg["npts"], 3))
    d /= np.linalg.norm(d, axis=1)[:, None]
    r = cfg["r0"] + cfg["width"] * rng.random(cfg["npts"])
    coords = np.ascontiguousarray(mol2.atom_coords(unit="Bohr")[cfg["atom"] % mol2.natm] + d * r[:, None])
    itp.set_coords(coords)
    rec.tag("max_points_per_spline_interval", ">8192" if int(itp._maxg) > 8192 else "<=8192")
    rec.note("maxg", int(itp._maxg))
    ctx = _Ctx(rec, rng)
    _test_interpolator(ctx, itp, "user-coords-dense", 4)
    _finish(ctx, cfg)


def run_case(case, rec):
    rng = rng_for(case["seed"], PROP_NO, case["idx"])
    kind = case["cfg"]["kind"]
    rec.tag("kind", kind)
    {"nldf": _run_nldf, "plan": _run_plan, "sdmx": _run_sdmx, "ks": _run_ks, "dense": _run_dense}[kind](case, rec, rng)


def classify_sanitizer(blocks):
    """One failure per distinct (kind, first repository frame)."""
    out, seen = [], set()
    for kind, text in blocks:
        m = re.search(r"in ([\w.]+) [^\n]*ciderpress/lib/([\w/]+\.c):(\d+)", text)
        fn = re.sub(r"\._omp_fn\.\d+$", "", m.group(1)) if m else "unknown"
        where = "%s(%s:%s)" % (fn, m.group(2), m.group(3)) if m else "unknown-frame"
        key = (kind, fn)
        if key in seen:
            continue
        seen.add(key)
        out.append({"id": "sanitizer", "oracle": kind, "mechanism": "%s:%s" % (kind, fn), "obs": 1.0, "tol": 0.5,
                    "detail": {"where": where, "report": text[:1500]}})
    return out
