#!/bin/bash
# setup_cmd: third-party deps from the offline wheelhouse into .deps, then the library variants.
set -uo pipefail
HERE="$(cd "$(dirname "${BASH_SOURCE[0]}")" && pwd)"
cd "$HERE"
if [ ! -d .deps/jsonschema ] || [ ! -d .deps/icontract ]; then
  PIP_NO_INDEX=1 /venv/bin/python -m pip install -q --no-index --find-links /opt/veriftools/wheels \
      --target "$HERE/.deps" jsonschema icontract deal 2>&1 | tail -3
fi
mkdir -p .build/logs replay evidence
for v in plain asan tsan; do build/build_libs.sh $v "${VERIF_REPO:-/repo}" || exit 1; done
echo "setup ok"
