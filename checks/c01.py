"""C01 - the XC matrix handed to PySCF is the derivative of the XC energy (end to end).

Oracle: Richardson-extrapolated central difference of excsum returned by the same
CiderNumInt.nr_rks / nr_uks on dm +- h D versus <vmat, D>; hermiticity of vmat; nelec versus an
independent pyscf eval_rho quadrature.  DESIGN.md section 5, C01.
"""
import numpy as np

from vlib.oracles import rng_for

PROPERTY = "C01"
PROP_NO = 1
RULE = ("case = (feature family, spin path, molecule, basis, grid level, plan type, interpolator, evaluator kind, spin "
        "mode, mixing option, model class) with a random synthetic model, a random admissible (PSD, fractionally "
        "occupied, non-converged) density matrix and 3 dense + 1 single-pair symmetric directions; a direction is "
        "non-trivial when |<vmat,D>| > 1e-6, the ML part of the energy is >= 1e-3 of the total and the FD self-error "
        "is below tol/10; distinct = distinct (case configuration, direction)")
MIN_NONTRIVIAL = {"quick": 60, "thorough": 600}
ASSUMPTIONS = ["density matrices are positive semidefinite (the code clamps negative densities; outside the property)",
               "FD oracle resolution: 1e-7 relative (semilocal / SDMX / libxc-baseline models), 1e-5 (anything with NLDF)",
               "C libraries rebuilt from the working tree with gcc -O2 and an FFTW API stand-in (not used here)"]
REQUIRED_CALLS = ["libmcider.evaluate_se_kernel"]

SL = ["sl-nst", "sl-npa", "sl-ns", "sl-np"]
NL = ["vj-mgga", "vj-gga", "vi-mgga", "vi-gga", "vij-mgga", "vij-gga", "vk-mgga", "vk-gga", "vj-nst", "vj-expnt"]
SX = ["sdmx", "sdmxg", "sdmx1", "sdmxg1", "vj+sdmx"]


def _cfgs(tier, rng):
    cfgs = []
    base = []
    for fam in SL + NL + SX:
        for spin in ("rks", "uks"):
            base.append(dict(family=fam, spin=spin))
    reps = 1 if tier == "quick" else 12
    for rep in range(reps):
        for b in base:
            c = dict(b)
            fam = c["family"]
            c["mol"] = str(rng.choice(["H2O", "HF", "LiH", "NH3"] if c["spin"] == "rks" else ["NH2", "Li", "CH3", "H2O", "O2"]))
            c["basis"] = str(rng.choice(["6-31g", "sto-3g", "def2-svp"], p=[0.6, 0.2, 0.2]))
            if fam in SX and c["spin"] == "rks":
                # generally contracted shells (several radial functions on one set of primitives): the SDMX backward
                # contraction walks (contraction, m) pairs - added after a seeded change there left features and energy
                # bit-identical and only broke the XC matrix for such bases
                c["basis"] = "cc-pvdz"
            c["level"] = int(rng.integers(0, 2))
            c["mode"] = str(rng.choice(["SEP", "NPOL", "POL"], p=[0.6, 0.2, 0.2]))
            c["evaluator"] = str(rng.choice(["rbf", "kernel", "linear", "rbf+linear", "kernel+subrbf", "rbf+subrbf"],
                                            p=[0.4, 0.15, 0.1, 0.1, 0.15, 0.1]))
            c["mix"] = str(rng.choice(["pure", "xmix", "xc", "mgga"], p=[0.4, 0.3, 0.15, 0.15]))
            if fam in ("sl-ns", "sl-np", "vj-gga", "vi-gga", "vij-gga", "vk-gga") and c["mix"] == "mgga":
                c["mix"] = "xmix"  # GGA-level CIDER only with GGA-level XC (documented restriction)
            if fam in NL or fam == "vj+sdmx":
                c["plan_type"] = str(rng.choice(["gaussian", "spline"]))
                c["interp"] = str(rng.choice(["onsite_direct", "onsite_spline"]))
            c["model"] = "xc1"
            if rng.random() < 0.2 and fam in ("sl-npa", "vj-mgga", "sdmx", "sl-nst"):  # MappedXC2 needs MGGA-level data in eval_xc_cider
                c["model"] = "xc2"
                c["mode"] = str(rng.choice(["SEP", "NPOL"]))
                if c["mode"] == "SEP":
                    c["mul_base"] = str(rng.choice(["GGA_X_PBE", "LDA_X"] + (["MGGA_X_R2SCAN"] if fam in ("sl-npa", "sl-nst", "vj-mgga", "sdmx") else [])))
                else:
                    c["mul_base"] = "GGA_C_PBE"
                    c["add_base"] = str(rng.choice(["GGA_C_PBE", "LDA_C_PW_MOD"]))
            cfgs.append(c)
    # covering rows that the random draw above reaches only rarely: libxc-backed models (MappedXC2) in every spin mode on
    # the unrestricted path with genuinely spin-polarised density matrices (cross-spin gradient terms), GGA and MGGA
    must = [
        dict(family="sl-npa", spin="uks", mode="NPOL", model="xc2", mul_base="GGA_C_PBE", add_base="GGA_C_PBE", mix="pure"),
        dict(family="sl-npa", spin="uks", mode="NPOL", model="xc2", mul_base="OS_GGA_C_PBE", add_base="SS_GGA_C_PBE", mix="xmix"),
        dict(family="sl-npa", spin="uks", mode="POL", model="xc2", mul_base="GGA_C_PBE", add_base=None, mix="pure"),
        dict(family="sl-nst", spin="uks", mode="NPOL", model="xc2", mul_base="MGGA_C_R2SCAN", add_base="LDA_C_PW_MOD", mix="mgga"),
        dict(family="sl-nst", spin="uks", mode="SEP", model="xc2", mul_base="GGA_X_PBE", add_base=None, mix="xmix"),
        dict(family="vj-mgga", spin="uks", mode="NPOL", model="xc2", mul_base="GGA_C_PBE", add_base="GGA_C_PBE", mix="pure",
             plan_type="gaussian", interp="onsite_direct"),
        dict(family="sdmx", spin="rks", mode="NPOL", model="xc2", mul_base="GGA_C_PBE", add_base="GGA_C_PBE", mix="xmix"),
        dict(family="sl-npa", spin="rks", mode="POL", model="xc2", mul_base="GGA_C_PBE", add_base=None, mix="pure"),
    ]
    for rep in range(reps):
        for m in must:
            c = dict(m)
            c["mol"] = str(rng.choice(["NH2", "CH3", "O2", "Li"] if c["spin"] == "uks" else ["H2O", "HF"]))
            c["basis"] = str(rng.choice(["6-31g", "sto-3g"]))
            c["level"] = int(rng.integers(0, 2))
            c["evaluator"] = str(rng.choice(["rbf", "kernel"]))
            cfgs.append(c)
    # an exactly empty spin channel (one-electron and fully polarised systems: D_beta = 0 from the first SCF cycle on); only
    # directions in the populated channel are differentiated - added after a seeded low-density screen in the normaliser
    # back-propagation that zeroed BOTH channels where one of them is empty
    empties = [dict(family="sl-npa", spin="uks", mode="SEP", mol="H"), dict(family="sl-nst", spin="uks", mode="NPOL", mol="Li"),
               dict(family="vj-mgga", spin="uks", mode="SEP", mol="H", plan_type="gaussian", interp="onsite_direct"),
               dict(family="sdmx", spin="uks", mode="SEP", mol="NH2")]
    for rep in range(reps):
        for m in empties:
            c = dict(m, empty_beta=True, basis=str(rng.choice(["6-31g", "def2-svp"])), level=1, evaluator="rbf", mix=str(rng.choice(["pure", "xmix"])),
                     model="xc1")
            cfgs.append(c)
    # other KINDS of system for the same molecules (every seeding round on a new axis of variation found gaps, so the axes
    # a user can reach by changing only the molecule are covered up front): Cartesian d functions, an f / g shell, Bohr input
    kinds = [dict(family="sl-npa", spin="rks", system="cart"), dict(family="vj-mgga", spin="uks", system="cart", plan_type="gaussian", interp="onsite_direct"),
             dict(family="vi-mgga", spin="rks", system="fshell", plan_type="spline", interp="onsite_spline"), dict(family="sdmx1", spin="rks", system="fshell"),
             dict(family="vk-gga", spin="rks", system="bohr", plan_type="gaussian", interp="onsite_direct"), dict(family="vij-mgga", spin="uks", system="gshell", plan_type="gaussian", interp="onsite_direct"),
             dict(family="sdmxg", spin="uks", system="gshell"), dict(family="vi-gga", spin="rks", system="cart", plan_type="spline", interp="onsite_direct")]
    for rep in range(reps):
        for m in kinds[:4] if tier == "quick" else kinds:
            c = dict(m)
            c["mol"] = str(rng.choice(["NH2", "CH3"] if c["spin"] == "uks" else ["H2O", "HF"]))
            c["basis"] = "def2-svp" if c["system"] == "cart" else "6-31g"
            c["level"] = int(rng.integers(0, 2))
            c["mode"] = "SEP"
            c["evaluator"] = "rbf"
            c["mix"] = "pure"
            c["model"] = "xc1"
            cfgs.append(c)
    # far-apart fragments in several grid blocks (sparse AO path of pyscf + strided per-block views of the potential)
    fars = [dict(family="vj-mgga", spin="rks", far=("LiH", "HF", 14.0), plan_type="gaussian", interp="onsite_direct"),
            dict(family="vi-gga", spin="uks", far=("NH2", "HF", 16.0), plan_type="spline", interp="onsite_spline"),
            dict(family="sl-npa", spin="rks", far=("H2O", "HF", 14.0)),
            dict(family="vk-mgga", spin="rks", far=("HF", "HF", 20.0), plan_type="gaussian", interp="onsite_spline")]
    for rep in range(reps):
        for m in fars[:2] if tier == "quick" else fars:
            cfgs.append(dict(m, mol="far", basis="6-31g", level=int(rng.integers(0, 2)), mode="SEP", evaluator="rbf",
                             mix="xmix" if m["family"].endswith("gga") and not m["family"].endswith("mgga") else "pure",
                             model="xc1", max_memory=[0.05, 0.2][rep % 2]))
    return cfgs


def gen_cases(tier, seed):
    rng = rng_for(seed, PROP_NO, 0)
    cases = []
    for i, c in enumerate(_cfgs(tier, rng)):
        nl = c["family"] in NL or c["family"] == "vj+sdmx"
        cases.append({"id": "c%03d-%s-%s%s" % (i, c["family"], c["spin"], "-far" if c.get("far") else ""), "cfg": c, "seed": seed, "idx": 100 + i,
                      "_threads": 2, "_weight": 4.0 if nl else 1.0, "_timeout": 1500})
    return cases


def run_case(case, rec):
    from pyscf.dft import numint as pnumint

    from vlib import gen
    cfg = case["cfg"]
    rng = rng_for(case["seed"], PROP_NO, case["idx"])
    if cfg.get("far"):
        # two fragments far apart, integrated in several blocks (small max_memory): pyscf then takes its screened
        # (sparse) AO path for blocks that see only one fragment, and the per-block potential views are strided
        a, b, dist = cfg["far"]
        d = float(dist) + float(rng.uniform(-0.5, 0.5))
        atoms = list(gen.MOLS[a][0]) + [(s_, (x + d, y + 0.7, z - 0.4)) for s_, (x, y, z) in gen.MOLS[b][0]]
        sp = (gen.MOLS[a][1] + gen.MOLS[b][1]) % 2 if cfg["spin"] == "uks" else 0
        mol0 = gen.make_mol(None, cfg["basis"], rng, jitter=0.03, atoms=atoms, spin=sp, charge=0)
        mol, model, ks = gen.build_ks(cfg, rng, mol=mol0, model=gen.build_model(cfg, rng))
        rec.tag("system", "far-apart fragments, max_memory=%g" % cfg["max_memory"])
    else:
        mol, model, ks = gen.build_ks(cfg, rng)
    mm = {"max_memory": cfg["max_memory"]} if cfg.get("max_memory") else {}
    nspin = 1 if cfg["spin"] == "rks" else 2
    dm = gen.psd_dm(mol, rng, nspin)
    if cfg.get("empty_beta"):
        dm[1] *= 0.0
        rec.tag("empty_beta_channel", True)
    has_nldf = model.settings.has_nldf
    # NLDF: 3e-5 (largest value on the unchanged tree 1.24e-5 in 4565 thorough-tier evaluations, a g-shell case; the first
    # bound 1e-5 came from runs that peaked at 5e-6 and raised that one false alarm; seeded changes give >= 5e-4)
    tol = 3e-5 if has_nldf else 1e-7
    for k in ("family", "spin", "mol", "basis", "level", "mode", "evaluator", "mix", "plan_type", "interp", "model", "system",
              "mul_base"):
        if cfg.get(k) is not None:
            rec.tag(k, cfg[k])
    rec.tag("integrator", type(ks._numint).__name__)
    n, e, v = gen.nr_eval(ks, dm, **mm)
    v = np.asarray(v)
    rec.require("finite", np.all(np.isfinite(v)) and np.all(np.isfinite(e)), mechanism="nr_%s:nonfinite" % cfg["spin"])
    # hermiticity
    vt = np.swapaxes(v, -1, -2)
    rec.check("vmat_hermitian", np.max(np.abs(v - vt)) / max(1e-300, np.max(np.abs(v))), 1e-12,
              mechanism="vmat-not-hermitian[%s]" % cfg["family"])
    # electron count against independent quadrature
    ao = pnumint.eval_ao(mol, ks.grids.coords, deriv=0)
    w = ks.grids.weights
    dms = dm[None] if nspin == 1 else dm
    nref = np.array([np.dot(w, pnumint.eval_rho(mol, ao, d, xctype="LDA")) for d in dms])
    nn = np.atleast_1d(np.asarray(n, dtype=float))
    rec.check("nelec", np.max(np.abs(nn - nref)) / np.max(np.abs(nref)), 1e-10, mechanism="nelec[%s]" % cfg["spin"])
    # ML share of the energy (non-triviality): compare with the same calculator at xmix -> model switched off
    ni = ks._numint
    xm = ni.xmix
    ni.xmix = 0.0
    e0 = gen.nr_eval(ks, dm, **mm)[1]
    ni.xmix = xm
    ml_share = abs(e - e0) / max(abs(e), 1e-300)
    rec.note("ml_share", float(ml_share))
    vnorm = float(np.linalg.norm(v))
    dirs = []
    nao = mol.nao
    for k in range(3):
        dirs.append(("dense%d" % k, gen.sym_direction(nao, rng)))
    dirs.append(("pair", gen.sym_direction(nao, rng, "pair")))
    worst = 0.0
    for name, D in dirs:
        D = D / np.linalg.norm(D)
        for s in range(nspin):
            if cfg.get("empty_beta") and s == 1:
                continue   # a direction in the empty channel leaves the admissible (PSD) set
            if nspin == 2:
                DD = np.zeros_like(dm)
                DD[s] = D
            else:
                DD = D
            ana = float(np.sum(v * DD))
            h = 3e-4 * np.linalg.norm(dm[s] if nspin == 2 else dm)

            def E(t):
                return float(gen.nr_eval(ks, dm + t * DD, **mm)[1])
            d1 = (E(h) - E(-h)) / (2 * h)
            d2 = (E(h / 2) - E(-h / 2)) / h
            est = (4 * d2 - d1) / 3
            selferr = abs(d2 - d1) / 3
            scale = max(abs(ana), abs(est), 0.02 * vnorm)  # FD noise floor of E/h is ~1e-8 abs
            err = abs(ana - est) / scale
            if selferr / scale > tol / 10:
                rec.note("self_error_%s_%d" % (name, s), selferr / scale)
                continue
            rec.check("fd_vs_vmat[%s]" % ("nldf" if has_nldf else "local"), err, tol,
                      mechanism="vmat!=dE/dD[%s,%s]" % (cfg["family"], cfg["spin"]),
                      detail={"analytic": ana, "fd": est, "self": selferr, "dir": name, "spin": s})
            worst = max(worst, err)
            if abs(ana) > 1e-6 and ml_share >= 1e-3:
                rec.nontrivial("%s|%d" % (name, s))
    rec.set_sample({"cfg": cfg, "excsum": float(e), "nelec": nn.tolist(), "ml_share": float(ml_share),
                    "worst_fd_rel_err": worst, "tol": tol})
