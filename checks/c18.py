"""C18 - bookkeeping is consistent, bad input is rejected, C calls stay within buffers.

Four groups of oracles (DESIGN.md section 5, C18):

 (i)   bookkeeping   exact equalities nfeat == len(get_feat_usps()) == len(ueg_vector()) == len(get_reasonable_normalizer())
                     for every settings class and for FeatureSettings over all 2^4 family subsets x class variants;
                     get_feat_loc() == cumulative family counts, get_feat_loc_dict consistent, normalizers.nfeat == nfeat;
                     and the number of rows the generators ACTUALLY return (SemilocalPlan.get_feat, FracLaplPlan.get_feat,
                     NLDF plan eval_rho_full, the PySCF NLDF generator after a real nr_rks / nr_uks, EXXSphGenerator
                     (fast and slow), ciderpress.pyscf.descriptors.get_descriptors on RHF / UHF analyzers).
 (ii)  rejection     single-field corruptions of VALID argument sets.  An invalid configuration counts as ACCEPTED only if
                     the constructor AND the smallest standard uses that consume the field all return normally; it must
                     raise an Exception subclass (type recorded, not prescribed) and do so before any C entry point is
                     entered (boundary-monitor counters unchanged: separate oracle rejected_before_C).  Only classes of
                     invalidity named by the property statement or by the code's own docstrings / sibling validation are
                     asserted; everything else that was tried is recorded as an observation tag.
 (iii) exponent      eval_feat_exp / get_interpolation_arguments / the arguments -> coefficients pipeline of
                     NLDFGaussianPlan and NLDFSplinePlan raise RuntimeError("NLDF exponent is too large") above alpha_max
                     for i = -1 and every feature index, both nspin, both alpha formulas; just inside works; below the
                     range / raise_large_expnt_error=False / use_smooth_expnt_cutoff=True behave as the code documents
                     (spline index clipped into the table, smooth cut-off saturates at alpha_max); end to end a tiny
                     alpha_max handed through nldf_kwargs must raise instead of returning numbers.
 (iv)  memory        ("_variant": "asan", deciding oracle = no sanitizer report and no abnormal worker exit) all ACCEPTED
                     calls over many shapes: every family of gen.FAMILIES x rks/uks on 1-atom and multi-atom molecules,
                     batched density matrices, tiny max_memory, grid levels 0-1, both plan and interpolator types,
                     CiderGrids lmax in {1,2,6,10}, evaluators with sample counts {1,2,3,7,2000,2001} x control counts
                     {1,2,150,151}, SDMX generators, FFT wrapper, reduce_angc_ylm_ / convert_rad2orb_ offset/stride
                     variants (plus an intra-array window oracle ASan cannot provide), multiply_atc_integrals; the ctypes
                     boundary monitor runs in strict mode.  Potentially memory-unsafe ACCEPTANCE probes (shape mismatches
                     into C-backed evaluators / plans / convolution wrappers) run ONLY here, the dangerous ones one per case.
"""
import copy
import os
import re

import numpy as np

from vlib.oracles import rng_for

PROPERTY = "C18"
PROP_NO = 18
RULE = ("sub-case = (class, configuration) drawn from the case rng: (i) a random valid settings object per class variant / "
        "FeatureSettings family subset (all 16 subsets x class variants) / generator on pointwise data or a jittered "
        "molecule of the pool; (ii) a random VALID constructor argument set plus ONE corrupted field from the catalogue "
        "(class x kind); (iii) a plan (settings version x GGA/MGGA x gaussian/spline x nspin x etb/zexp) with a density "
        "uniformly scaled so that the largest exponent sits 0.1% above / below alpha_max; (iv) a driver configuration under "
        "ASan+UBSan.  A sub-case is non-trivial when its deciding oracle was evaluated on a non-empty object (nfeat > 0 or "
        "the empty class itself, generator returned > 0 grid points, valid base accepted before the corruption was "
        "applied, exponent actually above/below alpha_max as intended, driver reached a C entry point); distinct = "
        "distinct (case, class, kind/config, draw) key")
MIN_NONTRIVIAL = {"quick": 330, "thorough": 3300}
ASSUMPTIONS = [
    "an invalid configuration is ACCEPTED only if the constructor and the smallest standard uses consuming the field "
    "(settings: nfeat/get_feat_usps/ueg_vector/get_reasonable_normalizer[/plan.get_feat]; plans: eval_feat_exp, "
    "arguments->coefficients, get_features; evaluators: __call__; normaliser lists: get_normalized_feature_vector) all "
    "return normally; any Exception subclass counts as rejection, the type is recorded only",
    "asserted invalidity classes: unknown spec / mode / rho_mult / rho_damp / sl_level / plan_type / interpolator_type / "
    "alpha_formula / coef_order / fit_metric strings, wrong parameter counts, a0 <= 0, negative grad_mul / tau_mul, "
    "lambda <= 1, alpha0 <= 0, nalpha not a positive int, nspin not in {1,2}, bad l1_dots / ld_dots pairs, counts larger than "
    "allowed (FracLapl nk0/nk1/nd1/ndd, SDMX ndt/n1, SDMXFull), feature index out of range, too few rho rows, wrong "
    "nfeat / sample counts in arrays, normaliser/model size mismatch, lmax above the indexer's, X1ctrl / alpha sizes "
    "inconsistent with the kernel; NOT asserted (observation tags only): sign of erf_mul, range of the fractional-Laplacian "
    "power s, negative counts, arrays WIDER than needed where the callee reads a documented subset, FeatureSettings without "
    "semilocal settings and default normalizers (raises AttributeError although documented valid)",
    "NotImplementedError from get_reasonable_normalizer / ueg_vector for combinations the source marks as not implemented "
    "(version-i scaling powers outside {0,-2,2,5}, SDMX pows outside {0,1,2}) is not a count mismatch; bookkeeping draws "
    "that hit it are tagged and the remaining equalities are still checked",
    "FracLapl ld_dots are kept within min(nk1, nd1): FracLaplPlan caches nk1 (not nd1) F^d vectors, a value defect outside C18",
    "ASan sees only overruns that land in a red zone; intra-array overruns of the offset/stride wrappers are covered by an "
    "explicit untouched-window oracle; pyscf, OpenBLAS and numba code is uninstrumented",
    "the ctypes boundary monitor (strict mode) flags arrays that are neither contiguous nor a dense permutation of a "
    "contiguous block (the SDMX code deliberately passes transposed dense views) and dtypes outside float64/int32/...",
    "density matrices are positive semidefinite, pointwise densities admissible (tau >= tau_W); models with fractional-"
    "Laplacian features are driven through the feature-level API only (cannot go through the PySCF integrator)",
]
REQUIRED_CALLS = ["libmcider.evaluate_se_kernel", "libmcider.evaluate_se_kernel_spin", "libmcider.evaluate_se_kernel_antisym",
                  "libmcider.cider_coefs_gto_gq", "libmcider.cider_coefs_spline_gq", "libmcider.cider_coefs_vk1_gq",
                  "libmcider.cider_ind_clip", "libmcider.smooth_cider_exponents", "libmcider.reduce_angc_to_ylm",
                  "libmcider.reduce_ylm_to_angc", "libmcider.contract_rad_to_orb", "libmcider.contract_orb_to_rad",
                  "libmcider.multiply_atc_integrals", "libmcider.multiply_atc_integrals_vk",
                  "libmcider.compute_mol_convs_single_new", "libmcider.compute_pot_convs_single_new",
                  "libmcider.SDMXcontract_ao_to_bas", "libmcider.contract_shl_to_alpha_l1",
                  "libfft_wrapper.execute_fft_plan"]

J_SPECS = ["se", "se_ar2", "se_a2r4", "se_erf_rinv"]
I0_SPECS = ["se", "se_r2", "se_apr2", "se_ap", "se_ap2r2", "se_lapl"]
I1_SPECS = ["se_grad", "se_rvec"]
USP = {"se": 0, "se_r2": -2, "se_ar2": 0, "se_a2r4": 0, "se_erf_rinv": 0, "se_ap": 2, "se_apr2": 0, "se_ap2r2": 2,
       "se_lapl": 2, "se_grad": 1, "se_rvec": -1, "grad_rho": 4}  # only used to pick combinations with implemented normalisers
BOOK_CLASSES = ["sl:nst", "sl:npa", "sl:ns", "sl:np", "vi", "vj", "vij", "vk", "fl", "sadm:smooth", "sadm:exact", "sdmx",
                "sdmxg", "sdmx1", "sdmxg1", "sdmxfull", "empty"]
SDMX_KINDS = ["sadm", "sdmx", "sdmxg", "sdmx1", "sdmxg1", "sdmxfull"]
FAMILIES = ["sl-nst", "sl-npa", "sl-ns", "sl-np", "vj-mgga", "vj-gga", "vi-mgga", "vi-gga", "vij-mgga", "vij-gga", "vk-mgga",
            "vk-gga", "sdmx", "sdmxg", "sdmx1", "sdmxg1", "vj+sdmx", "vj-nst", "vj-expnt"]
NLDF_FAMS = {"vj-mgga", "vj-gga", "vi-mgga", "vi-gga", "vij-mgga", "vij-gga", "vk-mgga", "vk-gga", "vj+sdmx", "vj-nst", "vj-expnt"}
ONE_ATOM = {"rks": ["He"], "uks": ["Li", "H", "He"]}
MULTI_ATOM = {"rks": ["HF", "LiH", "H2O", "H2"], "uks": ["NH2", "OH-", "CH3", "O2"]}
EVAL_CLASSES = ["RBFEvaluator", "AntisymRBFEvaluator", "SpinRBFEvaluator"]
UNSAFE_KINDS = ["X1ctrl-wider-than-kernel", "X1ctrl-narrower-than-kernel", "alpha-shorter-than-X1ctrl",
                "alpha-longer-than-X1ctrl"]


# ----------------------------------------------------------------------------------------------------------------
# case generation (runner side: no ciderpress import)
# ----------------------------------------------------------------------------------------------------------------
def gen_cases(tier, seed):
    q = tier == "quick"
    m = 1 if q else 10
    rng = rng_for(seed, PROP_NO, 0)
    cases = []
    idx = [0]

    def add(kind, name, variant="plain", threads=2, weight=1.0, timeout=900, **kw):
        idx[0] += 1
        c = {"id": "%s-%03d%s" % (name, len(cases), "" if variant == "plain" else "-" + variant), "kind": kind, "seed": seed,
             "idx": idx[0], "_threads": threads, "_weight": float(weight), "_timeout": timeout}
        if variant != "plain":
            c["_variant"] = variant
        c.update(kw)
        cases.append(c)

    # (i) bookkeeping
    for i in range(6 * m):
        add("book-settings", "book-settings", weight=1.0, start=i, n=len(BOOK_CLASSES))
    for i in range(8 * m):
        add("book-fs", "book-fs", weight=1.5, masks=[(2 * i) % 16, (2 * i + 1) % 16], nvar=6)
    for i in range(2 * m):
        add("book-gen-pt", "book-gen-pt", weight=3.0, n=10, start=i)
    e2e_pool = [("vj-mgga", "rks"), ("vi-gga", "uks"), ("vij-mgga", "rks"), ("vk-gga", "uks"), ("vj+sdmx", "rks"),
                ("vi-mgga", "rks"), ("vk-mgga", "rks"), ("vij-gga", "uks"), ("vj-expnt", "uks"), ("vj-gga", "rks")]
    for i in range(2 * m):
        cfgs = [_e2e_cfg(rng, *e2e_pool[(3 * i + j) % len(e2e_pool)], j + i, cheap=True) for j in range(3 if q else 2)]
        add("book-gen-mol", "book-gen-nldf", weight=12.0, sub="nldf", cfgs=cfgs)
    for i in range(1 * m):
        add("book-gen-mol", "book-gen-sdmx", weight=4.0, sub="sdmx", n=6)
    for i in range(2 * m):
        add("book-gen-mol", "book-gen-desc", weight=10.0, sub="desc", spin=["rhf", "uhf"][i % 2], n=6)
    # (ii) rejection
    nparts = 10 if q else 40
    for p in range(nparts):
        add("rej-settings", "rej-settings", weight=1.0, part=p, nparts=nparts, reps=2 if q else 8)
    nparts = 4 if q else 20
    for p in range(nparts):
        add("rej-plans", "rej-plans", weight=3.0, part=p, nparts=nparts, reps=1 if q else 4)
    for i in range(2 * m):
        add("rej-mol", "rej-mol", weight=6.0, mol=["HF", "Li", "H2O", "NH2"][i % 4], lmax=[6, 10, 4, 8][i % 4],
            nspin=1 + (i % 2), route=["classmethod", "initializer"][(i // 2) % 2])
    # (iii) exponent range
    combos = [(v, lev, pc, ns, af) for v in ("j", "k", "ij", "i") for lev in ("MGGA", "GGA") for pc in ("gaussian", "spline")
              for ns in (1, 2) for af in ("etb", "zexp")]
    order = [int(x) for x in rng.permutation(len(combos))]
    per = 8 if q else 16
    ncase = 4 if q else 20
    for i in range(ncase):
        sel = [combos[order[(i * per + j) % len(combos)]] for j in range(per)]
        add("expnt", "expnt", weight=4.0, combos=sel)
    e_pool = [("vj-mgga", "gaussian", "rks"), ("vk-gga", "spline", "uks"), ("vi-mgga", "spline", "rks"), ("vij-gga", "gaussian", "uks"),
              ("vj-expnt", "spline", "rks"), ("vj+sdmx", "gaussian", "uks"), ("vk-mgga", "gaussian", "rks"), ("vi-gga", "gaussian", "uks")]
    for i in range(2 * m):
        sel = [e_pool[(3 * i + j) % len(e_pool)] for j in range(3 if q else 4)]
        add("expnt-e2e", "expnt-e2e", weight=8.0, cfgs=[{"family": f, "plan_type": p, "spin": s,
                                                           "mol": ["HF", "LiH", "Li", "NH2"][(i + j) % 4] if s == "uks" or (i + j) % 2 else "HF",
                                                           "alpha_max": float(rng.choice([0.3, 1.0, 3.0]))}
                                                          for j, (f, p, s) in enumerate(sel)])
    # (iv) ASan drivers
    pairs = [(f, s) for f in FAMILIES for s in ("rks", "uks")]
    reps = 1 if q else 6
    allc = []
    for r in range(reps):
        for k, (f, s) in enumerate(pairs):
            allc.append(_e2e_cfg(rng, f, s, k + r, cheap=False, thorough=not q))
    per = 7 if q else 6
    for i in range(0, len(allc), per):
        chunk = allc[i:i + per]
        add("asan-e2e", "asan-e2e", variant="asan", weight=sum(_e2e_weight(c) for c in chunk), timeout=1800, cfgs=chunk)
    lm = [1, 2, 6, 10]
    for i in range(2 * m):
        sel = [{"lmax": lm[(2 * i + j) % 4], "family": ["vj-mgga", "vi-gga", "vk-mgga", "vij-mgga"][(i + j) % 4],
                "spin": ["rks", "uks"][(i + j) % 2], "mol": [["He", "HF"], ["Li", "NH2"]][(i + j) % 2][(i // 2 + j) % 2],
                "plan_type": ["gaussian", "spline"][(i + j) % 2], "interp": ["onsite_direct", "onsite_spline"][(i // 2 + j) % 2]}
               for j in range(2)]
        add("asan-lmax", "asan-lmax", variant="asan", weight=25.0, timeout=1800, cfgs=sel)
    for i in range(1 * m):
        add("asan-eval", "asan-eval", variant="asan", weight=12.0, part=i, nparts=m)
    for i in range(1 * m):
        add("asan-sdmx", "asan-sdmx", variant="asan", weight=10.0, n=6)
    for i in range(1 * m):
        add("asan-fft", "asan-fft", variant="asan", weight=3.0, n=12)
    for i in range(1 * m):
        add("asan-misc", "asan-misc", variant="asan", weight=20.0, spin=["rhf", "uhf"][i % 2])
    for i in range(1 * m):
        add("asan-shape-eval", "asan-shape-eval", variant="asan", weight=3.0)
        add("asan-shape-nldf", "asan-shape-nldf", variant="asan", weight=8.0, mol=["HF", "Li", "LiH"][i % 3],
            version=["j", "i", "k", "ij"][i % 4], plan_type=["gaussian", "spline"][i % 2])
    unsafe = [(c, k) for c in EVAL_CLASSES for k in UNSAFE_KINDS]
    if q:
        unsafe = [u for u in unsafe if u[0] == "RBFEvaluator" or u[1] in ("X1ctrl-wider-than-kernel", "alpha-shorter-than-X1ctrl")]
    for c, k in unsafe:
        add("asan-unsafe", "asan-unsafe-%s-%s" % (c, k), variant="asan", weight=2.0, timeout=300, cls=c, probe=k)
    return cases


def _e2e_cfg(rng, family, spin, k, cheap=False, thorough=False):
    one = (k % 2 == 0)
    pool = (ONE_ATOM if one else MULTI_ATOM)[spin]
    mol = pool[int(rng.integers(len(pool)))]
    if cheap and mol in ("H2O", "CH3", "O2"):
        mol = "HF" if spin == "rks" else "NH2"
    c = {"family": family, "spin": spin, "mol": mol, "basis": str(rng.choice(["sto-3g", "6-31g"], p=[0.6, 0.4])),
         "level": 0 if (cheap or mol in ("H2O", "CH3", "O2")) else int(rng.integers(0, 2)),
         "max_memory": int(rng.choice([2000, 1, 3])), "nset": int(rng.choice([1, 1, 2, 3])),
         "mode": str(rng.choice(["SEP", "NPOL", "POL"], p=[0.6, 0.2, 0.2])),
         "evaluator": str(rng.choice(["rbf", "kernel", "linear", "rbf+linear"], p=[0.55, 0.15, 0.15, 0.15]))}
    if family in NLDF_FAMS:
        c["plan_type"] = str(rng.choice(["gaussian", "spline"]))
        c["interp"] = str(rng.choice(["onsite_direct", "onsite_spline"]))
        if thorough and rng.random() < 0.3:
            c["aux_lambd"] = float(rng.choice([1.8, 2.0]))
    if cheap:
        c["nset"] = 1
        c["basis"] = "sto-3g"
    return c


def _e2e_weight(c):
    natm = {"He": 1, "Li": 1, "H": 1, "HF": 2, "LiH": 2, "H2": 2, "OH-": 2, "O2": 2, "H2O": 3, "NH2": 3, "CH3": 4}.get(c["mol"], 2)
    w = natm * (1 + c["level"]) * (2.0 if c["basis"] == "6-31g" else 1.0) * (1 + 0.5 * (c["nset"] - 1)) * (1.6 if c["spin"] == "uks" else 1.0)
    return w * (4.0 if c["family"] in NLDF_FAMS else 0.6)


# ----------------------------------------------------------------------------------------------------------------
# dispatch
# ----------------------------------------------------------------------------------------------------------------
def run_case(case, rec):
    import warnings
    from vlib import boot
    rng = rng_for(case["seed"], PROP_NO, case["idx"])
    rec.tag("variant", boot.VARIANT)
    rec.tag("case_kind", case["kind"])
    fn = {"book-settings": _run_book_settings, "book-fs": _run_book_fs, "book-gen-pt": _run_book_gen_pt,
          "book-gen-mol": _run_book_gen_mol, "rej-settings": _run_rej_settings, "rej-plans": _run_rej_plans,
          "rej-mol": _run_rej_mol, "expnt": _run_expnt, "expnt-e2e": _run_expnt_e2e, "asan-e2e": _run_asan_e2e,
          "asan-lmax": _run_asan_lmax, "asan-eval": _run_asan_eval, "asan-sdmx": _run_asan_sdmx, "asan-fft": _run_asan_fft,
          "asan-misc": _run_asan_misc, "asan-shape-eval": _run_asan_shape_eval, "asan-shape-nldf": _run_asan_shape_nldf,
          "asan-unsafe": _run_asan_unsafe}[case["kind"]]
    strict = case["kind"].startswith("asan-") and case["kind"] not in ("asan-unsafe", "asan-shape-eval", "asan-shape-nldf")
    n0 = len(boot.STRICT_ERRORS)
    boot.MODE["strict"] = bool(strict)
    try:
        with warnings.catch_warnings():
            warnings.simplefilter("ignore")
            with np.errstate(all="ignore"):
                fn(case, rec, rng)
    finally:
        boot.MODE["strict"] = False
    if strict:
        _check_strict(rec, boot.STRICT_ERRORS[n0:])


def _dense_permuted(shape, strides, itemsize=8):
    """True when strides describe a dense (gap-free) permutation of a contiguous block."""
    dims = sorted([(st, sh) for sh, st in zip(shape, strides) if sh > 1])
    expect = None
    for st, sh in dims:
        if expect is None:
            if st not in (8, 4, 16, 1, 2):
                return False
            expect = st
        if st != expect:
            return False
        expect = st * sh
    return True


def _check_strict(rec, errors):
    bad = {}
    for s in errors:
        parts = s.split()
        entry = parts[0]
        if "non-contiguous" in s:
            m = re.search(r"shape=\(([^)]*)\) strides=\(([^)]*)\)", s)
            if m:
                shape = [int(v) for v in m.group(1).replace(" ", "").split(",") if v]
                strides = [int(v) for v in m.group(2).replace(" ", "").split(",") if v]
                if _dense_permuted(shape, strides):
                    rec.tag("boundary_dense_permuted_view", entry)
                    continue
            bad.setdefault((entry, "non-contiguous-array"), s)
        else:
            bad.setdefault((entry, "unexpected-dtype"), s)
    rec.require("boundary_strict", not bad, mechanism="boundary:%s:%s" % sorted(bad)[0] if bad else None,
                detail=list(bad.values())[:5])
    for k in sorted(bad)[1:]:
        rec.require("boundary_strict", False, mechanism="boundary:%s:%s" % k, detail=bad[k])


# ----------------------------------------------------------------------------------------------------------------
# sanitizer / crash classification hooks for the runner
# ----------------------------------------------------------------------------------------------------------------
_FRAME = re.compile(r"#\d+\s+0x[0-9a-f]+\s+in\s+(\S+)\s+(\S*/ciderpress/lib/\S+?):\d+")


def _san_mechanism(kind, block):
    m = _FRAME.search(block)
    if m:
        func = re.sub(r"\.(_omp_fn|constprop|isra|part|cold)\.?\d*", "", m.group(1))
        return "%s:%s:%s" % (kind, os.path.basename(m.group(2)), func)
    m = re.search(r"(\S*/ciderpress/lib/\S+?):\d+(?::\d+)?: runtime error", block)
    if m:
        return "%s:%s" % (kind, os.path.basename(m.group(1)))
    if "fftw_ref" in block or "libfft" in block:
        return "%s:cider_fft.c" % kind
    return "%s:unclassified" % kind


def classify_sanitizer(blocks):
    out, seen = [], set()
    for kind, b in blocks:
        mech = _san_mechanism(kind, b)
        if mech in seen:
            continue
        seen.add(mech)
        out.append({"id": "sanitizer", "oracle": kind, "mechanism": mech, "obs": 1.0, "tol": 0.5, "detail": b[:2500]})
    return out[:30]


def _case_label(case):
    if case.get("kind") == "asan-unsafe":
        return "asan-unsafe[%s:%s]" % (case.get("cls"), case.get("probe"))
    return str(case.get("kind"))


def classify_abnormal(r):
    """Every input of the drivers is admissible and every deliberately invalid argument is expected to be rejected in
    Python, so a worker stopped by ASan/UBSan (exit code 97) or killed by a memory-fault signal is the library's fault."""
    if r.get("status") != "crash":
        return None
    rc = r.get("returncode")
    case = r.get("case") or {}
    tail = (r.get("stderr_tail") or "")[-1500:]
    label = _case_label(case)
    if case.get("_variant") == "asan" and rc == 97:
        return {"violation": True, "failure": {"oracle": "asan_abort", "mechanism": "crash:%s" % label, "obs": 1.0, "tol": 0.5,
                                               "detail": "worker stopped by the sanitizer (exit code 97)\n" + tail}}
    if rc in (-11, -6, -7, -8, -4):
        return {"violation": True, "failure": {"oracle": "crash", "mechanism": "crash:%s" % label, "obs": 1.0, "tol": 0.5,
                                               "detail": "signal %d\n%s" % (-rc, tail)}}
    return None


def finalize(results, coverage):
    cat = {}
    obs = {}
    for r in results:
        for v in (r.get("tags") or {}).get("answer", []):
            k, _, a = str(v).partition("=")
            cat.setdefault(k, {})
            cat[k][a] = cat[k].get(a, 0) + 1
        for v in (r.get("tags") or {}).get("observation", []):
            obs[str(v)] = obs.get(str(v), 0) + 1
    coverage["corruption_catalogue[class:kind -> answer@stage: cases]"] = cat
    coverage["observations_not_asserted"] = obs
    coverage["asan_cases"] = sum(1 for r in results if (r.get("tags") or {}).get("variant") == ["asan"])


# ----------------------------------------------------------------------------------------------------------------
# random VALID argument sets (keyword dictionaries, so that one field can be corrupted afterwards)
# ----------------------------------------------------------------------------------------------------------------
def _st():
    from ciderpress.dft import settings
    return settings


def _pick(rng, seq):
    return seq[int(rng.integers(len(seq)))]


def _params(rng, level, spec="se"):
    a0 = float(rng.uniform(0.6, 3.0))
    g = float(rng.uniform(0.0, 0.08)) if rng.random() < 0.7 else 0.0
    p = [a0, g]
    if level == "MGGA":
        p.append(float(rng.uniform(0.0, 0.05)) if rng.random() < 0.8 else 0.0)
    if spec == "se_erf_rinv":
        p.append(float(rng.uniform(0.5, 3.0)))
    return p


NLDF_FIELDS = {"i": {"l0": "l0_feat_specs", "l1": "l1_feat_specs", "dots": "l1_feat_dots"},
               "j": {"specs": "feat_specs", "params": "feat_params"},
               "ij": {"l0": "l0_feat_specs_i", "l1": "l1_feat_specs_i", "dots": "l1_feat_dots_i", "specs": "feat_specs_j",
                      "params": "feat_params_j"},
               "k": {"params": "feat_params", "damp": "rho_damp"}}
NLDF_CLS = {"i": "NLDFSettingsVI", "j": "NLDFSettingsVJ", "ij": "NLDFSettingsVIJ", "k": "NLDFSettingsVK"}
IMPLEMENTED_VI_USPS = (0, -2, 2, 5)


def _kw_nldf(ver, rng, level=None, rho_mult=None, safe=False):
    """safe=True: only combinations whose recommended normaliser is implemented (so that the valid base passes every use)."""
    level = level or _pick(rng, ["GGA", "MGGA"])
    rho_mult = rho_mult or _pick(rng, ["one", "expnt"])
    if safe and "i" in ver and rng.random() < 0.75:
        rho_mult = "one"
    usp0 = 2 if rho_mult == "expnt" else 0
    f = NLDF_FIELDS[ver]
    kw = {"sl_level": level, "theta_params": _params(rng, level), "rho_mult": rho_mult}
    if "i" in ver:
        l0c = [s for s in I0_SPECS if (not safe) or (usp0 + USP[s]) in IMPLEMENTED_VI_USPS[:3]]
        n0 = int(rng.integers(1, min(3, len(l0c)) + 1))
        l0 = [l0c[int(i)] for i in rng.choice(len(l0c), size=n0, replace=False)]
        l1 = [I1_SPECS[int(i)] for i in rng.permutation(2)][: int(rng.integers(1, 3))]
        names = {-1: "grad_rho"}
        names.update({i: s for i, s in enumerate(l1)})
        pairs = [(j, k) for j in range(-1, len(l1)) for k in range(-1, len(l1))]
        if safe:
            pairs = [p for p in pairs if (usp0 + USP[names[p[0]]] + USP[names[p[1]]]) in IMPLEMENTED_VI_USPS]
        nd = int(rng.integers(1, 4)) if pairs else 0
        dots = [pairs[int(i)] for i in rng.integers(len(pairs), size=nd)] if pairs else []
        if rng.random() < 0.3:
            dots = [list(d) for d in dots]  # lists are documented to be as good as tuples
        kw[f["l0"]], kw[f["l1"]], kw[f["dots"]] = l0, l1, dots
    if "j" in ver:
        ns = int(rng.integers(1, 4))
        specs = [_pick(rng, J_SPECS) for _ in range(ns)]
        kw[f["specs"]] = specs
        kw[f["params"]] = [_params(rng, level, s) for s in specs]
    if ver == "k":
        kw[f["params"]] = [_params(rng, level) for _ in range(int(rng.integers(1, 4)))]
        kw[f["damp"]] = "exponential"
    return kw


def _mk_nldf(ver, kw):
    return getattr(_st(), NLDF_CLS[ver])(**kw)


def _kw_fl(rng, safe=False):
    ns = int(rng.integers(2, 5))
    slist = [float(s) for s in np.round(rng.uniform(-1.2, 1.5, size=ns), 3)]
    nk0 = int(rng.integers(1, ns + 1))
    nk1 = int(rng.integers(1 if safe else 0, ns + 1))
    nd1 = int(rng.integers(1 if safe else 0, nk1 + 1)) if nk1 else 0
    ndd = int(rng.integers(0, nd1 + 1))
    l1 = [(int(a), int(b)) for a, b in rng.integers(-1, nk1, size=(int(rng.integers(0, 4)), 2))] if nk1 else \
        ([(-1, -1)] if rng.random() < 0.5 else [])
    ld = [(int(a), int(b)) for a, b in rng.integers(-1, nd1, size=(int(rng.integers(0, 3)), 2))] if nd1 else []
    return {"slist": slist, "nk0": nk0, "nk1": nk1, "l1_dots": l1, "nd1": nd1, "ld_dots": ld, "ndd": ndd}


def _pows(rng):
    n = int(rng.integers(1, 4))
    return [int(v) for v in rng.permutation(3)[:n]]


def _kw_sdmx(kind, rng):
    if kind == "sadm":
        return {"mode": _pick(rng, ["smooth", "exact"])}
    p = _pows(rng)
    if kind == "sdmx":
        return {"pows": p}
    if kind == "sdmxg":
        return {"pows": p, "ndt": int(rng.integers(0, len(p) + 1))}
    if kind == "sdmx1":
        return {"pows": p, "n1": int(rng.integers(0, len(p) + 1))}
    if kind == "sdmxg1":
        return {"pows": p, "nd": int(rng.integers(0, len(p) + 1)), "n1": int(rng.integers(0, len(p) + 1))}
    d = {}
    ratios = [1.0, 1.5, 2.0]
    for i in rng.permutation(3)[: int(rng.integers(1, 4))]:
        pw = _pows(rng)
        d[ratios[int(i)]] = (pw, [int(rng.integers(0, len(pw) + 1)) for _ in range(4)])
    if sum(sum(v[1]) for v in d.values()) == 0:
        k = list(d)[0]
        d[k] = (d[k][0], [1, 0, 0, 0])
    return {"settings_dict": d}


SDMX_CLS = {"sadm": "SADMSettings", "sdmx": "SDMXSettings", "sdmxg": "SDMXGSettings", "sdmx1": "SDMX1Settings",
            "sdmxg1": "SDMXG1Settings", "sdmxfull": "SDMXFullSettings"}


def _mk_sdmx(kind, kw):
    return getattr(_st(), SDMX_CLS[kind])(**kw)


def _draw_settings(label, rng, safe=False):
    """(class name, object, printable kwargs) for one entry of BOOK_CLASSES."""
    st = _st()
    if label.startswith("sl:"):
        return "SemilocalSettings", st.SemilocalSettings(label[3:]), {"mode": label[3:]}
    if label in NLDF_CLS:
        kw = _kw_nldf(label, rng, safe=safe)
        return NLDF_CLS[label], _mk_nldf(label, kw), kw
    if label == "fl":
        kw = _kw_fl(rng, safe=safe)
        return "FracLaplSettings", st.FracLaplSettings(**kw), kw
    if label.startswith("sadm:"):
        return "SADMSettings", st.SADMSettings(label[5:]), {"mode": label[5:]}
    if label in SDMX_CLS:
        kw = _kw_sdmx(label, rng)
        return SDMX_CLS[label], _mk_sdmx(label, kw), {k: (str(v) if isinstance(v, dict) else v) for k, v in kw.items()}
    if label == "empty":
        return "EmptySettings", st.EmptySettings(), {}
    raise ValueError(label)


# ----------------------------------------------------------------------------------------------------------------
# (i) bookkeeping
# ----------------------------------------------------------------------------------------------------------------
def _counts(rec, s, cname, detail):
    """The four-way count equality of one settings object.  Returns nfeat."""
    nf = int(s.nfeat)
    rec.require("nfeat_is_count", isinstance(s.nfeat, (int, np.integer)) and nf >= 0, mechanism="%s:nfeat-not-a-count" % cname, detail=detail)
    rec.require("is_empty_consistent", bool(s.is_empty) == (nf == 0), mechanism="%s:is_empty-inconsistent" % cname, detail=detail)
    for name, fn in (("usps", lambda: s.get_feat_usps()), ("ueg", lambda: s.ueg_vector()), ("ueg_rho", lambda: s.ueg_vector(0.37)),
                     ("normalizer", lambda: s.get_reasonable_normalizer())):
        try:
            v = fn()
        except NotImplementedError as e:
            rec.tag("observation", "%s.%s:NotImplementedError(documented-not-implemented combination)" % (cname, name))
            rec.note("not_implemented[%s.%s]" % (cname, name), str(e)[:100])
            continue
        n = len(v)
        rec.require("count[%s]" % name, n == nf, mechanism="%s:count-mismatch[%s]" % (cname, name.replace("ueg_rho", "ueg")),
                    detail=dict(detail, nfeat=nf, got=n))
    return nf


def _run_book_settings(case, rec, rng):
    sample = None
    for j in range(case["n"]):
        label = BOOK_CLASSES[(case["start"] + j) % len(BOOK_CLASSES)]
        cname, s, kw = _draw_settings(label, rng)
        rec.tag("settings_class", cname)
        if label in NLDF_CLS:
            rec.tag("nldf_variant", "%s/%s/%s" % (cname, kw["sl_level"], kw["rho_mult"]))
        nf = _counts(rec, s, cname, {"class": cname, "kwargs": kw})
        rec.nontrivial("book|%s|%d" % (label, j))
        if sample is None and label in ("vij", "fl"):
            sample = {"oracle": "count equalities", "class": cname, "kwargs": kw, "nfeat": nf, "usps": [float(u) for u in s.get_feat_usps()]}
    rec.set_sample(sample)


def _family_for_mask(mask, rng, v):
    """Settings objects (or None) for the subset mask bit0=sl bit1=nldf bit2=nlof bit3=sdmx, variant number v."""
    st = _st()
    sl = nldf = nlof = sdmx = None
    names = {}
    if mask & 1:
        mode = ["nst", "npa", "ns", "np"][v % 4]
        sl = st.SemilocalSettings(mode)
        names["sl"] = "SemilocalSettings:" + mode
    if mask & 2:
        ver = ["j", "i", "ij", "k"][(v + mask) % 4]
        kw = _kw_nldf(ver, rng, level=["MGGA", "GGA"][(v // 2) % 2], rho_mult=["one", "expnt"][(v // 3) % 2], safe=True)
        nldf = _mk_nldf(ver, kw)
        names["nldf"] = "%s/%s/%s" % (NLDF_CLS[ver], kw["sl_level"], kw["rho_mult"])
    if mask & 4:
        nlof = st.FracLaplSettings(**_kw_fl(rng))
        names["nlof"] = "FracLaplSettings"
    if mask & 8:
        kind = SDMX_KINDS[(v + mask // 2) % len(SDMX_KINDS)]
        sdmx = _mk_sdmx(kind, _kw_sdmx(kind, rng))
        names["sdmx"] = SDMX_CLS[kind]
    return sl, nldf, nlof, sdmx, names


def _run_book_fs(case, rec, rng):
    st = _st()
    from ciderpress.dft.feat_normalizer import FeatNormalizerList
    M = "FeatureSettings"
    sample = None
    for mask in case["masks"]:
        for v in range(case["nvar"]):
            sl, nldf, nlof, sdmx, names = _family_for_mask(mask, rng, v + case["idx"])
            rec.tag("family_subset", "+".join(sorted(names)) or "(empty)")
            for k, n in names.items():
                rec.tag("fs_%s_class" % k, n)
            detail = {"subset": names}
            fams = [sl, nldf, nlof, sdmx]
            ns = [0 if f is None else int(f.nfeat) for f in fams]
            explicit = None
            try:
                fs = st.FeatureSettings(sl_settings=sl, nldf_settings=nldf, nlof_settings=nlof, sdmx_settings=sdmx)
            except AttributeError as e:
                if sl is not None:
                    raise
                # documented-valid (EmptySettings for sl) but the default normaliser list needs sl_settings.mode
                rec.tag("observation", "FeatureSettings(sl_settings=None):default-normalizers-raise-AttributeError")
                explicit = FeatNormalizerList([None] * sum(ns), slmode="npa")
                fs = st.FeatureSettings(sl_settings=sl, nldf_settings=nldf, nlof_settings=nlof, sdmx_settings=sdmx, normalizers=explicit)
            total = sum(ns)
            rec.require("fs_nfeat_is_sum", int(fs.nfeat) == total, mechanism=M + ":nfeat!=sum-of-families", detail=dict(detail, nfeat=int(fs.nfeat), families=ns))
            for flag, f in (("has_sl", sl), ("has_nldf", nldf), ("has_nlof", nlof), ("has_sdmx", sdmx)):
                rec.require("fs_has_flags", bool(getattr(fs, flag)) == (f is not None and f.nfeat > 0), mechanism=M + ":%s-inconsistent" % flag, detail=detail)
            loc = np.asarray(fs.get_feat_loc())
            want = np.cumsum([0] + ns + [0])
            rec.require("feat_loc", loc.shape == (6,) and np.array_equal(loc, want) and int(loc[-1]) == int(fs.nfeat),
                        mechanism=M + ":feat_loc-not-cumulative", detail=dict(detail, got=loc.tolist(), want=want.tolist()))
            d = fs.get_feat_loc_dict()
            wantd = {"sl": 0, "nldf": ns[0], "nlof": ns[0] + ns[1], "sadm": ns[0] + ns[1] + ns[2], "hyb": total, "end": total}
            rec.require("feat_loc_dict", sorted(d) == sorted(wantd) and all(int(d[k]) == wantd[k] for k in wantd),
                        mechanism=M + ":feat_loc_dict-inconsistent", detail=dict(detail, got={k: int(x) for k, x in d.items()}, want=wantd))
            usps = ueg = None
            for name, fn in (("usps", lambda: fs.get_feat_usps()), ("ueg", lambda: fs.ueg_vector()), ("ueg_rho", lambda: fs.ueg_vector(0.61)),
                             ("normalizer", lambda: fs.get_reasonable_normalizer()), ("usps+norm", lambda: fs.get_feat_usps(with_normalizers=True)),
                             ("ueg+norm", lambda: fs.ueg_vector(0.61, with_normalizers=True))):
                try:
                    val = fn()
                except NotImplementedError:
                    rec.tag("observation", "FeatureSettings.%s:NotImplementedError(documented-not-implemented combination)" % name)
                    continue
                rec.require("count[%s]" % name, len(val) == total, mechanism=M + ":count-mismatch[%s]" % name.replace("ueg_rho", "ueg"),
                            detail=dict(detail, nfeat=total, got=len(val)))
                if name == "usps":
                    usps = np.asarray(val, dtype=float)
            if usps is not None and usps.size == total:
                ok = True
                for i, f in enumerate(fams):
                    seg = usps[want[i]:want[i + 1]]
                    ref = np.asarray(f.get_feat_usps(), dtype=float) if f is not None else np.zeros(0)
                    ok = ok and seg.shape == ref.shape and np.array_equal(seg, ref)
                rec.require("usps_segments_follow_feat_loc", ok, mechanism=M + ":family-order-differs-from-feat_loc", detail=detail)
            rec.require("normalizers.nfeat[default]", int(fs.normalizers.nfeat) == total, mechanism=M + ":normalizers.nfeat!=nfeat[default]", detail=detail)
            if sl is not None:
                try:
                    fs.assign_reasonable_normalizer()
                    rec.require("normalizers.nfeat[assigned]", int(fs.normalizers.nfeat) == total == int(fs.nfeat),
                                mechanism=M + ":normalizers.nfeat!=nfeat[assign_reasonable_normalizer]", detail=detail)
                    x = np.abs(rng.normal(size=(1, total, 5))) + 0.1
                    xn = fs.normalizers.get_normalized_feature_vector(x)
                    rec.require("normalized_vector_shape", xn.shape == x.shape, mechanism=M + ":normalized-vector-shape", detail=detail)
                except NotImplementedError:
                    rec.tag("observation", "FeatureSettings.assign_reasonable_normalizer:NotImplementedError")
            rec.nontrivial("fs|%d|%d" % (mask, v))
            if sample is None and mask in (7, 11, 15):
                sample = {"oracle": "FeatureSettings bookkeeping", "subset": names, "family_nfeat": ns, "nfeat": total,
                          "feat_loc": loc.tolist(), "feat_loc_dict": {k: int(x) for k, x in d.items()}}
    rec.set_sample(sample)


def _pointwise(rng, n, nspin, level="MGGA", lo=1e-4, hi=50.0):
    from vlib import gen
    rd = gen.pointwise_rho(rng, n, nspin, lo=lo, hi=hi)
    return rd if level == "MGGA" else np.ascontiguousarray(rd[:, :4])


def _nldf_plan(settings, nspin, rng, cls=None, alpha_formula=None, **kw):
    from ciderpress.dft import plans
    cls = cls or _pick(rng, ["gaussian", "spline"])
    pc = plans.NLDFGaussianPlan if cls == "gaussian" else plans.NLDFSplinePlan
    lambd = kw.pop("lambd", float(rng.choice([1.6, 1.8, 2.0])))
    alpha0 = kw.pop("alpha0", 0.004)
    nalpha = kw.pop("nalpha", int(np.ceil(np.log(2e5 / alpha0) / np.log(lambd))) + 1)
    return pc(settings, nspin, alpha0, lambd, nalpha, alpha_formula=alpha_formula or _pick(rng, ["etb", "zexp"]), **kw)


def _run_book_gen_pt(case, rec, rng):
    """Rows actually produced by the plan-level generators on pointwise admissible densities."""
    from ciderpress.dft import plans
    st = _st()
    sample = None
    for j in range(case["n"]):
        nspin = 1 + (j + case["start"]) % 2
        ng = int(rng.choice([1, 7, 33]))
        # semilocal
        mode = ["nst", "npa", "ns", "np"][(j + case["start"]) % 4]
        s = st.SemilocalSettings(mode)
        rd = _pointwise(rng, ng, nspin, "MGGA")
        f = plans.SemilocalPlan(s, nspin).get_feat(rd)
        rec.require("generator_rows[SemilocalPlan]", f.shape == (nspin, s.nfeat, ng), mechanism="SemilocalPlan.get_feat:rows!=nfeat[%s]" % mode,
                    detail={"shape": list(f.shape), "nfeat": s.nfeat})
        rec.tag("generator", "SemilocalPlan.get_feat[%s]" % mode)
        rec.nontrivial("gen|sl|%d" % j)
        # fractional Laplacian plan
        kw = _kw_fl(rng)
        fl = st.FracLaplSettings(**kw)
        rho = rng.normal(size=(nspin, 5 + fl.nrho, ng))
        plan = plans.FracLaplPlan(fl, nspin)
        f = plan.get_feat(rho)
        ok = f.shape == (nspin, fl.nfeat, ng)
        rec.require("generator_rows[FracLaplPlan]", ok, mechanism="FracLaplPlan.get_feat:rows!=nfeat", detail={"kwargs": kw, "shape": list(f.shape), "nfeat": fl.nfeat})
        if ok:
            v = plan.get_vxc(rng.normal(size=f.shape))
            rec.require("generator_rows[FracLaplPlan.get_vxc]", v.shape == rho.shape, mechanism="FracLaplPlan.get_vxc:rows!=nrho", detail={"kwargs": kw})
        rec.require("fl_nrho", fl.nrho == fl.nk0 + 3 * fl.nk1 + 3 * fl.nd1 + fl.ndd == fl.size, mechanism="FracLaplSettings:nrho!=size", detail=kw)
        rec.tag("generator", "FracLaplPlan.get_feat")
        rec.nontrivial("gen|fl|%d" % j)
        # NLDF plan: contraction of random interpolated integrals
        ver = ["j", "i", "ij", "k"][(j + case["start"]) % 4]
        kwn = _kw_nldf(ver, rng)
        ns_ = _mk_nldf(ver, kwn)
        pcls = ["gaussian", "spline"][(j // 2 + case["start"]) % 2]
        p = _nldf_plan(ns_, nspin, rng, cls=pcls)
        rd = _pointwise(rng, ng, 1, kwn["sl_level"])[0]
        ncol = p.num_vi_ints + (0 if ver == "i" else p.nalpha)
        fq = np.ascontiguousarray(rng.normal(size=(ng, ncol)))
        feat, dfeat = p.eval_rho_full(fq, rd, spin=nspin - 1)
        rec.require("generator_rows[NLDFPlan.eval_rho_full]", feat.shape == (ns_.nfeat, ng) and dfeat.shape == (ns_.num_feat_param_sets, ng),
                    mechanism="%s.eval_rho_full:rows!=nfeat[%s]" % (type(p).__name__, NLDF_CLS[ver]),
                    detail={"kwargs": kwn, "feat": list(feat.shape), "dfeat": list(dfeat.shape), "nfeat": ns_.nfeat})
        vf = p.eval_vxc_full(rng.normal(size=feat.shape), np.zeros_like(rd), dfeat, rd, spin=nspin - 1)
        rec.require("generator_rows[NLDFPlan.eval_vxc_full]", vf.shape == fq.shape, mechanism="%s.eval_vxc_full:shape[%s]" % (type(p).__name__, NLDF_CLS[ver]),
                    detail={"vf": list(vf.shape), "f": list(fq.shape)})
        rec.tag("generator", "%s.eval_rho_full[%s]" % (type(p).__name__, NLDF_CLS[ver]))
        rec.nontrivial("gen|nldfplan|%d" % j)
        if sample is None:
            sample = {"oracle": "generator rows", "FracLaplSettings": kw, "fl_feat_shape": list(f.shape), "nldf": kwn, "nldf_feat_shape": list(feat.shape)}
    rec.set_sample(sample)
