"""C10 - results independent of the OpenMP thread count and schedule.

(i)  differential thread sweep: one process builds the objects once and repeats the same calls with the OpenMP team
     size of the repository's libraries switched at run time (omp_set_num_threads of the libgomp they are linked to)
     over {1,2,3,5,8,16(,7,13)} and, in separate workers, oversubscribed (2 cores, passive waiting, no spinning);
     every public stage output (features, potentials, energies, XC matrices, evaluator outputs, numint helpers, FFT
     copy loops) is compared with the 1-thread result (1e-10 x scale) and repeated at fixed team size.
(ii) ThreadSanitizer with the OpenMP annotation shim (build/gomp_tsan_wrap.c) on small drivers that enter every parallel
     entry point reachable from Python with >= 4 threads; any report with a frame in the repository's libraries that
     is not suppressed (build/tsan.supp) is a violation.  DESIGN.md sections 2, 4.1 and 5/C10.
"""
import ctypes
import os
import re

import numpy as np

from vlib.oracles import rng_for

PROPERTY = "C10"
PROP_NO = 10
RULE = ("sweep case = (feature family | evaluator set | numint helpers | FFT wrapper, molecule incl. one-shell systems, "
        "spin path) evaluated in one process at team sizes 1,2,3,5,8,16 (thorough: +7,13; also oversubscribed workers) "
        "with 2 repeats each; a stage comparison is non-trivial when the stage output is non-zero and the team size "
        "differs from 1 (or it is a repeat at the same size); distinct = (case, stage, team size); tsan case = small "
        "driver under ThreadSanitizer with 4 threads, non-trivial when the annotation shim counted >= 1 parallel region "
        "entered by >= 2 workers and the required entry points were called")
MIN_NONTRIVIAL = {"quick": 150, "thorough": 1500}
ASSUMPTIONS = ["tolerance 2e-9 x scale between team sizes (BLAS reassociation; measured floor 1.4e-10 under load) and between "
               "repeats (floor 2e-16); bitwise reproducibility is recorded per stage, not required",
               "TSan sees only synchronisation it intercepts: libgomp fork/join/barrier/critical edges are added by the "
               "shim for the repository's libraries only; callbacks executed inside pyscf-owned regions (frac_lapl.c) "
               "and everything inside pyscf/OpenBLAS are out of reach (differential sweep only)",
               "schedules are sampled (team sizes, oversubscription, repeats), not enumerated; FFTW's own threading is "
               "not present (serial reference double)"]
TOL = 2e-9

_gomp = None


def set_threads(n):
    """Team size of the repository libraries (system libgomp) and of pyscf's private runtime."""
    global _gomp
    if _gomp is None:
        _gomp = ctypes.CDLL("libgomp.so.1")
    _gomp.omp_set_num_threads(ctypes.c_int(int(n)))
    from pyscf import lib
    lib.num_threads(int(n))


FAMS = ["vj-mgga", "vi-mgga", "vij-gga", "vk-mgga", "sdmx", "sdmxg1", "vj+sdmx", "sl-npa", "vi-gga", "vk-gga", "vj-gga",
        "vj-expnt", "sdmx1"]
NLDF = {"vj-mgga", "vi-mgga", "vij-gga", "vk-mgga", "vj+sdmx", "vi-gga", "vk-gga", "vj-gga", "vj-expnt"}


def gen_cases(tier, seed):
    rng = rng_for(seed, PROP_NO, 0)
    cases = []
    teams = [1, 2, 5, 16] if tier == "quick" else [1, 2, 3, 5, 7, 8, 13, 16]
    nrep = 1 if tier == "quick" else 4
    fams = FAMS[:8] if tier == "quick" else FAMS
    i = 0
    for rep in range(nrep):
        for fam in fams:
            spin = "rks" if (i % 2 == 0) else "uks"
            mol = str(rng.choice(["H2O", "HF", "LiH", "He", "NH3"] if spin == "rks" else ["NH2", "Li", "H", "CH3"]))
            c = dict(family=fam, spin=spin, mol=mol, basis=str(rng.choice(["6-31g", "sto-3g", "def2-svp"])),
                     level=int(rng.integers(0, 2)), mode=str(rng.choice(["SEP", "NPOL", "POL"], p=[0.6, 0.2, 0.2])),
                     evaluator="rbf", mix="pure", model="xc1")
            if fam in NLDF:
                c["plan_type"] = str(rng.choice(["gaussian", "spline"]))
                c["interp"] = str(rng.choice(["onsite_direct", "onsite_spline"]))
            over = (i % 4 == 3)
            case = {"id": "sweep-%03d-%s-%s%s" % (i, fam, spin, "-oversub" if over else ""), "kind": "sweep", "cfg": c,
                    "teams": teams, "seed": seed, "idx": 100 + i, "_threads": 8, "_weight": 4.0, "_timeout": 2400}
            if over:
                case["_env"] = {"GOMP_SPINCOUNT": "0", "OMP_WAIT_POLICY": "passive"}
                case["oversubscribe"] = True
            cases.append(case)
            i += 1
    nd = 4 if tier == "quick" else 16
    for j in range(nd):
        cases.append({"id": "direct-%03d" % j, "kind": "direct", "teams": teams, "seed": seed, "idx": 3000 + j,
                      "_threads": 4, "_weight": 1.0, "_timeout": 1200})
    # ThreadSanitizer drivers (4 threads; sized by measurement: ~40-90 s each)
    tsan = [("vj-mgga", "rks", "LiH"), ("vi-mgga", "uks", "Li"), ("vk-gga", "rks", "HF"), ("sdmxg1", "uks", "Li"),
            ("vij-gga", "rks", "LiH"), ("sdmx", "rks", "HF")]
    if tier == "thorough":
        tsan = tsan + [("vj-expnt", "uks", "NH2"), ("vi-gga", "rks", "H2O"), ("vk-mgga", "uks", "CH3"), ("vj+sdmx", "rks", "H2O"),
                       ("sdmx1", "uks", "NH2"), ("vj-gga", "uks", "Li")]
    reps = 1 if tier == "quick" else 2
    for r in range(reps):
        for k, (fam, spin, mol) in enumerate(tsan):
            c = dict(family=fam, spin=spin, mol=mol, basis="sto-3g" if r == 0 else "6-31g", level=0, mode="SEP",
                     evaluator="rbf", mix="pure", model="xc1")
            if fam in NLDF:
                c["plan_type"] = "gaussian" if (k + r) % 2 == 0 else "spline"
                c["interp"] = "onsite_direct" if k % 2 == 0 else "onsite_spline"
            nt = 4 if r == 0 else [2, 8][k % 2]
            cases.append({"id": "tsan-%d-%02d-%s-%s" % (r, k, fam, spin), "kind": "tsan", "cfg": c, "seed": seed,
                          "idx": 6000 + 100 * r + k, "_variant": "tsan", "_threads": nt, "_weight": 6.0,
                          "_timeout": 2400})
        cases.append({"id": "tsan-%d-direct" % r, "kind": "tsan_direct", "seed": seed, "idx": 6900 + r, "_variant": "tsan",
                      "_threads": 4, "_weight": 2.0, "_timeout": 1200})
    return cases


def run_case(case, rec):
    rng = rng_for(case["seed"], PROP_NO, case["idx"])
    {"sweep": _sweep, "direct": _direct, "tsan": _tsan, "tsan_direct": _tsan_direct}[case["kind"]](case, rec, rng)


# --------------------------------------------------------------------------------------------------------------
def _cmp(rec, case, stage, T, ref, out, kind, floor=None, absfloor=1e-12):
    """Compare a dict of named arrays with the reference dict.  `floor` (e2e stage only): per-output response of the
    1-thread result to a 1-ulp change of the density matrix, see _sweep."""
    for name, a in out.items():
        b = ref[name]
        a = np.asarray(a, dtype=float)
        b = np.asarray(b, dtype=float)
        sc = max(float(np.max(np.abs(b))) if b.size else 0.0, absfloor)
        d = float(np.max(np.abs(a - b))) / sc if b.size else 0.0
        if not np.all(np.isfinite(a)):
            d = float("nan")
        tol = TOL
        if floor is not None and kind == "team":
            tol = max(TOL, 8.0 * floor.get(name, 0.0))
        rec.check("%s[%s]" % (kind, stage + ":" + name), d, tol, mechanism="%s:%s:%s" % (kind, stage, name),
                  detail={"team": T, "max_rel_diff": d})
        key = "bitwise[%s:%s]" % (stage, name)
        rec.notes[key] = bool(rec.notes.get(key, True) and np.array_equal(a, b))
        if b.size and float(np.max(np.abs(b))) > 0:
            rec.nontrivial("%s:%s:%s:%d" % (kind, stage, name, T))


def _stage_inputs(ks, dm, nspin, model):
    """Inputs of the stage-level calls, computed once (by pyscf, at one thread): the stage comparisons must feed the C
    back end bit-identical inputs at every team size.  pyscf's own eval_rho differs by 1 ulp between team sizes, and the
    Gaussian interpolation plan amplifies one ulp of rho into up to 1e-7 of a feature (measured, see DESIGN.md C10)."""
    inp = {}
    if ks._numint.nldfgen is not None:
        from pyscf.dft import numint as pn
        ao = pn.eval_ao(ks.mol, ks.grids.coords, deriv=1)
        lev = model.settings.nldf_settings.sl_level
        for s in range(nspin):
            d = dm if nspin == 1 else dm[s]
            rho = pn.eval_rho(ks.mol, ao, d, xctype=lev, with_lapl=False)
            rho[:, ks.grids.weights == 0] = 0.0
            inp["rho%d" % s] = rho
    return inp


def _stage_outputs(gen, ks, dm, nspin, model, rng_state, inp):
    """All public stage outputs for one calculator at the current team size."""
    out = {}
    n, e, v = gen.nr_eval(ks, dm)
    out["e2e"] = {"nelec": np.atleast_1d(n), "excsum": np.atleast_1d(e), "vmat": np.asarray(v)}
    ni = ks._numint
    r = np.random.default_rng(rng_state)
    if ni.nldfgen is not None:
        g = ni.nldfgen
        res = {}
        for s in range(nspin):
            rho = inp["rho%d" % s].copy()
            f = g.get_features(rho, spin=s)
            vf = r.normal(size=f.shape) * ks.grids.weights
            p = g.get_potential(vf, spin=s)
            res["feat%d" % s] = f
            res["pot%d" % s] = p
        out["nldfgen"] = res
    if ni.sdmxgen is not None:
        out["sdmxgen"] = _sdmx_stage(ks, dm, nspin, r)
    if not model.settings.has_sdmx:
        out["grad"] = _grad_stage(ks, dm, nspin)
    # model evaluation on features (C kernels)
    nf = model.settings.nfeat
    nsl = model.settings.sl_settings.nfeat
    X = r.normal(size=(nspin, nf, 3001))
    X[:, :nsl] = np.exp(r.uniform(np.log(1e-2), np.log(5.0), size=(nspin, nsl, 3001)))
    res_, dres_ = model(X, rhocut=1e-9)
    out["model"] = {"res": res_, "dres": dres_}
    return out


def _grad_stage(ks, dm, nspin):
    """Nuclear-gradient entry points (fixed grid and full grid response): XC force matrices and response sums."""
    from ciderpress.pyscf import rks_grad, uks_grad
    mod = rks_grad if nspin == 1 else uks_grad
    ni = ks._numint
    res = {}
    e1, v1 = mod.get_vxc(ni, ks.mol, ks.grids, ks.xc, dm)
    res["vmat_fixed_grid"] = np.asarray(v1)
    e2, v2 = mod.get_vxc_full_response(ni, ks.mol, ks.grids, ks.xc, dm)
    res["excsum_grid_response"] = np.asarray(e2)
    res["vmat_grid_response"] = np.asarray(v2)
    return res


SDMX_BLOCKS = (600, 997, 1504, 1, 5, 57)   # incl. blocks shorter than team x (team - 1): partition edge cases


def _sdmx_stage(ks, dm, nspin, r):
    """SDMX forward (features) and backward (XC matrix contribution) on grid blocks of several lengths: the per-thread
    block length of the contraction routines depends on (ngrids, team size)."""
    ni = ks._numint
    res = {}
    nao = ks.mol.nao
    for nb in SDMX_BLOCKS:
        nb = min(nb, ks.grids.coords.shape[0])
        coords = np.ascontiguousarray(ks.grids.coords[:nb])
        f = np.asarray(ni.sdmxgen.get_features(dm, ks.mol, coords))
        res["feat%d" % nb] = f
        vf = r.normal(size=f.shape) * ks.grids.weights[:nb]
        vm = np.zeros((nao, nao)) if nspin == 1 else np.zeros((2, nao, nao))
        ni.sdmxgen.get_vxc_(vm, vf[0] if (nspin == 1 and vf.ndim == 3) else vf)
        res["vxc%d" % nb] = vm
    ni.sdmxgen._cached_ao_data = None
    return res


def _cheap_outputs(ks, dm, nspin, model, rng_state):
    """Stages cheap enough to be repeated at many team sizes."""
    out = {}
    r = np.random.default_rng(rng_state)
    if ks._numint.sdmxgen is not None:
        out["sdmxgen"] = _sdmx_stage(ks, dm, nspin, r)
    nf = model.settings.nfeat
    nsl = model.settings.sl_settings.nfeat
    for n in (7, 1001):
        X = r.normal(size=(nspin, nf, n))
        X[:, :nsl] = np.exp(r.uniform(np.log(1e-2), np.log(5.0), size=(nspin, nsl, n)))
        res_, dres_ = model(X, rhocut=1e-9)
        out["model%d" % n] = {"res": res_, "dres": dres_}
    return out


EXTRA_TEAMS = (3, 6, 7, 12)


def _sweep(case, rec, rng):
    from vlib import boot, gen
    cfg = case["cfg"]
    for k in ("family", "spin", "mol", "basis", "level", "mode", "plan_type", "interp"):
        if cfg.get(k) is not None:
            rec.tag(k, cfg[k])
    if case.get("oversubscribe"):
        try:
            cpus = sorted(os.sched_getaffinity(0))
            os.sched_setaffinity(0, set(cpus[:2]))
            rec.tag("oversubscribed", "2 cpus")
        except OSError:
            rec.tag("oversubscribed", "affinity unavailable")
    mol, model, ks = gen.build_ks(cfg, rng)
    nspin = 1 if cfg["spin"] == "rks" else 2
    dm = gen.psd_dm(mol, rng, nspin)
    state = int(rng.integers(2 ** 31))
    set_threads(1)
    gen.nr_eval(ks, dm)      # builds the lazily constructed generators
    inp = _stage_inputs(ks, dm, nspin, model)
    ref = _stage_outputs(gen, ks, dm, nspin, model, state, inp)
    # conditioning of the end-to-end and nuclear-gradient paths: their inputs (rho on the grid) are produced by pyscf's
    # threaded code inside the call (ulp-level differences between team sizes), so these two stages use
    # max(TOL, 8 x largest response of the 1-thread result to three 1-ulp perturbations of the density matrix); the
    # stage-level comparisons get bit-identical inputs and keep TOL
    gfloor = 1e-3 * max(float(np.max(np.abs(np.asarray(ref["e2e"]["vmat"], dtype=float)))), 1e-9)
    rec.note("grad_stage_scale_floor", gfloor)
    prng = np.random.default_rng(state + 1)
    perts = [dm * (1.0 + 2.0 ** -52), dm * (1.0 - 2.0 ** -53), dm + np.spacing(dm) * prng.integers(-1, 2, size=np.shape(dm))]
    floors = {"e2e": {}, "grad": {}}
    for dmp in perts:
        n_, e_, v_ = gen.nr_eval(ks, dmp)
        resp = {"e2e": {"nelec": n_, "excsum": e_, "vmat": v_}}
        if "grad" in ref:
            resp["grad"] = _grad_stage(ks, dmp, nspin)
        for st, outs in resp.items():
            for name, b in outs.items():
                a0 = np.asarray(ref[st][name], dtype=float)
                sc = max(float(np.max(np.abs(a0))), gfloor if st == "grad" else 1e-12)
                d = float(np.max(np.abs(np.asarray(b, dtype=float) - a0))) / sc
                floors[st][name] = max(floors[st].get(name, 0.0), d)
    rec.note("ulp_response[e2e]", floors["e2e"])
    rec.note("ulp_response[grad]", floors["grad"])
    # force-like outputs vanish by symmetry for one-atom systems (pure rounding noise, 1e-18): their scale is at least
    # 1e-3 of the XC matrix of the same calculation (gfloor)

    def cmp(st, T, r, o, kind):
        _cmp(rec, case, st, T, r, o, kind, floor=floors.get(st), absfloor=gfloor if st == "grad" else 1e-12)

    calls_before = dict(boot.counters())
    teams = case["teams"]
    for T in teams:
        for repeat in range(2 if T in (teams[0], teams[-1]) else 1):
            set_threads(T)
            out = _stage_outputs(gen, ks, dm, nspin, model, state, inp)
            if repeat == 0:
                for st in out:
                    cmp(st, T, ref[st], out[st], "repeat" if T == 1 else "team")
                first = out
            else:
                for st in out:
                    cmp(st, T, first[st], out[st], "repeat")
        rec.tag("team_size", T)
    # cheap stages at further (non power-of-two) team sizes
    set_threads(1)
    cref = _cheap_outputs(ks, dm, nspin, model, state)
    for T in EXTRA_TEAMS:
        if T in teams:
            continue
        set_threads(T)
        cout = _cheap_outputs(ks, dm, nspin, model, state)
        for st in cout:
            _cmp(rec, case, st, T, cref[st], cout[st], "team")
        rec.tag("team_size_cheap_stages", T)
    set_threads(1)
    rec.tag("stages", sorted(ref.keys()))
    bit = {k: v for k, v in rec.notes.items() if k.startswith("bitwise[")}
    rec.set_sample({"cfg": cfg, "teams": teams, "stages": sorted(ref.keys()), "bitwise_reproducible": bit,
                    "excsum_1thread": float(np.atleast_1d(ref["e2e"]["excsum"])[0])})


def _numint_direct(raw, rng, ng, nvv):
    """Drive three entry points of numint_cider/nr_numint.c (no Python caller in the repository) from their C
    signatures."""
    dp = ctypes.c_void_p
    coords = np.ascontiguousarray(rng.normal(size=(ng, 3)))
    vvcoords = np.ascontiguousarray(rng.normal(size=(nvv, 3)))
    a = np.ascontiguousarray(np.exp(rng.uniform(-1, 1, size=ng)))
    a2 = np.ascontiguousarray(np.exp(rng.uniform(-1, 1, size=ng)))
    vva = np.ascontiguousarray(np.exp(rng.uniform(-1, 1, size=nvv)))
    vvf = np.ascontiguousarray(rng.normal(size=nvv))
    out = {}
    F, U, W = np.zeros(ng), np.zeros(ng), np.zeros(ng)
    raw.VXC_feat_texp(F.ctypes.data_as(dp), U.ctypes.data_as(dp), W.ctypes.data_as(dp), vva.ctypes.data_as(dp),
                      a.ctypes.data_as(dp), vvf.ctypes.data_as(dp), vvcoords.ctypes.data_as(dp), coords.ctypes.data_as(dp),
                      ctypes.c_int(nvv), ctypes.c_int(ng), ctypes.c_double(0.7))
    out["texp"] = np.stack([F, U, W])
    F3 = np.zeros((ng, 3))
    raw.VXC_feat_ve(F3.ctypes.data_as(dp), vva.ctypes.data_as(dp), a.ctypes.data_as(dp), a2.ctypes.data_as(dp),
                    vvf.ctypes.data_as(dp), vvcoords.ctypes.data_as(dp), coords.ctypes.data_as(dp), ctypes.c_int(nvv),
                    ctypes.c_int(ng))
    out["ve"] = F3
    F4, D4 = np.zeros((ng, 3)), np.zeros((ng, 3))
    raw.VXC_feat_l0(F4.ctypes.data_as(dp), D4.ctypes.data_as(dp), vva.ctypes.data_as(dp), a.ctypes.data_as(dp),
                    vvf.ctypes.data_as(dp), vvcoords.ctypes.data_as(dp), coords.ctypes.data_as(dp), ctypes.c_int(nvv),
                    ctypes.c_int(ng), ctypes.c_double(0.7))
    out["l0"] = np.stack([F4, D4])
    return out


def _fft_direct(rng, dims, nt, r2c, inplace, batch_first):
    from ciderpress.lib.fft_plan import FFTWrapper
    w = FFTWrapper(dims, ntransform=nt, fwd=True, r2c=r2c, inplace=inplace, batch_first=batch_first)
    x = rng.normal(size=w.input_shape)
    if not r2c:
        x = x + 1j * rng.normal(size=w.input_shape)
    y = w.call(np.ascontiguousarray(x.astype(np.complex128 if not r2c else np.float64)))
    return {"fwd": np.stack([y.real, y.imag])}


def _evaluators_direct(rng, n):
    from vlib import gen
    out = {}
    for kind, n1 in (("rbf", 4), ("spinrbf", 3)):
        ev = gen.rand_evaluator(kind, n1, np.random.default_rng(5), nctrl=9)
        X = rng.normal(size=(n, n1)) if kind == "rbf" else rng.normal(size=(2, n, n1))
        res, dres = ev(X)
        out[kind] = np.concatenate([np.ravel(res), np.ravel(dres)])
        # the accumulate-into-buffers form every evaluator after the first of a kernel is called with (pre-filled buffers)
        r0 = rng.normal(size=np.shape(res))
        d0 = rng.normal(size=np.shape(dres))
        r1, d1 = ev(X, r0.copy(), d0.copy())
        out[kind + "_prefilled"] = np.concatenate([np.ravel(r1 - r0), np.ravel(d1 - d0)])
    return out


def _gradterms_direct(rng, natm, ngrids):
    """The three variants of the gradient-term reduction (conv_interpolation.c): serial and 'old' are the sequential models,
    'parallel' is the one the interpolator calls; all must produce the same accumulated excsum."""
    from vlib import boot
    lib = boot.load_library("libmcider")
    dp = ctypes.c_void_p
    atm_g = np.sort(rng.integers(0, natm, size=ngrids)).astype(np.int32)
    ga_loc = np.searchsorted(atm_g, np.arange(natm + 1)).astype(np.int32)
    f_g = np.ascontiguousarray(rng.normal(size=ngrids))
    a = int(rng.integers(natm))
    out = {}
    for name, idx in (("serial", atm_g), ("parallel", atm_g), ("old", ga_loc)):
        exc = np.ascontiguousarray(np.linspace(-1.0, 1.0, natm * 3).reshape(natm, 3))
        for v in range(3):
            getattr(lib, "contract_grad_terms_" + name)(exc.ctypes.data_as(dp), f_g.ctypes.data_as(dp), ctypes.c_int(natm), ctypes.c_int(a),
                                                        ctypes.c_int(v), ctypes.c_int(ngrids), idx.ctypes.data_as(dp))
        out[name] = exc
    return out


def _angc_direct(rng, nang, nrad, lmax, nalpha):
    """Angular grid <-> spherical harmonics on long angular shells (Lebedev 434 ... 1202: grid levels 4+, or a user's
    atom_grid), both directions, with outputs pre-filled by a sentinel (documented as overwritten)."""
    from pyscf import gto
    from ciderpress.pyscf.gen_cider_grid import CiderGrids
    mol = gto.M(atom="He 0 0 0; H 0 0 1.1", basis="sto-3g", spin=1, verbose=0)
    grids = CiderGrids(mol, lmax=lmax)
    grids.atom_grid = {"He": (nrad, nang), "H": (max(4, nrad // 2), 302)}
    grids.prune = None
    grids.build(with_non0tab=False)
    ind = grids.grids_indexer
    ng = ind.all_weights.size
    th_g = np.ascontiguousarray(rng.normal(size=(ng, nalpha)))
    th_r = np.full((ind.nrad, ind.nlm, nalpha), 7.25)
    ind.reduce_angc_ylm_(th_r, th_g, a2y=True)
    th_r2 = np.ascontiguousarray(rng.normal(size=(ind.nrad, ind.nlm, nalpha)))
    th_g2 = np.full((ng, nalpha), 7.25)
    ind.reduce_angc_ylm_(th_r2, th_g2, a2y=False)
    return {"a2y": th_r, "y2a": th_g2}


def _flapl_direct(rng, molname, basis, n1, npts):
    """Fractional-Laplacian AO values and features: the contraction callbacks of frac_lapl.c run INSIDE pyscf's own OpenMP
    loop over (grid block, shell) tiles, so they are reachable only through this differential sweep (no TSan edges)."""
    from ciderpress.dft.plans import FracLaplPlan
    from ciderpress.dft.settings import FracLaplSettings
    from ciderpress.pyscf.analyzers import RHFAnalyzer
    from ciderpress.pyscf.descriptors import get_descriptors
    from ciderpress.pyscf.frac_lapl import eval_kao
    from vlib import gen
    mol = gen.make_mol(molname, basis, rng, jitter=0.03)
    coords = np.ascontiguousarray(rng.normal(size=(npts, 3)) * 1.5)
    slist = [-0.5, 0.5, 0.25][: max(n1, 2) + 1] if n1 < 3 else [-0.5, 0.5, 0.25]
    out = {"kao": np.ascontiguousarray(eval_kao(slist, mol, coords=coords, n1=n1))}
    nd1 = min(n1, 2)
    settings = FracLaplSettings(slist, len(slist), min(1, len(slist)), [(-1, 0)] if len(slist) else [], nd1=nd1,
                                ld_dots=[(-1, 0)] if nd1 else [], ndd=min(nd1, 1))
    dm = gen.psd_dm(mol, rng, 1)
    ana = RHFAnalyzer(mol, dm, grids_level=0)
    out["desc"] = np.asarray(get_descriptors(ana, settings, orbs=None))
    return out


def _direct(case, rec, rng):
    from vlib import boot
    raw = boot.load_library("libnumint")
    state = int(rng.integers(2 ** 31))
    ng = int(rng.choice([1, 3, 17, 200, 1001]))
    nvv = int(rng.choice([1, 5, 300]))
    dims = [int(x) for x in rng.choice([1, 2, 3, 5, 8, 9], size=int(rng.integers(1, 4)))]
    nt = int(rng.choice([1, 2, 3, 7]))
    r2c = bool(rng.integers(2))
    inplace = bool(rng.integers(2))
    bf = bool(rng.integers(2))
    nsamp = int(rng.choice([1, 2, 3, 15, 2001]))
    rec.tag("numint_sizes", "%dx%d" % (ng, nvv))
    rec.tag("fft", "dims=%s nt=%d r2c=%s inplace=%s batch_first=%s" % (dims, nt, r2c, inplace, bf))
    rec.tag("evaluator_samples", nsamp)

    fl_mol, fl_basis = [("H2O", "def2-svp"), ("HF", "6-31g"), ("LiH", "def2-svp"), ("NH3", "6-31g")][int(rng.integers(4))]
    fl_n1 = int(rng.choice([0, 1, 2, 3], p=[0.15, 0.25, 0.35, 0.25]))
    fl_npts = int(rng.choice([57, 300, 2001]))
    rec.tag("frac_lapl", "%s/%s n1=%d npts=%d" % (fl_mol, fl_basis, fl_n1, fl_npts))
    natm = int(rng.choice([1, 2, 5]))
    ngt = int(rng.choice([1, 3, 17, 1000]))
    rec.tag("gradterms", "natm=%d ngrids=%d" % (natm, ngt))
    ang = [590, 1202, 770, 434, 974][case["idx"] % 5]
    ang_nrad, ang_lmax, ang_nal = int(rng.choice([9, 14, 23])), int(rng.choice([4, 6, 8])), int(rng.choice([1, 3, 8]))
    rec.tag("angular_shell", "n_ang=%d nrad=%d lmax=%d nalpha=%d" % (ang, ang_nrad, ang_lmax, ang_nal))

    def run():
        r = np.random.default_rng(state)
        return {"numint": _numint_direct(raw, r, ng, nvv), "fft": _fft_direct(r, dims, nt, r2c, inplace, bf),
                "evaluators": _evaluators_direct(r, nsamp), "gradterms": _gradterms_direct(r, natm, ngt),
                "flapl": _flapl_direct(r, fl_mol, fl_basis, fl_n1, fl_npts),
                "angc": _angc_direct(r, ang, ang_nrad, ang_lmax, ang_nal)}
    set_threads(1)
    ref = run()
    # the sequential variants are the reference model of the parallel one
    g = ref["gradterms"]
    gs = max(float(np.max(np.abs(g["serial"]))), 1e-12)
    rec.check("gradterms_parallel_vs_serial", float(np.max(np.abs(g["parallel"] - g["serial"]))) / gs, 1e-12,
              mechanism="contract_grad_terms:parallel!=serial", detail={"natm": natm, "ngrids": ngt})
    rec.check("gradterms_old_vs_serial", float(np.max(np.abs(g["old"] - g["serial"]))) / gs, 1e-12,
              mechanism="contract_grad_terms:old!=serial", detail={"natm": natm, "ngrids": ngt})
    for T in case["teams"]:
        set_threads(T)
        out = run()
        out2 = run()
        for st in out:
            _cmp(rec, case, st, T, ref[st], out[st], "team" if T > 1 else "repeat")
            _cmp(rec, case, st, T, out[st], out2[st], "repeat")
        rec.tag("team_size", T)
    set_threads(1)
    rec.set_sample({"ng": ng, "nvv": nvv, "fft_dims": dims, "ntransform": nt, "r2c": r2c, "inplace": inplace,
                    "batch_first": bf, "nsamp": nsamp,
                    "bitwise_reproducible": {k: v for k, v in rec.notes.items() if k.startswith("bitwise[")}})


# --------------------------------------------------------------------------------------------------------------
def _tsan(case, rec, rng):
    from vlib import boot, gen
    cfg = case["cfg"]
    for k in ("family", "spin", "mol", "basis", "plan_type", "interp"):
        if cfg.get(k) is not None:
            rec.tag("tsan_" + k, cfg[k])
    rec.tag("tsan_threads", case["_threads"])
    mol, model, ks = gen.build_ks(cfg, rng)
    nspin = 1 if cfg["spin"] == "rks" else 2
    dm = gen.psd_dm(mol, rng, nspin)
    n, e, v = gen.nr_eval(ks, dm)
    n2, e2, v2 = gen.nr_eval(ks, dm)
    if not model.settings.has_sdmx:
        g = _grad_stage(ks, dm, nspin)
        rec.require("tsan_grad_finite", all(bool(np.all(np.isfinite(x))) for x in g.values()), mechanism="tsan-run:grad-nonfinite")
    rec.check("tsan_run_repeat", abs(e - e2) / max(abs(e), 1e-3), TOL, mechanism="tsan-run:repeat:excsum")
    rec.require("tsan_run_finite", bool(np.all(np.isfinite(v))), mechanism="tsan-run:nonfinite")
    sh = boot.shim_counters()
    regions = sum(v_[0] for v_ in sh.values())
    entries = sum(v_[1] for v_ in sh.values())
    rec.note("shim", sh)
    if regions >= 1 and entries >= 2 * regions * 0 + regions + 1:
        rec.nontrivial("tsan")
    else:
        rec.set_inconclusive("OpenMP shim saw no multi-thread parallel region (regions=%d entries=%d)" % (regions, entries))
    rec.set_sample({"cfg": cfg, "threads": case["_threads"], "shim_counters": sh, "excsum": float(e),
                    "c_calls": len(boot.counters())})


def _tsan_direct(case, rec, rng):
    from vlib import boot
    raw = boot.load_library("libnumint")
    r = np.random.default_rng(3)
    o1 = _numint_direct(raw, r, 300, 40)
    o2 = _fft_direct(r, [4, 6, 5], 3, True, True, False)
    o3 = _fft_direct(r, [8, 3], 2, False, False, True)
    o4 = _evaluators_direct(r, 500)
    rec.require("tsan_direct_finite", all(np.all(np.isfinite(x)) for d in (o1, o2, o3, o4) for x in d.values()),
                mechanism="tsan-direct:nonfinite")
    sh = boot.shim_counters()
    rec.note("shim", sh)
    if sum(v_[0] for v_ in sh.values()) >= 3:
        rec.nontrivial("tsan_direct")
    else:
        rec.set_inconclusive("shim saw fewer than 3 parallel regions")
    rec.set_sample({"shim_counters": sh})


_FRAME = re.compile(r"#\d+ (\S+) (\S+?):(\d+)(?::\d+)? \((\S+?)\+0x")


def classify_sanitizer(blocks):
    """A TSan report counts when one of its stacks has a frame in the repository's libraries."""
    out = []
    seen = set()
    for kind, b in blocks:
        if kind != "tsan":
            out.append({"id": "sanitizer", "oracle": kind, "mechanism": kind + ":unclassified", "detail": b[:1500]})
            continue
        frames = _FRAME.findall(b)
        repo_frames = [(fn, os.path.basename(src)) for fn, src, line, lib in frames
                       if "/ciderpress/lib/" in src or lib.split("/")[-1] in ("libmcider.so", "libnumint.so", "libfft_wrapper.so", "libxc_utils.so")]
        if not repo_frames:
            continue
        fn, src = repo_frames[0]
        if fn.startswith("__wrap_") or fn in ("tramp",):
            fn, src = (repo_frames[1] if len(repo_frames) > 1 else repo_frames[0])
        fn = re.sub(r"\._omp_fn\.\d+$", "", fn)
        mech = "tsan:data-race:%s:%s" % (src, fn)
        if mech in seen:
            continue
        seen.add(mech)
        out.append({"id": "sanitizer", "oracle": "tsan", "mechanism": mech, "detail": b[:2500]})
    return out


def finalize(results, coverage):
    shim = coverage.get("omp_shim_counters[regions,worker_entries,barriers,loop_ends,criticals]")
    coverage["tsan_cases"] = sum(1 for r in results if r["id"].startswith("tsan"))
    bit = {}
    for r in results:
        s = r.get("sample") or {}
        for k, v in (s.get("bitwise_reproducible") or {}).items():
            bit[k] = bool(bit.get(k, True) and v)
    coverage["stages_bitwise_reproducible_across_team_sizes"] = bit
    coverage["tsan_shim_seen"] = bool(shim)
