"""C09 - results independent of batching, blocking, call history and input aliasing.

Histories of calls on ONE integrator object (restricted / unrestricted, single / batched density matrices, repeated
calls, other molecule / grid, other memory budget) are recorded at the API boundary; every step's outputs are
compared with the executable reference "fresh objects, one call" (DESIGN.md sections 4.4 and 5/C09); every
caller-owned array is digested before and after the call.
"""
import numpy as np

from vlib.oracles import digest, rng_for

PROPERTY = "C09"
PROP_NO = 9
RULE = ("history = 5-9 operations drawn from {rks(dm), rks(batch of 2-3), uks(dm), uks(batch of 2), repeat previous, "
        "other molecule/grid, tiny max_memory (many blocks)} on one CiderNumInt / feature generator, for one feature "
        "family and random synthetic model; each step is compared with a fresh-object single call; a step is "
        "non-trivial when the ML share of its energy is >= 1e-3 and its reference differs from the previous step's "
        "reference (so a stale cache would be visible); distinct = (history id, step); plus evaluator chunk-size and "
        "pointwise aliasing cases")
MIN_NONTRIVIAL = {"quick": 80, "thorough": 800}
ASSUMPTIONS = ["tolerance 1e-9 x scale (measured: block partition changes E by 1e-12, vmat by 2.4e-12; a stale cache "
               "shows at >= 1e-6); bitwise equality is not demanded for threaded code",
               "aliasing: exact digest comparison of caller-owned arrays before/after"]
TOL = 1e-9

FAMS = ["sl-npa", "sl-nst", "vj-mgga", "vj-gga", "vi-mgga", "vij-mgga", "vk-mgga", "sdmx", "sdmxg1", "vj+sdmx",
        "vi-gga", "vk-gga", "sdmx1"]
NLDF = {"vj-mgga", "vj-gga", "vi-mgga", "vij-mgga", "vk-mgga", "vj+sdmx", "vi-gga", "vk-gga"}


def gen_cases(tier, seed):
    rng = rng_for(seed, PROP_NO, 0)
    cases = []
    nh = 26 if tier == "quick" else 260
    for i in range(nh):
        fam = FAMS[i % len(FAMS)]
        c = dict(family=fam, mode=str(rng.choice(["SEP", "NPOL", "POL"], p=[0.6, 0.2, 0.2])),
                 evaluator=str(rng.choice(["rbf", "kernel", "linear", "subrbf"], p=[0.45, 0.2, 0.15, 0.2])),
                 mix=str(rng.choice(["pure", "xmix"])), basis=str(rng.choice(["6-31g", "sto-3g"])),
                 level=int(rng.integers(0, 2)), model="xc1")
        if fam in NLDF:
            c["plan_type"] = str(rng.choice(["gaussian", "spline"]))
            c["interp"] = str(rng.choice(["onsite_direct", "onsite_spline"]))
        cases.append({"id": "hist-%03d-%s" % (i, fam), "kind": "hist", "cfg": c, "seed": seed, "idx": 100 + i,
                      "nsteps": int(rng.integers(5, 10)), "_threads": 2, "_weight": 4.0 if fam in NLDF else 1.5,
                      "_timeout": 1800})
    ng = 10 if tier == "quick" else 100
    gfams = ["vj-mgga", "vi-mgga", "vij-gga", "vk-mgga", "vi-gga", "vj-gga", "vk-gga", "vij-mgga", "vj-expnt"]
    for i in range(ng):
        c = dict(family=gfams[i % len(gfams)], mode="SEP", evaluator="rbf", mix="pure", basis=str(rng.choice(["6-31g", "sto-3g"])),
                 level=int(rng.integers(0, 2)), model="xc1", plan_type=str(rng.choice(["gaussian", "spline"])),
                 interp=str(rng.choice(["onsite_direct", "onsite_spline"])), spin="uks")
        cases.append({"id": "genhist-%03d-%s" % (i, c["family"]), "kind": "genhist", "cfg": c, "seed": seed, "idx": 3000 + i,
                      "_threads": 2, "_weight": 3.0, "_timeout": 1200})
    # SDMX generators called on point sets of changing length (buffers are kept and re-viewed between calls)
    nsx = 6 if tier == "quick" else 60
    kinds = ["sdmx1", "sdmxg1", "sdmxfull", "sdmx", "sdmxg", "sdmx01"]
    for i in range(nsx):
        cases.append({"id": "sdmxhist-%03d-%s" % (i, kinds[i % 6]), "kind": "sdmxhist", "sdmx": kinds[i % 6],
                      "mol": ["H2", "H2O", "He", "LiH", "H", "NH2"][(i + i // 6) % 6], "basis": ["6-31g", "sto-3g", "def2-svp"][i % 3],
                      "seed": seed, "idx": 4000 + i, "_threads": 2, "_weight": 1.0, "_timeout": 900})
    # two fragments far apart, evaluated in one block and in many: the integrator switches between its dense and sparse
    # AO-contraction paths per block (screening mask), so the block size changes which path each part of the grid takes
    nfb = 4 if tier == "quick" else 24
    ffam = ["sl-npa", "vj-mgga", "sl-nst", "sdmx", "sl-np", "vk-mgga"]
    for i in range(nfb):
        c = dict(family=ffam[i % len(ffam)], mode=["SEP", "NPOL"][i % 2], evaluator="rbf", mix=["pure", "mgga", "xmix"][i % 3], basis="6-31g",
                 level=1, model="xc1", spin=["rks", "uks"][(i // 2) % 2], frag=[("LiH", "HF"), ("H2O", "H2O"), ("HF", "HF")][i % 3],
                 dist=[9.0, 6.0, 8.0][i % 3])
        if c["family"] in NLDF:
            c["plan_type"] = ["gaussian", "spline"][i % 2]
            c["interp"] = "onsite_direct"
        if c["family"] == "sl-np" and c["mix"] == "mgga":
            c["mix"] = "xmix"   # GGA-level CIDER features only with GGA-level XC (documented restriction)
        cases.append({"id": "farblock-%03d-%s-%s" % (i, c["family"], c["spin"]), "kind": "farblock", "cfg": c, "seed": seed, "idx": 4500 + i,
                      "_threads": 2, "_weight": 4.0, "_timeout": 1800})
    nc = 12 if tier == "quick" else 120
    for i in range(nc):
        cases.append({"id": "chunk-%03d" % i, "kind": "chunk", "seed": seed, "idx": 5000 + i, "_threads": 2})
    for i in range(3 if tier == "quick" else 24):
        cases.append({"id": "plancache-%03d" % i, "kind": "plancache", "seed": seed, "idx": 5500 + i, "n": 4, "_threads": 1})
    na = 12 if tier == "quick" else 120
    for i in range(na):
        cases.append({"id": "alias-%03d" % i, "kind": "alias", "seed": seed, "idx": 7000 + i, "_threads": 1})
    return cases


def run_case(case, rec):
    rng = rng_for(case["seed"], PROP_NO, case["idx"])
    {"hist": _hist, "chunk": _chunk, "alias": _alias, "genhist": _genhist, "sdmxhist": _sdmxhist, "farblock": _farblock, "plancache": _plancache}[case["kind"]](case, rec, rng)


def _farblock(case, rec, rng):
    from vlib import gen
    cfg = case["cfg"]
    for k in ("family", "mode", "mix", "spin", "plan_type"):
        if cfg.get(k) is not None:
            rec.tag(k, cfg[k])
    a, b = cfg["frag"]
    d = float(cfg["dist"]) + float(rng.uniform(-0.5, 0.5))
    atoms = list(gen.MOLS[a][0]) + [(s_, (x + d, y + 0.7, z - 0.4)) for s_, (x, y, z) in gen.MOLS[b][0]]
    mol = gen.make_mol(None, cfg["basis"], rng, jitter=0.03, atoms=atoms, spin=0, charge=0)
    rec.tag("system", "%s...%s at %.0f A" % (a, b, cfg["dist"]))
    model = gen.build_model(cfg, rng)
    ks = gen.build_ks(cfg, rng, mol=mol, model=model)[2]
    nspin = 1 if cfg["spin"] == "rks" else 2
    dm = gen.psd_dm(mol, rng, nspin)
    n0, e0, v0 = gen.nr_eval(ks, dm)
    vs = max(float(np.max(np.abs(v0))), 1e-3)
    for mm in (1.0, 0.2, 0.05):
        n1, e1, v1 = gen.nr_eval(ks, dm, max_memory=mm)
        det = {"max_memory": mm, "ngrids": int(ks.grids.weights.size)}
        rec.check("blocking_vmat[far-apart]", float(np.max(np.abs(np.asarray(v1) - np.asarray(v0)))) / vs, TOL,
                  mechanism="nr_%s:blocking:vmat[far-apart-fragments]" % cfg["spin"], detail=det)
        rec.check("blocking_energy[far-apart]", float(np.max(np.abs(np.asarray(e1) - np.asarray(e0)))) / max(abs(float(np.atleast_1d(e0)[0])), 1e-3), TOL,
                  mechanism="nr_%s:blocking:energy[far-apart-fragments]" % cfg["spin"], detail=det)
        rec.nontrivial("mm%g" % mm)
    rec.set_sample({"cfg": cfg, "distance_A": d, "ngrids": int(ks.grids.weights.size), "exc": float(np.atleast_1d(e0)[0])})


def _plancache(case, rec, rng):
    """NLDF plans keep the interpolation coefficients of every version-j/k parameter set from the forward call for the
    potential call (a per-spin cache inside the plan).  The potential computed from that cache must equal the one computed
    from coefficients handed over explicitly (freshly evaluated, each in its own array), for plans with several parameter
    sets, and a second forward/backward round on the same plan must reproduce the first."""
    from checks.c18 import _kw_nldf, _mk_nldf, _nldf_plan, _pointwise
    for rep in range(case["n"]):
        ver = ["j", "ij", "k"][(case["idx"] + rep) % 3]
        nspin = 1 + (case["idx"] + rep) % 2
        for _ in range(20):
            kwn = _kw_nldf(ver, rng, rho_mult="one")
            ns_ = _mk_nldf(ver, kwn)
            if ns_.num_feat_param_sets >= 2:
                break
        pcls = ["gaussian", "spline"][(case["idx"] // 2 + rep) % 2]
        p = _nldf_plan(ns_, nspin, rng, cls=pcls)
        ng = int(rng.choice([64, 97]))
        rd = _pointwise(rng, ng, 1, kwn["sl_level"])[0]
        ncol = p.num_vi_ints + p.nalpha
        fq = np.ascontiguousarray(rng.normal(size=(ng, ncol)))
        spin = nspin - 1
        nvj = ns_.num_feat_param_sets
        rec.tag("plan", "%s,%s,nsets=%d,nspin=%d" % (ver, pcls, nvj, nspin))
        mech = "NLDFPlan[%s,%s]:coefficient-cache" % (ver, pcls)

        def bwd(explicit):
            feat, dfeat = p.eval_rho_full(fq.copy(), rd.copy(), spin=spin)
            vfeat = np.random.default_rng(7).normal(size=feat.shape)
            vrho = np.zeros_like(rd)
            pl = None
            if explicit:
                rt = p.get_rho_tuple(rd.copy())
                pl = []
                for i in range(nvj):
                    a_g = p.get_interpolation_arguments(rt, i=i)[0]
                    pl.append(np.array(p.get_interpolation_coefficients(a_g, i=i)[0], copy=True))
            vf = p.eval_vxc_full(vfeat, vrho, dfeat, rd.copy(), spin=spin, p_i_qg=pl)
            return np.array(feat), np.array(vf), vrho
        f_c, vf_c, vr_c = bwd(False)
        f_e, vf_e, vr_e = bwd(True)
        f_2, vf_2, vr_2 = bwd(False)
        sc = max(float(np.max(np.abs(vf_e))), 1e-300)
        sr = max(float(np.max(np.abs(vr_e))), 1e-300)
        rec.check("plan_cache_vs_explicit_coefficients", max(float(np.max(np.abs(vf_c - vf_e))) / sc, float(np.max(np.abs(vr_c - vr_e))) / sr),
                  1e-12, mechanism=mech, detail={"nsets": nvj})
        rec.check("plan_second_round", max(float(np.max(np.abs(vf_2 - vf_c))) / sc, float(np.max(np.abs(f_2 - f_c))) / max(float(np.max(np.abs(f_c))), 1e-300)),
                  1e-13, mechanism=mech.replace("coefficient-cache", "repeat"))
        if nvj >= 2:
            rec.nontrivial("plancache|%s|%s|%d|%d" % (ver, pcls, nvj, nspin))
    rec.set_sample({"kind": "plancache"})


def _sdmxhist(case, rec, rng):
    """One EXXSphGenerator (fast and slow module) evaluated on a sequence of point sets of different lengths (longer, shorter,
    1 point, longer again) and with the backward call in between; every result must equal that of a fresh generator."""
    from ciderpress.pyscf import sdmx as fast
    from ciderpress.pyscf import sdmx_slow as slow
    from vlib import gen
    mol = gen.make_mol(case["mol"], case["basis"], rng, jitter=0.03)
    nspin = 1 if mol.spin == 0 else 2
    settings = gen.sdmx_settings(case["sdmx"], rng)
    rec.tag("sdmx", case["sdmx"])
    rec.tag("mol", "%s/%s" % (case["mol"], case["basis"]))
    rec.tag("basis_has_p_functions", bool(np.any(mol._bas[:, 1] > 0)))
    dm = gen.psd_dm(mol, rng, nspin)
    sizes = [int(x) for x in rng.permutation([400, 300, 57, 1, 211, 400])]
    for modname, mod in (("fast", fast), ("slow", slow)):
        g = mod.EXXSphGenerator.from_settings_and_mol(settings, nspin, mol)
        for istep, n in enumerate(sizes):
            coords = np.ascontiguousarray(rng.normal(size=(n, 3)) * 1.5)
            f = np.asarray(g.get_features(dm, mol, coords)).copy()
            ref = np.asarray(mod.EXXSphGenerator.from_settings_and_mol(settings, nspin, mol).get_features(dm, mol, coords))
            sc = max(float(np.max(np.abs(ref))), 1e-300)
            rec.check("sdmx_generator_history[%s]" % modname, float(np.max(np.abs(f - ref))) / sc, TOL,
                      mechanism="EXXSphGenerator[%s].get_features:history-dependence" % modname,
                      detail={"sizes": sizes, "step": istep, "n": n, "settings": case["sdmx"]})
            if modname == "fast" and istep % 2 == 1:
                vm = np.zeros_like(dm)
                g.get_vxc_(vm, rng.normal(size=f.shape))
            if float(np.max(np.abs(ref))) > 0 and istep > 0:
                rec.nontrivial("%s|%d" % (modname, istep))
    rec.set_sample({"mol": case["mol"], "basis": case["basis"], "sdmx": case["sdmx"], "sizes": sizes})


class _World:
    """Molecules, grids, density matrices and fresh-object references for one history."""

    def __init__(self, cfg, rng):
        from vlib import gen
        self.gen = gen
        self.cfg = cfg
        self.rng = rng
        self.model = gen.build_model(cfg, rng)
        # the third pool has s-only bases (no p function anywhere): some SDMX code paths are specific to it
        # the fourth pool starts with two fragments 8-11 Angstrom apart: most (grid block, shell) pairs are negligible, so the
        # integrator takes its sparse AO-contraction path for the outer blocks and the dense one for the inner blocks
        names = [["H2O", "HF"], ["LiH", "NH3"], ["H2", "He"], ["far:LiH+HF", "HF"]][int(rng.choice(4, p=[0.3, 0.25, 0.2, 0.25]))]

        def mk(n, jit):
            if n.startswith("far:"):
                a, b = n[4:].split("+")
                d = float(rng.uniform(8.0, 11.0))
                atoms = list(gen.MOLS[a][0]) + [(s, (x + d, y + 0.7, z - 0.4)) for s, (x, y, z) in gen.MOLS[b][0]]
                return gen.make_mol(None, cfg["basis"], rng, jitter=jit, atoms=atoms, spin=0, charge=0)
            return gen.make_mol(n, cfg["basis"], rng, jitter=jit)
        self.mols = [mk(n, 0.03) for n in names]
        # a second geometry of the first molecule (same formula, different coordinates)
        self.mols.append(mk(names[0], 0.08))
        self.ks = {}
        self.dms = {}
        self.refs = {}
        self.nfresh = 0

    def fresh_ks(self, imol, spin, level=None):
        cfg = dict(self.cfg, spin=spin)
        if level is not None:
            cfg["level"] = level
        return self.gen.build_ks(cfg, self.rng, mol=self.mols[imol], model=self.model)[2]

    def dm(self, imol, spin, k):
        key = (imol, spin, k)
        if key not in self.dms:
            self.dms[key] = self.gen.psd_dm(self.mols[imol], self.rng, 1 if spin == "rks" else 2)
        return self.dms[key]

    def ref(self, imol, spin, k, level=None):
        key = (imol, spin, k, level)
        if key not in self.refs:
            ks = self.fresh_ks(imol, spin, level=level)
            self.nfresh += 1
            n, e, v = self.gen.nr_eval(ks, self.dm(imol, spin, k))
            self.refs[key] = (np.asarray(n), float(e), np.asarray(v))
        return self.refs[key]


def _hist(case, rec, rng):
    cfg = case["cfg"]
    for k in ("family", "mode", "evaluator", "mix", "basis", "level", "plan_type", "interp"):
        if cfg.get(k) is not None:
            rec.tag(k, cfg[k])
    W = _World(cfg, rng)
    # the ONE integrator under test; grids objects per molecule come from calculators built for them, but all calls
    # go through this integrator
    ks0 = {"rks": W.fresh_ks(0, "rks"), "uks": None}
    ni = ks0["rks"]._numint
    grids = {}

    def grids_for(imol, lev=None):
        if (imol, lev) not in grids:
            grids[imol, lev] = W.fresh_ks(imol, "rks", level=lev).grids if (imol != 0 or lev is not None) else ks0["rks"].grids
        return grids[imol, lev]
    xc = ks0["rks"].xc
    fam = cfg["family"]
    ops = ["rks", "rks_batch", "uks", "uks_batch", "repeat", "other_mol", "small_mem", "rks_batch3", "other_level"]
    probs = np.array([0.2, 0.2, 0.15, 0.12, 0.08, 0.1, 0.1, 0.05, 0.1])
    history = []
    imol = 0
    last = None
    prev_ref_e = None
    ndm = 0
    reinit = {"taken": 0, "not_taken": 0}
    for step in range(case["nsteps"]):
        op = str(rng.choice(ops, p=probs / probs.sum()))
        if step in (1, 3):
            # every history changes the molecule early and again later (both nonlocal generators of a combined model
            # have to follow it) - with the random draw alone about half of the histories never did
            op = "other_mol"
        if op == "repeat" and last is None:
            op = "rks"
        max_memory = 2000
        lev = None
        if op == "other_level":
            # the same molecule on the other grid level (finer or coarser: a different number of points on the same objects)
            lev = 1 - int(cfg["level"])
            op = "rks" if rng.random() < 0.6 else "uks"
        if op == "other_mol":
            imol = int(rng.choice([m for m in range(3) if m != imol]))
            op = "rks" if rng.random() < 0.6 else "uks"
        if op == "small_mem":
            max_memory = float(rng.choice([1.0, 0.05]))
            op = "rks" if rng.random() < 0.5 else "rks_batch"
        if op == "repeat":
            op, imol_r, keys, max_memory, lev = last
            imol = imol_r
        else:
            spin = "uks" if op.startswith("uks") else "rks"
            nb = {"rks": 1, "uks": 1, "rks_batch": 2, "uks_batch": 2, "rks_batch3": 3}[op]
            keys = []
            for b in range(nb):
                # reuse an old dm sometimes (same key), otherwise a new one
                if ndm and rng.random() < 0.3:
                    k = int(rng.integers(ndm))
                else:
                    k = ndm
                    ndm += 1
                keys.append((imol, spin, k))
        spin = "uks" if op.startswith("uks") else "rks"
        dms = [W.dm(*k) for k in keys]
        if spin == "rks":
            arg = dms[0] if len(dms) == 1 and op == "rks" else np.stack(dms)
        else:
            arg = dms[0] if len(dms) == 1 and op == "uks" else np.stack([np.stack([d[0] for d in dms]), np.stack([d[1] for d in dms])])
        arg_in = arg.copy()
        dig0 = digest(arg)
        gobj = grids_for(imol, lev)
        mol = W.mols[imol]
        before = (ni.nldfgen, ni.sdmxgen)
        if spin == "rks":
            n, e, v = ni.nr_rks(mol, gobj, xc, arg, max_memory=max_memory)
        else:
            n, e, v = ni.nr_uks(mol, gobj, xc, arg, max_memory=max_memory)
        after = (ni.nldfgen, ni.sdmxgen)
        if before != after and (before[0] is not None or before[1] is not None):
            reinit["taken"] += 1
        else:
            reinit["not_taken"] += 1
        rec.require("caller_array_unmodified", digest(arg) == dig0 and np.array_equal(arg, arg_in),
                    mechanism="nr_%s:modifies-dm[%s]" % (spin, fam))
        n = np.asarray(n, dtype=float)
        e = np.atleast_1d(np.asarray(e, dtype=float))
        v = np.asarray(v)
        batched = arg.ndim == (3 if spin == "rks" else 4)
        history.append({"step": step, "op": op, "mol": imol, "dms": [k[2] for k in keys], "max_memory": max_memory, "level": lev})
        for b, key in enumerate(keys):
            nref, eref, vref = W.ref(*key, level=lev)
            if batched:
                eb = e[b]
                vb = v[b] if spin == "rks" else v[:, b]
                nb_ = n[b] if spin == "rks" else n[:, b]
            else:
                eb, vb, nb_ = e[0], v, n
            kind = "batched" if (batched and len(keys) > 1) else "single"
            pos = "last" if b == len(keys) - 1 else "notlast"
            mech_v = "nr_%s:%s:vmat[%s]" % (spin, kind + ("-" + pos if kind == "batched" else ""), "nldf" if fam in NLDF else "local")
            mech_e = "nr_%s:%s:energy[%s]" % (spin, kind, "nldf" if fam in NLDF else "local")
            de = abs(eb - eref) / max(abs(eref), 1e-3)
            dv = float(np.max(np.abs(vb - vref))) / max(float(np.max(np.abs(vref))), 1e-3)
            det = {"history": history[-6:], "batch_index": b, "dE": float(eb - eref), "dv": dv}
            rec.check("history_energy", de, TOL, mechanism=mech_e, detail=det)
            rec.check("history_vmat", dv, TOL, mechanism=mech_v, detail=det)
            rec.check("history_nelec", float(np.max(np.abs(nb_ - nref))) / max(float(np.max(np.abs(nref))), 1e-3), 1e-11,
                      mechanism="nr_%s:%s:nelec" % (spin, kind))
            if prev_ref_e is None or abs(prev_ref_e - eref) > 1e-6 * abs(eref):
                rec.nontrivial("s%d-b%d" % (step, b))
            prev_ref_e = eref
        rec.tag("op", op + ("+small_mem" if max_memory != 2000 else "") + ("+other_level" if lev is not None else ""))
        last = (op, imol, keys, max_memory, lev)
    rec.note("reinit_branch", reinit)
    rec.tag("reinit_taken", reinit["taken"] > 0)
    rec.set_sample({"cfg": cfg, "history": history, "fresh_references": W.nfresh})


def _genhist(case, rec, rng):
    """Feature-generator level histories: get_features / get_potential for the two spin channels interleaved on ONE
    generator (as the unrestricted integrator and the unrestricted gradient driver do), in the ordinary mode and in the
    gradient mode (atom-ordered grids, grad_mode=True), compared with fresh generators used one spin at a time."""
    from pyscf import gto
    from pyscf.dft import numint as pn

    from vlib import gen
    cfg = case["cfg"]
    for k in ("family", "plan_type", "interp", "basis", "level"):
        rec.tag("gen_" + k, cfg[k])
    mol = gen.make_mol(str(rng.choice(["NH2", "CH3", "H2O"])), cfg["basis"], rng, jitter=0.03, spin=None)
    if mol.spin == 0:
        mol = gto.M(atom=mol.atom, basis=mol.basis, charge=1, spin=1, unit=mol.unit, verbose=0)
    _, model, ks = gen.build_ks(cfg, rng, mol=mol)
    dm = gen.psd_dm(mol, rng, 2)
    gen.nr_eval(ks, dm)
    ni = ks._numint
    ind = ks.grids.grids_indexer
    idx_map = ind.idx_map
    n = idx_map.size
    lev = model.settings.nldf_settings.sl_level
    ao = pn.eval_ao(mol, ks.grids.coords, deriv=1)
    w = ks.grids.weights
    rho_s = []
    for s in range(2):
        r = pn.eval_rho(mol, ao, dm[s], xctype=lev, with_lapl=False)
        r[:, w == 0] = 0.0
        rho_s.append(np.ascontiguousarray(r))
    nf = model.settings.nldf_settings.nfeat

    def fresh():
        g = ni.nldf_init.initialize_nldf_generator(mol, ind, 2)
        g.interpolator.set_coords(ks.grids.coords)
        return g

    for mode in ("normal", "grad", "atom-ordered"):
        mg = mode == "normal"
        gm = mode == "grad"
        if mg:
            rin = rho_s
            npt = rho_s[0].shape[1]
        else:
            rin = []
            for s in range(2):
                ra = np.zeros((rho_s[s].shape[0], ind.ngrids))
                ra[:, idx_map] = rho_s[s][:, :n]
                rin.append(ra)
            npt = n + ind.padding
        vin = [rng.normal(size=(nf, npt)) * (np.concatenate([w[:n], np.zeros(npt - n)]) if not mg else w) for s in range(2)]

        def F(g, s):
            return np.array(g.get_features(rin[s].copy(), spin=s, map_grids=mg, grad_mode=gm))

        def P(g, s):
            out = g.get_potential(vin[s].copy(), spin=s, map_grids=mg, grad_mode=gm)
            return [np.array(x) for x in out] if isinstance(out, tuple) else [np.array(out)]
        try:
            ref = {}
            for s in range(2):
                g = fresh()
                ref[("F", s)] = F(g, s)
                ref[("P", s)] = P(g, s)
        except NotImplementedError as e:
            rec.tag("genhist_unsupported", "%s:%s" % (mode, str(e)[:60]))
            continue
        orders = [[("F", 0), ("F", 1), ("P", 0), ("P", 1)], [("F", 0), ("F", 1), ("P", 1), ("P", 0)],
                  [("F", 1), ("F", 0), ("P", 0), ("P", 0), ("P", 1)], [("F", 0), ("P", 0), ("F", 1), ("P", 1), ("P", 0)]]
        order = orders[int(rng.integers(len(orders)))]
        g = fresh()
        for step, (op, s) in enumerate(order):
            out = F(g, s) if op == "F" else P(g, s)
            exp = ref[(op, s)]
            outs = [out] if op == "F" else out
            exps = [exp] if op == "F" else exp
            names = ["features"] if op == "F" else ["vrho", "cidergg", "excsum"][: len(outs)]
            for nm, a, b in zip(names, outs, exps):
                sc = max(float(np.max(np.abs(b))), 1e-300)
                rec.check("generator_history[%s]" % mode, float(np.max(np.abs(a - b))) / sc, 1e-10,
                          mechanism="nldf-generator:%s:%s-depends-on-interleaving" % (mode, nm),
                          detail={"order": order, "step": step, "op": op, "spin": s})
        rec.nontrivial("genhist|" + mode)
        rec.tag("generator_mode", mode)
    rec.set_sample({"cfg": cfg, "kind": "generator history"})


def _chunk(case, rec, rng):
    """Evaluator chunking: per-sample results independent of the number of samples in the call."""
    from vlib import gen
    mode = ["SEP", "NPOL", "POL"][case["idx"] % 3]
    ev = str(rng.choice(["rbf+kernel", "subrbf+linear", "kernel+rbf", "linear+rbf"] if case["idx"] % 2
                        else ["kernel", "rbf", "linear", "subrbf"]))
    fam = str(rng.choice(["sl-npa", "vj-mgga", "sdmx"]))
    cfg = dict(family=fam, mode=mode, evaluator=ev, model="xc1", nkernels=int(rng.integers(1, 3)))
    model = gen.build_model(cfg, rng)
    rec.tag("mode", mode)
    rec.tag("evaluator", "spinrbf" if mode == "POL" else ev)
    nspin = int(rng.integers(1, 3))
    N = int(rng.choice([1999, 2000, 2001, 4001, 4500]))
    nf = model.settings.nfeat
    nsl = model.settings.sl_settings.nfeat
    X = rng.normal(size=(nspin, nf, N))
    X[:, :nsl] = np.exp(rng.uniform(np.log(1e-2), np.log(5.0), size=(nspin, nsl, N)))
    X0 = X.copy()
    res, dres = model(X, rhocut=1e-3)
    rec.require("features_unmodified", np.array_equal(X, X0), mechanism="MappedXC:modifies-features[%s]" % mode)
    # sub-batches: sizes 1, 7, and a window crossing the 2000 boundary
    worst = 0.0
    for lo, hi in ((0, 1), (5, 12), (1990, min(N, 2013)), (N - 3, N)):
        r2, d2 = model(np.ascontiguousarray(X0[:, :, lo:hi]), rhocut=1e-3)
        sc = max(float(np.max(np.abs(res))), 1e-9)
        worst = max(worst, float(np.max(np.abs(r2 - res[..., lo:hi]))) / sc,
                    float(np.max(np.abs(d2 - dres[..., lo:hi]))) / max(float(np.max(np.abs(dres))), 1e-9))
    rec.check("chunk_independence", worst, 1e-12, mechanism="MappedXC[%s]:chunk-dependence" % mode)
    # repeated evaluation on the same object
    r3, d3 = model(X0.copy(), rhocut=1e-3)
    rec.check("repeat_model", max(float(np.max(np.abs(r3 - res))), float(np.max(np.abs(d3 - dres)))), 1e-13,
              mechanism="MappedXC[%s]:repeat" % mode)
    # evaluators add into buffers that earlier evaluators of the list have already written: the result must not depend on
    # the position of an evaluator in the list (i.e. on what its output buffers held when it was called)
    multi = [k for k in model.kernels if len(k.fevals) >= 2]
    if multi:
        for k in multi:
            k.fevals = list(k.fevals)[::-1]
        r4, d4 = model(X0.copy(), rhocut=1e-3)
        for k in multi:
            k.fevals = list(k.fevals)[::-1]
        rec.check("evaluator_list_order", max(float(np.max(np.abs(r4 - res))) / max(float(np.max(np.abs(res))), 1e-9),
                                              float(np.max(np.abs(d4 - dres))) / max(float(np.max(np.abs(dres))), 1e-9)), 1e-12,
                  mechanism="MappedDFTKernel[%s]:depends-on-evaluator-order" % mode, detail={"evaluators": ev})
        rec.tag("evaluator_list", "reversed")
    rec.nontrivial("%s|%s|%d|%d" % (mode, ev, nspin, N))
    rec.set_sample({"cfg": cfg, "nspin": nspin, "N": N, "worst": worst})


def _alias(case, rec, rng):
    """Pointwise public helpers must not modify the arrays they are given."""
    from ciderpress.dft import feat_normalizer as fn
    from ciderpress.dft import settings as st
    from ciderpress.dft import transform_data as td
    from ciderpress.dft.plans import SemilocalPlan

    from vlib import gen
    n = 64
    rho = gen.pointwise_rho(rng, n, nspin=1, lo=1e-14, hi=10.0)[0]
    r = rho[0].copy()
    sig = np.sum(rho[1:4] ** 2, axis=0)
    tau = rho[4].copy()
    r[::7] = 0.0  # exact zeros and sub-cutoff values included
    for nspin in (1, 2):
        a, b, c = r.copy(), sig.copy(), tau.copy()
        st.get_cider_exponent(a, b, c, a0=1.3, grad_mul=0.02, tau_mul=0.03, nspin=nspin)
        rec.require("alias_get_cider_exponent", np.array_equal(a, r) and np.array_equal(b, sig) and np.array_equal(c, tau),
                    mechanism="get_cider_exponent:modifies-input")
        a, b = r.copy(), sig.copy()
        st.get_cider_exponent_gga(a, b, a0=1.3, grad_mul=0.02, nspin=nspin)
        rec.require("alias_get_cider_exponent_gga", np.array_equal(a, r) and np.array_equal(b, sig),
                    mechanism="get_cider_exponent_gga:modifies-input")
    # semilocal plans
    rr = gen.pointwise_rho(rng, n, nspin=2)
    for mode in ("nst", "npa", "ns", "np"):
        p = SemilocalPlan(st.SemilocalSettings(mode), 2)
        x = rr.copy()
        f = p.get_feat(x)
        vf = rng.normal(size=f.shape)
        vf0 = vf.copy()
        p.get_vxc(x, vf)
        rec.require("alias_semilocal_plan", np.array_equal(x, rr) and np.array_equal(vf, vf0),
                    mechanism="SemilocalPlan[%s]:modifies-input" % mode)
    # feature lists incl. OmegaMap (which sanitises NaN entries of its input in place - only NaN-free input here)
    from checks.c12 import _classes, _inputs, _make
    for cls in _classes():
        m, kw = _make(cls, rng, 6)
        x = _inputs(cls, kw, rng, 6, 20)
        x0 = x.copy()
        y = np.zeros(20)
        m.fill_feat_(y, x)
        d = np.zeros_like(x)
        g = np.ones(20)
        m.fill_deriv_(d, g, x)
        rec.require("alias_feature_map", np.array_equal(x, x0) and np.all(g == 1.0),
                    mechanism="%s:modifies-input" % cls.__name__)
    # normaliser list
    fs = gen.family_settings(str(rng.choice(["vj-mgga", "sdmx", "vi-gga", "sl-nst"])), rng)
    X = rng.normal(size=(2, fs.nfeat, n))
    X[:, :fs.sl_settings.nfeat] = np.exp(rng.uniform(-12, 2, size=(2, fs.sl_settings.nfeat, n)))
    X0 = X.copy()
    XN = fs.normalizers.get_normalized_feature_vector(X)
    W = rng.normal(size=X.shape)
    W0 = W.copy()
    fs.normalizers.get_derivative_wrt_unnormed_features(X, W)
    rec.require("alias_normalizers", np.array_equal(X, X0) and np.array_equal(W, W0),
                mechanism="FeatNormalizerList:modifies-input")
    rec.nontrivial("alias")
    rec.set_sample({"n": n})
