"""C08 - vanishing or extreme densities never give non-finite or spurious contributions.

Monitors (DESIGN.md section 5, C08):
 finite        every array returned by a layer / integrator for admissible boundary inputs is finite; in scan mode of
               the ctypes boundary monitor the first C entry point that produces a non-finite value is named
 zero_below    samples / grid points whose density is below the model cutoff contribute exactly zero ML energy and
               have exactly zero feature derivative (MappedXC / MappedXC2 calls; ML part of eval_xc_cider obtained by
               differencing against the same call with the ML part switched off)
Workload: pointwise boundary sets around every hard-coded cutoff and end-to-end runs on systems whose grids reach far
into the vacuum (rho underflows), one-electron systems (tau = tau_W), fully polarised and anionic systems, an
all-zero density matrix.
"""
import numpy as np

from vlib.oracles import rng_for

PROPERTY = "C08"
PROP_NO = 8
RULE = ("pointwise case = boundary set of admissible (rho, grad, tau) rows (exact zeros, denormals, values on both sides "
        "of 1e-16/1e-10/1e-9/1e-6, zero and huge gradients up to s^2 = 1e12, tau in {0 at rho = 0, tau_W exactly, "
        "tau_W(1+1e-12), huge}) pushed through one layer (semilocal plan, exponents, normalisers, feature maps, "
        "baselines, model call with rhocut, eval_xc_cider, NLDF plan interpolation) in one configuration; non-trivial "
        "when the set contains rows on both sides of the relevant cutoff and the layer output is not identically zero; "
        "e2e case = (family, spin, extreme system) through nr_rks/nr_uks; distinct = (layer or family, configuration)")
MIN_NONTRIVIAL = {"quick": 120, "thorough": 1200}
ASSUMPTIONS = ["admissible input: rho >= 0, sigma >= 0, tau >= sigma/(8 rho) where rho > 0, and sigma = 0 where rho = 0 "
               "(gradient of a non-negative function vanishes at its zeros); tau may be positive at rho = 0 (nodes)",
               "floating-point exceptions raised transiently and masked afterwards are not verdicts; only returned values are",
               "NPOL/POL models apply the cutoff to the summed spin-scaled density (rule read from the code); value and "
               "derivative must follow the same rule"]
REQUIRED_CALLS = ["libmcider.evaluate_se_kernel"]

CUTS = [1e-16, 1e-10, 1e-9, 1e-6]


def boundary_rho(rng, nspin, n_extra=40):
    """Admissible rho_data (nspin, 5, n) containing the boundary rows."""
    rows = [0.0, 5e-324, 1e-310, 1e-300, 1e-200, 1e-100, 1e-30, 1e-20]
    for c in CUTS:
        rows += [c * (1 - 1e-3), c, c * (1 + 1e-3), c * 0.5, c * 2]
    rows += list(np.exp(rng.uniform(np.log(1e-14), np.log(1e3), size=n_extra)))
    rho = np.array(rows)
    n = rho.size
    out = np.zeros((nspin, 5, n))
    for s in range(nspin):
        r = rho.copy()
        rng.shuffle(r)
        if nspin == 2 and s == 1:
            r[::6] = 0.0  # one channel exactly empty at some points
        kind = rng.integers(0, 4, size=n)
        s2 = np.where(kind == 0, 0.0, np.where(kind == 1, 1e-12, np.where(kind == 2, 1.0, 1e12)))
        with np.errstate(all="ignore"):
            mag2 = s2 * 4 * (3 * np.pi ** 2) ** (2.0 / 3) * r ** (8.0 / 3)
        mag2 = np.where(np.isfinite(mag2), mag2, 0.0)
        mag2[r == 0] = 0.0
        d = rng.normal(size=(3, n))
        d /= np.linalg.norm(d, axis=0)
        grad = d * np.sqrt(mag2)
        sig = np.sum(grad ** 2, axis=0)
        with np.errstate(all="ignore"):
            tauw = np.where(r > 0, sig / (8 * np.where(r > 0, r, 1.0)), 0.0)
        tauw = np.where(np.isfinite(tauw), tauw, 0.0)
        tk = rng.integers(0, 4, size=n)
        tau = np.where(tk == 0, tauw, np.where(tk == 1, tauw * (1 + 1e-12), np.where(tk == 2, tauw + r ** (5.0 / 3), tauw + 1e6 * r ** (5.0 / 3) + (r == 0) * 1e-3)))
        # keep tau >= tau_W also after rounding of the gradient components
        tau = np.maximum(tau, tauw)
        out[s, 0] = r
        out[s, 1:4] = grad
        out[s, 4] = tau
    return out


def _finite(rec, name, arrs, mech):
    ok = True
    for a in arrs:
        a = np.asarray(a)
        if a.dtype.kind in "fc" and not np.all(np.isfinite(a)):
            ok = False
    rec.require("finite[%s]" % name, ok, mechanism=mech + ":nonfinite")
    return ok


def gen_cases(tier, seed):
    cases = []
    npw = 6 if tier == "quick" else 40
    layers = ["slplan", "exponent", "normalizer", "maps", "baselines", "model", "evalxc", "nldfplan", "splineclip"]
    i = 0
    for rep in range(npw):
        for lay in layers:
            for sub in range(2 if lay in ("model", "evalxc") else 1):
                cases.append({"id": "pw-%s-%03d" % (lay, i), "kind": "pw", "layer": lay, "seed": seed, "idx": 100 + i,
                              "_threads": 1, "_timeout": 900})
                i += 1
    fams = ["sl-npa", "sl-nst", "sl-np", "vj-mgga", "vi-mgga", "vij-gga", "vk-mgga", "vj-gga", "sdmx", "sdmxg1", "vj+sdmx", "vj-expnt"]
    systems = [("H", "uks", "6-31g", "far"), ("He", "rks", "6-31g", "far"), ("Li", "uks", "6-31g", "far"),
               ("H2", "rks", "sto-3g", "far"), ("OH-", "rks", "aug-cc-pvdz", "std"), ("H2+", "uks", "6-31g", "far"),
               ("HF", "rks", "6-31g", "zero_dm"), ("LiH", "uks", "6-31g", "empty_b")]
    rng = rng_for(seed, PROP_NO, 0)
    ne = 24 if tier == "quick" else 144
    for j in range(ne):
        fam = fams[j % len(fams)]
        sysname, spin, basis, kind = systems[(j * 5 + j // len(fams)) % len(systems)]
        c = dict(family=fam, spin=spin, mol=sysname, basis=basis, level=int(rng.integers(0, 2)),
                 mode=str(rng.choice(["SEP", "NPOL", "POL"], p=[0.6, 0.2, 0.2])), evaluator="rbf",
                 mix=str(rng.choice(["pure", "xmix"])), model="xc1", kind=kind)
        if fam.startswith("v"):
            c["plan_type"] = str(rng.choice(["gaussian", "spline"]))
            c["interp"] = str(rng.choice(["onsite_direct", "onsite_spline"]))
        cases.append({"id": "e2e-%03d-%s-%s-%s" % (j, fam, sysname, kind), "kind": "e2e", "cfg": c, "seed": seed,
                      "idx": 4000 + j, "_threads": 2, "_weight": 4.0, "_timeout": 1800})
    return cases


def run_case(case, rec):
    rng = rng_for(case["seed"], PROP_NO, case["idx"])
    from vlib import boot
    boot.MODE["scan"] = True
    del boot.NONFINITE[:]
    try:
        if case["kind"] == "pw":
            globals()["_pw_" + case["layer"]](case, rec, rng)
        else:
            _e2e(case, rec, rng)
    finally:
        boot.MODE["scan"] = False
    if boot.NONFINITE:
        first = boot.NONFINITE[0]
        rec.note("first_nonfinite_C_producer", {"entry_point": first[0], "arg": first[1], "count": first[2]})


# ---------------------------------------------------------------------------------------------------------- layers
def _pw_slplan(case, rec, rng):
    from ciderpress.dft import settings as st
    from ciderpress.dft.plans import SemilocalPlan
    for nspin in (1, 2):
        rho = boundary_rho(rng, nspin)
        for mode in ("nst", "npa", "ns", "np"):
            p = SemilocalPlan(st.SemilocalSettings(mode), nspin)
            with np.errstate(all="ignore"):
                f = p.get_feat(rho)
                vf = rng.normal(size=f.shape)
                v = p.get_vxc(rho, vf)
            _finite(rec, "slplan.get_feat", [f], "SemilocalPlan[%s].get_feat" % mode)
            _finite(rec, "slplan.get_vxc", [v], "SemilocalPlan[%s].get_vxc" % mode)
            rec.tag("slmode", mode)
            rec.nontrivial("slplan|%s|%d" % (mode, nspin))
    rec.set_sample({"layer": "slplan", "rho_rows": rho[0, 0, :12].tolist()})


def _pw_exponent(case, rec, rng):
    from ciderpress.dft import settings as st
    for nspin in (1, 2):
        rho = boundary_rho(rng, 1)[0]
        r, sig, tau = rho[0], np.sum(rho[1:4] ** 2, axis=0), rho[4]
        for k in range(4):
            a0 = float(rng.uniform(0.5, 4))
            gm = float(rng.choice([0.0, rng.uniform(0, 0.1)]))
            tm = float(rng.choice([0.0, rng.uniform(0, 0.06)]))
            for rc in (1e-10, 1e-9, 1e-6):
                with np.errstate(all="ignore"):
                    out = st.get_cider_exponent(r.copy(), sig.copy(), tau.copy(), a0=a0, grad_mul=gm, tau_mul=tm, rhocut=rc, nspin=nspin)
                    outg = st.get_cider_exponent_gga(r.copy(), sig.copy(), a0=a0, grad_mul=gm, rhocut=rc, nspin=nspin)
                _finite(rec, "get_cider_exponent", out, "get_cider_exponent")
                _finite(rec, "get_cider_exponent_gga", outg, "get_cider_exponent_gga")
                below = r < rc
                rec.require("exponent_derivative_zero_below_cutoff",
                            all(np.all(np.asarray(o)[below] == 0) for o in out[1:]) and all(np.all(np.asarray(o)[below] == 0) for o in outg[1:]),
                            mechanism="get_cider_exponent:derivative-nonzero-below-rhocut")
                rec.require("exponent_positive", bool(np.all(out[0] > 0) and np.all(outg[0] > 0)),
                            mechanism="get_cider_exponent:nonpositive-exponent")
        rec.nontrivial("exponent|%d" % nspin)
    rec.set_sample({"layer": "exponent"})


def _pw_normalizer(case, rec, rng):
    from ciderpress.dft.plans import SemilocalPlan

    from vlib import gen
    fam = str(rng.choice(["vj-mgga", "vi-mgga", "vij-gga", "vk-mgga", "sdmx", "sdmxg1", "vj-expnt", "vj-nst", "vi-gga"]))
    fs = gen.family_settings(fam, rng)
    rec.tag("family", fam)
    for nspin in (1, 2):
        rho = boundary_rho(rng, nspin)
        n = rho.shape[-1]
        X = np.zeros((nspin, fs.nfeat, n))
        with np.errstate(all="ignore"):
            X[:, :fs.sl_settings.nfeat] = SemilocalPlan(fs.sl_settings, nspin).get_feat(rho)
        if not np.all(np.isfinite(X)):
            rec.set_inconclusive("semilocal features non-finite (reported by the slplan layer)")
            return
        # nonlocal features scale roughly like the density: include exact zeros where the density vanishes
        X[:, fs.sl_settings.nfeat:] = rng.normal(size=(nspin, fs.nfeat - fs.sl_settings.nfeat, n)) * np.minimum(X[:, :1], 1e3)
        with np.errstate(all="ignore"):
            XN = fs.normalizers.get_normalized_feature_vector(X)
            W = rng.normal(size=X.shape)
            D = fs.normalizers.get_derivative_wrt_unnormed_features(X, W)
        _finite(rec, "normalizers.fwd", [XN], "FeatNormalizerList[%s].get_normalized_feature_vector" % fs.sl_settings.mode)
        _finite(rec, "normalizers.bwd", [D], "FeatNormalizerList[%s].get_derivative_wrt_unnormed_features" % fs.sl_settings.mode)
        rec.nontrivial("normalizer|%s|%d" % (fam, nspin))
    rec.set_sample({"layer": "normalizer", "family": fam})


def _pw_maps(case, rec, rng):
    from checks.c12 import _classes, _make
    for cls in _classes():
        m, kw = _make(cls, rng, 6)
        n = 60
        x = np.exp(rng.uniform(np.log(1e-300), np.log(50.0), size=(6, n)))  # feature-like magnitudes, incl. denormals
        x[:, ::7] = 0.0
        x[:, 1::11] = 5e-324
        if cls.__name__ == "V2Map":
            x[kw["j"]] = x[kw["i"]] * 2 ** 1.5 * rng.uniform(0, 1, size=n)
        if cls.__name__ in ("SLBMap", "SLTMap", "SLDMap", "SLTWMap"):
            # semilocal maps: (rho, sigma, tau) rows must be admissible
            rho = boundary_rho(rng, 1)[0][:, :n]
            idx = [kw[k] for k in ("i", "j", "k") if k in kw]
            x[idx[0]] = rho[0]
            if cls.__name__ in ("SLBMap", "SLDMap"):
                x[idx[1]] = np.sum(rho[1:4] ** 2, axis=0)
                x[idx[2]] = rho[4]
            elif cls.__name__ == "SLTWMap":
                x[idx[1]] = np.sum(rho[1:4] ** 2, axis=0)
            else:
                x[idx[1]] = rho[4]
        if cls.__name__ == "SLXMap":
            rho = boundary_rho(rng, 1)[0][:, :n]
            x[kw["i"]] = rho[0]
            x[kw["j"]] = np.sum(rho[1:4] ** 2, axis=0)
        y = np.zeros(n)
        d = np.zeros_like(x)
        with np.errstate(all="ignore"):
            m.fill_feat_(y, x.copy())
            m.fill_deriv_(d, np.ones(n), x.copy())
        _finite(rec, "map.value", [y], "%s.fill_feat_" % cls.__name__)
        _finite(rec, "map.deriv", [d], "%s.fill_deriv_" % cls.__name__)
        rec.tag("map", cls.__name__)
        rec.nontrivial("map|" + cls.__name__)
    rec.set_sample({"layer": "maps"})


def _pw_baselines(case, rec, rng):
    from ciderpress.dft import baselines as bl
    from ciderpress.dft import settings as st
    from ciderpress.dft.plans import SemilocalPlan, get_rho_tuple_with_grad_cross
    for nspin in (1, 2):
        rho = boundary_rho(rng, nspin)
        with np.errstate(all="ignore"):
            X = SemilocalPlan(st.SemilocalSettings("npa"), nspin).get_feat(rho)
        if not np.all(np.isfinite(X)):
            rec.set_inconclusive("semilocal features non-finite (reported by the slplan layer)")
            return
        for name in ("lda_x", "gga_x_pbe", "gga_x_chachiyo", "nlda_x_damp", "gga_c_pbe", "zero_xc", "one_xc"):
            f = getattr(bl, name)
            Xb = X
            if name == "nlda_x_damp":
                # this baseline reads a fourth (nonlocal, density-like) feature
                Xb = np.concatenate([X, np.abs(rng.normal(size=X[:, :1].shape)) * np.minimum(X[:, :1], 1e3)], axis=1)
            try:
                with np.errstate(all="ignore"):
                    m, dm = f(Xb)
            except NotImplementedError:
                continue
            _finite(rec, "baseline", [m, dm], "%s" % name)
            rec.tag("baseline", name)
        rt = get_rho_tuple_with_grad_cross(rho, is_mgga=True)
        for code in ("LDA_X", "GGA_X_PBE", "GGA_C_PBE", "MGGA_X_R2SCAN", "MGGA_C_R2SCAN", "SS_GGA_C_PBE", "OS_GGA_C_PBE", "LDA_C_PW_MOD"):
            with np.errstate(all="ignore"):
                res = bl.get_libxc_baseline(code, rt)
            _finite(rec, "libxc_baseline", res, "get_libxc_baseline[%s]" % code)
            rec.tag("baseline", code)
        rec.nontrivial("baselines|%d" % nspin)
    rec.set_sample({"layer": "baselines"})


def _model_inputs(rng, model, nspin):
    """Normalised features from boundary densities through the real semilocal plan and normalisers."""
    from ciderpress.dft.plans import SemilocalPlan
    fs = model.settings
    rho = boundary_rho(rng, nspin)
    n = rho.shape[-1]
    X = np.zeros((nspin, fs.nfeat, n))
    with np.errstate(all="ignore"):
        X[:, :fs.sl_settings.nfeat] = SemilocalPlan(fs.sl_settings, nspin).get_feat(rho)
    X[:, fs.sl_settings.nfeat:] = rng.normal(size=(nspin, fs.nfeat - fs.sl_settings.nfeat, n)) * np.minimum(X[:, :1], 1e3)
    with np.errstate(all="ignore"):
        XN = fs.normalizers.get_normalized_feature_vector(X)
    return rho, X, XN


def _pw_model(case, rec, rng):
    from ciderpress.dft.plans import get_rho_tuple_with_grad_cross

    from vlib import gen
    fam = str(rng.choice(["sl-npa", "sl-np", "vj-mgga", "sdmx", "vi-gga", "sl-nst"]))
    mode = ["SEP", "NPOL", "POL"][case["idx"] % 3]
    v2 = bool(case["idx"] % 2) and fam in ("sl-npa", "sl-np", "vj-mgga", "sdmx") and mode != "POL"
    cfg = dict(family=fam, mode=mode, evaluator=str(rng.choice(["rbf", "kernel", "linear"])), model="xc2" if v2 else "xc1",
               mul_base=("GGA_X_PBE" if mode == "SEP" else "GGA_C_PBE") if v2 else str(rng.choice(["lda_x", "gga_x_pbe", "gga_x_chachiyo"])))
    model = gen.build_model(cfg, rng)
    rec.tag("family", fam)
    rec.tag("mode", mode)
    rec.tag("model", cfg["model"])
    for nspin in (1, 2):
        rho, X, XN = _model_inputs(rng, model, nspin)
        if not np.all(np.isfinite(XN)):
            rec.set_inconclusive("normalised features non-finite (reported by the normalizer layer)")
            return
        for rc in (0.0, 1e-10, 1e-9, 1e-6):
            with np.errstate(all="ignore"):
                if v2:
                    rt = get_rho_tuple_with_grad_cross(rho, is_mgga=True)
                    res, dres, vrho = model(XN.copy(), rt, rhocut=rc)
                    outs = [res, dres] + list(vrho)
                else:
                    res, dres = model(XN.copy(), rhocut=rc)
                    outs = [res, dres]
            _finite(rec, "model", outs, "%s[%s,nspin=%d]" % ("MappedXC2" if v2 else "MappedXC", mode, nspin))
            if rc > 0 and not v2:
                # SEP per channel on X0T[:, 0]; NPOL / POL on the total density
                dens = XN[:, 0]
                if mode == "SEP":
                    below_all = np.all(dens < rc, axis=0)
                    rec.require("zero_below[value]", bool(np.all(res[below_all] == 0)), mechanism="MappedXC[%s]:energy-nonzero-below-rhocut" % mode)
                    for s in range(nspin):
                        b = dens[s] < rc
                        rec.require("zero_below[deriv]", bool(np.all(dres[s][:, b] == 0)), mechanism="MappedXC[%s]:derivative-nonzero-below-rhocut" % mode)
                else:
                    b = dens.mean(0) < rc  # spin-scaled densities: mean over spin = total density
                    rec.require("zero_below[value]", bool(np.all(res[..., b] == 0)), mechanism="MappedXC[%s]:energy-nonzero-below-rhocut" % mode)
                    rec.require("zero_below[deriv]", bool(np.all(dres[..., b] == 0)), mechanism="MappedXC[%s]:derivative-nonzero-below-rhocut" % mode)
        rec.nontrivial("model|%s|%s|%s|%d" % (fam, mode, cfg["model"], nspin))
    rec.set_sample({"layer": "model", "cfg": cfg})


def _pw_evalxc(case, rec, rng):
    """ML part of eval_xc_cider (by differencing against the same call with the ML part switched off)."""
    from vlib import gen
    fam = str(rng.choice(["sl-npa", "sl-nst", "sl-np", "sl-ns", "sdmx"]))
    mode = ["SEP", "NPOL", "POL"][case["idx"] % 3]
    cfg = dict(family=fam, mode=mode, evaluator="rbf", model="xc1", mol="He", basis="sto-3g", level=0,
               spin="rks", mix=str(rng.choice(["pure", "xmix", "mgga"])))
    if fam in ("sl-np", "sl-ns") and cfg["mix"] == "mgga":
        cfg["mix"] = "xmix"
    rec.tag("family", fam)
    rec.tag("mode", mode)
    rec.tag("mix", cfg["mix"])
    mol, model, ks = gen.build_ks(cfg, rng)
    ni = ks._numint
    for nspin in (1, 2):
        ni.initialize_feature_generators(mol, ks.grids, nspin)
        rho = boundary_rho(rng, nspin)
        n = rho.shape[-1]
        if fam == "sdmx":
            nsd = model.settings.sdmx_settings.nfeat
            sd = -np.abs(rng.normal(size=(nspin, nsd, n))) * np.minimum(rho[:, :1] * nspin, 1e3) ** (4.0 / 3)
        else:
            sd = None
        arg = rho[0] if nspin == 1 else rho
        for rc in (1e-9, 1e-6):
            ni.rhocut = rc
            with np.errstate(all="ignore"):
                exc, (vxc, vn, vs) = ni.eval_xc_cider(ks.xc, arg.copy(), None, None if sd is None else (sd[0] if nspin == 1 else sd), deriv=1)[:2]
                xm = ni.xmix
                ni.xmix = 0.0
                exc0, (vxc0, vn0, vs0) = ni.eval_xc_cider(ks.xc, arg.copy(), None, None if sd is None else (sd[0] if nspin == 1 else sd), deriv=1)[:2]
                ni.xmix = xm
            _finite(rec, "eval_xc_cider", [exc, vxc] + ([vs] if vs is not None else []), "eval_xc_cider[%s,%s,nspin=%d]" % (fam, mode, nspin))
            dens = rho[:, 0] * nspin  # spin-scaled density feature X0T[:, 0]
            if mode == "SEP":
                below = np.all(dens < rc, axis=0)
            else:
                below = dens.mean(0) < rc
            tot = rho[:, 0].sum(0)
            ml_e = (exc - exc0) * tot
            rec.require("ml_energy_zero_below_cutoff", bool(np.all(ml_e[below] == 0)),
                        mechanism="eval_xc_cider[%s]:ml-energy-nonzero-below-rhocut" % mode,
                        detail={"max": float(np.max(np.abs(ml_e[below]))) if below.any() else 0.0})
            dv = np.asarray(vxc) - np.asarray(vxc0)
            dv = dv[None] if nspin == 1 else dv
            if mode == "SEP":
                ok = all(np.all(dv[s][:, dens[s] < rc] == 0) for s in range(nspin))
            else:
                ok = bool(np.all(dv[..., below] == 0))
            rec.require("ml_potential_zero_below_cutoff", bool(ok), mechanism="eval_xc_cider[%s]:ml-potential-nonzero-below-rhocut" % mode)
        rec.nontrivial("evalxc|%s|%s|%d" % (fam, mode, nspin))
    rec.set_sample({"layer": "evalxc", "cfg": cfg})


def _pw_nldfplan(case, rec, rng):
    """NLDF plan: interpolation arguments / coefficients for boundary densities (exponents clipped to the ladder)."""
    from vlib import gen
    fam = str(rng.choice(["vj-mgga", "vi-mgga", "vij-gga", "vk-mgga", "vj-gga", "vj-expnt"]))
    cfg = dict(family=fam, mode="SEP", evaluator="rbf", model="xc1", mol="He", basis="sto-3g", level=0, spin="rks",
               mix="pure", plan_type=str(rng.choice(["gaussian", "spline"])), interp="onsite_direct")
    rec.tag("family", fam)
    rec.tag("plan_type", cfg["plan_type"])
    mol, model, ks = gen.build_ks(cfg, rng)
    dm = gen.psd_dm(mol, rng, 1)
    gen.nr_eval(ks, dm)
    plan = ks._numint.nldfgen.plan
    rho = boundary_rho(rng, 1)[0]
    # keep exponents inside the ladder: the plan raises above alpha_max by design (C18)
    keep = np.ones(rho.shape[1], dtype=bool)
    from ciderpress.dft.settings import get_cider_exponent
    a = get_cider_exponent(rho[0].copy(), np.sum(rho[1:4] ** 2, axis=0), rho[4].copy(), a0=4.0, grad_mul=0.1, tau_mul=0.06)[0]
    keep &= a < 0.2 * plan.alpha0 * plan.lambd ** (plan.nalpha - 1) if hasattr(plan, "alpha0") else keep
    rho = np.ascontiguousarray(rho[:, keep])
    nvj = plan.nldf_settings.num_feat_param_sets
    rt = plan.get_rho_tuple(rho)
    before = [np.array(x, copy=True) for x in rt]
    below = before[0] < plan.rhocut
    for i in range(-1, nvj):
        with np.errstate(all="ignore"):
            try:
                arg = plan.get_interpolation_arguments(rt, i=i)
            except RuntimeError as e:
                rec.note("exponent_out_of_range", str(e)[:80])
                continue
            p, dp = plan.get_interpolation_coefficients(np.ascontiguousarray(arg[0]), i=i)
        _finite(rec, "nldfplan.args", list(arg[:1]) + list(arg[1]), "NLDFPlan[%s].get_interpolation_arguments" % cfg["plan_type"])
        _finite(rec, "nldfplan.coefs", [p, dp], "NLDFPlan[%s].get_interpolation_coefficients" % cfg["plan_type"])
    # all exponents of a plan are evaluated one after the other on ONE density tuple (theta first, then every feature
    # parameter set - the order of the generators): below the plan's density cut-off every one of them must return zero
    # derivatives, and the tuple (views of the caller's density) must come back untouched
    for i in range(-1, nvj):
        with np.errstate(all="ignore"):
            try:
                a_i, d_i = plan.eval_feat_exp(rt, i=i)
            except RuntimeError as e:
                rec.note("exponent_out_of_range", str(e)[:80])
                continue
        if below.any():
            rec.require("exponent_derivative_zero_below_plan_cutoff", all(not np.any(np.asarray(d)[below]) for d in d_i),
                        mechanism="NLDFPlan.eval_feat_exp[%s]:derivative-nonzero-below-rhocut" % ("theta" if i < 0 else "feature-set"),
                        detail={"i": i, "n_below": int(below.sum())})
    rec.require("density_tuple_unmodified", all(np.array_equal(x, y) for x, y in zip(rt, before)),
                mechanism="NLDFPlan.eval_feat_exp:modifies-input")
    with np.errstate(all="ignore"):
        fn = plan.get_function_to_convolve(rt)
    _finite(rec, "nldfplan.func", [fn[0]] + list(fn[1]), "NLDFPlan.get_function_to_convolve")
    rec.nontrivial("nldfplan|%s|%s" % (fam, cfg["plan_type"]))
    rec.set_sample({"layer": "nldfplan", "cfg": cfg, "npoints": int(rho.shape[1])})


def _pw_splineclip(case, rec, rng):
    """Spline plans that do not raise above alpha_max (raise_large_expnt_error=False / use_smooth_expnt_cutoff=True, as
    the plane-wave interface uses them): extreme exponents must give the clipped, finite coefficients - no spurious
    contribution from a sentinel table row - and indices inside the table."""
    from vlib import planprobe
    cfgs = [planprobe.probe(rec, rng, tagprefix="splineclip") for _ in range(6)]
    rec.set_sample({"layer": "splineclip", "configs": cfgs})


# ---------------------------------------------------------------------------------------------------------- e2e
def _e2e(case, rec, rng):
    from pyscf import gto

    from vlib import gen
    cfg = dict(case["cfg"])
    kind = cfg.pop("kind")
    for k in ("family", "spin", "mol", "basis", "level", "mode", "mix", "plan_type", "interp"):
        if cfg.get(k) is not None:
            rec.tag(k, cfg[k])
    rec.tag("system_kind", kind)
    if cfg["mol"] == "H2+":
        mol = gto.M(atom="H 0 0 0; H 0 0 1.06", basis=cfg["basis"], charge=1, spin=1, verbose=0)
    else:
        mol = gen.make_mol(cfg["mol"], cfg["basis"], rng, jitter=0.0 if mol_is_atom(cfg["mol"]) else 0.03)
    model = gen.build_model(cfg, rng)
    ag = None
    if kind == "far":
        ag = (75, 110)  # long radial grid: outermost shells lie where rho underflows
    mol, model, ks = gen.build_ks(dict(cfg, **({"level": 3} if kind == "far" and cfg["level"] else {})), rng, mol=mol, model=model)
    nspin = 1 if cfg["spin"] == "rks" else 2
    dm = gen.psd_dm(mol, rng, nspin, fractional=mol.nelectron > 1)
    if kind == "zero_dm":
        dm = dm * 0.0
    if kind == "empty_b":
        dm[1] *= 0.0
    try:
        with np.errstate(all="ignore"):
            n, e, v = gen.nr_eval(ks, dm)
    except RuntimeError as ex:
        if "NLDF exponent is too large" in str(ex):
            # a random one-electron density has nodal surfaces where |grad rho|^2 / rho^2 diverges: the plan refuses
            # exponents above its ladder instead of extrapolating (the behaviour C18 demands); not a C08 event
            rec.tag("refused", "NLDF exponent above alpha_max (nodal one-electron density)")
            rec.set_sample({"cfg": cfg, "kind": kind, "refused": "exponent above alpha_max"})
            return
        raise
    _finite(rec, "nr_" + cfg["spin"], [np.atleast_1d(n), np.atleast_1d(e), v], "nr_%s[%s,%s]" % (cfg["spin"], cfg["family"], kind))
    if kind == "zero_dm":
        rec.check("zero_density_zero_energy", abs(float(e)), 0.0, mechanism="nr_%s:nonzero-energy-for-zero-density[%s]" % (cfg["spin"], cfg["family"]))
    # how far into the vacuum did the grid reach
    from pyscf.dft import numint as pn
    ao = pn.eval_ao(mol, ks.grids.coords)
    r = pn.eval_rho(mol, ao, dm if nspin == 1 else dm[0] + dm[1])
    w = ks.grids.weights
    rec.note("min_density_on_grid", float(np.min(r[w != 0])) if np.any(w != 0) else 0.0)
    rec.note("points_below_1e-10", int(np.sum(r[w != 0] < 1e-10)))
    if np.sum(r[w != 0] < 1e-9) >= 10 or kind in ("zero_dm", "empty_b"):
        rec.nontrivial("e2e")
    rec.set_sample({"cfg": cfg, "kind": kind, "excsum": float(e), "nelec": np.atleast_1d(n).tolist(),
                    "points_below_1e-10": int(np.sum(r[w != 0] < 1e-10)), "ngrids": int(np.sum(w != 0))})


def mol_is_atom(name):
    return name in ("H", "He", "Li")
