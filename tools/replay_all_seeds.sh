#!/bin/bash
# Final confirmation of every stored seeded change against /repo itself: apply (git -C /repo apply), run the property's quick
# check, undo (git -C /repo checkout -- .).  Serial; nothing else may use /repo's working tree meanwhile.
# usage: tools/replay_all_seeds.sh [seed ids...]   (default: all)   -> seeded/<id>/in_repo.json, summary on stdout
cd "$(dirname "$0")/.."
ids=("$@")
if [ ${#ids[@]} -eq 0 ]; then ids=($(ls seeded)); fi
for id in "${ids[@]}"; do
  prop=$(python3 -c "import json; print(json.load(open('seeded/$id/meta.json'))['property'])")
  if [ -n "$(git -C /repo status --porcelain --untracked-files=no)" ]; then echo "$id: /repo not clean, stopping"; exit 3; fi
  python3 tools/try_seed.py seeded/$id $prop --in-repo > seeded/$id/in_repo.json 2> /tmp/replay_$id.err
  git -C /repo checkout -- . 2>/dev/null
  python3 - <<PY
import json
try:
    d = json.load(open("seeded/$id/in_repo.json"))
    c = d["checks"]["$prop"]
    print("$id", "$prop", "baseline", d.get("baseline_passed"), "demo", (d.get("demo_unpatched") or [None])[0], (d.get("demo_patched") or [None])[0], "check exit", c["exit"], c["mechanisms"][:2])
except Exception as e:
    print("$id FAILED", e, open("/tmp/replay_$id.err").read()[-300:])
PY
done
