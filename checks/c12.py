"""C12 - feature transforms and normalisers: derivatives match values.

Oracles (DESIGN.md section 5, C12):
 map_fd        4th-order finite difference of fill_feat_ along every raw axis vs fill_deriv_ (unit dfdy,
               pre-filled dfdx to check += semantics), for every class in ALL_CLASSES.
 map_untouched fill_deriv_ must not write rows of dfdx it does not read, nor modify x / dfdy.
 list_additive FeatureList.fill_derivs_ with overlapping raw indices == sum of the single-map contributions
               and == FD of the composite scalar sum_i w_i y_i.
 norm_fd       FD of FeatNormalizerList.get_normalized_feature_vector vs get_derivative_wrt_unnormed_features.
 norm_transpose <J DX, W> == <DX, J^T W> between the forward-mode and reverse-mode routines (exact).
 single normaliser classes: fill_bwd / get_normed_feature_deriv vs FD of fill_fwd.
"""
import inspect

import numpy as np

from vlib.oracles import rng_for

PROPERTY = "C12"
PROP_NO = 12
RULE = ("cases = (map class from ALL_CLASSES x random parameter draw x random raw indices, distinct or (every 4th draw) with repeated indices among the positive arguments) + FeatureLists "
        "with overlapping indices + normaliser lists (4 classes x 4 semilocal modes); a case is non-trivial when the "
        "analytic derivative is non-zero on >= 90% of the sampled points and the FD self-error is below tol/10; "
        "distinct = distinct (class, parameter digest, index assignment)")
MIN_NONTRIVIAL = {"quick": 300, "thorough": 3000}
ASSUMPTIONS = ["raw inputs are kept inside each map's smooth domain (rho > 1e-6, margins from clip/abs/maximum kinks); "
               "behaviour at the kinks belongs to C08",
               "finite-difference oracle: 5-point stencil, two step sizes; tolerance 1e-7 relative to derivative scale"]
TOL_FD = 1e-7
TOL_EXACT = 1e-12

INDEX_NAMES = ("i", "j", "k", "l", "i_n", "i_s", "i_alpha")
# raw arguments that may be negative (signed features) per class code
SIGNED = {"L": ["i"], "SU": ["i"], "W": ["k"], "X": ["k"], "Y": ["l"], "V4": ["i", "j"], "E": ["i"], "Z": ["i"]}


def _classes():
    from ciderpress.dft import transform_data as td
    return td.ALL_CLASSES


def _make(cls, rng, nraw, repeat=False):
    """Random instance of a map class: distinct raw indices (repeat=True: the positive-valued arguments share raw indices,
    e.g. YMap(l, i, j, j) - legal, the package's own tests build TMap(0, 0)), non-special parameters."""
    sig = inspect.signature(cls.__init__)
    names = [p for p in sig.parameters if p != "self"]
    idx_names = [n for n in names if n in INDEX_NAMES]
    idx = rng.choice(nraw, size=len(idx_names), replace=False)
    code = getattr(cls, "code", None) or cls.__name__
    pos = [q for q, n in enumerate(idx_names) if n not in SIGNED.get(code, [])]
    if repeat and len(pos) >= 2 and code != "V2":
        a = int(rng.integers(len(pos)))
        for q in pos:  # all equal, or one pair equal
            if rng.random() < 0.6 or q == pos[(a + 1) % len(pos)]:
                idx[q] = idx[pos[a]]
    kw = {}
    for n, v in zip(idx_names, idx):
        kw[n] = int(v)
    for n in names:
        if n in kw or n == "bounds":
            continue
        if n.startswith("gamma"):
            kw[n] = float(np.exp(rng.uniform(np.log(0.05), np.log(5.0))))
        elif n == "scale":
            kw[n] = float(rng.uniform(0.3, 3.0))
        elif n == "center":
            kw[n] = float(rng.uniform(-1.0, 1.0))
        elif n in ("c", "B", "C"):
            kw[n] = float(rng.uniform(0.2, 2.0))
        else:
            raise RuntimeError("unknown constructor argument %s.%s" % (cls.__name__, n))
    return cls(**kw), kw


def _inputs(cls, kw, rng, nraw, npts):
    x = np.exp(rng.uniform(np.log(0.02), np.log(8.0), size=(nraw, npts)))
    code = getattr(cls, "code", None) or cls.__name__
    for n in SIGNED.get(code, []):
        if n in kw:
            sgn = rng.choice([-1.0, 1.0], size=npts)
            x[kw[n]] *= sgn
    if code == "V2":
        # V2Map is singular where 1 + b (a x_i - x_j) = 0; keep a x_i >= x_j (its intended domain)
        x[kw["j"]] = x[kw["i"]] * 2 ** 1.5 * rng.uniform(0.0, 1.0, size=npts)
    return x


def _fd_axis(m, x, ax, h):
    def f(t):
        xx = x.copy()
        xx[ax] = x[ax] + t
        y = np.zeros(x.shape[1])
        m.fill_feat_(y, xx)
        return y
    return (-f(2 * h) + 8 * f(h) - 8 * f(-h) + f(-2 * h)) / (12 * h)


def gen_cases(tier, seed):
    ncls = len(_classes())
    ndraw = 20 if tier == "quick" else 200
    cases = []
    for ic in range(ncls):
        # several batches per class so the work spreads over workers
        nb = 2 if tier == "quick" else 8
        for b in range(nb):
            cases.append({"id": "map-%02d-b%d" % (ic, b), "kind": "map", "cls": ic, "ndraw": ndraw // nb,
                          "seed": seed, "idx": ic * 100 + b, "_threads": 1, "_timeout": 900})
    nl = 16 if tier == "quick" else 160
    for i in range(nl):
        cases.append({"id": "list-%03d" % i, "kind": "list", "seed": seed, "idx": 5000 + i, "_threads": 1})
    for ic in range(ncls):
        cases.append({"id": "dup-%02d" % ic, "kind": "dup", "cls": ic, "seed": seed, "idx": 6000 + ic, "_threads": 1})
    nn = 32 if tier == "quick" else 320
    for i in range(nn):
        cases.append({"id": "norm-%03d" % i, "kind": "norm", "seed": seed, "idx": 7000 + i,
                      "mode": ["npa", "nst", "np", "ns"][i % 4], "_threads": 1})
    return cases


def run_case(case, rec):
    rng = rng_for(case["seed"], PROP_NO, case["idx"])
    if case["kind"] == "map":
        _run_map(case, rec, rng)
    elif case["kind"] == "list":
        _run_list(case, rec, rng)
    elif case["kind"] == "dup":
        _run_dup(case, rec, rng)
    else:
        _run_norm(case, rec, rng)


def _run_map(case, rec, rng):
    cls = _classes()[case["cls"]]
    name = cls.__name__
    rec.tag("class", name)
    npts = 40
    for d in range(case["ndraw"]):
        nraw = int(rng.integers(5, 9))
        m, kw = _make(cls, rng, nraw, repeat=d % 4 == 3)
        x = _inputs(cls, kw, rng, nraw, npts)
        x0 = x.copy()
        dfdy = np.ones(npts)
        if len(set(v for k, v in kw.items() if k in INDEX_NAMES)) < sum(1 for k in kw if k in INDEX_NAMES):
            rec.tag("index_form", "repeated")
        prefill = rng.normal(size=(nraw, npts))
        dfdx = prefill.copy()
        m.fill_deriv_(dfdx, dfdy, x)
        ana = dfdx - prefill
        rec.require("map_inputs_unmodified", np.array_equal(x, x0) and np.all(dfdy == 1.0),
                    mechanism="%s.fill_deriv_:modifies-input" % name)
        # form of the data: integer-valued raw features stored as integers give the derivative (and value) of the same values
        # stored as floats - added after a seeded work buffer that took the dtype of the raw-feature array
        xi = np.maximum(np.rint(np.abs(x)), 1.0)
        try:
            with np.errstate(all="ignore"):
                df_f, df_i = np.zeros((nraw, npts)), np.zeros((nraw, npts))
                m.fill_deriv_(df_f, np.ones(npts), xi.copy())
                m.fill_deriv_(df_i, np.ones(npts), xi.astype(np.int64))
                y_f, y_i = np.zeros(npts), np.zeros(npts)
                m.fill_feat_(y_f, xi.copy())
                m.fill_feat_(y_i, xi.astype(np.int64))
            if np.all(np.isfinite(df_f)) and np.all(np.isfinite(y_f)):
                sc_i = max(float(np.max(np.abs(df_f))), 1e-300)
                rec.check("map_integer_inputs[%s]" % name, max(float(np.max(np.abs(df_i - df_f))) / sc_i,
                                                               float(np.max(np.abs(y_i - y_f))) / max(float(np.max(np.abs(y_f))), 1e-300)),
                          TOL_EXACT, mechanism="%s.fill_deriv_" % name, detail={"kw": kw, "form": "int64 raw features"})
        except Exception as e:  # noqa: BLE001 - a map that refuses integer arrays is not judged here
            rec.note("integer_inputs_not_evaluated[%s]" % name, repr(e)[:120])
        used = sorted(v for k, v in kw.items() if k in INDEX_NAMES)
        worst, selfworst = 0.0, 0.0
        fds = {}
        for ax in range(nraw):
            if ax not in used:
                rec.require("map_untouched_rows", np.array_equal(dfdx[ax], prefill[ax]),
                            mechanism="%s.fill_deriv_:writes-unread-row" % name)
                continue
            h = 1e-3 * np.maximum(np.abs(x[ax]), 0.05)
            fds[ax] = (_fd_axis(m, x, ax, h), _fd_axis(m, x, ax, h / 2))
        # derivative scale from the analytic AND the finite-difference side: an analytic derivative that is (wrongly)
        # identically zero must not make the comparison unresolved
        # (1e-6 absolute floor: a map that is identically zero, e.g. V3Map(i, i), leaves only the rounding of += / -=)
        scale = max([1e-6, float(np.max(np.abs(ana)))] + [float(np.max(np.abs(f2))) for _, f2 in fds.values()])
        for ax, (fd1, fd2) in fds.items():
            err = np.max(np.abs(fd2 - ana[ax])) / scale
            selferr = np.max(np.abs(fd2 - fd1)) / scale
            worst = max(worst, err)
            selfworst = max(selfworst, selferr)
        if selfworst > TOL_FD / 10:
            rec.note("fd_self_error_%s_%d" % (name, d), selfworst)
            continue
        rec.check("map_fd[%s]" % name, worst, TOL_FD, mechanism="%s.fill_deriv_" % name,
                  detail={"kw": kw, "err": worst})
        # value routine must also be insensitive to pre-existing content of y (it assigns)
        y1 = np.zeros(npts)
        y2 = rng.normal(size=npts)
        m.fill_feat_(y1, x)
        m.fill_feat_(y2, x)
        rec.require("map_value_assigns", np.array_equal(y1, y2), mechanism="%s.fill_feat_:accumulates" % name)
        nz = np.mean(np.any(ana[used] != 0, axis=0))
        if nz >= 0.9:
            rec.nontrivial("%s|%s" % (name, sorted(kw.items())))
        if rec.sample is None:
            rec.set_sample({"class": name, "kw": kw, "x0": x[:, 0].tolist(), "analytic": ana[:, 0].tolist(),
                            "fd_err": worst, "fd_self_err": selfworst})


def _run_list(case, rec, rng):
    from ciderpress.dft.transform_data import FeatureList
    classes = _classes()
    nraw = 6
    npts = 30
    nmap = int(rng.integers(3, 9))
    maps, kws, names = [], [], []
    x = np.exp(rng.uniform(np.log(0.02), np.log(8.0), size=(nraw, npts)))
    for _ in range(nmap):
        cls = classes[int(rng.integers(len(classes)))]
        m, kw = _make(cls, rng, nraw)
        maps.append(m)
        kws.append(kw)
        names.append(cls.__name__)
    rec.tag("class", names)
    fl = FeatureList(maps)
    w = rng.normal(size=(nmap, npts))
    pre = rng.normal(size=(nraw, npts))
    dfdx = pre.copy()
    fl.fill_derivs_(dfdx, w, x)
    tot = dfdx - pre
    ssum = np.zeros_like(tot)
    for i, m in enumerate(maps):
        tmp = np.zeros_like(tot)
        m.fill_deriv_(tmp, w[i], x)
        ssum += tmp
    scale = max(1e-300, np.max(np.abs(tot)))
    rec.check("list_additive", np.max(np.abs(tot - ssum)) / scale, TOL_EXACT, mechanism="FeatureList.fill_derivs_")
    # values: fill_vals_ and __call__ agree with singles
    td = np.zeros((nmap, npts))
    fl.fill_vals_(td, x)
    td2 = fl(x.T.copy()).T
    ok = True
    for i, m in enumerate(maps):
        y = np.zeros(npts)
        m.fill_feat_(y, x)
        ok = ok and np.array_equal(y, td[i]) and np.array_equal(y, td2[i])
    rec.require("list_values", ok, mechanism="FeatureList.fill_vals_")

    def F(xx):
        t = np.zeros((nmap, npts))
        fl.fill_vals_(t, xx)
        return np.sum(w * t, axis=0)
    worst, selfworst = 0.0, 0.0
    for ax in range(nraw):
        h = 1e-3 * np.maximum(np.abs(x[ax]), 0.05)

        def g(t):
            xx = x.copy()
            xx[ax] += t
            return F(xx)
        fd1 = (-g(2 * h) + 8 * g(h) - 8 * g(-h) + g(-2 * h)) / (12 * h)
        h2 = h / 2
        fd2 = (-g(2 * h2) + 8 * g(h2) - 8 * g(-h2) + g(-2 * h2)) / (12 * h2)
        worst = max(worst, np.max(np.abs(fd2 - tot[ax])) / scale)
        selfworst = max(selfworst, np.max(np.abs(fd2 - fd1)) / scale)
    vz = "VZMap" in names
    if selfworst <= TOL_FD / 10:
        rec.check("list_fd", worst, TOL_FD, mechanism="VZMap.fill_deriv_" if vz else "FeatureList.fill_derivs_:fd",
                  detail={"classes": names})
        rec.nontrivial(str(sorted(zip(names, map(str, kws)))))
    rec.set_sample({"classes": names, "kws": kws, "list_fd_err": worst})


def _run_dup(case, rec, rng):
    """Several instances of the SAME class reading the SAME raw features (different parameters), alone and mixed with
    other maps: FeatureList.fill_derivs_ must add up the single-map contributions."""
    from ciderpress.dft.transform_data import FeatureList
    classes = _classes()
    cls = classes[case["cls"]]
    name = cls.__name__
    rec.tag("class", name)
    nraw, npts = 6, 30
    for rep in range(4 if case.get("tier") != "thorough" else 12):
        m0, kw0 = _make(cls, rng, nraw)
        idxkw = {k: v for k, v in kw0.items() if k in INDEX_NAMES}
        maps = [m0]
        for _ in range(int(rng.integers(1, 3))):
            m, kw = _make(cls, rng, nraw)
            kw.update(idxkw)  # same raw indices, other parameters
            maps.append(cls(**kw))
        for _ in range(int(rng.integers(0, 3))):
            maps.append(_make(classes[int(rng.integers(len(classes)))], rng, nraw)[0])
        order = rng.permutation(len(maps))
        maps = [maps[int(i)] for i in order]
        x = _inputs(cls, kw0, rng, nraw, npts)
        x = np.abs(x)  # the extra maps of other classes need admissible (positive) raw features
        if any(type(m).__name__ == "V2Map" for m in maps):
            continue
        fl = FeatureList(maps)
        w = rng.normal(size=(len(maps), npts))
        pre = rng.normal(size=(nraw, npts))
        d = pre.copy()
        fl.fill_derivs_(d, w, x)
        tot = d - pre
        ssum = np.zeros_like(tot)
        for i, m in enumerate(maps):
            tmp = np.zeros_like(tot)
            m.fill_deriv_(tmp, w[i], x)
            ssum += tmp
        sc = max(1e-300, float(np.max(np.abs(ssum))))
        rec.check("dup_additive[%s]" % name, float(np.max(np.abs(tot - ssum))) / sc, TOL_EXACT,
                  mechanism="FeatureList.fill_derivs_:shared-raw-feature[%s]" % name)
        t1 = np.zeros((len(maps), npts))
        fl.fill_vals_(t1, x)
        ok = all(np.array_equal(t1[i], _val(m, x, npts)) for i, m in enumerate(maps))
        rec.require("dup_values", ok, mechanism="FeatureList.fill_vals_:shared-raw-feature[%s]" % name)
        rec.nontrivial("%s|%d" % (name, rep))
    rec.set_sample({"class": name, "kind": "duplicate maps on shared raw features"})


def _val(m, x, npts):
    y = np.zeros(npts)
    m.fill_feat_(y, x)
    return y


def _rand_normalizers(rng, nfeat):
    from ciderpress.dft import feat_normalizer as fn
    out = []
    kinds = []
    for i in range(nfeat):
        k = int(rng.integers(5)) if i >= 3 else int(rng.integers(6))
        if i < 3 and k == 5:
            out.append(None)
            kinds.append("None")
        elif k == 0 or (i == 0):
            # first slot (density) is left un-normalised or constant in practice
            out.append(fn.ConstantNormalizer(float(rng.uniform(0.5, 2))) if rng.random() < 0.5 else None)
            kinds.append("Constant/None")
        elif k == 1:
            out.append(fn.DensityNormalizer(float(rng.uniform(0.5, 2)), float(rng.uniform(-2, 2))))
            kinds.append("Density")
        elif k == 2:
            out.append(fn.InhomogeneityNormalizer(float(rng.uniform(0.5, 2)), float(rng.uniform(0.1, 2)), float(rng.uniform(-2, 2))))
            kinds.append("Inhomogeneity")
        elif k == 3:
            out.append(fn.GeneralNormalizer(float(rng.uniform(0.5, 2)), float(rng.uniform(0.1, 2)), float(rng.uniform(-2, 2)), float(rng.uniform(-2, 2))))
            kinds.append("General")
        else:
            a0 = float(rng.uniform(0.5, 3))
            out.append(fn.get_normalizer_from_exponent_params(float(rng.uniform(-1, 1)), float(rng.uniform(-2, 2)), a0, float(rng.uniform(0, 0.5)) * a0 / 6, gga=bool(rng.integers(2))))
            kinds.append("General(from_exponent)")
    return out, kinds


def _run_norm(case, rec, rng):
    from ciderpress.dft import feat_normalizer as fn
    mode = case["mode"]
    rec.tag("slmode", mode)
    nsl = 3 if mode in ("npa", "nst") else 2
    nfeat = nsl + int(rng.integers(1, 6))
    nspin = int(rng.integers(1, 3))
    npts = 25
    norms, kinds = _rand_normalizers(rng, nfeat)
    rec.tag("normalizer", kinds)
    nl = fn.FeatNormalizerList(norms, slmode=mode)
    X = np.empty((nspin, nfeat, npts))
    X[:, 0] = np.exp(rng.uniform(np.log(1e-3), np.log(50.0), size=(nspin, npts)))
    X[:, 1] = np.exp(rng.uniform(np.log(1e-3), np.log(20.0), size=(nspin, npts)))
    if nsl == 3:
        X[:, 2] = np.exp(rng.uniform(np.log(1e-3), np.log(20.0), size=(nspin, npts)))
    X[:, nsl:] = rng.normal(size=(nspin, nfeat - nsl, npts)) * 2
    X0 = X.copy()
    W = rng.normal(size=X.shape)
    W0 = W.copy()
    Jt_W = nl.get_derivative_wrt_unnormed_features(X, W)
    rec.require("norm_inputs_unmodified", np.array_equal(X, X0) and np.array_equal(W, W0),
                mechanism="FeatNormalizerList:modifies-input")
    # exact transpose test per spin channel (forward routine is 2-D)
    worst = 0.0
    for s in range(nspin):
        DX = rng.normal(size=(nfeat, npts))
        J_DX = nl.get_derivative_of_normed_features(X[s], DX)
        lhs = np.sum(J_DX * W[s], axis=0)
        rhs = np.sum(DX * Jt_W[s], axis=0)
        den = np.sum(np.abs(J_DX * W[s]), axis=0) + np.sum(np.abs(DX * Jt_W[s]), axis=0) + 1e-300
        worst = max(worst, float(np.max(np.abs(lhs - rhs) / den)))
    rec.check("norm_transpose[%s]" % mode, worst, TOL_EXACT, mechanism="FeatNormalizerList:fwd-vs-bwd[%s]" % mode)
    # FD of the value routine along random directions, pointwise
    scale = max(1e-300, float(np.max(np.abs(Jt_W))))
    werr, wself = 0.0, 0.0
    for ax in range(nfeat):
        h = 1e-3 * np.abs(X[:, ax]) if ax < nsl else 1e-3 * np.maximum(np.abs(X[:, ax]), 0.05)

        def g(t):
            XX = X.copy()
            XX[:, ax] += t
            return np.sum(W * nl.get_normalized_feature_vector(XX), axis=1)
        fd1 = (-g(2 * h) + 8 * g(h) - 8 * g(-h) + g(-2 * h)) / (12 * h)
        h2 = h / 2
        fd2 = (-g(2 * h2) + 8 * g(h2) - 8 * g(-h2) + g(-2 * h2)) / (12 * h2)
        werr = max(werr, float(np.max(np.abs(fd2 - Jt_W[:, ax])) / scale))
        wself = max(wself, float(np.max(np.abs(fd2 - fd1)) / scale))
    if wself <= TOL_FD / 10:
        rec.check("norm_fd[%s]" % mode, werr, TOL_FD, mechanism="FeatNormalizerList:bwd-vs-fd[%s]" % mode,
                  detail={"kinds": kinds})
        rec.nontrivial("%s|%s|%d" % (mode, kinds, nspin))
    else:
        rec.note("fd_self_error", wself)
    # single normaliser objects: fill_bwd / get_normed_feature_deriv vs fill_fwd
    for n, kind in zip(norms, kinds):
        if n is None:
            continue
        x = rng.normal(size=npts)
        rho = np.exp(rng.uniform(-3, 3, size=npts))
        inh = np.exp(rng.uniform(-3, 2, size=npts))
        g = rng.normal(size=npts)
        dfdx, dfdrho, dfdinh = n.fill_bwd(g, x, rho, inh)
        dx, drho, dinh = rng.normal(size=(3, npts))
        drho *= rho
        dinh *= inh
        fwd = n.get_normed_feature_deriv(x, rho, inh, dx, drho, dinh)
        lhs = g * fwd
        rhs = dfdx * dx + dfdrho * drho + dfdinh * dinh
        den = np.abs(lhs) + np.abs(dfdx * dx) + np.abs(dfdrho * drho) + np.abs(dfdinh * dinh) + 1e-300
        rec.check("single_norm_transpose", float(np.max(np.abs(lhs - rhs) / den)), TOL_EXACT,
                  mechanism="%s:fwd-vs-bwd" % type(n).__name__)
        # FD in (x, rho, inh) along the direction
        def f(t):
            return n.fill_fwd(x + t * dx, rho * np.exp(t * drho / rho), inh * np.exp(t * dinh / inh))
        hh = 1e-3
        fd = (-f(2 * hh) + 8 * f(hh) - 8 * f(-hh) + f(-2 * hh)) / (12 * hh)
        sc = max(1e-300, float(np.max(np.abs(fwd))))
        rec.check("single_norm_fd", float(np.max(np.abs(fd - fwd)) / sc), TOL_FD,
                  mechanism="%s:deriv-vs-fd" % type(n).__name__)
    rec.set_sample({"slmode": mode, "kinds": kinds, "nspin": nspin, "transpose_err": worst, "fd_err": werr})
