#!/usr/bin/env python3
"""Merge further calibration runs of C02 into vlib/c02_bounds.py without the accumulated store of vlib/c02_calib.py:
    C02_CALIB=1 VERIF_SEED=<s> ./check C02 [--tier thorough] --no-evidence > <log>     (unchanged tree; nothing fails)
    python3 tools/c02_merge_calib.py <log> ...        -> every entry becomes max(table, observed); new names are added
"""
import os
import re
import sys

ROOT = os.path.dirname(os.path.dirname(os.path.abspath(__file__)))
sys.path.insert(0, ROOT)
from vlib.c02_bounds import OBSERVED  # noqa: E402
from vlib.c02_calib import PAT, SKIP  # noqa: E402

obs = dict(OBSERVED)
runs = []
raised = 0
for log in sys.argv[1:]:
    head = [ln for ln in open(log) if ln.startswith("C02 tier=")]
    runs.append(re.sub(r" cases=.*", "", head[-1].strip()) if head else os.path.basename(log))
    for line in open(log):
        m = PAT.match(line.rstrip("\n"))
        if not m:
            continue
        name, val = m.group(1), float(m.group(3))
        if name.startswith(SKIP) or "H1d" in name:
            continue
        if val > obs.get(name, -1.0):
            raised += 1
            obs[name] = val
src = open(os.path.join(ROOT, "vlib", "c02_bounds.py")).read()
doc_end = src.index('"""', 3)
doc = src[3:doc_end].rstrip()
doc += "\nMerged later with tools/c02_merge_calib.py (max of the table and further calibration runs): %s." % ", ".join(runs)
lines = ['"""' + doc + '"""', "OBSERVED = {"]
for k in sorted(obs):
    lines.append("    %r: %.3e," % (k, obs[k]))
lines.append("}")
open(os.path.join(ROOT, "vlib", "c02_bounds.py"), "w").write("\n".join(lines) + "\n")
print("entries", len(obs), "raised or added", raised, "runs", runs)
