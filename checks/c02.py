"""C02 - fast nonlocal feature evaluation reproduces the documented feature definitions.

Three oracles (DESIGN.md section 5, C02):

 definition   per-point features of the production path (PyscfNLDFGenerator, onsite_direct interpolator, Gaussian plan,
              default resolution; EXXSphGenerator of ciderpress/pyscf/sdmx.py at its default lambda) against direct
              quadrature of the integrals written in docs/features/nldf.rst and docs/features/sdmx.rst
              (vlib/c02_ref.py: Becke-partitioned union of atom-centred grids and a dedicated log-radial x Lebedev grid
              centred on every evaluation point; two resolutions, the difference is the reference's self-error).
              Versions j (4 specs), i (6 scalar specs, 2 vector specs, all 5 dot products incl. grad rho), ij, k,
              rho_mult one / expnt, GGA / MGGA exponents, restricted and per-spin; SDMX families H^0, H^0d, H^1, H^1d of
              SDMXSettings / SDMXGSettings / SDMX1Settings / SDMXG1Settings / SDMXFullSettings.
 refinement   the same comparison at three resolutions (coarse: aux_lambd = aug_beta = 2.0, lmax 6; default 1.6 / 10;
              fine: 1.4 / 10, grid level 3, alpha_max 30000; SDMX: lambda 2.0 / 1.8 / 1.65): each error below its
              calibrated bound and err_fine <= 2 max(err_default, err_coarse) (2.5 for SDMX; refinement is not strictly
              monotone, measured worst ratios 1.35 / 1.6).
 paths        pairwise agreement of the fast / reference-grade code paths on all grid points with rho > 1e-3:
              onsite_direct vs onsite_spline vs train_gen (through ciderpress.pyscf.descriptors.get_descriptors with a
              prepared analyzer), Gaussian vs spline plan, etb vs zexp ladder; sdmx.EXXSphGenerator vs
              sdmx_slow.EXXSphGenerator vs the descriptors getter.

Statistics per (case, settings object, spin, feature): RMS-relative error over the evaluation points,
sqrt(mean(err^2) / mean(ref^2)); worst-point error max |err_i| / max(|ref_i|, 0.1 rms(ref)); and, for the definition
oracle, |median(fast / ref) - 1| (robust against a few badly resolved points, sensitive to prefactors).  Bounds are 3x the
largest value observed on the unchanged tree (vlib/c02_bounds.py, generated from calibration runs over seeds 0-4 quick and
0-1 thorough), floored at 3e-3 (RMS, median) / 3e-2 (worst point) for NLDF and 2e-4 / 1e-3 for SDMX, per oracle name = statistic x spec family x rho_mult x resolution x orbital basis (the auxiliary basis of
the fast path is derived from the orbital basis: 6-31G converges 3-5x worse than def2-SVP).  A statistic whose calibrated
bound exceeds 0.5 (version-i se_r2 and the se_rvec dot products with rho_mult = one: RMS errors up to 0.9 on this tree,
documented as numerically delicate) is recorded but not gated; those features are decided on their median statistic.
"""
import math
import os

import numpy as np

from vlib.oracles import rng_for

PROPERTY = "C02"
PROP_NO = 2
RULE = ("case kinds: nldf-def (molecule, basis, RKS | UKS, GGA | MGGA exponent level; one settings object per (version "
        "j | i | ij | k, rho_mult one | expnt) with all spec strings and random parameter triples; 100 (quick) / 400 "
        "(thorough) evaluation points drawn at random among CIDER grid points (level 1) with spin-scaled rho > 1e-3), "
        "nldf-refine (3 resolutions, evaluation points on the level-1 and level-3 grids), nldf-paths (5 alternative "
        "generator configurations + the descriptors getter on all points with rho > 1e-3), sdmx (5 settings classes, "
        "3 lambdas, fast / slow / descriptors paths; points at least 0.02 bohr from a nucleus; the H^1d family in cases "
        "of its own). Molecules H2O, NH3, HF, HOF, LiH, H2O2 (RKS) and NH2, CH3, O2 (UKS), bases def2-SVP / 6-31G, "
        "geometries jittered by 0.03 A. Densities are SCF "
        "iterates (LDA, 1-5 cycles from the minao guess, orbitals rotated by a small random orthogonal matrix), per "
        "spin channel for UKS. A sub-case = (case, settings object, spin, feature); it is non-trivial when the "
        "reference is non-zero and self-converged (two quadrature resolutions agree to 1/5 of the bound) and counted "
        "once per (case, feature key, spin, relation)")
MIN_NONTRIVIAL = {"quick": 500, "thorough": 1800}
ASSUMPTIONS = [
    "densities are molecule-like: non-converged SCF iterates with mildly rotated orbitals.  For strongly perturbed "
    "admissible densities (vlib.gen.psd_dm: random orbital rotation by 0.25 rad + fractional occupations) the production "
    "path differs from the definition by 3e-3 .. 7e-3 RMS (version j) at EVERY resolution offered by "
    "from_mol_and_settings; that class is outside the calibrated bounds and is not decided here (reported)",
    "exponents a_0(r'), a_i(r) come from the repository's get_cider_exponent(_gga) (nspin = 1 on the spin-scaled density "
    "2 n_sigma for unrestricted input; the formula itself is decided by C03 / C13)",
    "version j / k kernels not spelled out in docs/features/nldf.rst are read from the settings.py docstrings with the "
    "conventions validated in checks/c13.py: se_ar2 = a_i(r) d^2 exp(-(a_i(r) + a_0(r')) d^2), se_a2r4 = (a_i(r) d^2)^2 "
    "exp(..), se_erf_rinv = exp(..) sqrt(pi) erf(sqrt(c) d) / (2 sqrt(c) d) with c = erf_mul a_i(r) ('a' = exponent at "
    "the OUTPUT point r); rho_mult = 'expnt' multiplies n(r') by a_0(r'); version k damping exp(-3 a_0(r') / (2 a_i(r)))",
    "vector features g = int (r' - r) k(a_0(r'), |r - r'|) n(r') d^3r' (the page's a_0[n](r) in the vector formula is "
    "read as a_0[n](r'), as in the scalar formula above it and as 'only a_0[n](r') is used' states); l1_dots index -1 is "
    "grad n(r); for unrestricted input every quantity is that of the spin-scaled density 2 n_sigma",
    "SDMX: docs/features/sdmx.rst formulas times the global factor -1/4 (pinned from the uniform-gas constants in C13); "
    "per-spin features are those of the spin-scaled density matrix 2 D_sigma; SDMXFullSettings ratio != 1 features are "
    "not documented: read as -1/4 * 4 pi int dR R^p [g(R).g(R) + g(R/sqrt(ratio)).g(R sqrt(ratio))] / 2 (C13 convention, "
    "extended to the vector rho^1); H^1d is only reachable through SDMXFullSettings (ratio 1) and is compared with the "
    "documented 4 pi int dR R^(6-j) |d rho^1 / dR|^2",
    "the reference needs the evaluation point to be >= 0.02 bohr from a nucleus for SDMX (its own self-error grows to "
    "1e-4 .. 1e-3 at 0.01 bohr); NLDF points are unrestricted",
    "bounds are calibrated truncation levels of the fast algorithms on the unchanged tree (x3), not digits of agreement; "
    "a defect changing a feature by less than its bound is invisible here (typical RMS bounds: 3e-3 (floor) for rho_mult = "
    "expnt, 1e-2 for rho_mult = one with def2-SVP, 4e-2 with 6-31G, 2e-4 .. 3e-3 for SDMX); statistics whose bound would exceed "
    "0.5 are recorded, not gated (vi:se_r2, vi:dot(grad_rho,se_rvec), some worst-point statistics of se_rvec dots)",
    "not covered: lambda < 1.65 for SDMX (at lambda = 1.5 the Gaussian collocation in R is unstable: errors of O(0.1 .. "
    "1e4) at single points, recorded in the samples, not gated) and aux_lambd = aug_beta < 1.4 for NLDF (1.3 / 1.3 at "
    "level 3 returned values of 1e4 x the feature: reported, not gated); l > 2 orbital bases; PBC / plane-wave paths",
]
REQUIRED_CALLS = [
    # interpolation coefficients (Gaussian / spline plans, version k), exponent -> ladder index maps
    "libmcider.cider_coefs_gto_gq", "libmcider.cider_coefs_spline_gq", "libmcider.cider_coefs_vk1_gq",
    "libmcider.cider_ind_etb", "libmcider.cider_ind_zexp", "libmcider.cider_ind_clip",
    # grid -> auxiliary basis, convolution integrals and their application, l = 1 assembly
    "libmcider.reduce_angc_to_ylm", "libmcider.contract_rad_to_orb", "libmcider.generate_atc_integrals_all",
    "libmcider.solve_atc_coefs", "libmcider.multiply_atc_integrals", "libmcider.multiply_atc_integrals_vk",
    "libmcider.fill_l1_coeff_fwd", "libmcider.add_lp1_term_fwd", "libmcider.add_lp1_onsite_new_fwd",
    # auxiliary basis -> evaluation points (spline interpolators: onsite_direct / onsite_spline / train_gen)
    "libmcider.project_conv_to_spline", "libmcider.compute_mol_convs_single_new", "libmcider.compute_spline_maps",
    "libmcider.contract_orb_to_rad", "libmcider.reduce_ylm_to_angc",
    # SDMX fast path and the slow path's convolution exponent hook
    "libmcider.SDMXeval_rad_loop", "libmcider.SDMXcontract_ao_to_bas", "libmcider.SDMXcontract_ao_to_bas_l1",
    "libmcider.contract_shl_to_alpha_l1", "libmcider.SDMXylm_loop", "libmcider.SDMXylm_grad",
    "libmcider.set_global_convolution_exponent",
]

CALIB = bool(os.environ.get("C02_CALIB"))  # calibration runs: nothing fails, observed maxima are read from the summary

J_SPECS = ["se", "se_ar2", "se_a2r4", "se_erf_rinv"]
I0_SPECS = ["se", "se_r2", "se_apr2", "se_ap", "se_ap2r2", "se_lapl"]
I1_SPECS = ["se_grad", "se_rvec"]
ALL_DOTS = [(-1, 0), (-1, 1), (0, 0), (0, 1), (1, 1)]

RESOLUTIONS = {
    "coarse": (1, dict(aux_lambd=2.0, aug_beta=2.0, lmax=6)),
    "default": (1, dict(aux_lambd=1.6, aug_beta=1.6, lmax=10)),
    "fine": (3, dict(aux_lambd=1.4, aug_beta=1.4, lmax=10, alpha_max=30000)),
}
SDMX_LAMBDAS = {"coarse": 2.0, "default": 1.8, "fine": 1.65}
# loose monotonicity: err_fine <= FACTOR x max(err_default, err_coarse).  Measured worst err_fine / max(err_default,
# err_coarse) on the unchanged tree: 1.35 (NLDF vi:se, expnt; the fine resolution is evaluated on other points, those of
# the level-3 grid) and 1.6 (SDMX H0 j=1: lambda = 1.65 is already past the optimum of the Gaussian collocation in R for
# some systems, errors 1e-5 .. 6e-4)
REFINE_FACTOR = 2.0
SDMX_REFINE_FACTOR = 2.5

# ---------------------------------------------------------------------------------------------------------------
# calibrated bounds.  vlib/c02_bounds.py holds, per oracle name, the LARGEST value observed on the unchanged tree in the
# calibration runs (C02_CALIB=1 ./check C02 --no-evidence; seeds 0-4 quick, 0-1 thorough); the bound is SAFETY x that
# value (floored).  Regenerate the table with `python -m vlib.c02_calib quick:0 ... thorough:1` (on the unchanged tree)
# when the case generator changes.
SAFETY = 3.0
# Floors.  The truncation error of one and the same oracle varies by 10-30x between molecules / parameter draws (heavy
# tail: at a seed outside the calibration set one of ~900 oracles exceeded 9x its calibrated maximum, 2.2e-3 against
# 2.4e-4), so a bound of 3x the maximum of 12-25 samples is only meaningful above the level where that spread lives.
# The mildest realistic breaks tried (7 % prefactor, swapped ids, missing spin factor) are 0.07 .. 0.5, i.e. >= 25x these
# floors.
FLOOR = 3e-3        # RMS-relative and median statistics
FLOOR_WORST = 3e-2  # worst-point statistic
CAP = 0.5  # a statistic whose calibrated bound exceeds this cannot separate a break from truncation: recorded, not gated


def _table():
    try:
        from vlib import c02_bounds
        return c02_bounds.OBSERVED
    except ImportError:
        return {}


def _tol(name, floor=None):
    """Bound for the truncation-limited oracle `name`; None when the name was never seen in calibration."""
    if CALIB:
        return 1e9
    if floor is None:
        floor = FLOOR_WORST if "_worst[" in name else FLOOR
    tab = _table()
    if name in tab:
        return max(SAFETY * tab[name], floor)
    # same statistic / feature under the other rho_mult
    # rho_mult = 'expnt' features are weighted towards the core and converge better than 'one': an 'expnt' oracle never
    # seen in calibration may borrow the (looser) bound of its 'one' twin, never the other way round
    if "|expnt]" in name and name.replace("|expnt]", "|one]") in tab:
        return max(SAFETY * tab[name.replace("|expnt]", "|one]")], floor)
    return None


def _tcheck(rec, name, obs, mechanism, detail=None, floor=None):
    tol = _tol(name, floor)
    if tol is None:
        rec.note("uncalibrated[%s]" % name, obs)
        return None
    if tol > CAP and not CALIB:
        rec.notes["not_gated[%s]" % name] = max(float(obs), rec.notes.get("not_gated[%s]" % name, 0.0))
        return None
    return rec.check(name, obs, tol, mechanism=mechanism, detail=detail)


# ---------------------------------------------------------------------------------------------------------------
# case generation

RKS_MOLS = ["H2O", "NH3", "HF", "HOF", "LiH", "H2O2"]
UKS_MOLS = ["NH2", "CH3", "O2"]


def gen_cases(tier, seed):
    rng = rng_for(seed, PROP_NO, 0)
    q = tier == "quick"
    cases = []
    idx = [0]

    def add(cid, kind, weight, threads=2, **kw):
        idx[0] += 1
        c = {"id": cid, "kind": kind, "seed": seed, "idx": idx[0], "_threads": threads, "_weight": weight,
             "_timeout": 3600}
        c.update(kw)
        cases.append(c)

    npts = 100 if q else 400
    rpool = RKS_MOLS[:2] if q else RKS_MOLS
    upool = UKS_MOLS[:2] if q else UKS_MOLS
    cnt = {"rks": int(rng.integers(100)), "uks": int(rng.integers(100)), "basis": int(rng.integers(3))}

    def pick(spin):
        cnt[spin] += 1
        pool = rpool if spin == "rks" else upool
        return pool[cnt[spin] % len(pool)]

    def pick_basis():
        cnt["basis"] += 1
        return ["def2-svp", "6-31g", "def2-svp"][cnt["basis"] % 3]  # period 3: not locked to the spin / level loops

    # definition cases: level x spin (quick: 2 RKS + 2 UKS cases, both levels, both bases)
    reps = 1 if q else 3
    k = 0
    for rep in range(reps):
        for level in ("MGGA", "GGA"):
            for spin in ("rks", "uks"):
                mol = pick(spin)
                add("def-%02d-%s-%s-%s" % (k, mol, spin, level), "nldf-def", 6.0 if spin == "uks" else 4.0, mol=mol,
                    basis=pick_basis(), spin=spin, level=level, npts=npts, ncyc=int(rng.integers(1, 6)),
                    mults=["one", "expnt"])
                k += 1
    # refinement cases
    nref = 2 if q else 6
    for r in range(nref):
        spin = "rks" if (q or r % 3 != 2) else "uks"
        level = "MGGA" if r % 2 == 0 else "GGA"
        mol = pick(spin)
        add("refine-%02d-%s-%s-%s" % (r, mol, spin, level), "nldf-refine", 6.0 if spin == "rks" else 10.0, mol=mol,
            basis="def2-svp" if r % 2 == 0 else "6-31g", spin=spin, level=level, npts=npts if q else 200,
            ncyc=int(rng.integers(1, 6)), mult="one" if r % 2 == 0 else "expnt")
    # path comparisons
    npath = 3 if q else 8
    for r in range(npath):
        spin = "rks" if r % 3 != 1 else "uks"
        mol = pick(spin)
        add("paths-%02d-%s-%s" % (r, mol, spin), "nldf-paths", 4.0, mol=mol, basis=pick_basis(),
            spin=spin, level="MGGA" if r % 2 == 0 else "GGA", ncyc=int(rng.integers(1, 6)),
            mult="one" if r % 4 < 2 else "expnt", versions=["j", "i", "k"] if r % 2 == 0 else ["ij", "k", "j"])
    # SDMX
    nsd = 2 if q else 6
    for r in range(nsd):
        spin = "rks" if r % 2 == 0 else "uks"
        mol = pick(spin)
        add("sdmx-%02d-%s-%s" % (r, mol, spin), "sdmx", 5.0 if spin == "rks" else 8.0, mol=mol,
            basis=pick_basis(), spin=spin, npts=60 if q else 200, ncyc=int(rng.integers(1, 6)))
    # generally contracted shells (nctr > 1: cc-pVDZ; def2 / Pople sets are segmented): added after a seeded change that
    # read the (nctr, nprim) coefficient table of the fast l = 1 kernel transposed went unnoticed
    for r in range(1 if q else 3):
        spin = "rks" if r % 2 == 0 else "uks"
        mol = ["HF", "NH2", "H2O"][r % 3] if spin == "rks" or r % 3 == 1 else "NH2"
        add("sdmx-gc-%02d-%s-%s" % (r, mol, spin), "sdmx", 5.0 if spin == "rks" else 8.0, mol=mol, basis="cc-pvdz", spin=spin,
            npts=40 if q else 120, ncyc=int(rng.integers(1, 6)))
    # the H^1d family (SDMXFullSettings only) in cases of its own
    for r in range(1 if q else 3):
        spin = "rks" if r % 2 == 0 else "uks"
        mol = pick(spin)
        add("sdmx-h1d-%02d-%s-%s" % (r, mol, spin), "sdmx", 2.0 if spin == "rks" else 4.0, mol=mol, basis=pick_basis(),
            spin=spin, npts=24 if q else 60, ncyc=int(rng.integers(1, 6)), h1d=True)
    return cases


_CTX = {"basis": ""}


def _nm(name):
    """Truncation-limited NLDF oracles are calibrated per orbital basis (the auxiliary basis is derived from it)."""
    return "%s@%s" % (name, _CTX["basis"])


def run_case(case, rec):
    rng = rng_for(case["seed"], PROP_NO, case["idx"])
    _CTX["basis"] = case.get("basis", "")
    rec.tag("kind", case["kind"])
    for k in ("mol", "basis", "spin", "level"):
        if case.get(k) is not None:
            rec.tag(k, case[k])
    {"nldf-def": _run_nldf_def, "nldf-refine": _run_nldf_refine, "nldf-paths": _run_nldf_paths,
     "sdmx": _run_sdmx}[case["kind"]](case, rec, rng)


# ---------------------------------------------------------------------------------------------------------------
# shared helpers

def _system(case, rng):
    """Molecule and an admissible, molecule-like density matrix: SCF iterate number ncyc (LDA) with the orbitals
    rotated by a small random orthogonal matrix; C diag(occ) C^T per spin."""
    from pyscf import dft
    from scipy.linalg import expm

    from vlib import gen
    mol = gen.make_mol(case["mol"], case["basis"], rng, jitter=0.03)
    if case.get("idx", 0) % 2 == 1:
        # the same geometry specified in Bohr (half of the cases): code that rebuilds helper molecules from mol.atom must
        # carry the unit along - added after a seeded change that dropped unit= in the NLDF generator's helper molecule
        from pyscf import gto
        mol = gto.M(atom=[(mol.atom_symbol(i), tuple(mol.atom_coord(i))) for i in range(mol.natm)], unit="Bohr", basis=mol.basis,
                    spin=mol.spin, charge=mol.charge, verbose=0)
    uks = case["spin"] == "uks"
    mf = (dft.UKS if uks else dft.RKS)(mol)
    mf.xc = "lda,vwn"
    mf.verbose = 0
    mf.grids.level = 0
    mf.max_cycle = int(case["ncyc"])
    mf.kernel()
    mo = np.asarray(mf.mo_coeff)
    occ = np.asarray(mf.mo_occ)
    if not uks:
        mo, occ = mo[None], occ[None]
    dms = []
    for s in range(mo.shape[0]):
        nao = mo[s].shape[0]
        a = rng.normal(size=(nao, nao)) * 0.02
        c = mo[s] @ expm(a - a.T)
        dms.append((c * occ[s]) @ c.T)
    return mol, dms, (2 if uks else 1)


def _cider_grids(mol, level):
    from ciderpress.pyscf.gen_cider_grid import CiderGrids
    grids = CiderGrids(mol)
    grids.level = level
    grids.build(with_non0tab=False)
    return grids


def _rho_on(mol, coords, dm, level):
    from pyscf.dft import numint
    out = []
    for p0 in range(0, len(coords), 20000):
        ao = numint.eval_ao(mol, coords[p0:p0 + 20000], deriv=1)
        out.append(numint.eval_rho(mol, ao, dm, xctype=level, with_lapl=False))
    return np.ascontiguousarray(np.concatenate(out, axis=1))


def _params(rng, level, erf=False, lo=0.8, hi=3.0):
    a0 = float(np.exp(rng.uniform(np.log(lo), np.log(hi))))
    gm = float(rng.uniform(0.0, 0.04)) if rng.random() < 0.5 else 0.0
    p = [a0, gm]
    if level == "MGGA":
        p.append(float(rng.uniform(0.01, 0.05)) * min(1.0, a0))
    if erf:
        p.append(float(np.exp(rng.uniform(np.log(0.5), np.log(3.0)))))
    return p


def _dot_name(l1, a, b):
    names = sorted([("grad_rho" if i == -1 else l1[i]) for i in (a, b)])
    return "dot(%s,%s)" % (names[0], names[1])


def _make_set(rng, version, level, mult, theta=None):
    """Settings object, the description handed to the reference, and per-feature (bound key, label)."""
    from ciderpress.dft import settings as st
    theta = theta or _params(rng, level, lo=0.7, hi=2.0)
    desc = dict(version=version, level=level, theta=theta, rho_mult=mult)
    feats = []
    if version in ("j", "ij"):
        js = [str(s) for s in rng.permutation(J_SPECS)]
        if version == "ij":
            js = js[:2]
        jp = [_params(rng, level, erf=(s == "se_erf_rinv")) for s in js]
        if version == "j":
            # a spec may occur twice with different parameters (a second se_erf_rinv with another erf_mul): tables and
            # constants belong to the parameter set, not to the spec name.  Its parameters come from a child generator so
            # that the draws of every other feature (and with them the calibrated bounds' sample) stay what they were
            r2 = np.random.default_rng([int(1e6 * jp[0][0]), int(1e6 * theta[0]), 17])
            js.append("se_erf_rinv")
            jp.append(_params(r2, level, erf=True))
        desc.update(j_specs=js, j_params=jp)
        feats += [("vj:%s|%s" % (s, mult), "v%s:%s,%s" % (version, s, mult)) for s in js]
    if version == "k":
        kp = [_params(rng, level, lo=1.0, hi=6.0) for _ in range(3)]
        desc.update(k_params=kp)
        feats += [("vk:se|%s" % mult, "vk:se,%s" % mult) for _ in kp]
    if version in ("i", "ij"):
        l0 = [str(s) for s in rng.permutation(I0_SPECS)]
        l1 = [str(s) for s in rng.permutation(I1_SPECS)]
        dots = [ALL_DOTS[i] for i in rng.permutation(len(ALL_DOTS))]
        if version == "ij":
            l0 = l0[:3]
            dots = dots[:3]
        desc.update(l0=l0, l1=l1, dots=[list(d) for d in dots])
        feats += [("vi:%s|%s" % (s, mult), "v%s:%s,%s" % (version, s, mult)) for s in l0]
        feats += [("vi:%s|%s" % (_dot_name(l1, a, b), mult), "v%s:%s,%s" % (version, _dot_name(l1, a, b), mult)) for a, b in dots]
    if version == "j":
        sobj = st.NLDFSettingsVJ(level, theta, mult, desc["j_specs"], desc["j_params"])
    elif version == "i":
        sobj = st.NLDFSettingsVI(level, theta, mult, desc["l0"], desc["l1"], [tuple(d) for d in desc["dots"]])
    elif version == "ij":
        sobj = st.NLDFSettingsVIJ(level, theta, mult, desc["l0"], desc["l1"], [tuple(d) for d in desc["dots"]],
                                  desc["j_specs"], desc["j_params"])
    else:
        sobj = st.NLDFSettingsVK(level, theta, mult, desc["k_params"], "exponential")
    return sobj, desc, feats


def _generator(mol, grids, nspin, sobj, **kw):
    from ciderpress.pyscf.nldf_convolutions import PyscfNLDFGenerator
    g = PyscfNLDFGenerator.from_mol_and_settings(mol, grids.grids_indexer, nspin, sobj, **kw)
    g.interpolator.set_coords(grids.coords)
    return g


def _features(rec, g, rho, spin, label):
    """get_features; the documented refusal 'NLDF exponent is too large! Please increase nalpha/alpha_max' (an exponent
    above the top of the ladder at a point with rho > rhocut, typical for one-orbital spin channels in the far tail) is
    not a property violation: the settings object is skipped for this density and the event is recorded."""
    try:
        return g.get_features(rho, spin=spin)
    except RuntimeError as e:
        if "exponent is too large" not in str(e):
            raise
        rec.tag("alpha_max_exceeded", label)
        rec.notes["alpha_max_exceeded[%s]" % label] = rec.notes.get("alpha_max_exceeded[%s]" % label, 0) + 1
        return None


def _stats(a, ref):
    """RMS-relative and worst-point error of a against ref, and the scale rms(ref)."""
    a = np.asarray(a, dtype=float)
    ref = np.asarray(ref, dtype=float)
    sc = math.sqrt(float(np.mean(ref ** 2)))
    if not np.all(np.isfinite(a)) or sc == 0:
        return float("nan"), float("nan"), sc
    err = a - ref
    rms = math.sqrt(float(np.mean(err ** 2))) / sc
    worst = float(np.max(np.abs(err) / np.maximum(np.abs(ref), 0.1 * sc)))
    return rms, worst, sc


def _median_dev(a, ref):
    """|median(a / ref) - 1| over the points where |ref| >= 0.1 rms(ref): robust against a few badly resolved points,
    sensitive to prefactors."""
    a = np.asarray(a, dtype=float)
    ref = np.asarray(ref, dtype=float)
    sc = math.sqrt(float(np.mean(ref ** 2)))
    m = np.abs(ref) >= 0.1 * sc
    if not np.all(np.isfinite(a)):
        return float("nan")
    if m.sum() < 20:
        return None  # the feature lives on a handful of points (core-dominated): no meaningful median
    return abs(float(np.median(a[m] / ref[m])) - 1.0)


def _select(rng, rho_scaled, weights, n, coords=None, atom_coords=None, dmin=0.0):
    ok = (rho_scaled > 1e-3) & (weights != 0)
    if dmin > 0:
        d = np.min(np.linalg.norm(coords[:, None, :] - atom_coords[None, :, :], axis=2), axis=1)
        ok &= d >= dmin
    idx = np.where(ok)[0]
    return np.sort(rng.choice(idx, size=min(n, len(idx)), replace=False))


class _Refs:
    """Reference features (two resolutions) of a list of descriptions at the evaluation points of one spin channel."""

    def __init__(self, mol, dm_scaled, pts, descs, nhi):
        from vlib import c02_ref as R
        self.lo = R.nldf_reference(R.Reference(mol, dm_scaled, "lo"), pts, descs)
        self.hi_idx = np.arange(0, len(pts), max(1, len(pts) // max(1, nhi)))[:nhi]
        self.hi = R.nldf_reference(R.Reference(mol, dm_scaled, "hi"), pts[self.hi_idx], descs)


def _decide(rec, key, label, res, fast, lo, hi, hi_idx, spin, extra=None):
    """Definition oracle for one feature; returns (RMS-relative error, reference self-error); the error is None when
    the reference is unresolved (self-error above 1/5 of the bound), the oracle is uncalibrated, or none of its three
    statistics can be gated (calibrated bound above CAP)."""
    pre = "" if res == "default" else res + "_"
    names = {st: _nm("%sdef_%s[%s]" % (pre, st, key)) for st in ("rms", "worst", "median")}
    tols = {st: _tol(n) for st, n in names.items()}
    s_rms, s_worst, sc = _stats(lo[hi_idx], hi)
    if any(t is None for t in tols.values()):
        rec.note("uncalibrated[%s]" % names["rms"], None)
        return None, s_rms
    rms, worst, _ = _stats(fast, lo)
    obs = {"rms": rms, "worst": worst, "median": _median_dev(fast, lo)}
    gated = {st: t for st, t in tols.items() if (t <= CAP or CALIB) and obs[st] is not None}
    for st in tols:
        if st not in gated and obs[st] is not None:
            k = "not_gated[%s]" % names[st]
            rec.notes[k] = max(float(obs[st]), rec.notes.get(k, 0.0))
    if not gated:
        return None, s_rms
    need_rms = min(t for st, t in gated.items() if st != "worst") if any(st != "worst" for st in gated) else 1e9
    need_worst = gated.get("worst", 1e9)
    if not (s_rms <= need_rms / 5 and s_worst <= need_worst / 5) or sc == 0:
        rec.note("reference_unresolved[%s%s,spin%d]" % (pre, label, spin), [s_rms, s_worst])
        return None, s_rms
    rec.check("ref_self_rms[%s]" % key.split("|")[0], s_rms, need_rms / 5, mechanism="harness:c02-reference-self-convergence")
    det = {"spin": spin, "rms_rel": obs["rms"], "worst": obs["worst"], "median_ratio_minus_1": obs["median"],
           "reference_self_rms": s_rms, "resolution": res}
    if extra:
        det.update(extra)
    mech = "nldf[%s]:definition" % label  # same mechanism at every resolution; the oracle name carries the resolution
    for st, t in gated.items():
        rec.check(names[st], obs[st], t, mechanism=mech, detail=det)
    return rms, s_rms


def _tag_set(rec, sobj, desc):
    rec.tag("version", desc["version"])
    rec.tag("rho_mult", desc["rho_mult"])
    rec.tag("spec", list(sobj.feat_spec_list))
    if desc.get("dots"):
        rec.tag("l1_dots", [str(tuple(d)) for d in desc["dots"]])


# ---------------------------------------------------------------------------------------------------------------
# definition at the default resolution

def _run_nldf_def(case, rec, rng):
    mol, dms, nspin = _system(case, rng)
    level = case["level"]
    grids = _cider_grids(mol, 1)
    sets = []
    for mult in case["mults"]:
        for ver in ("j", "i", "k"):
            sets.append(_make_set(rng, ver, level, mult))
    sets.append(_make_set(rng, "ij", level, case["mults"][int(rng.integers(len(case["mults"])))]))
    descs = [x[1] for x in sets]
    rhos = [_rho_on(mol, grids.coords, d, level) for d in dms]
    sels, refs = [], []
    nhi = max(8, case["npts"] // 4)
    for s in range(nspin):
        sel = _select(rng, nspin * rhos[s][0], grids.weights, case["npts"])
        sels.append(sel)
        refs.append(_Refs(mol, nspin * dms[s], np.ascontiguousarray(grids.coords[sel]), descs, nhi))
    rec.tag("resolution", "default")
    rec.tag("plan_type", "gaussian")
    rec.tag("interpolator_type", "onsite_direct")
    sample = {"mol": case["mol"], "basis": case["basis"], "spin": case["spin"], "level": level, "npts": int(len(sels[0])),
              "features": {}}
    unresolved = total = 0
    for iset, (sobj, desc, feats) in enumerate(sets):
        _tag_set(rec, sobj, desc)
        g = _generator(mol, grids, nspin, sobj)
        for s in range(nspin):
            feat = _features(rec, g, rhos[s], s, "v%s,%s" % (desc["version"], desc["rho_mult"]))
            if feat is None:
                continue
            ok = rec.require("nldf_feature_shape", feat.shape[0] == len(feats) == sobj.nfeat,
                             mechanism="nldf[v%s]:feature-count" % desc["version"])
            if not ok:
                continue
            f = feat[:, sels[s]]
            for k, (key, label) in enumerate(feats):
                total += 1
                rms, srms = _decide(rec, key, label, "default", f[k], refs[s].lo[iset][k], refs[s].hi[iset][k],
                                    refs[s].hi_idx, s, extra={"theta": desc["theta"]})
                if rms is None:
                    unresolved += 1
                    continue
                rec.nontrivial("%s|%d|%d|s%d" % (label, iset, k, s))
                cur = sample["features"].setdefault(label, [0.0, 0.0])
                sample["features"][label] = [max(cur[0], rms), max(cur[1], srms)]
    sample["legend"] = "features: label -> [rms-relative error fast vs definition, reference self-error]"
    rec.set_sample(sample)
    if total and unresolved > total / 3:
        rec.set_inconclusive("reference quadrature unresolved for %d of %d features" % (unresolved, total))


# ---------------------------------------------------------------------------------------------------------------
# controllable truncation

def _run_nldf_refine(case, rec, rng):
    mol, dms, nspin = _system(case, rng)
    level, mult = case["level"], case["mult"]
    sets = [_make_set(rng, ver, level, mult) for ver in ("j", "i", "k")]
    descs = [x[1] for x in sets]
    gcache = {}
    nhi = max(8, case["npts"] // 4)
    for glevel in (1, 3):
        grids = _cider_grids(mol, glevel)
        rhos = [_rho_on(mol, grids.coords, d, level) for d in dms]
        sels, refs = [], []
        for s in range(nspin):
            sel = _select(rng, nspin * rhos[s][0], grids.weights, case["npts"])
            sels.append(sel)
            refs.append(_Refs(mol, nspin * dms[s], np.ascontiguousarray(grids.coords[sel]), descs, nhi))
        gcache[glevel] = (grids, rhos, sels, refs)
    errs = {}
    sample = {"mol": case["mol"], "spin": case["spin"], "level": level, "rho_mult": mult, "errors": {}}
    unresolved = total = 0
    for res, (glevel, kw) in RESOLUTIONS.items():
        rec.tag("resolution", res)
        grids, rhos, sels, refs = gcache[glevel]
        for iset, (sobj, desc, feats) in enumerate(sets):
            _tag_set(rec, sobj, desc)
            g = _generator(mol, grids, nspin, sobj, **kw)
            for s in range(nspin):
                f = _features(rec, g, rhos[s], s, "v%s,%s,%s" % (desc["version"], desc["rho_mult"], res))
                if f is None:
                    continue
                f = f[:, sels[s]]
                for k, (key, label) in enumerate(feats):
                    total += 1
                    rms, srms = _decide(rec, key, label, res, f[k], refs[s].lo[iset][k], refs[s].hi[iset][k],
                                        refs[s].hi_idx, s)
                    if rms is None:
                        unresolved += 1
                        continue
                    errs.setdefault((iset, k, s, key, label), {})[res] = (rms, srms)
    for (iset, k, s, key, label), e in errs.items():
        if len(e) < 3:
            continue
        floor = 5 * max(v[1] for v in e.values())
        ratio = e["fine"][0] / max(REFINE_FACTOR * max(e["default"][0], e["coarse"][0]), floor, 1e-300)
        rec.check("refine[%s]" % key, ratio, 1.0 if not CALIB else 1e9, mechanism="nldf[%s]:refinement" % label,
                  detail={"coarse": e["coarse"][0], "default": e["default"][0], "fine": e["fine"][0], "spin": s})
        rec.nontrivial("refine|%s|%d|%d|s%d" % (label, iset, k, s))
        sample["errors"][label] = [e["coarse"][0], e["default"][0], e["fine"][0]]
    sample["legend"] = "errors: label -> rms-relative error [coarse, default, fine]"
    rec.set_sample(sample)
    if total and unresolved > total / 3:
        rec.set_inconclusive("reference quadrature unresolved for %d of %d features" % (unresolved, total))


# ---------------------------------------------------------------------------------------------------------------
# fast vs reference-grade paths

class _PointGrids:
    """What ciderpress.pyscf.descriptors needs of a grid object (cf. _Grids in ciderpress/pyscf/tests/test_nldf.py)."""

    def __init__(self, mol, coords):
        self.mol = mol
        self.coords = coords
        self.non0tab = None
        self.cutoff = 0
        self.weights = np.ones(coords.shape[0])


def _natural_orbitals(mol, dm):
    """C, occ with dm = C diag(occ) C^T and C^T S C = 1 (natural orbitals of an arbitrary symmetric density matrix)."""
    s = mol.intor("int1e_ovlp")
    w, v = np.linalg.eigh(s)
    sh = (v * np.sqrt(w)) @ v.T
    shi = (v / np.sqrt(w)) @ v.T
    occ, u = np.linalg.eigh(sh @ dm @ sh)
    order = np.argsort(-occ)
    return shi @ u[:, order], occ[order]


def _analyzer(mol, dms, nspin, coords, with_orbitals=False):
    from ciderpress.pyscf.analyzers import RHFAnalyzer, UHFAnalyzer
    kw = {}
    if with_orbitals:
        no = [_natural_orbitals(mol, d) for d in dms]
        if nspin == 1:
            kw = dict(mo_coeff=no[0][0], mo_occ=no[0][1], mo_energy=-no[0][1])
        else:
            kw = dict(mo_coeff=np.stack([n[0] for n in no]), mo_occ=np.stack([n[1] for n in no]), mo_energy=-np.stack([n[1] for n in no]))
    ana = RHFAnalyzer(mol, dms[0], **kw) if nspin == 1 else UHFAnalyzer(mol, np.stack(dms), **kw)
    ana.grids = _PointGrids(mol, coords)
    return ana


PATH_VARIANTS = [
    ("onsite_spline", dict(interpolator_type="onsite_spline")),
    ("spline_plan", dict(plan_type="spline")),  # zexp ladder by default
    ("spline_plan_etb", dict(plan_type="spline", alpha_formula="etb")),
    ("gaussian_zexp", dict(alpha_formula="zexp")),
]
PATH_PAIRS = [
    # (name, a, b, class)
    ("onsite_direct-vs-onsite_spline", "direct", "onsite_spline", "interp"),
    ("onsite_direct-vs-train_gen", "direct", "train_gen", "interp"),
    ("onsite_spline-vs-train_gen", "onsite_spline", "train_gen", "same"),
    ("gaussian-vs-spline_plan", "direct", "spline_plan_etb", "plan"),
    ("etb-vs-zexp[gaussian]", "direct", "gaussian_zexp", "plan"),
    ("etb-vs-zexp[spline]", "spline_plan_etb", "spline_plan", "plan"),
    ("onsite_direct-vs-train_gen[inner_level_3]", "direct", "train_gen_l3", "definition"),
]


def _run_nldf_paths(case, rec, rng):
    from ciderpress.pyscf.descriptors import get_descriptors
    mol, dms, nspin = _system(case, rng)
    level, mult = case["level"], case["mult"]
    grids = _cider_grids(mol, 1)
    rhos = [_rho_on(mol, grids.coords, d, level) for d in dms]
    mask = (grids.weights != 0)
    for s in range(nspin):
        mask &= nspin * rhos[s][0] > 1e-3
    pts = np.ascontiguousarray(grids.coords[mask])
    ana = _analyzer(mol, dms, nspin, pts)
    sample = {"mol": case["mol"], "spin": case["spin"], "level": level, "rho_mult": mult, "npts": int(mask.sum()), "pairs": {}}
    for ver in case["versions"]:
        sobj, desc, feats = _make_set(rng, ver, level, mult)
        _tag_set(rec, sobj, desc)
        F = {}
        try:
            g = _generator(mol, grids, nspin, sobj)
            F["direct"] = np.stack([g.get_features(rhos[s], spin=s)[:, mask] for s in range(nspin)])
            for name, kw in PATH_VARIANTS:
                g = _generator(mol, grids, nspin, sobj, **kw)
                F[name] = np.stack([g.get_features(rhos[s], spin=s)[:, mask] for s in range(nspin)])
                rec.tag("path", name)
            # reference-grade path of the training-data generator: descriptors getter with a prepared analyzer
            F["train_gen"] = np.asarray(get_descriptors(ana, sobj, inner_grids=grids))
            F["train_gen_l3"] = np.asarray(get_descriptors(ana, sobj))
        except RuntimeError as e:
            if "exponent is too large" not in str(e):
                raise
            rec.tag("alpha_max_exceeded", "v%s,%s" % (ver, mult))  # documented refusal, see _features
            rec.notes["alpha_max_exceeded[v%s,%s]" % (ver, mult)] = 1
            continue
        rec.tag("path", ["train_gen(descriptors.get_descriptors)", "onsite_direct"])
        ok = rec.require("descriptor_shape", F["train_gen"].shape == F["direct"].shape == F["train_gen_l3"].shape,
                         mechanism="nldf:descriptors-getter:shape", detail={"got": list(F["train_gen"].shape), "want": list(F["direct"].shape)})
        if not ok:
            continue
        for pname, a, b, cls in PATH_PAIRS:
            for s in range(nspin):
                for k, (key, label) in enumerate(feats):
                    rms, worst, sc = _stats(F[b][s, k], F[a][s, k])
                    grp = key.split("|")[0] if cls != "same" else "*"
                    det = {"feature": label, "spin": s, "rms_rel": rms, "worst": worst}
                    # two independent truncations enter a plan / ladder / inner-grid comparison: floor 3 x (resp. 2 x)
                    # that of a single definition oracle (at a seed outside the calibration set etb-vs-zexp[spline]
                    # reached 6e-3 where the calibrated maximum was 1e-3)
                    fl = {"same": 1e-7, "interp": 1e-4, "plan": 3 * FLOOR, "definition": 2 * FLOOR}[cls]
                    _tcheck(rec, _nm("path_rms[%s|%s]" % (pname, grp)), rms, "nldf:%s" % pname, det, floor=fl)
                    _tcheck(rec, _nm("path_worst[%s|%s]" % (pname, grp)), worst, "nldf:%s" % pname, det, floor=10 * fl)
                    if sc > 0:
                        rec.nontrivial("%s|%s|%d|s%d" % (pname, label, k, s))
                    cur = sample["pairs"].get(pname, 0.0)
                    sample["pairs"][pname] = max(cur, rms if rms == rms else 1e99)
    sample["legend"] = "pairs: comparison -> largest rms-relative difference over the features"
    rec.set_sample(sample)


# ---------------------------------------------------------------------------------------------------------------
# SDMX

def _sdmx_sets(rng, h1d=False):
    """(class name, settings, list of (family, j, ratio)) in the feature order of the plans.  h1d: only the
    SDMXFullSettings object that carries the H^1d family (kept in cases of its own)."""
    from ciderpress.dft import settings as st
    out = []
    if h1d:
        pows = [int(p) for p in rng.permutation([0, 1, 2])]
        sd = {1.0: (pows, [1, 0, 3, 3])}
        fl = [("0", pows[0], 1.0)] + [("1", j, 1.0) for j in pows] + [("1d", j, 1.0) for j in pows]
        return [("SDMXFullSettings", st.SDMXFullSettings(sd), fl)]
    pows = [int(p) for p in rng.permutation([0, 1, 2])]
    out.append(("SDMXSettings", st.SDMXSettings(pows), [("0", j, 1.0) for j in pows]))
    pows = [int(p) for p in rng.permutation([0, 1, 2])]
    nd = int(rng.integers(2, 4))
    out.append(("SDMXGSettings", st.SDMXGSettings(pows, nd), [("0", j, 1.0) for j in pows] + [("0d", j, 1.0) for j in pows[:nd]]))
    pows = [int(p) for p in rng.permutation([0, 1, 2])]
    n1 = int(rng.integers(2, 4))
    out.append(("SDMX1Settings", st.SDMX1Settings(pows, n1), [("0", j, 1.0) for j in pows] + [("1", j, 1.0) for j in pows[:n1]]))
    pows = [int(p) for p in rng.permutation([0, 1, 2])]
    out.append(("SDMXG1Settings", st.SDMXG1Settings(pows, 3, 3),
                [("0", j, 1.0) for j in pows] + [("0d", j, 1.0) for j in pows] + [("1", j, 1.0) for j in pows]))
    pows = [int(p) for p in rng.permutation([0, 1, 2])]
    r2 = float(rng.choice([1.5, 2.0]))
    sd = {1.0: (pows, [3, 3, 3, 0]), r2: (pows, [3, 2, 2, 0])}
    fl = []
    for r in sorted(sd):
        c = sd[r][1]
        fl += [("0", j, r) for j in pows[:c[0]]] + [("0d", j, r) for j in pows[:c[1]]]
    for r in sorted(sd):
        c = sd[r][1]
        fl += [("1", j, r) for j in pows[:c[2]]] + [("1d", j, r) for j in pows[:c[3]]]
    out.append(("SDMXFullSettings", st.SDMXFullSettings(sd), fl))
    return out


def _sdmx_ref_values(profs, fam, j, ratio):
    from vlib import c02_ref as R
    base = np.array([R.sdmx_feature(p, j, fam) for p in profs])
    if ratio == 1.0:
        return base
    cross = np.array([R.sdmx_cross_feature(p, j, fam, ratio) for p in profs])
    return 0.5 * (base + cross)


def _sdmx_key(fam, j, ratio):
    return "H%s,j=%d" % (fam, j) if ratio == 1.0 else "H%s,j=%d,ratio" % (fam, j)


# the SDMX fast path is accurate to 1e-7 .. 1e-3 depending on system and row, with a spread of 100x between systems for
# the same row: bounds below these floors would only measure that spread (any realistic break is >= 1e-2)
SDMX_FLOORS = (2e-4, 1e-3)


def _sdmx_names(key, res):
    """Oracle names (rms, worst) of an SDMX row; H^1d has no truncation level of its own on this tree (it does not
    reproduce the documented integral, see the report): it is held to twice the level of the H^1 row of the same j."""
    pre = "" if res == "default" else res + "_"
    return "%ssdmx_rms[%s]" % (pre, key), "%ssdmx_worst[%s]" % (pre, key)


def _sdmx_tols(key, res):
    n_rms, n_worst = _sdmx_names(key, res)
    if key.startswith("H1d"):
        k1 = key.replace("H1d", "H1")
        t = [_tol(n, f) for n, f in zip(_sdmx_names(k1, res), SDMX_FLOORS)]
        return [None if x is None else (x if CALIB else 2 * x) for x in t]
    return [_tol(n_rms, SDMX_FLOORS[0]), _tol(n_worst, SDMX_FLOORS[1])]


def _run_sdmx(case, rec, rng):
    from ciderpress.pyscf import sdmx, sdmx_slow
    from ciderpress.pyscf.descriptors import get_descriptors
    from vlib import c02_ref as R
    mol, dms, nspin = _system(case, rng)
    grids = _cider_grids(mol, 1)
    rhos = [_rho_on(mol, grids.coords, d, "GGA") for d in dms]
    sets = _sdmx_sets(rng, h1d=bool(case.get("h1d")))
    sample = {"mol": case["mol"], "spin": case["spin"], "features": {}, "lambda_1.5_worst_point_error": {}}
    nq = case["npts"]
    nhi = max(6, nq // 4)
    unresolved = total = 0
    for s in range(nspin):
        sel = _select(rng, nspin * rhos[s][0], grids.weights, nq, coords=grids.coords, atom_coords=mol.atom_coords(), dmin=0.02)
        pts = np.ascontiguousarray(grids.coords[sel])
        dm_sc = nspin * dms[s]
        prof_lo = R.sdmx_profiles(R.Reference(mol, dm_sc, "lo"), pts, R.log_R_grid(110))
        hi_idx = np.arange(0, len(pts), max(1, len(pts) // nhi))[:nhi]
        prof_hi = R.sdmx_profiles(R.Reference(mol, dm_sc, "hi"), pts[hi_idx], R.log_R_grid(170))
        ana = _analyzer(mol, [dms[s]] if nspin == 1 else dms, nspin, pts)
        for cname, sobj, flist in sets:
            rec.tag("sdmx_class", cname)
            ref_lo = [_sdmx_ref_values(prof_lo, *f) for f in flist]
            ref_hi = [_sdmx_ref_values(prof_hi, *f) for f in flist]
            feats = {}
            for res, lam in list(SDMX_LAMBDAS.items()) + [("unstable", 1.5)]:
                g = sdmx.EXXSphGenerator.from_settings_and_mol(sobj, nspin, mol, lambd=lam)
                feats[res] = np.asarray(g.get_features(dms[s], mol, pts))
            ok = rec.require("sdmx_feature_shape", feats["default"].shape == (len(flist), len(pts)),
                             mechanism="sdmx[%s]:feature-count" % cname)
            if not ok:
                continue
            # fast vs slow vs descriptors getter (default lambda)
            gs = sdmx_slow.EXXSphGenerator.from_settings_and_mol(sobj, nspin, mol, lambd=SDMX_LAMBDAS["default"])
            fslow = np.asarray(gs.get_features(dms[s], mol, pts))
            fdesc = np.asarray(get_descriptors(ana, sobj, lambd=SDMX_LAMBDAS["default"]))[s]
            rec.tag("path", ["sdmx.EXXSphGenerator", "sdmx_slow.EXXSphGenerator", "descriptors.get_descriptors[sdmx]"])
            rowmax = np.maximum(np.max(np.abs(feats["default"]), axis=1, keepdims=True), 1e-300)
            tol_same = 1e-9 if not CALIB else 1e9
            rec.check("sdmx_fast_vs_slow", float(np.max(np.abs(fslow - feats["default"]) / rowmax)), tol_same,
                      mechanism="sdmx:fast-vs-slow", detail={"class": cname, "spin": s})
            rec.check("sdmx_fast_vs_descriptors", float(np.max(np.abs(fdesc - feats["default"]) / rowmax)), tol_same,
                      mechanism="sdmx:fast-vs-descriptors-getter", detail={"class": cname, "spin": s})
            # the other entry point of the getter: features returned TOGETHER with occupation derivatives (orbs=...), which
            # goes through the reference generator's get_feat_and_occd - added after a seeded layout slip there
            try:
                ana_o = _analyzer(mol, [dms[s]] if nspin == 1 else dms, nspin, pts, with_orbitals=True)
                okey = "O" if nspin == 1 else "O"
                res_o = get_descriptors(ana_o, sobj, orbs={okey: [0]}, lambd=SDMX_LAMBDAS["default"])
                fdesc_o = np.asarray(res_o[0])[s]
                rec.check("sdmx_descriptors_with_orbs", float(np.max(np.abs(fdesc_o - feats["default"]) / rowmax)), tol_same,
                          mechanism="sdmx:descriptors-getter[orbs]-vs-fast", detail={"class": cname, "spin": s})
            except NotImplementedError:
                rec.tag("sdmx_descriptors_with_orbs", "not implemented for %s" % cname)
            for k, (fam, j, ratio) in enumerate(flist):
                total += 1
                key = _sdmx_key(fam, j, ratio)
                label = "H%s,j=%d" % (fam, j) + ("" if ratio == 1.0 else ",ratio=%.1f" % ratio)
                rec.tag("sdmx_family", "H^" + fam)
                rec.tag("sdmx_j", j)
                rec.tag("sdmx_ratio", ratio)
                s_rms, s_worst, sc = _stats(ref_lo[k][hi_idx], ref_hi[k])
                tols = {res: _sdmx_tols(key, res) for res in ("coarse", "default", "fine")}
                if any(t is None for v in tols.values() for t in v):
                    rec.note("uncalibrated[sdmx:%s]" % key, None)
                    unresolved += 1
                    continue
                # the reference must be converged to 1e-4 and to 1/5 of the tightest bound it is used against
                if not (s_rms <= 1e-4 and s_worst <= 1e-3) or sc == 0:
                    rec.note("reference_unresolved[%s,%s,spin%d]" % (cname, label, s), [s_rms, s_worst])
                    unresolved += 1
                    continue
                rec.check("sdmx_ref_self_rms", s_rms, 1e-4, mechanism="harness:c02-sdmx-reference-self-convergence")
                e = {}
                alt = None
                if fam == "1d" and ratio == 1.0:
                    # diagnostic only: the integral 4 pi int dR R^(4-j) |d(R rho1)/dR|^2 = H^1d + (j - 4) H^1
                    alt = ref_lo[k] + (j - 4) * _sdmx_ref_values(prof_lo, "1", j, 1.0)
                for res in ("coarse", "default", "fine"):
                    rms, worst, _ = _stats(feats[res][k], ref_lo[k])
                    e[res] = rms
                    br, bw = tols[res]
                    br, bw = max(br, 5 * s_rms), max(bw, 5 * s_worst)
                    det = {"class": cname, "spin": s, "lambda": SDMX_LAMBDAS[res], "rms_rel": rms, "worst": worst,
                           "reference_self_rms": s_rms, "median_ratio": float(np.median(feats[res][k] / ref_lo[k]))}
                    if alt is not None:
                        det["rms_rel_vs_4pi_int_R^(4-j)|d(R rho1)/dR|^2"] = _stats(feats[res][k], alt)[0]
                    mech = "sdmx[%s]:definition" % label  # same mechanism at every lambda
                    n_rms, n_worst = _sdmx_names(key, res)
                    rec.check(n_rms, rms, br, mechanism=mech, detail=det)
                    rec.check(n_worst, worst, bw, mechanism=mech, detail=det)
                    if alt is not None:
                        # regression guard beside the known finding: what the code does compute (H^1d + (j-4) H^1) must stay
                        # reproduced at the truncation level, so that a further change of the H^1d rows is still reported
                        a_rms, a_worst, _ = _stats(feats[res][k], alt)
                        rec.check(n_rms.replace("sdmx_rms", "sdmx_rms_as_coded"), a_rms, br, mechanism="sdmx[%s]:value-as-coded" % label, detail=det)
                        rec.check(n_worst.replace("sdmx_worst", "sdmx_worst_as_coded"), a_worst, bw, mechanism="sdmx[%s]:value-as-coded" % label, detail=det)
                if alt is not None:
                    sample.setdefault("H1d_alternative_reading_rms", {})[label] = _stats(feats["default"][k], alt)[0]
                floor = max(10 * s_rms, 1e-4)
                ratio_ref = e["fine"] / max(SDMX_REFINE_FACTOR * max(e["default"], e["coarse"]), floor)
                rec.check("sdmx_refine[%s]" % key, ratio_ref, 1.0 if not CALIB else 1e9, mechanism="sdmx[%s]:refinement" % label,
                          detail={"coarse": e["coarse"], "default": e["default"], "fine": e["fine"], "class": cname, "spin": s})
                rec.nontrivial("%s|%s|s%d" % (cname, label, s))
                cur = sample["features"].get(label, [0.0, 0.0, 0.0, 0.0])
                sample["features"][label] = [max(cur[0], e["coarse"]), max(cur[1], e["default"]), max(cur[2], e["fine"]), max(cur[3], s_rms)]
                w15 = _stats(feats["unstable"][k], ref_lo[k])[1]
                sample["lambda_1.5_worst_point_error"][label] = max(sample["lambda_1.5_worst_point_error"].get(label, 0.0), w15 if w15 == w15 else 1e99)
    sample["legend"] = ("features: label -> rms-relative error at lambda [2.0, 1.8, 1.65] and the reference self-error; "
                        "lambda = 1.5 is recorded, not gated")
    rec.set_sample(sample)
    if total and unresolved > total / 3:
        rec.set_inconclusive("SDMX reference quadrature unresolved for %d of %d features" % (unresolved, total))
