"""C20 - the FFT plan wrapper computes the discrete Fourier transform it advertises.

There is no FFTW on this image.  libfft_wrapper.so is linked against build/fftw_ref (a naive separable DFT
that honours FFTW's documented advanced interface: rank / n / howmany / stride / dist and the nembed == NULL
padding rule for in-place r2c / c2r).  What is decided here is therefore the WRAPPER: its size / stride / dist
arithmetic, its padded copy loops and its shape checks, against FFTW's documented interface.

Oracles (DESIGN.md section 5, C20):
 double        (oracle 0) the reference double itself, driven directly through ctypes (fftw_plan_many_dft / _r2c /
               _c2r + fftw_execute) for random rank / n / howmany / stride / dist, contiguous and interleaved
               batches, gapped strides, in-place padded real layouts, versus numpy.fft; writes outside the
               advertised layout are detected with a sentinel.  Every wrapper plan is additionally *guarded*:
               the double is first run on exactly the layout FFTW's documentation prescribes for that plan; a
               guard failure makes the case inconclusive, never a violation of the repository.
 value         FFTWrapper(...).call(x) == fftn / ifftn*N / rfftn / irfftn*N over the transform axes, 1e-12
               relative; c2r inputs are Hermitian-consistent (rfftn of a real array).
 roundtrip     forward then backward (or backward then forward) through a partner plan returns N * input.
 shape         input_shape / output_shape / dtype as advertised; every wrongly shaped input raises ValueError
               (off by one per axis, batch axis at the other end, missing / extra axis, flattened, real vs
               half-complex shape, reversed dims); the wrong arrays are views of a large buffer, so an accepting
               wrapper cannot crash the worker.
 state         repeated call on one plan; all plans of a batch alive at once and called in shuffled order with
               fresh inputs; write/execute/read of two plans interleaved at the C level; earlier outputs must
               not alias plan buffers; the caller's input must not be modified.
 consumers     libmcider.run_ffts (pbc_tools.c; 3-D, batch first, c2c / r2c, in place (padded) / out of place,
               scale) driven through ctypes, and its Python callers FFTInterpolator.interpolate (odd meshes,
               where trigonometric interpolation is unambiguous) and sdmx_fft.fft_fast.
 asan          a subset of all of the above runs against the ASan+UBSan build ("_variant": "asan"); the runner
               turns sanitizer reports into violations (classify_sanitizer names the mechanism).
"""
import ctypes
import gc
import os

import numpy as np

from vlib.oracles import rng_for

PROPERTY = "C20"
PROP_NO = 20
RULE = ("plan = (dims sampled from {1..9,12,13,16,17}^{1..4} with ntransform*prod(dims) <= 20000, ntransform in "
        "{1,2,3,7}; plus plans-big cases with odd sizes from {9..41,171,255} and 33000-130000 elements; fwd/bwd x c2c/r2c x in-place/out-of-place x batch first/last cycled so that all 16 flag "
        "classes are hit equally, dims passed as list / tuple / ndarray); random normal input (Hermitian-consistent "
        "half spectrum for c2r); a plan is non-trivial when prod(dims) >= 2, the numpy reference is non-zero and "
        "the reference double passed its guard on the documented layout of that plan; distinct = distinct (flag "
        "class, dims, ntransform) per case; run_ffts / FFTInterpolator / fft_fast sub-cases and direct trials of "
        "the double count with their own (mode, mesh, batch) keys")
MIN_NONTRIVIAL = {"quick": 300, "thorough": 4500}
ASSUMPTIONS = [
    "no FFTW/MKL on this image: libfft_wrapper is linked against /verif/build/fftw_ref (naive DFT honouring FFTW's "
    "documented advanced interface incl. the nembed==NULL in-place r2c/c2r padding rule); the verdict is about the "
    "wrapper's size/stride/dist arithmetic, copy loops and shape checks, not about FFTW's numerics or planner",
    "whether real FFTW returns a NULL plan for some in-place interleaved (stride=howmany, dist=1) real layouts cannot "
    "be observed here; the double executes them with gather-all-then-scatter semantics",
    "the double is validated in the same run (direct ctypes trials and a per-plan guard); a failing double makes the "
    "case inconclusive",
    "c2r inputs are Hermitian-consistent (treatment of the non-Hermitian part is implementation-defined in FFTW)",
    "inputs are C-contiguous arrays of the advertised dtype (float64 for r2c forward, complex128 otherwise); "
    "behaviour for other dtypes / non-contiguous views is recorded as an observation tag only",
    "MKL back end, MPI plans and FFTW's own threading are out of reach; total element count per plan <= 20000 (130000 in the plans-big cases)",
    "FFTInterpolator is exercised with odd meshes only (no Nyquist ambiguity); its mesh-mapping rules for even "
    "meshes are outside C20",
]
REQUIRED_CALLS = ["libfft_wrapper.allocate_fftnd_plan", "libfft_wrapper.malloc_fft_plan_in_array",
                  "libfft_wrapper.malloc_fft_plan_out_array", "libfft_wrapper.initialize_fft_plan",
                  "libfft_wrapper.write_fft_input", "libfft_wrapper.execute_fft_plan",
                  "libfft_wrapper.read_fft_output", "libfft_wrapper.free_fft_plan", "libfft_wrapper.free_fft_array",
                  "libmcider.run_ffts"]

TOL = 1e-12          # value oracles (measured worst over 2 x 5256 thorough plans: 1.4e-15)
TOL_GUARD = 1e-13    # the double against numpy on the documented layout
TOL_REPEAT = 1e-14   # same plan, same input, again (threaded copy loops: no bitwise demand)
SIZES = [1, 2, 3, 4, 5, 6, 7, 8, 9, 12, 13, 16, 17]
NTS = [1, 2, 3, 7]
MAX_ELEMS = 20000
BIG_SIZES = [9, 11, 15, 19, 21, 23, 27, 29, 31, 37, 41, 171, 255]
BIG_MIN, BIG_MAX = 33000, 130000
PRIMES = (2, 3, 5, 7, 13, 17)
SENT = 7.25  # sentinel for memory the double must not write


# ----------------------------------------------------------------------------------------------------------------
# case generation
# ----------------------------------------------------------------------------------------------------------------
def gen_cases(tier, seed):
    q = tier == "quick"
    cases = []
    idx = [0]

    def add(kind, name, n, variant="plain", threads=2, weight=1.0, **kw):
        idx[0] += 1
        c = {"id": "%s-%03d%s" % (name, len(cases), "" if variant == "plain" else "-" + variant), "kind": kind,
             "n": n, "seed": seed, "idx": idx[0], "_threads": threads, "_weight": weight,
             "_timeout": 120 if variant == "plain" else 300}
        if variant != "plain":
            c["_variant"] = variant
        c.update(kw)
        cases.append(c)

    nplan_cases, per = (26, 12) if q else (250, 20)
    for i in range(nplan_cases):
        add("plans", "plans", per, threads=5 if i % 4 == 3 else 2, weight=per, flag0=(i * per + seed) % 16)
    nas, per_as = (3, 11) if q else (16, 16)
    for i in range(nas):
        add("plans", "plans", per_as, variant="asan", threads=5 if i % 3 == 2 else 2, weight=2.0 * per_as,
            flag0=(i * per_as + 5 + seed) % 16)
    for i in range(2 if q else 16):  # large plans (the stand-in DFT is separable, so these are cheap)
        add("plans", "plans-big", 8, threads=[5, 2, 7, 16][i % 4], weight=30, flag0=(i * 8 + seed) % 16, big=True)
    nd, per_d = (4, 40) if q else (16, 120)
    for i in range(nd):
        add("double", "double", per_d, threads=2, weight=per_d / 3.0)
    add("double", "double", 30 if q else 120, variant="asan", weight=20)
    nr, per_r = (4, 12) if q else (16, 36)
    for i in range(nr):
        add("runffts", "runffts", per_r, threads=5 if i % 2 else 2, weight=per_r)
    add("runffts", "runffts", 12 if q else 36, variant="asan", weight=24)
    npb, per_p = (2, 24) if q else (8, 48)
    for i in range(npb):
        add("pbc", "pbc", per_p, threads=5 if i % 2 else 2, weight=per_p + 20)
    add("pbc", "pbc", 12 if q else 24, variant="asan", weight=40)
    return cases


def run_case(case, rec):
    from vlib import boot
    rng = rng_for(case["seed"], PROP_NO, case["idx"])
    rec.tag("variant", boot.VARIANT)
    rec.tag("omp_threads", int(os.environ.get("OMP_NUM_THREADS", "0")))
    kind = case["kind"]
    if kind == "plans":
        _run_plans(case, rec, rng)
    elif kind == "double":
        _run_double(case, rec, rng)
    elif kind == "runffts":
        _run_runffts(case, rec, rng)
    else:
        _run_pbc(case, rec, rng)
    gc.collect()


# ----------------------------------------------------------------------------------------------------------------
# sanitizer / crash classification hooks for the runner
# ----------------------------------------------------------------------------------------------------------------
def _san_mechanism(kind, block):
    if kind == "tsan":
        return "cider_fft.c:tsan"
    if "pbc_tools.c" in block and "cider_fft.c" not in block:
        return "pbc_tools.c:%s" % kind
    if "cider_fft.c" in block or "fftw_ref.c" in block or "libfft_wrapper" in block or "libfftw3_ref" in block:
        return "cider_fft.c:%s" % kind
    return "%s:unclassified" % kind


def classify_sanitizer(blocks):
    out = []
    for kind, b in blocks[:20]:
        out.append({"id": "sanitizer", "oracle": kind, "mechanism": _san_mechanism(kind, b), "obs": 1.0, "tol": 0.5,
                    "detail": b[:2500]})
    return out


def classify_abnormal(r):
    """A worker killed by a memory-fault signal (or stopped by ASan) while running a C20 case: all inputs are
    admissible and every deliberately wrong array is backed by a large buffer, so this is the wrapper's fault."""
    if r.get("status") != "crash":
        return None
    rc = r.get("returncode")
    variant = (r.get("case") or {}).get("_variant", "plain")
    tail = (r.get("stderr_tail") or "")[-1500:]
    if variant == "asan" and rc == 97:
        return {"violation": True, "failure": {"oracle": "asan", "mechanism": "cider_fft.c:asan", "obs": 1.0,
                                               "tol": 0.5, "detail": tail}}
    if rc in (-11, -6, -7, -8):
        return {"violation": True, "failure": {"oracle": "crash", "mechanism": "cider_fft.c:crash", "obs": 1.0,
                                               "tol": 0.5, "detail": "signal %d\n%s" % (-rc, tail)}}
    return None


# ----------------------------------------------------------------------------------------------------------------
# the reference double, driven directly
# ----------------------------------------------------------------------------------------------------------------
_DL = {}


def _dl():
    if "lib" not in _DL:
        from vlib import boot
        lib = ctypes.CDLL(os.path.join(boot.LIBDIR, "libfftw3_ref.so"))
        vp, ci, ip = ctypes.c_void_p, ctypes.c_int, ctypes.POINTER(ctypes.c_int)
        lib.fftw_plan_many_dft.restype = vp
        lib.fftw_plan_many_dft.argtypes = [ci, ip, ci, vp, ip, ci, ci, vp, ip, ci, ci, ci, ctypes.c_uint]
        for f in (lib.fftw_plan_many_dft_r2c, lib.fftw_plan_many_dft_c2r):
            f.restype = vp
            f.argtypes = [ci, ip, ci, vp, ip, ci, ci, vp, ip, ci, ci, ctypes.c_uint]
        lib.fftw_execute.restype = None
        lib.fftw_execute.argtypes = [vp]
        lib.fftw_destroy_plan.restype = None
        lib.fftw_destroy_plan.argtypes = [vp]
        lib.fftw_ref_counter.restype = ctypes.c_long
        lib.fftw_ref_counter.argtypes = [ci]
        _DL["lib"] = lib
    return _DL["lib"]


def _half(n):
    return list(n[:-1]) + [n[-1] // 2 + 1]


def _embed(kind, n, inplace):
    """Physical row-major extents FFTW documents for nembed == NULL (in elements of the respective type)."""
    nc = n[-1] // 2 + 1
    ine, one = list(n), list(n)
    if kind == "r2c":
        ine[-1] = 2 * nc if inplace else n[-1]
        one[-1] = nc
    elif kind == "c2r":
        ine[-1] = nc
        one[-1] = 2 * nc if inplace else n[-1]
    return ine, one


def _offsets(logical, embed, stride, dist, howmany):
    idx = np.indices(logical).reshape(len(logical), -1)
    lin = np.ravel_multi_index(idx, embed) * stride
    return np.arange(howmany)[:, None] * dist + lin[None, :]


def _rand_input(rng, kind, n, howmany):
    """Logical input (howmany,)+shape and numpy reference output."""
    shape = (howmany,) + tuple(n)
    axes = tuple(range(1, len(n) + 1))
    N = int(np.prod(n))
    if kind == "c2c-fwd":
        a = rng.normal(size=shape) + 1j * rng.normal(size=shape)
        return a, np.fft.fftn(a, axes=axes)
    if kind == "c2c-bwd":
        a = rng.normal(size=shape) + 1j * rng.normal(size=shape)
        return a, np.fft.ifftn(a, axes=axes) * N
    if kind == "r2c":
        a = rng.normal(size=shape)
        return a, np.fft.rfftn(a, axes=axes)
    r = rng.normal(size=shape)
    a = np.fft.rfftn(r, axes=axes)
    return a, np.fft.irfftn(a, s=tuple(n), axes=axes) * N


def _double_trial(dl, kind, n, howmany, layout, inplace, rng):
    """Run the double on one layout; returns dict(err, untouched, null)."""
    n = [int(v) for v in n]
    base_kind = kind.split("-")[0]
    ine, one = _embed(base_kind, n, inplace)
    lin_shape = _half(n) if base_kind == "c2r" else n
    lout_shape = _half(n) if base_kind == "r2c" else n
    in_t = np.float64 if base_kind == "r2c" else np.complex128
    out_t = np.float64 if base_kind == "c2r" else np.complex128
    pin, pout = int(np.prod(ine)), int(np.prod(one))
    if layout == "contig":
        istride = ostride = 1
        idist, odist = pin, pout
    elif layout == "interleaved":
        istride = ostride = howmany
        idist = odist = 1
    else:  # gapped: out of place (any kind) or in-place c2c with identical in/out layout
        istride = int(rng.integers(1, 4))
        ostride = istride if inplace else int(rng.integers(1, 4))
        gi = int(rng.integers(0, 4))
        go = gi if inplace else int(rng.integers(0, 4))
        idist = istride * pin + gi
        odist = ostride * pout + go
    off_in = _offsets(lin_shape, ine, istride, idist, howmany)
    off_out = _offsets(lout_shape, one, ostride, odist, howmany)
    a, ref = _rand_input(rng, kind, n, howmany)
    slack = 4
    len_in = int(off_in.max()) + 1 + slack
    len_out = int(off_out.max()) + 1 + slack
    isz, osz = np.dtype(in_t).itemsize, np.dtype(out_t).itemsize
    if inplace:
        nbytes = max(len_in * isz, len_out * osz)
        nbytes += (-nbytes) % 16
        raw = np.full(nbytes // 8, SENT)
        inbuf = raw.view(in_t)
        outbuf = raw.view(out_t)
    else:
        inbuf = np.full(len_in * isz // 8, SENT).view(in_t)
        outbuf = np.full(len_out * osz // 8, SENT).view(out_t)
    inbuf[off_in.ravel()] = a.reshape(howmany, -1).ravel()
    narr = (ctypes.c_int * len(n))(*n)
    pi, po = ctypes.c_void_p(inbuf.ctypes.data), ctypes.c_void_p(outbuf.ctypes.data)
    if base_kind == "c2c":
        plan = dl.fftw_plan_many_dft(len(n), narr, howmany, pi, None, istride, idist, po, None, ostride, odist,
                                     -1 if kind == "c2c-fwd" else 1, 1 << 6)
    elif base_kind == "r2c":
        plan = dl.fftw_plan_many_dft_r2c(len(n), narr, howmany, pi, None, istride, idist, po, None, ostride, odist,
                                         1 << 6)
    else:
        plan = dl.fftw_plan_many_dft_c2r(len(n), narr, howmany, pi, None, istride, idist, po, None, ostride, odist,
                                         1 << 6)
    if not plan:
        return {"err": float("nan"), "untouched": True, "null": True}
    dl.fftw_execute(plan)
    dl.fftw_destroy_plan(plan)
    got = outbuf[off_out.ravel()].reshape(ref.shape)
    err = _cerr(got, ref)
    if inplace:
        # only the tail beyond both layouts is guaranteed untouched
        hi = max(int(off_in.max() + 1) * isz, int(off_out.max() + 1) * osz)
        hi += (-hi) % 8
        tail = raw[hi // 8:]
        untouched = bool(np.all(tail == SENT))
    else:
        mask = np.ones(outbuf.shape[0], dtype=bool)
        mask[off_out.ravel()] = False
        rest = outbuf[mask]
        untouched = bool(np.all(rest.view(np.float64) == SENT))
    return {"err": err, "untouched": untouched, "null": False, "istride": istride, "idist": idist,
            "ostride": ostride, "odist": odist}


def _cerr(a, b):
    """max|a-b| / max(|a|_inf, |b|_inf) for real or complex arrays; NaN if anything is non-finite."""
    a = np.asarray(a)
    b = np.asarray(b)
    if a.shape != b.shape:
        return float("nan")
    if a.size == 0:
        return 0.0
    d = np.abs(a - b)
    if not np.all(np.isfinite(d)):
        return float("nan")
    scale = max(float(np.max(np.abs(a))), float(np.max(np.abs(b))))
    return 0.0 if scale == 0 else float(np.max(d)) / scale


def _draw_dims(rng, nt, rank=None, sizes=SIZES, max_elems=MAX_ELEMS):
    rank = int(rng.integers(1, 5)) if rank is None else rank
    for _ in range(200):
        dims = [int(v) for v in rng.choice(sizes, size=rank)]
        if nt * int(np.prod(dims)) <= max_elems:
            return dims
    return [int(v) for v in rng.choice([1, 2, 3, 4, 5], size=rank)]


def _draw_big(rng, nt):
    """Plans of 33 000 - 130 000 elements with odd sizes: beyond any per-thread chunking threshold of the copy loops."""
    for _ in range(500):
        rank = int(rng.integers(2, 4))
        dims = [int(v) for v in rng.choice(BIG_SIZES, size=rank)]
        if BIG_MIN <= nt * int(np.prod(dims)) <= BIG_MAX:
            return dims
    return [37, 31, 29]


def _run_double(case, rec, rng):
    dl = _dl()
    first = None
    for t in range(case["n"]):
        kind = ["c2c-fwd", "c2c-bwd", "r2c", "c2r"][t % 4]
        howmany = int(rng.choice(NTS + [5]))
        n = _draw_dims(rng, howmany, max_elems=6000)
        inplace = bool(rng.integers(2))
        layouts = ["contig", "interleaved"]
        if not inplace or kind.startswith("c2c"):
            layouts.append("gapped")
        layout = str(rng.choice(layouts))
        r = _double_trial(dl, kind, n, howmany, layout, inplace, rng)
        cls = "%s-%s-%s" % (kind, "inplace" if inplace else "outofplace", layout)
        rec.tag("double_class", cls)
        rec.tag("rank", len(n))
        # a defect of the double is never charged to the repository
        if r["null"] or not (r["err"] <= TOL_GUARD) or not r["untouched"]:
            rec.set_inconclusive("reference double fails on its own: class %s n=%s howmany=%d err=%r untouched=%r"
                                 % (cls, n, howmany, r["err"], r["untouched"]))
            rec.note("double_failure", {"class": cls, "n": n, "howmany": howmany, "res": r})
            continue
        rec.check("double_vs_numpy", r["err"], TOL_GUARD, mechanism="fftw_ref:%s" % cls)
        if int(np.prod(n)) >= 2:
            rec.nontrivial("%s|%s|%d" % (cls, n, howmany))
        if first is None:
            first = {"oracle": "double_vs_numpy", "class": cls, "n": n, "howmany": howmany, "err": r["err"],
                     "istride": r["istride"], "idist": r["idist"], "ostride": r["ostride"], "odist": r["odist"]}
    rec.set_sample(first)


# ----------------------------------------------------------------------------------------------------------------
# FFTWrapper plans
# ----------------------------------------------------------------------------------------------------------------
def _cls(fwd, r2c, inplace, bf):
    return "%s-%s-%s-%s" % ("r2c" if r2c else "c2c", "fwd" if fwd else "bwd", "inplace" if inplace else "outofplace",
                            "batchfirst" if bf else "batchlast")


def _shapes(dims, nt, fwd, r2c, bf):
    r = list(dims)
    k = _half(dims) if r2c else list(dims)
    if bf:
        r, k = [nt] + r, [nt] + k
    else:
        r, k = r + [nt], k + [nt]
    return (tuple(r), tuple(k)) if fwd else (tuple(k), tuple(r))


def _axes(ndim, bf):
    return tuple(range(1, ndim + 1)) if bf else tuple(range(ndim))


def _make_input(rng, dims, nt, fwd, r2c, bf):
    """C-contiguous admissible input of the advertised shape/dtype and the numpy reference output."""
    rshape, _ = _shapes(dims, nt, True, r2c, bf)
    axes = _axes(len(dims), bf)
    N = int(np.prod(dims))
    if r2c:
        xr = rng.normal(size=rshape)
        if fwd:
            return np.ascontiguousarray(xr), np.fft.rfftn(xr, axes=axes)
        X = np.ascontiguousarray(np.fft.rfftn(xr, axes=axes))
        return X, np.fft.irfftn(X, s=tuple(dims), axes=axes) * N
    x = np.ascontiguousarray(rng.normal(size=rshape) + 1j * rng.normal(size=rshape))
    if fwd:
        return x, np.fft.fftn(x, axes=axes)
    return x, np.fft.ifftn(x, axes=axes) * N


def _wrong_shapes(inshape, dims, nt, r2c, bf):
    inshape = tuple(int(v) for v in inshape)
    out = []
    for a in range(len(inshape)):
        for d in (1, -1):
            s = list(inshape)
            s[a] += d
            if s[a] >= 0:
                out.append(("off-by-one", tuple(s)))
    moved = inshape[1:] + inshape[:1] if bf else inshape[-1:] + inshape[:-1]
    out.append(("batch-other-end", moved))
    out.append(("missing-batch-axis", inshape[1:] if bf else inshape[:-1]))
    out.append(("extra-axis", inshape + (1,)))
    out.append(("extra-axis", (1,) + inshape))
    out.append(("flattened", (int(np.prod(inshape)),)))
    if r2c:
        rs, ks = _shapes(dims, nt, True, True, bf)
        out.append(("other-domain-shape", ks if inshape == rs else rs))
    core = inshape[1:] if bf else inshape[:-1]
    rev = ((inshape[0],) + core[::-1]) if bf else (core[::-1] + (inshape[-1],))
    out.append(("reversed-dims", rev))
    return [(k, s) for k, s in out if s != inshape]


def _buffers_ok(rec, libfft, w, kind, dims, nt, inplace, cls):
    ine, one = _embed(kind, dims, inplace)
    need_in, need_out = int(np.prod(ine)), int(np.prod(one))
    got_in, got_out = int(libfft.get_fft_input_size(w._ptr)), int(libfft.get_fft_output_size(w._ptr))
    return rec.require("buffer_sizes", got_in >= need_in and got_out >= need_out,
                       mechanism="allocate_fftnd_plan:%s:buffer-too-small" % cls,
                       detail={"dims": dims, "ntransform": nt, "need_in_out": [need_in, need_out],
                               "got_in_out": [got_in, got_out]})


def _run_plans(case, rec, rng):
    from vlib import boot
    from ciderpress.lib.fft_plan import FFTWrapper, libfft
    dl = _dl()
    exec0 = int(dl.fftw_ref_counter(1))
    calls0 = boot.counters().get("libfft_wrapper.execute_fft_plan", 0)
    live = []
    sample = None
    guard_exec = 0
    for j in range(case["n"]):
        f = (case["flag0"] + j) % 16
        fwd, r2c, inplace, bf = bool(f & 1), bool(f & 2), bool(f & 4), bool(f & 8)
        nt = int(rng.choice(NTS))
        dims = _draw_big(rng, nt) if case.get("big") else _draw_dims(rng, nt)
        cls = _cls(fwd, r2c, inplace, bf)
        N = int(np.prod(dims))
        rec.tag("plan_class", cls)
        rec.tag("rank", len(dims))
        rec.tag("ntransform", nt)
        rec.tag("last_dim_parity", "even" if dims[-1] % 2 == 0 else "odd")
        if 1 in dims:
            rec.tag("dims_feature", "size-1-axis")
        if any(d in PRIMES for d in dims):
            rec.tag("dims_feature", "prime-axis")
        # (0) guard: the double on the layout FFTW documents for this plan
        kind = ("r2c" if fwd else "c2r") if r2c else ("c2c-fwd" if fwd else "c2c-bwd")
        g = _double_trial(dl, kind, dims, nt, "contig" if bf else "interleaved", inplace, rng)
        guard_exec += 0 if g["null"] else 1
        if g["null"] or not (g["err"] <= TOL_GUARD) or not g["untouched"]:
            rec.set_inconclusive("reference double fails its guard for class %s dims=%s nt=%d: %r" % (cls, dims, nt, g))
            rec.tag("double_guard", "failed")
            continue
        rec.tag("double_guard", "passed")
        rec.check("double_guard", g["err"], TOL_GUARD, mechanism="fftw_ref:guard:%s" % cls)
        # dims container type is an input axis of the Python layer
        ctype = ["list", "tuple", "ndarray-int64", "ndarray-int32"][int(rng.integers(4))]
        rec.tag("dims_container", ctype)
        dims_arg = {"list": list(dims), "tuple": tuple(dims), "ndarray-int64": np.asarray(dims, dtype=np.int64),
                    "ndarray-int32": np.asarray(dims, dtype=np.int32)}[ctype]
        try:
            w = FFTWrapper(dims_arg, ntransform=nt, fwd=fwd, r2c=r2c, inplace=inplace, batch_first=bf)
        except Exception as e:  # admissible configuration refused
            rec.require("plan_constructs", False, mechanism="FFTWrapper:%s:constructor-raises" % cls,
                        detail="%s: %s dims=%s nt=%d" % (type(e).__name__, e, dims, nt))
            continue
        exp_in, exp_out = _shapes(dims, nt, fwd, r2c, bf)
        ok_shapes = (tuple(int(v) for v in w.input_shape) == exp_in and tuple(int(v) for v in w.output_shape) == exp_out
                     and isinstance(w.input_shape, tuple) and isinstance(w.output_shape, tuple))
        rec.require("advertised_shapes", ok_shapes, mechanism="FFTWrapper:%s:advertised-shape" % cls,
                    detail={"dims": dims, "nt": nt, "in": str(w.input_shape), "out": str(w.output_shape)})
        if not ok_shapes:
            continue
        # internal buffer sizes (elements per transform) must cover the layout FFTW is told about; checked before
        # the first execution so that an under-allocated plan is reported by name instead of corrupting the heap
        if not _buffers_ok(rec, libfft, w, kind, dims, nt, inplace, cls):
            continue
        x, ref = _make_input(rng, dims, nt, fwd, r2c, bf)
        x0 = x.copy()
        try:
            y = w.call(x)
        except Exception as e:
            rec.require("call_accepts_advertised_input", False, mechanism="FFTWrapper:%s:call-raises" % cls,
                        detail="%s: %s dims=%s nt=%d" % (type(e).__name__, e, dims, nt))
            continue
        exp_dt = np.float64 if (r2c and not fwd) else np.complex128
        rec.require("output_shape_dtype", y.shape == exp_out and y.dtype == exp_dt,
                    mechanism="FFTWrapper:%s:output-shape" % cls, detail={"got": str(y.shape), "dtype": str(y.dtype)})
        if y.shape != exp_out:
            continue
        err = _cerr(y, ref)
        detail = {"dims": dims, "ntransform": nt, "err": err}
        if not rec.check("value[%s]" % cls, err, TOL, mechanism="FFTWrapper:%s:value" % cls, detail=detail):
            continue  # a plan that computes something else is not executed again (follow-up oracles would be noise)
        rec.require("input_unmodified", np.array_equal(x, x0), mechanism="FFTWrapper:%s:modifies-input" % cls)
        y_keep = y.copy()
        y_again = w.call(x)
        rec.check("repeat_call", _cerr(y_again, y_keep), TOL_REPEAT, mechanism="FFTWrapper:%s:repeat-call" % cls,
                  detail=detail)
        rec.require("output_not_aliased", np.array_equal(y, y_keep),
                    mechanism="FFTWrapper:%s:output-aliases-plan-buffer" % cls)
        live.append({"w": w, "x": x, "y": y_keep, "cls": cls, "dims": dims, "nt": nt, "fwd": fwd, "r2c": r2c,
                     "inplace": inplace, "bf": bf, "N": N, "ref_nonzero": bool(np.max(np.abs(ref)) > 0),
                     "err": err, "guard": g["err"]})
        if sample is None:
            sample = {"oracle": "value", "class": cls, "dims": dims, "ntransform": nt, "dims_container": ctype,
                      "input_shape": list(exp_in), "output_shape": list(exp_out), "rel_err_vs_numpy": err,
                      "double_guard_err": g["err"], "x_first": complex(x.ravel()[0]).__repr__(),
                      "y_first": complex(y.ravel()[0]).__repr__(), "ref_first": complex(ref.ravel()[0]).__repr__()}

    # (4) all plans alive: fresh inputs in shuffled order, then the original input again
    order = [int(i) for i in rng.permutation(len(live))]
    fresh = {}
    for i in order:
        p = live[i]
        x2, ref2 = _make_input(rng, p["dims"], p["nt"], p["fwd"], p["r2c"], p["bf"])
        y2 = p["w"].call(x2)
        fresh[i] = (x2, ref2)
        rec.check("interleaved_calls", _cerr(y2, ref2), TOL, mechanism="FFTWrapper:%s:interleaved-plans" % p["cls"],
                  detail={"dims": p["dims"], "ntransform": p["nt"]})
    for i in order[::-1]:
        p = live[i]
        y3 = p["w"].call(p["x"])
        rec.check("history_independence", _cerr(y3, p["y"]), TOL_REPEAT,
                  mechanism="FFTWrapper:%s:history-dependence" % p["cls"], detail={"dims": p["dims"], "ntransform": p["nt"]})
    # write / execute / read of two plans interleaved at the C level
    vp = ctypes.c_void_p
    for a, b in zip(order[0::2], order[1::2]):
        pa, pb = live[a], live[b]
        xa, ra = fresh[a]
        xb, rb = fresh[b]
        oa = np.empty(pa["w"].output_shape, dtype=ra.dtype)
        ob = np.empty(pb["w"].output_shape, dtype=rb.dtype)
        libfft.write_fft_input(pa["w"]._ptr, xa.ctypes.data_as(vp))
        libfft.write_fft_input(pb["w"]._ptr, xb.ctypes.data_as(vp))
        libfft.execute_fft_plan(pa["w"]._ptr)
        libfft.execute_fft_plan(pb["w"]._ptr)
        libfft.read_fft_output(pb["w"]._ptr, ob.ctypes.data_as(vp))
        libfft.read_fft_output(pa["w"]._ptr, oa.ctypes.data_as(vp))
        rec.check("interleaved_c_level", max(_cerr(oa, ra), _cerr(ob, rb)), TOL,
                  mechanism="cider_fft.c:shared-state-between-plans",
                  detail={"a": [pa["cls"], pa["dims"], pa["nt"]], "b": [pb["cls"], pb["dims"], pb["nt"]]})
    # (3) wrong shapes; (2) round trip; buffer sizes
    for ip, p in enumerate(live):
        w, cls, dims, nt = p["w"], p["cls"], p["dims"], p["nt"]
        in_dt = np.float64 if (p["r2c"] and p["fwd"]) else np.complex128
        back = np.zeros(4 * nt * p["N"] + 4 * sum(dims) * nt + 256, dtype=in_dt)
        for wkind, s in _wrong_shapes(w.input_shape, dims, nt, p["r2c"], p["bf"]):
            cnt = int(np.prod(s))
            if cnt > back.size:
                continue
            bad = back[:cnt].reshape(s)
            try:
                w.call(bad)
                outcome = "accepted"
            except ValueError:
                outcome = "ValueError"
            except Exception as e:
                outcome = type(e).__name__
            rec.tag("wrong_shape_kind", wkind)
            rec.require("wrong_shape_rejected", outcome != "accepted", mechanism="FFTWrapper:accepts-wrong-shape",
                        detail={"class": cls, "kind": wkind, "expected": str(w.input_shape), "given": str(s)})
            rec.require("wrong_shape_raises_ValueError", outcome in ("ValueError", "accepted"),
                        mechanism="FFTWrapper:wrong-shape-exception-type", detail={"kind": wkind, "raised": outcome})
        # round trip through a partner plan (other direction, random placement), created while all plans are alive
        inpl2 = bool(rng.integers(2))
        w2 = FFTWrapper(list(dims), ntransform=nt, fwd=not p["fwd"], r2c=p["r2c"], inplace=inpl2, batch_first=p["bf"])
        ok_pair = tuple(w2.input_shape) == tuple(w.output_shape) and tuple(w2.output_shape) == tuple(w.input_shape)
        rec.require("partner_shapes", ok_pair, mechanism="FFTWrapper:%s:partner-shapes" % cls)
        kind2 = ("c2r" if p["fwd"] else "r2c") if p["r2c"] else ("c2c-bwd" if p["fwd"] else "c2c-fwd")
        if ok_pair and _buffers_ok(rec, libfft, w2, kind2, dims, nt, inpl2,
                                   _cls(not p["fwd"], p["r2c"], inpl2, p["bf"])):
            z = w2.call(np.ascontiguousarray(p["y"]))
            rt = _cerr(z, p["N"] * p["x"])
            rec.check("roundtrip[%s]" % ("r2c" if p["r2c"] else "c2c"), rt, TOL,
                      mechanism="FFTWrapper:%s:roundtrip-via-%s-partner" % (cls, "inplace" if inpl2 else "outofplace"),
                      detail={"dims": dims, "ntransform": nt, "partner_inplace": inpl2, "err": rt})
            if sample is not None and ip == 0:
                sample["roundtrip_err"] = rt
        del w2
        if p["N"] >= 2 and p["ref_nonzero"]:
            rec.nontrivial("%s|%s|%d" % (cls, dims, nt))
    # observations (not part of the verdict): inputs outside the advertised dtype / memory order
    if live and boot.VARIANT == "plain":
        _observe_inadmissible(rec, live[0], rng)
    nexec = int(dl.fftw_ref_counter(1)) - exec0 - guard_exec
    ncalls = boot.counters().get("libfft_wrapper.execute_fft_plan", 0) - calls0
    rec.require("wrapper_reaches_double", ncalls == 0 or nexec == ncalls, mechanism="harness:double-not-reached",
                detail={"execute_fft_plan": ncalls, "fftw_execute": nexec})
    if nexec != ncalls:
        rec.set_inconclusive("fftw_execute count %d != execute_fft_plan count %d" % (nexec, ncalls))
    if sample is not None:
        sample["fftw_execute_calls_via_wrapper"] = nexec
    rec.set_sample(sample)
    for p in live:
        p["w"] = None
    del live[:]
    gc.collect()


def _observe_inadmissible(rec, p, rng):
    """What call() does with a right-shaped array of the wrong memory order / dtype (observation tags only)."""
    w, x, y = p["w"], p["x"], p["y"]
    xf = np.asfortranarray(x)
    if not xf.flags.c_contiguous:
        try:
            yf = w.call(xf)
            rec.tag("observation_fortran_ordered_input", "correct" if _cerr(yf, y) <= TOL else "silently-misread")
        except Exception as e:
            rec.tag("observation_fortran_ordered_input", "rejected:" + type(e).__name__)
    other = np.complex128 if x.dtype == np.float64 else np.float64
    back = np.zeros(2 * x.size + 64, dtype=np.complex128)
    xo = back.view(other)[:x.size].reshape(x.shape)
    xo[...] = x.real
    try:
        yo = w.call(xo)
        want = "n/a"
        if x.dtype == np.float64:
            want = "correct" if _cerr(yo, y) <= TOL else "silently-misread"
        else:
            yr = w.call(np.ascontiguousarray(x.real.astype(np.complex128)))
            want = "correct" if _cerr(yo, yr) <= TOL else "silently-misread"
        rec.tag("observation_wrong_dtype_input", want)
    except Exception as e:
        rec.tag("observation_wrong_dtype_input", "rejected:" + type(e).__name__)


# ----------------------------------------------------------------------------------------------------------------
# in-library consumer: run_ffts (pbc_tools.c)
# ----------------------------------------------------------------------------------------------------------------
def _libmcider():
    from vlib import boot
    lib = boot.load_library("libmcider")
    lib.run_ffts.restype = None
    return lib


def _call_run_ffts(lib, xin, xout, scale, mesh, fwd, nfft, parallel, r2c):
    vp = ctypes.c_void_p
    lib.run_ffts(xin.ctypes.data_as(vp), None if xout is None else xout.ctypes.data_as(vp), ctypes.c_double(scale),
                 (ctypes.c_int * 3)(*mesh), ctypes.c_int(1 if fwd else 0), ctypes.c_int(nfft),
                 ctypes.c_int(parallel), ctypes.c_int(1 if r2c else 0))


def _run_runffts(case, rec, rng):
    lib = _libmcider()
    dl = _dl()
    sample = None
    for j in range(case["n"]):
        f = j % 8
        fwd, r2c, inplace = bool(f & 1), bool(f & 2), bool(f & 4)
        nfft = int(rng.choice(NTS))
        mesh = _draw_dims(rng, nfft, rank=3)
        nx, ny, nz = mesh
        nzc = nz // 2 + 1
        N = nx * ny * nz
        scale = [1.0, 1.0 / N, float(rng.uniform(0.3, 3.0))][int(rng.integers(3))]
        parallel = int(rng.integers(2))
        mode = "%s-%s-%s" % ("r2c" if r2c else "c2c", "fwd" if fwd else "bwd", "inplace" if inplace else "outofplace")
        rec.tag("run_ffts_mode", mode)
        rec.tag("last_dim_parity", "even" if nz % 2 == 0 else "odd")
        rec.tag("run_ffts_scale", "one" if scale == 1.0 else "non-unit")
        kind = ("r2c" if fwd else "c2r") if r2c else ("c2c-fwd" if fwd else "c2c-bwd")
        g = _double_trial(dl, kind, mesh, nfft, "contig", inplace, rng)
        if g["null"] or not (g["err"] <= TOL_GUARD) or not g["untouched"]:
            rec.set_inconclusive("reference double fails its guard for run_ffts mode %s mesh=%s: %r" % (mode, mesh, g))
            continue
        x, ref = _make_input(rng, mesh, nfft, fwd, r2c, True)
        ref = ref * scale
        if not r2c:
            if inplace:
                buf = x.copy()
                _call_run_ffts(lib, buf, None, scale, mesh, fwd, nfft, parallel, 0)
                got = buf
            else:
                got = np.full(ref.shape, np.nan + 0j)
                _call_run_ffts(lib, x.copy(), got, scale, mesh, fwd, nfft, parallel, 0)
        elif inplace:
            buf = np.empty((nfft, nx, ny, nzc), dtype=np.complex128)
            rv = buf.view(np.float64).reshape(nfft, nx, ny, 2 * nzc)
            if fwd:
                rv[..., nz:] = rng.normal(size=rv[..., nz:].shape)  # padding content must be irrelevant
                rv[..., :nz] = x
                _call_run_ffts(lib, buf, None, scale, mesh, True, nfft, parallel, 1)
                got = buf
            else:
                buf[...] = x
                _call_run_ffts(lib, buf, None, scale, mesh, False, nfft, parallel, 1)
                got = rv[..., :nz]
        else:
            if fwd:
                got = np.full((nfft, nx, ny, nzc), np.nan + 0j)
                _call_run_ffts(lib, x.copy(), got, scale, mesh, True, nfft, parallel, 1)
            else:
                got = np.full((nfft, nx, ny, nz), np.nan)
                _call_run_ffts(lib, x.copy(), got, scale, mesh, False, nfft, parallel, 1)
        err = _cerr(got, ref)
        rec.check("run_ffts[%s]" % mode, err, TOL, mechanism="run_ffts:%s:value" % mode,
                  detail={"mesh": mesh, "num_fft": nfft, "scale": scale, "err": err})
        if N >= 2:
            rec.nontrivial("run_ffts|%s|%s|%d" % (mode, mesh, nfft))
        if sample is None:
            sample = {"oracle": "run_ffts", "mode": mode, "mesh": mesh, "num_fft": nfft, "scale": scale,
                      "rel_err_vs_numpy": err, "double_guard_err": g["err"]}
    rec.set_sample(sample)


# ----------------------------------------------------------------------------------------------------------------
# Python callers of run_ffts under ciderpress/pyscf/pbc
# ----------------------------------------------------------------------------------------------------------------
def _ref_interp(x, m1, m2):
    """Trigonometric interpolation (odd meshes): zero-pad / truncate the spectrum, values preserved."""
    X = np.fft.fftn(x, axes=(1, 2, 3))
    Y = np.zeros((x.shape[0],) + tuple(m2), dtype=np.complex128)
    i1, i2 = [], []
    for a in range(3):
        mm = min(m1[a], m2[a])
        k = np.arange(-(mm // 2), (mm - 1) // 2 + 1)
        i1.append(k % m1[a])
        i2.append(k % m2[a])
    Y[np.ix_(np.arange(x.shape[0]), i2[0], i2[1], i2[2])] = X[np.ix_(np.arange(x.shape[0]), i1[0], i1[1], i1[2])]
    return np.fft.ifftn(Y, axes=(1, 2, 3)) * (np.prod(m2) / np.prod(m1))


def _run_pbc(case, rec, rng):
    import warnings
    with warnings.catch_warnings():
        warnings.simplefilter("ignore")
        from ciderpress.pyscf.pbc.sdmx_fft import fft_fast
        from ciderpress.pyscf.pbc.util import FFTInterpolator
    odd = [1, 3, 5, 7, 9, 13, 17]
    sample = None
    for j in range(case["n"]):
        if j % 2 == 0:
            r2c = bool((j // 2) % 2)
            fwd = bool(rng.integers(2))
            nfft = int(rng.choice(NTS))
            nbuf = int(rng.choice([1, 2, 4]))
            m1 = _draw_dims(rng, nfft, rank=3, sizes=odd, max_elems=8000)
            m2 = _draw_dims(rng, nfft, rank=3, sizes=odd, max_elems=8000)
            ffti = FFTInterpolator(m1, m2, r2c=r2c, num_fft_buffer=nbuf)
            src, dst = (m1, m2) if fwd else (m2, m1)
            shape = (nfft,) + tuple(src)
            x = rng.normal(size=shape) if r2c else rng.normal(size=shape) + 1j * rng.normal(size=shape)
            ref = _ref_interp(x, src, dst)
            if r2c:
                ref = ref.real
            xin = np.ascontiguousarray(x.reshape(nfft, -1))
            got = ffti.interpolate(xin, fwd=fwd)
            mode = "%s-%s" % ("r2c" if r2c else "c2c", "fwd" if fwd else "bwd")
            rec.tag("FFTInterpolator_mode", mode)
            ok = got.shape == (nfft, int(np.prod(dst)))
            rec.require("FFTInterpolator_shape", ok, mechanism="FFTInterpolator:%s:shape" % mode)
            if ok:
                err = _cerr(got.reshape(ref.shape), ref)
                rec.check("FFTInterpolator[%s]" % mode, err, TOL, mechanism="FFTInterpolator:odd-mesh:%s:value" % mode,
                          detail={"mesh1": m1, "mesh2": m2, "num_fft": nfft, "num_fft_buffer": nbuf, "err": err})
                if np.prod(src) >= 2:
                    rec.nontrivial("ffti|%s|%s|%s|%d" % (mode, m1, m2, nfft))
                if sample is None:
                    sample = {"oracle": "FFTInterpolator", "mode": mode, "mesh1": m1, "mesh2": m2, "num_fft": nfft,
                              "rel_err_vs_numpy": err}
        else:
            f = (j // 2) % 6
            r2c = f >= 4
            fwd = bool(f & 1)
            inplace = True if r2c else bool(f & 2)
            nfft = int(rng.choice(NTS))
            for _ in range(100):
                mesh = _draw_dims(rng, nfft, rank=3)
                if r2c or mesh[2] >= 3:  # fft_fast infers r2c from the size; nz <= 2 is ambiguous for c2c
                    break
            nx, ny, nz = mesh
            nzc = nz // 2 + 1
            N = nx * ny * nz
            x, ref = _make_input(rng, mesh, nfft, fwd, r2c, True)
            if not fwd:
                ref = ref / N  # default scale of fft_fast for the backward direction
            mode = "%s-%s-%s" % ("r2c" if r2c else "c2c", "fwd" if fwd else "bwd", "inplace" if inplace else "outofplace")
            rec.tag("fft_fast_mode", mode)
            if not r2c:
                fin = np.ascontiguousarray(x.reshape(nfft, -1))
                got = fft_fast(fin, mesh, fwd=fwd, inplace=inplace)
                got = got.reshape(ref.shape)
            else:
                buf = np.empty((nfft, nx * ny * nzc), dtype=np.complex128)
                rv = buf.view(np.float64).reshape(nfft, nx, ny, 2 * nzc)
                if fwd:
                    rv[..., nz:] = 0.0
                    rv[..., :nz] = x
                    out = fft_fast(buf, mesh, fwd=True, inplace=True)
                    got = out.reshape(ref.shape)
                else:
                    buf[...] = x.reshape(nfft, -1)
                    fft_fast(buf, mesh, fwd=False, inplace=True)
                    got = rv[..., :nz]
            err = _cerr(got, ref)
            rec.check("fft_fast[%s]" % mode, err, TOL, mechanism="sdmx_fft.fft_fast:%s:value" % mode,
                      detail={"mesh": mesh, "num_fft": nfft, "err": err})
            if N >= 2:
                rec.nontrivial("fft_fast|%s|%s|%d" % (mode, mesh, nfft))
    rec.set_sample(sample)
