#!/usr/bin/env python3
"""Prints the markdown table of seeded changes (DESIGN.md section 7) from seeded/*/meta.json."""
import json, os, glob
ROOT = os.path.dirname(os.path.dirname(os.path.abspath(__file__)))
rows = []
for p in sorted(glob.glob(os.path.join(ROOT, "seeded", "*", "meta.json"))):
    m = json.load(open(p))
    s = (m.get("summary") or "").replace("\n", " ").replace("|", "/")
    s = s[:230] + ("…" if len(s) > 230 else "")
    need = (m.get("needs_to_manifest") or "").replace("\n", " ").replace("|", "/")
    need = need[:200] + ("…" if len(need) > 200 else "")
    mech = []
    for c, v in m.get("checks", {}).items():
        if v["exit"] == 1:
            mech.append("%s: `%s`" % (c, v["mechanisms"][0] if v["mechanisms"] else "?"))
    first = "missed at first — " + m["missed_at_first"] if m.get("missed_at_first") else "caught as built"
    rows.append("| %s | %s | %s | %s | %s |" % (m["id"], s, need, "<br>".join(mech) or "—", first))
print("| seed | change | needs to manifest | caught by (first mechanism reported) | history |")
print("|---|---|---|---|---|")
print("\n".join(rows))
