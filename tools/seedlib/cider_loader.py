"""Import this module before any other ciderpress module: it puts $CIDER_REPO first on sys.path and makes
ciderpress load its C libraries from $CIDER_LIBDIR (built by /tmp/ciderbuild/build.sh)."""
import os
import sys

import numpy

REPO = os.path.abspath(os.environ["CIDER_REPO"])
LIBDIR = os.path.abspath(os.environ["CIDER_LIBDIR"])
sys.path.insert(0, REPO)
import ciderpress  # noqa: E402
import ciderpress.lib.load as _ld  # noqa: E402

assert os.path.realpath(os.path.dirname(os.path.dirname(ciderpress.__file__))) == os.path.realpath(REPO), ciderpress.__file__


def load_library(name):
    return numpy.ctypeslib.load_library(name, LIBDIR)


_ld.load_library = load_library
import ciderpress.lib as _l  # noqa: E402

_l.load_library = load_library
