#!/usr/bin/env python3
"""Seed table for DESIGN.md section 7 from seeded/*/meta.json.
usage: tools/seed_table.py            print the table
       tools/seed_table.py --design   replace section 7 of DESIGN.md (between '## 7.' and '## 8.')"""
import glob
import json
import os
import re
import sys

ROOT = os.path.dirname(os.path.dirname(os.path.abspath(__file__)))

INTRO = """## 7. Self-validation of the monitors: seeded property-breaking changes

Two kinds of evidence that the monitors fire when they should:

**(a) Defects of the pinned tree.** Before any seeding the checks found the ~50 genuine defects of section 6 in the
unchanged code; each was repaired by a `fix:` commit and the check that found it passes on the repaired tree and fires
again when the repair is reverted (spot-checked for the `fwd` race under TSan, the batched NLDF cache, the VZMap
derivative and the POL factor 2).

**(b) Changes written by independent sub-agents.** For every property, fresh sub-agents were given *only* the text of
the property and their own scratch git worktree of /repo (nothing from /verif) and asked for a realistic change that
breaks the property, still compiles, keeps the pinned suite at 143 passed, and needs something specific to manifest;
each came back with `patch.diff` and a demonstration program.  I confirmed every one myself in a scratch worktree
(`tools/try_seed.py`: pinned suite with the patch = 143 passed, demonstration exits 0 without and 1 with the patch)
and then ran the property's quick check with `VERIF_REPO=<worktree>`; finally every kept change was replayed against /repo
itself (`tools/replay_all_seeds.sh`: `git -C /repo apply`, quick check, `git -C /repo checkout -- .`; result in
`seeded/<id>/in_repo.json` - all exit 1 with the pinned suite at 143 passed).  The kept changes are in `seeded/<id>/`
(`patch.diff`, `demo.py`, `meta.json` with trigger, magnitude, my confirmation and the check results).  None of them is
committed to /repo.  To replay one against /repo itself: `python3 tools/try_seed.py seeded/<id> <property> --in-repo`
(applies the patch with `git -C /repo apply`, runs the checks, undoes it with `git -C /repo checkout -- .`).

Eight rounds.  Every round after the first was told which files and mechanisms the earlier ones had used and asked for a
different layer, and each was pointed at another axis of variation: b - another layer; c - rarely used options, second
calls on the same object, boundary sizes; d - unusual option combinations and numerical branches; e - the kind of system
(basis contraction, units, extended or pruned systems, object histories) for the twelve properties that see molecules and
the form of the data (dtype, layout, repeated rows, block-length remainders) for the other eight; f - multi-step user
workflows on live objects (SCF loops, scanners, copies, attribute changes between calls, RKS then UKS through shared
objects) for the ten properties with stateful objects, and the less used of two equivalent entry points for the other
ten; g - size and range thresholds inside the code (block lengths, table sizes, small-case fast paths, remainders) for
ten properties with C code or blocking, and legal but unusual parameter values (extreme or integer-typed length scales,
repeated indices, negative slice starts, orders off the usual grid) for the other ten; h - combinations of parts that each work alone (several kernels in one model, several nonlocal families or parameter sets in one settings object, mixed evaluator / map classes, the offset bookkeeping between blocks).  One round-g patch (C03g) was
re-expressed by hand on top of a repository fix made after the sub-agent wrote it (same mechanism; the original is kept).
%(n)d changes are kept; %(first)d were caught by the checks as they stood, %(missed)d were missed at first and led to a
strengthened check (column *history*; entries reading "would have been missed" were strengthened on reading the seed's
trigger, before the trial, because the generator provably lacked that input).  Every miss but one was a workload gap — an
input class, order or history the generator did not produce; the exception (C04d) was an oracle weakness: finite-difference
errors were scaled by the analytic outputs only, so a derivative that was wrongly zero where the value is zero was dropped as
unresolved.  No miss was a tolerance, and every strengthened check stayed silent on the unchanged tree in the quick tier over VERIF_SEED 0-4 (rounds a-f) or 0-3 (rounds g, h); in the thorough tier one bound introduced with a strengthening (C03, fractional-Laplacian orbital path) raised a false alarm and was corrected (section 5, C03).
Miss rate by round: a 9/20, b 7/20, c 11/20, d 3/20, e 11/20, f 9/20 (7 of the first ten, 2 of the second ten), g 12/20, h 8/20 — round d (same axes as before: options, branches) hit generators
already widened by the earlier rounds, rounds e – h opened new axes (kind of system, form of the data, user workflows, equivalent entry points, size thresholds, edge parameter values, combinations of parts) and found gaps again: the honest reading
is that each new axis of variation costs a round, not that the generators are complete.  After strengthening, every kept change is caught by the quick tier of its property's check;
several are also caught by a neighbouring property's check (listed).  What this does *not* show: the seeds are the
changes these agents thought of; a change whose trigger lies outside every generator's input classes is still missed.

"""


def table():
    rows, n, missed = [], 0, 0
    for p in sorted(glob.glob(os.path.join(ROOT, "seeded", "*", "meta.json"))):
        m = json.load(open(p))
        n += 1
        s = (m.get("summary") or "").replace("\n", " ").replace("|", "/")
        s = s[:260] + ("…" if len(s) > 260 else "")
        need = (m.get("needs_to_manifest") or "").replace("\n", " ").replace("|", "/")
        need = need[:220] + ("…" if len(need) > 220 else "")
        mech = []
        for c, v in m.get("checks", {}).items():
            if v["exit"] == 1:
                mech.append("%s: `%s`" % (c, v["mechanisms"][0] if v["mechanisms"] else "?"))
        if m.get("missed_at_first"):
            missed += 1
            first = "missed at first: " + m["missed_at_first"].replace("|", "/")
        else:
            first = "caught as built"
        rows.append("| %s | %s | %s | %s | %s |" % (m["id"], s, need, "<br>".join(mech) or "—", first))
    head = ["| seed | change | needs to manifest | caught by (first mechanism reported) | history |", "|---|---|---|---|---|"]
    return "\n".join(head + rows), n, missed


if __name__ == "__main__":
    t, n, missed = table()
    if "--design" in sys.argv:
        p = os.path.join(ROOT, "DESIGN.md")
        s = open(p).read()
        new = INTRO % {"n": n, "first": n - missed, "missed": missed} + t + "\n\n\n"
        s2 = re.sub(r"## 7\. .*?(?=## 8\. )", lambda m: new, s, flags=re.S)
        open(p, "w").write(s2)
        print("DESIGN.md section 7 rewritten: %d seeds, %d missed at first" % (n, missed))
    else:
        print(t)
