"""Result recorder and oracle primitives shared by the checks."""
import hashlib
import json

import numpy as np


class Rec:
    """Collects oracle evaluations for one case."""

    def __init__(self, case):
        self.case = case
        self.oracles = {}
        self.failures = []
        self.tags = {}
        self._nontrivial = False
        self.keys = []
        self.inconclusive = None
        self.sample = None
        self.evaluations = 0
        self.notes = {}

    def check(self, name, obs, tol, mechanism=None, detail=None, count=1):
        """Record observed value against tolerance (obs <= tol holds).  NaN fails."""
        obs = float(obs)
        o = self.oracles.setdefault(name, {"obs": 0.0, "tol": float(tol), "n": 0})
        o["n"] += count
        self.evaluations += count
        bad = not (obs <= tol)
        if obs == obs:
            o["obs"] = max(o["obs"], obs)
        if bad:
            self.failures.append({"oracle": name, "mechanism": mechanism or name, "obs": obs, "tol": float(tol),
                                  "detail": detail})
        return not bad

    def require(self, name, cond, mechanism=None, detail=None):
        """Boolean oracle."""
        o = self.oracles.setdefault(name, {"obs": 0.0, "tol": 0.5, "n": 0})
        o["n"] += 1
        self.evaluations += 1
        if not cond:
            o["obs"] = 1.0
            self.failures.append({"oracle": name, "mechanism": mechanism or name, "obs": 1.0, "tol": 0.5,
                                  "detail": detail})
        return bool(cond)

    def tag(self, k, v):
        cur = self.tags.setdefault(k, [])
        for vv in (v if isinstance(v, (list, tuple, set)) else [v]):
            if vv not in cur:
                cur.append(vv)

    def nontrivial(self, key=None):
        """Mark the case (or one sub-case identified by key) as non-trivial and conclusive."""
        self._nontrivial = True
        k = self.case["id"] if key is None else "%s|%s" % (self.case["id"], key)
        if k not in self.keys:
            self.keys.append(k)

    def set_inconclusive(self, why):
        self.inconclusive = why

    def set_sample(self, s):
        self.sample = s

    def note(self, k, v):
        self.notes[k] = v

    def result(self):
        return {"id": self.case["id"], "status": "fail" if self.failures else "ok", "oracles": self.oracles,
                "failures": self.failures, "tags": self.tags, "nontrivial": self._nontrivial, "keys": self.keys,
                "inconclusive": self.inconclusive, "sample": self.sample, "evaluations": max(1, self.evaluations),
                "notes": self.notes}


def rng_for(seed, prop_no, idx):
    return np.random.default_rng(np.random.SeedSequence([int(seed), int(prop_no), int(idx)]))


def digest(*arrays):
    h = hashlib.sha1()
    for a in arrays:
        a = np.ascontiguousarray(a)
        h.update(str(a.shape).encode())
        h.update(str(a.dtype).encode())
        h.update(a.tobytes())
    return h.hexdigest()


def relerr(a, b, floor=0.0):
    """max|a-b| / max(scale, floor) with scale = max(|a|_inf, |b|_inf)."""
    a = np.asarray(a, dtype=float)
    b = np.asarray(b, dtype=float)
    if a.size == 0:
        return 0.0
    d = np.abs(a - b)
    if not np.all(np.isfinite(d)):
        return float("nan")
    scale = max(float(np.max(np.abs(a))), float(np.max(np.abs(b))), floor)
    if scale == 0:
        return 0.0
    return float(np.max(d)) / scale


def fd5(f, x0, h):
    """4th-order central difference of scalar->array function f at x0 (two evaluations pairs)."""
    return (-f(x0 + 2 * h) + 8 * f(x0 + h) - 8 * f(x0 - h) + f(x0 - 2 * h)) / (12 * h)


def richardson(f, h):
    """Richardson-extrapolated central difference of t -> f(t) at t=0; returns (estimate, self_error)."""
    d1 = (f(h) - f(-h)) / (2 * h)
    d2 = (f(h / 2) - f(-h / 2)) / h
    est = (4 * d2 - d1) / 3
    return est, np.max(np.abs(d2 - d1)) / 3.0 if np.ndim(d1) else abs(d2 - d1) / 3.0


def adjoint_mismatch(Ax, y, x, By):
    """Normalised dot-test mismatch |<Ax,y> - <x,By>| / (|Ax||y| + |x||By|)."""
    lhs = float(np.vdot(np.ravel(Ax), np.ravel(y)))
    rhs = float(np.vdot(np.ravel(x), np.ravel(By)))
    den = np.linalg.norm(Ax) * np.linalg.norm(y) + np.linalg.norm(x) * np.linalg.norm(By)
    if den == 0:
        return 0.0, lhs, rhs
    return abs(lhs - rhs) / den, lhs, rhs


def jsonable(x):
    return json.loads(json.dumps(x, default=lambda o: o.tolist() if hasattr(o, "tolist") else str(o)))
