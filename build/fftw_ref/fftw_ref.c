/* Reference double of the FFTW3 advanced interface (see fftw3.h in this directory). */
#include "fftw3.h"
#include <complex.h>
#include <math.h>
#include <stdlib.h>
#include <string.h>

#define MAXRANK 8
enum { K_C2C = 0, K_R2C = 1, K_C2R = 2 };

struct fftw_ref_plan_s {
    int kind, rank, howmany, sign;
    int n[MAXRANK];
    int ine[MAXRANK]; /* physical dims of the input, in elements of the input type */
    int one[MAXRANK];
    int istride, idist, ostride, odist;
    void *in, *out;
};

static long counters[4]; /* plans, executes, mallocs, frees */
long fftw_ref_counter(int which) { return (which >= 0 && which < 4) ? counters[which] : -1; }

int fftw_init_threads(void) { return 1; }
void fftw_plan_with_nthreads(int nthreads) { (void)nthreads; }
void fftw_cleanup_threads(void) {}

void *fftw_malloc(size_t n) {
    void *p = NULL;
    __atomic_add_fetch(&counters[2], 1, __ATOMIC_RELAXED);
    if (n == 0) n = 1;
    /* plain malloc so that ASan puts red zones directly around the block */
    p = malloc(n);
    return p;
}
void fftw_free(void *p) {
    __atomic_add_fetch(&counters[3], 1, __ATOMIC_RELAXED);
    free(p);
}

static fftw_plan mkplan(int kind, int rank, const int *n, int howmany, void *in,
                        const int *inembed, int istride, int idist, void *out,
                        const int *onembed, int ostride, int odist, int sign) {
    if (rank < 1 || rank > MAXRANK || howmany < 0) return NULL;
    for (int i = 0; i < rank; i++)
        if (n[i] <= 0) return NULL;
    fftw_plan p = (fftw_plan)calloc(1, sizeof(*p));
    p->kind = kind; p->rank = rank; p->howmany = howmany; p->sign = sign;
    p->istride = istride; p->idist = idist; p->ostride = ostride; p->odist = odist;
    p->in = in; p->out = out;
    int inplace = (in == out);
    for (int i = 0; i < rank; i++) {
        p->n[i] = n[i];
        p->ine[i] = inembed ? inembed[i] : n[i];
        p->one[i] = onembed ? onembed[i] : n[i];
    }
    int last = rank - 1;
    int nc = n[last] / 2 + 1;
    /* FFTW rule for nembed == NULL with real data: complex side has n/2+1 in the last
     * dimension; real side has n (out of place) or 2*(n/2+1) (in place). */
    if (kind == K_R2C) {
        if (!inembed) p->ine[last] = inplace ? 2 * nc : n[last];
        if (!onembed) p->one[last] = nc;
    } else if (kind == K_C2R) {
        if (!inembed) p->ine[last] = nc;
        if (!onembed) p->one[last] = inplace ? 2 * nc : n[last];
    }
    __atomic_add_fetch(&counters[0], 1, __ATOMIC_RELAXED);
    return p;
}

fftw_plan fftw_plan_many_dft(int rank, const int *n, int howmany, fftw_complex *in,
                             const int *inembed, int istride, int idist,
                             fftw_complex *out, const int *onembed, int ostride,
                             int odist, int sign, unsigned flags) {
    (void)flags;
    return mkplan(K_C2C, rank, n, howmany, in, inembed, istride, idist, out, onembed,
                  ostride, odist, sign);
}
fftw_plan fftw_plan_many_dft_r2c(int rank, const int *n, int howmany, double *in,
                                 const int *inembed, int istride, int idist,
                                 fftw_complex *out, const int *onembed, int ostride,
                                 int odist, unsigned flags) {
    (void)flags;
    return mkplan(K_R2C, rank, n, howmany, in, inembed, istride, idist, out, onembed,
                  ostride, odist, FFTW_FORWARD);
}
fftw_plan fftw_plan_many_dft_c2r(int rank, const int *n, int howmany, fftw_complex *in,
                                 const int *inembed, int istride, int idist,
                                 double *out, const int *onembed, int ostride,
                                 int odist, unsigned flags) {
    (void)flags;
    return mkplan(K_C2R, rank, n, howmany, in, inembed, istride, idist, out, onembed,
                  ostride, odist, FFTW_BACKWARD);
}

void fftw_destroy_plan(fftw_plan p) { free(p); }

/* physical offset (in elements) of logical multi-index idx within one transform */
static size_t phys_off(int rank, const int *idx, const int *embed, int stride) {
    size_t off = 0;
    for (int i = 0; i < rank; i++) off = off * (size_t)embed[i] + (size_t)idx[i];
    return off * (size_t)stride;
}

static void unravel(size_t lin, int rank, const int *dims, int *idx) {
    for (int i = rank - 1; i >= 0; i--) {
        idx[i] = (int)(lin % (size_t)dims[i]);
        lin /= (size_t)dims[i];
    }
}

/* naive DFT along axis ax of a dense row-major complex array */
static void dft_axis(double complex *a, int rank, const int *n, int ax, int sign) {
    size_t inner = 1, outer = 1;
    for (int i = ax + 1; i < rank; i++) inner *= (size_t)n[i];
    for (int i = 0; i < ax; i++) outer *= (size_t)n[i];
    int m = n[ax];
    if (m == 1) return;
    double complex *w = (double complex *)malloc(sizeof(double complex) * (size_t)m);
    double complex *tmp = (double complex *)malloc(sizeof(double complex) * (size_t)m);
    for (int k = 0; k < m; k++) {
        double ang = 2.0 * M_PI * (double)k / (double)m;
        w[k] = cos(ang) + (sign > 0 ? I : -I) * sin(ang);
    }
    for (size_t o = 0; o < outer; o++)
        for (size_t in_ = 0; in_ < inner; in_++) {
            double complex *base = a + o * (size_t)m * inner + in_;
            for (int k = 0; k < m; k++) {
                double complex s = 0;
                for (int j = 0; j < m; j++)
                    s += base[(size_t)j * inner] * w[((long)j * (long)k) % m];
                tmp[k] = s;
            }
            for (int k = 0; k < m; k++) base[(size_t)k * inner] = tmp[k];
        }
    free(w);
    free(tmp);
}

void fftw_execute(const fftw_plan p) {
    if (!p) return;
    __atomic_add_fetch(&counters[1], 1, __ATOMIC_RELAXED);
    int rank = p->rank;
    size_t N = 1;
    for (int i = 0; i < rank; i++) N *= (size_t)p->n[i];
    int hd[MAXRANK]; /* half-complex logical dims */
    for (int i = 0; i < rank; i++) hd[i] = p->n[i];
    hd[rank - 1] = p->n[rank - 1] / 2 + 1;
    size_t NH = 1;
    for (int i = 0; i < rank; i++) NH *= (size_t)hd[i];
    double complex *work = (double complex *)malloc(sizeof(double complex) * N);
    /* gather everything first: in-place transforms with interleaved batches overlap */
    double complex *all = (double complex *)malloc(sizeof(double complex) * N * (size_t)(p->howmany ? p->howmany : 1));
    int idx[MAXRANK], midx[MAXRANK];
    for (int b = 0; b < p->howmany; b++) {
        double complex *dst = all + (size_t)b * N;
        if (p->kind == K_C2C) {
            const double complex *src = (const double complex *)p->in + (size_t)b * (size_t)p->idist;
            for (size_t l = 0; l < N; l++) {
                unravel(l, rank, p->n, idx);
                dst[l] = src[phys_off(rank, idx, p->ine, p->istride)];
            }
        } else if (p->kind == K_R2C) {
            const double *src = (const double *)p->in + (size_t)b * (size_t)p->idist;
            for (size_t l = 0; l < N; l++) {
                unravel(l, rank, p->n, idx);
                dst[l] = src[phys_off(rank, idx, p->ine, p->istride)];
            }
        } else {
            const double complex *src = (const double complex *)p->in + (size_t)b * (size_t)p->idist;
            for (size_t l = 0; l < N; l++) {
                unravel(l, rank, p->n, idx);
                if (idx[rank - 1] < hd[rank - 1]) {
                    dst[l] = src[phys_off(rank, idx, p->ine, p->istride)];
                } else {
                    for (int i = 0; i < rank; i++) midx[i] = (p->n[i] - idx[i]) % p->n[i];
                    dst[l] = conj(src[phys_off(rank, midx, p->ine, p->istride)]);
                }
            }
        }
    }
    for (int b = 0; b < p->howmany; b++) {
        memcpy(work, all + (size_t)b * N, sizeof(double complex) * N);
        for (int ax = 0; ax < rank; ax++) dft_axis(work, rank, p->n, ax, p->sign);
        if (p->kind == K_C2C) {
            double complex *dst = (double complex *)p->out + (size_t)b * (size_t)p->odist;
            for (size_t l = 0; l < N; l++) {
                unravel(l, rank, p->n, idx);
                dst[phys_off(rank, idx, p->one, p->ostride)] = work[l];
            }
        } else if (p->kind == K_R2C) {
            double complex *dst = (double complex *)p->out + (size_t)b * (size_t)p->odist;
            for (size_t l = 0; l < NH; l++) {
                unravel(l, rank, hd, idx);
                size_t full = 0;
                for (int i = 0; i < rank; i++) full = full * (size_t)p->n[i] + (size_t)idx[i];
                dst[phys_off(rank, idx, p->one, p->ostride)] = work[full];
            }
        } else {
            double *dst = (double *)p->out + (size_t)b * (size_t)p->odist;
            for (size_t l = 0; l < N; l++) {
                unravel(l, rank, p->n, idx);
                dst[phys_off(rank, idx, p->one, p->ostride)] = creal(work[l]);
            }
        }
    }
    free(all);
    free(work);
}
