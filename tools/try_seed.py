#!/usr/bin/env python3
"""Try a seeded property-breaking change against the checks.

usage: tools/try_seed.py <seed dir with patch.diff [demo.py]> <property id> [more ids] [--in-repo] [--tier quick]

Default: a scratch git worktree of /repo HEAD under /var/tmp (removed afterwards, with its build output) gets the patch;
the pinned baseline suite is run there (must stay at 143 passed), the demonstration is run without and with the patch
(if present), then `VERIF_REPO=<worktree> ./check <id>` for each id.  With --in-repo the patch is applied to /repo's
working tree (`git -C /repo apply`), the checks run against /repo itself, and the patch is undone straight afterwards
(`git -C /repo checkout -- .`).  Prints one JSON summary line at the end.
"""
import json
import os
import re
import shutil
import subprocess
import sys
import tempfile

VERIF = os.path.dirname(os.path.dirname(os.path.abspath(__file__)))
PY = "/venv/bin/python"
BASE = [PY, "-m", "pytest", "-ra", "-q", "-p", "no:cacheprovider", "--timeout=900", "--continue-on-collection-errors"]


def run(cmd, **kw):
    return subprocess.run(cmd, capture_output=True, text=True, **kw)


def baseline(root):
    r = run(BASE, cwd=root)
    m = re.search(r"(\d+) passed", r.stdout)
    return int(m.group(1)) if m else -1, r.stdout.strip().splitlines()[-1] if r.stdout.strip() else r.stderr[-200:]


def demo(seed, root, libdir):
    d = os.path.join(seed, "demo.py")
    if not os.path.exists(d):
        return None
    env = dict(os.environ, CIDER_REPO=root, CIDER_LIBDIR=libdir, PYTHONPATH=os.path.join(VERIF, "tools", "seedlib"),
               OMP_NUM_THREADS=os.environ.get("OMP_NUM_THREADS", "4"))
    try:
        r = run([PY, d], cwd=root, env=env, timeout=3000)
        return r.returncode, (r.stdout + r.stderr)[-600:]
    except subprocess.TimeoutExpired:
        return "timeout", ""


def libdir_for(root):
    r = run([os.path.join(VERIF, "build", "build_libs.sh"), "plain", root])
    if r.returncode:
        raise SystemExit("build failed: " + r.stdout[-2000:] + r.stderr[-2000:])
    m = re.search(r"\((.*?)\)|in (\S+)$", r.stdout.strip().splitlines()[-1])
    path = [g for g in m.groups() if g][0]
    return os.path.realpath(path)


def main():
    args = [a for a in sys.argv[1:] if not a.startswith("--")]
    in_repo = "--in-repo" in sys.argv
    tier = "quick"
    if "--tier" in sys.argv:
        tier = sys.argv[sys.argv.index("--tier") + 1]
        args = [a for a in args if a != tier]
    seed, props = os.path.abspath(args[0]), args[1:]
    patch = os.path.join(seed, "patch.diff")
    out = {"seed": seed, "props": props, "mode": "in-repo" if in_repo else "worktree", "tier": tier}
    if in_repo:
        root = "/repo"
        st = run(["git", "-C", root, "status", "--porcelain", "--untracked-files=no"]).stdout.strip()
        if st:
            raise SystemExit("/repo working tree not clean: " + st)
        out["demo_unpatched"] = demo(seed, root, libdir_for(root))
        r = run(["git", "-C", root, "apply", patch])
        if r.returncode:
            # patch written against an earlier commit of /repo (before later fix: commits): three-way apply, which also
            # touches the index - unstaged again at once, so that `git checkout -- .` restores the tree afterwards
            r = run(["git", "-C", root, "apply", "--3way", patch])
            run(["git", "-C", root, "reset", "-q"])
        if r.returncode:
            run(["git", "-C", root, "checkout", "--", "."])
            raise SystemExit("patch does not apply to /repo: " + r.stderr)
    else:
        root = tempfile.mkdtemp(prefix="seedwt_", dir="/var/tmp")
        os.rmdir(root)
        r = run(["git", "-C", "/repo", "worktree", "add", "-q", "--detach", root, "HEAD"])
        if r.returncode:
            raise SystemExit(r.stderr)
        out["demo_unpatched"] = demo(seed, root, libdir_for(root))
        r = run(["git", "-C", root, "apply", "--3way", patch])
        if r.returncode:
            r = run(["git", "-C", root, "apply", patch])
        if r.returncode:
            run(["git", "-C", "/repo", "worktree", "remove", "--force", root])
            raise SystemExit("patch does not apply: " + r.stderr)
    try:
        out["baseline_passed"], out["baseline_line"] = baseline(root)
        out["demo_patched"] = demo(seed, root, libdir_for(root))
        out["checks"] = {}
        env = dict(os.environ, VERIF_REPO=root)
        for p in props:
            r = run([os.path.join(VERIF, "check"), p, "--tier", tier, "--no-evidence"], cwd=VERIF, env=env)
            lines = r.stdout.strip().splitlines()
            verdict = [l for l in lines if " tier=" in l]
            mechs = sorted(set(re.findall(r"mechanism=(\S+)", r.stdout)))
            out["checks"][p] = {"exit": r.returncode, "verdict": verdict[-1] if verdict else lines[-3:], "mechanisms": mechs[:12]}
    finally:
        if in_repo:
            run(["git", "-C", "/repo", "checkout", "--", "."])
        else:
            # remove the scratch build directory of this root, then the worktree
            import hashlib
            h = hashlib.sha1(os.path.realpath(root).encode()).hexdigest()[:10]
            shutil.rmtree(os.path.join(VERIF, ".build", "alt_" + h), ignore_errors=True)
            run(["git", "-C", "/repo", "worktree", "remove", "--force", root])
            run(["git", "-C", "/repo", "worktree", "prune"])
    print(json.dumps(out, indent=1))


if __name__ == "__main__":
    main()
