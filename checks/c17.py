"""C17 - analytic nuclear gradients equal the derivative of the SCF energy.

Oracle: converge the CIDER SCF tightly, take nuc_grad_method().kernel() and compare selected force components with the
central finite difference of re-converged total energies at displaced geometries (delta = 1e-3 bohr, started from the
reference density).  With grid_response = True agreement is required at the FD noise level (1e-6 Eh/bohr; floor 5e-8);
without it the bound is the fixed-grid error of the grid level (calibrated) and sum_atoms F must obey the same bound.
Unsupported combinations (SDMX models) must raise NotImplementedError.  DESIGN.md section 5, C17.
"""
import numpy as np

from vlib.oracles import rng_for

PROPERTY = "C17"
PROP_NO = 17
RULE = ("case = (feature family with gradient support, RKS|UKS, molecule, basis, density fitting on/off, grid_response "
        "on/off, plan, interpolator, grid level) with a random synthetic model of small ML amplitude; the SCF is "
        "converged to 1e-11 and 3 (thorough: all) Cartesian components are compared with central differences of "
        "re-converged energies; a component is non-trivial when the SCF converged at all three geometries, |F| > 1e-4 "
        "and the ML share of the XC energy is >= 1e-3; distinct = (case, atom, axis); negative cases: SDMX models")
MIN_NONTRIVIAL = {"quick": 15, "thorough": 150}
ASSUMPTIONS = ["finite-difference oracle of a converged SCF: defects below ~1e-6 Eh/bohr (grid response on) or below the "
               "fixed-grid error (off) are invisible",
               "pyscf's SCF, integral derivatives and density-fitting gradients are trusted"]
DELTA = 1e-3
TOL_FULL = 2e-6          # grid_response = True (measured floor 5e-8)
TOL_FIXED = {0: 5e-3, 1: 2e-3, 2: 8e-4, 3: 4e-4}   # grid_response = False: fixed-grid error bound per level (the largest
#   value observed on the unchanged tree is 8.4e-4 at level 1 (vk-gga, H2O, thorough tier seed 2); the first calibration,
#   6e-4, came from the quick tier only and raised a false alarm there)


def gen_cases(tier, seed):
    rng = rng_for(seed, PROP_NO, 0)
    base = [
        dict(family="sl-np", spin="rks", mol="H2O", df=False, gr=True),
        dict(family="sl-npa", spin="rks", mol="NH3", df=True, gr=False),
        dict(family="sl-nst", spin="uks", mol="NH2", df=False, gr=True),
        dict(family="vj-mgga", spin="rks", mol="H2O", df=False, gr=True),
        dict(family="vij-gga", spin="uks", mol="NH2", df=False, gr=True),
        dict(family="vk-mgga", spin="uks", mol="NH2", df=True, gr=False),
        dict(family="vi-mgga", spin="rks", mol="HF", df=False, gr=True),
        dict(family="vj-gga", spin="rks", mol="LiH", df=True, gr=True),
        dict(family="vk-gga", spin="rks", mol="H2O", df=False, gr=False),
        dict(family="vi-gga", spin="uks", mol="CH3", df=False, gr=True),
        dict(family="vj-expnt", spin="rks", mol="HF", df=False, gr=True),
        dict(family="sl-ns", spin="uks", mol="CH3", df=True, gr=True),
    ]
    if tier == "quick":
        sel = base[:8]
    else:
        sel = base * 3
    cases = []
    for i, b in enumerate(sel):
        c = dict(b)
        c["basis"] = str(rng.choice(["sto-3g", "6-31g"], p=[0.5, 0.5]))
        c["level"] = int(rng.choice([1, 2]))
        c["mode"] = str(rng.choice(["SEP", "NPOL"], p=[0.7, 0.3]))
        c["evaluator"] = "rbf"
        c["mix"] = "xmix"
        c["model"] = "xc1"
        if c["df"]:
            ndf = sum(1 for x in cases if x["cfg"].get("df"))
            c["df_order"] = ["after", "before"][ndf % 2]
        if c["family"].startswith("v"):
            c["plan_type"] = str(rng.choice(["gaussian", "spline"]))
            c["interp"] = str(rng.choice(["onsite_direct", "onsite_spline"]))
        ncomp = 3 if tier == "quick" else 6
        cases.append({"id": "g%02d-%s-%s-%s%s" % (i, c["family"], c["spin"], "df" if c["df"] else "nodf", "-gr" if c["gr"] else ""),
                      "kind": "grad", "cfg": c, "ncomp": ncomp, "seed": seed, "idx": 100 + i, "_threads": 4,
                      "_weight": 6.0 if c["family"].startswith("v") else 2.0, "_timeout": 3600})
    for j, (fam, spin) in enumerate([("sdmx", "rks"), ("vj+sdmx", "uks")] if tier == "quick" else
                                    [("sdmx", "rks"), ("vj+sdmx", "uks"), ("sdmxg1", "uks"), ("sdmx1", "rks")]):
        c = dict(family=fam, spin=spin, mol="H2O" if spin == "rks" else "NH2", basis="sto-3g", level=0, mode="SEP",
                 evaluator="rbf", mix="xmix", model="xc1", df=bool(j % 2), gr=bool(j % 2))
        cases.append({"id": "neg%02d-%s-%s" % (j, fam, spin), "kind": "neg", "cfg": c, "seed": seed, "idx": 900 + j,
                      "_threads": 4, "_weight": 1.0, "_timeout": 1800})
    return cases


def _scf(gen, cfg, rng_model_state, mol, model, dm0=None):
    ks = gen.build_ks(dict(cfg), None, mol=mol, model=model)[2] if False else None
    from pyscf import dft

    from ciderpress.pyscf.dft import make_cider_calc
    from ciderpress.pyscf.nldf_convolutions import PySCFNLDFInitializer
    ks = dft.RKS(mol) if cfg["spin"] == "rks" else dft.UKS(mol)
    df_after = bool(cfg["df"]) and cfg.get("df_order") == "after"
    if cfg["df"] and not df_after:
        ks = ks.density_fit()
    ks.grids.level = cfg["level"]
    nldf_init = None
    if model.settings.has_nldf:
        nk = {}
        if cfg.get("plan_type"):
            nk["plan_type"] = cfg["plan_type"]
        if cfg.get("interp"):
            nk["interpolator_type"] = cfg["interp"]
        nldf_init = PySCFNLDFInitializer(model.settings.nldf_settings, **nk)
    ks = make_cider_calc(ks, model, nldf_init=nldf_init, **gen.MIXES[cfg["mix"]])
    if df_after:
        # density fitting applied to the decorated object (the order used in examples/pyscf/simple_calc.py)
        ks = ks.density_fit()
    ks.conv_tol = 1e-11
    ks.conv_tol_grad = 1e-7
    ks.max_cycle = 80
    ks.verbose = 0
    e = ks.kernel(dm0=dm0)
    return ks, float(e), bool(ks.converged)


def run_case(case, rec):
    from pyscf import gto

    from vlib import gen
    cfg = case["cfg"]
    rng = rng_for(case["seed"], PROP_NO, case["idx"])
    for k in ("family", "spin", "mol", "basis", "level", "mode", "plan_type", "interp"):
        if cfg.get(k) is not None:
            rec.tag(k, cfg[k])
    rec.tag("density_fit", ("df-" + cfg.get("df_order", "before")) if cfg["df"] else "none")
    rec.tag("grid_response", cfg["gr"])
    mol = gen.make_mol(cfg["mol"], cfg["basis"], rng, jitter=0.04)
    mcfg = dict(cfg)
    model = gen.build_model(mcfg, rng)
    # small ML amplitude keeps the SCF well behaved (alpha scaled down)
    for kern in model.kernels:
        for fe in kern.fevals:
            if hasattr(fe, "_alpha"):
                fe._alpha *= 0.3
    ks, e0, conv = _scf(gen, cfg, None, mol, model)
    if not conv:
        rec.set_inconclusive("reference SCF did not converge")
        return
    if case["kind"] == "neg":
        try:
            g = ks.nuc_grad_method()
            g.grid_response = cfg["gr"]
            g.verbose = 0
            out = g.kernel()
            rec.require("unsupported_combination_raises", False, mechanism="gradients:sdmx-returns-numbers[%s]" % cfg["family"],
                        detail={"returned": np.asarray(out).tolist()})
        except NotImplementedError:
            rec.require("unsupported_combination_raises", True)
            rec.nontrivial("neg")
        rec.set_sample({"cfg": cfg, "negative_case": True})
        return
    g = ks.nuc_grad_method()
    g.grid_response = cfg["gr"]
    g.verbose = 0
    F = np.asarray(g.kernel())
    rec.require("forces_finite", bool(np.all(np.isfinite(F))), mechanism="gradients:nonfinite[%s]" % cfg["family"])
    rec.tag("gradient_class", type(g).__module__ + "." + type(g).__name__)
    # ML share of the XC energy
    dm = ks.make_rdm1()
    ni = ks._numint
    exc = float(gen.nr_eval(ks, dm)[1])
    xm = ni.xmix
    ni.xmix = 0.0
    exc_sl = float(gen.nr_eval(ks, dm)[1])
    ni.xmix = xm
    ml_share = abs(exc - exc_sl) / max(abs(exc), 1e-300)
    tol = TOL_FULL if cfg["gr"] else TOL_FIXED[cfg["level"]]
    fam = cfg["family"]
    mechtag = "%s,%s,%s,%s" % ("nldf" if fam.startswith("v") else "semilocal", cfg["spin"], "df" if cfg["df"] else "nodf",
                               "gridresp" if cfg["gr"] else "fixedgrid")
    rec.check("sum_of_forces[%s]" % ("grid_response" if cfg["gr"] else "fixed_grid_level%d" % cfg["level"]), float(np.max(np.abs(F.sum(axis=0)))), tol if not cfg["gr"] else 1e-8,
              mechanism="gradients:sum-of-forces[%s]" % mechtag, detail={"sumF": F.sum(axis=0).tolist()})
    # blocking independence of the XC force matrices: the same call with a memory budget that forces many small grid
    # blocks (the SCF-size grids of this check fit into one block otherwise) - added after a seeded change that reused
    # block-local AO buffers across blocks in the RKS NLDF force driver went unnoticed
    from ciderpress.pyscf import rks_grad, uks_grad
    gmod = rks_grad if cfg["spin"] == "rks" else uks_grad
    for gname in ("get_vxc", "get_vxc_full_response"):      # both drivers, whatever mode the SCF comparison below uses
        gfun = getattr(gmod, gname)
        btag = "%s,%s" % (mechtag.rsplit(",", 1)[0], "gridresp" if gname.endswith("response") else "fixedgrid")
        try:
            e_big, v_big = gfun(ni, ks.mol, ks.grids, ks.xc, dm, max_memory=2000)
            e_small, v_small = gfun(ni, ks.mol, ks.grids, ks.xc, dm, max_memory=1)
        except NotImplementedError:
            continue
        vsc = max(float(np.max(np.abs(v_big))), 1e-300)
        rec.check("force_matrix_block_independence[%s]" % gname, float(np.max(np.abs(np.asarray(v_big) - np.asarray(v_small)))) / vsc, 1e-9,
                  mechanism="gradients:blocking-dependence[%s]" % btag, detail={"ngrids": int(ks.grids.weights.size)})
        if e_big is not None and e_small is not None:
            esc = max(float(np.max(np.abs(e_big))), 1e-3 * vsc)
            rec.check("grid_response_block_independence", float(np.max(np.abs(np.asarray(e_big) - np.asarray(e_small)))) / esc, 1e-9,
                      mechanism="gradients:blocking-dependence[excsum,%s]" % btag)
    # call history: the force must not depend on what else the calculator evaluated between the SCF and the gradient
    # (ks.energy_tot(dm=...), ks.get_veff(dm=...) with another density) - added after a seeded reuse of the generator's cached
    # densities in the unrestricted no-response driver
    try:
        dm_other = ks.get_init_guess(key="minao")
        ks.get_veff(dm=dm_other)
        g2 = ks.nuc_grad_method()
        g2.grid_response = cfg["gr"]
        g2.verbose = 0
        F2 = np.asarray(g2.kernel())
        rec.check("force_independent_of_history", float(np.max(np.abs(F2 - F))), 1e-8,
                  mechanism="gradients:history-dependence[%s]" % mechtag, detail={"F_first": F.tolist(), "F_after_other_density": F2.tolist()})
    except NotImplementedError:
        pass
    coords = mol.atom_coords()
    comps = [(a, x) for a in range(mol.natm) for x in range(3)]
    order = rng.permutation(len(comps))
    picked = [comps[i] for i in order[: case["ncomp"]]]
    sample = {"cfg": cfg, "E": e0, "ml_share": ml_share, "components": []}
    for (a, x) in picked:
        es = []
        ok = True
        for sgn in (+1, -1):
            xyz = coords.copy()
            xyz[a, x] += sgn * DELTA
            m2 = gto.M(atom=[(mol.atom_symbol(i), tuple(xyz[i])) for i in range(mol.natm)], unit="Bohr", basis=mol.basis,
                       spin=mol.spin, charge=mol.charge, verbose=0)
            _, e, c = _scf(gen, cfg, None, m2, model, dm0=dm)
            ok = ok and c
            es.append(e)
        if not ok:
            rec.note("scf_not_converged_at_displacement", [a, x])
            continue
        fd = (es[0] - es[1]) / (2 * DELTA)
        err = abs(fd - F[a, x])
        rec.check("force_vs_fd[%s]" % ("grid_response" if cfg["gr"] else "fixed_grid_level%d" % cfg["level"]), err, tol,
                  mechanism="gradients:force!=dE/dR[%s]" % mechtag, detail={"atom": a, "axis": x, "analytic": float(F[a, x]), "fd": fd})
        sample["components"].append({"atom": a, "axis": x, "analytic": float(F[a, x]), "fd": fd, "abs_err": err})
        if abs(F[a, x]) > 1e-4 and ml_share >= 1e-3:
            rec.nontrivial("%d-%d" % (a, x))
    rec.set_sample(sample)
