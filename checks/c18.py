"""C18 - bookkeeping is consistent, bad input is rejected, C calls stay within buffers.

Four groups of oracles (DESIGN.md section 5, C18):

 (i)   bookkeeping   exact equalities nfeat == len(get_feat_usps()) == len(ueg_vector()) == len(get_reasonable_normalizer())
                     for every settings class and for FeatureSettings over all 2^4 family subsets x class variants;
                     get_feat_loc() == cumulative family counts, get_feat_loc_dict consistent, normalizers.nfeat == nfeat;
                     and the number of rows the generators ACTUALLY return (SemilocalPlan.get_feat, FracLaplPlan.get_feat,
                     NLDF plan eval_rho_full, the PySCF NLDF generator after a real nr_rks / nr_uks, EXXSphGenerator
                     (fast and slow), ciderpress.pyscf.descriptors.get_descriptors on RHF / UHF analyzers).
 (ii)  rejection     single-field corruptions of VALID argument sets.  An invalid configuration counts as ACCEPTED only if
                     the constructor AND the smallest standard uses that consume the field all return normally; it must
                     raise an Exception subclass (type recorded, not prescribed) and do so before any C entry point is
                     entered (boundary-monitor counters unchanged: separate oracle rejected_before_C).  Only classes of
                     invalidity named by the property statement or by the code's own docstrings / sibling validation are
                     asserted; everything else that was tried is recorded as an observation tag.
 (iii) exponent      eval_feat_exp / get_interpolation_arguments / the arguments -> coefficients pipeline of
                     NLDFGaussianPlan and NLDFSplinePlan raise RuntimeError("NLDF exponent is too large") above alpha_max
                     for i = -1 and every feature index, both nspin, both alpha formulas; just inside works; below the
                     range / raise_large_expnt_error=False / use_smooth_expnt_cutoff=True behave as the code documents
                     (spline index clipped into the table, smooth cut-off saturates at alpha_max); end to end a tiny
                     alpha_max handed through nldf_kwargs must raise instead of returning numbers.
 (iv)  memory        ("_variant": "asan", deciding oracle = no sanitizer report and no abnormal worker exit) all ACCEPTED
                     calls over many shapes: every family of gen.FAMILIES x rks/uks on 1-atom and multi-atom molecules,
                     batched density matrices, tiny max_memory, grid levels 0-1, both plan and interpolator types,
                     CiderGrids lmax in {1,2,6,10}, evaluators with sample counts {1,2,3,7,2000,2001} x control counts
                     {1,2,150,151}, SDMX generators, FFT wrapper, reduce_angc_ylm_ / convert_rad2orb_ offset/stride
                     variants (plus an intra-array window oracle ASan cannot provide), multiply_atc_integrals; the ctypes
                     boundary monitor runs in strict mode.  Potentially memory-unsafe ACCEPTANCE probes (shape mismatches
                     into C-backed evaluators / plans / convolution wrappers) run ONLY here, the dangerous ones one per case.
"""
import copy
import os
import re

import numpy as np

from vlib.oracles import rng_for

PROPERTY = "C18"
PROP_NO = 18
RULE = ("sub-case = (class, configuration) drawn from the case rng: (i) a random valid settings object per class variant / "
        "FeatureSettings family subset (all 16 subsets x class variants) / generator on pointwise data or a jittered "
        "molecule of the pool; (ii) a random VALID constructor argument set plus ONE corrupted field from the catalogue "
        "(class x kind); (iii) a plan (settings version x GGA/MGGA x gaussian/spline x nspin x etb/zexp) with a density "
        "uniformly scaled so that the largest exponent sits 0.1% above / below alpha_max; (iv) a driver configuration under "
        "ASan+UBSan.  A sub-case is non-trivial when its deciding oracle was evaluated on a non-empty object (nfeat > 0 or "
        "the empty class itself, generator returned > 0 grid points, valid base accepted before the corruption was "
        "applied, exponent actually above/below alpha_max as intended, driver reached a C entry point); distinct = "
        "distinct (case, class, kind/config, draw) key")
MIN_NONTRIVIAL = {"quick": 600, "thorough": 5000}
ASSUMPTIONS = [
    "an invalid configuration is ACCEPTED only if the constructor and the smallest standard uses consuming the field "
    "(settings: nfeat/get_feat_usps/ueg_vector/get_reasonable_normalizer[/plan.get_feat]; plans: eval_feat_exp, "
    "arguments->coefficients, get_features; evaluators: __call__; normaliser lists: get_normalized_feature_vector) all "
    "return normally; any Exception subclass counts as rejection, the type is recorded only",
    "asserted invalidity classes: unknown spec / mode / rho_mult / rho_damp / sl_level / plan_type / interpolator_type / "
    "alpha_formula / coef_order / fit_metric strings, wrong parameter counts, a0 <= 0, negative grad_mul / tau_mul, "
    "lambda <= 1, alpha0 <= 0, nalpha not a positive int, nspin not in {1,2}, bad l1_dots / ld_dots pairs, counts larger than "
    "allowed (FracLapl nk0/nk1/nd1/ndd, SDMX ndt/n1, SDMXFull), feature index out of range, too few rho rows, wrong "
    "nfeat / sample counts in arrays, normaliser/model size mismatch, lmax above the indexer's, X1ctrl / alpha sizes "
    "inconsistent with the kernel; NOT asserted (observation tags only): sign of erf_mul, range of the fractional-Laplacian "
    "power s, negative counts, arrays WIDER than needed where the callee reads a documented subset, FeatureSettings without "
    "semilocal settings and default normalizers (raises AttributeError although documented valid)",
    "NotImplementedError from get_reasonable_normalizer / ueg_vector for combinations the source marks as not implemented "
    "(version-i scaling powers outside {0,-2,2,5}, SDMX pows outside {0,1,2}) is not a count mismatch; bookkeeping draws "
    "that hit it are tagged and the remaining equalities are still checked",
    "FracLapl ld_dots are kept within min(nk1, nd1): FracLaplPlan caches nk1 (not nd1) F^d vectors, a value defect outside C18",
    "ASan sees only overruns that land in a red zone; intra-array overruns of the offset/stride wrappers are covered by an "
    "explicit untouched-window oracle; pyscf, OpenBLAS and numba code is uninstrumented",
    "the ctypes boundary monitor (strict mode) flags arrays that are neither contiguous nor a dense permutation of a "
    "contiguous block (the SDMX code deliberately passes transposed dense views) and dtypes outside float64/int32/...",
    "density matrices are positive semidefinite, pointwise densities admissible (tau >= tau_W); models with fractional-"
    "Laplacian features are driven through the feature-level API only (cannot go through the PySCF integrator)",
]
REQUIRED_CALLS = ["libmcider.evaluate_se_kernel", "libmcider.evaluate_se_kernel_spin", "libmcider.evaluate_se_kernel_antisym",
                  "libmcider.cider_coefs_gto_gq", "libmcider.cider_coefs_spline_gq", "libmcider.cider_coefs_vk1_gq",
                  "libmcider.cider_ind_clip", "libmcider.smooth_cider_exponents", "libmcider.reduce_angc_to_ylm",
                  "libmcider.reduce_ylm_to_angc", "libmcider.contract_rad_to_orb", "libmcider.contract_orb_to_rad",
                  "libmcider.multiply_atc_integrals", "libmcider.multiply_atc_integrals_vk",
                  "libmcider.compute_mol_convs_single_new", "libmcider.compute_pot_convs_single_new",
                  "libmcider.SDMXcontract_ao_to_bas", "libmcider.contract_shl_to_alpha_l1",
                  "libfft_wrapper.execute_fft_plan"]

J_SPECS = ["se", "se_ar2", "se_a2r4", "se_erf_rinv"]
I0_SPECS = ["se", "se_r2", "se_apr2", "se_ap", "se_ap2r2", "se_lapl"]
I1_SPECS = ["se_grad", "se_rvec"]
USP = {"se": 0, "se_r2": -2, "se_ar2": 0, "se_a2r4": 0, "se_erf_rinv": 0, "se_ap": 2, "se_apr2": 0, "se_ap2r2": 2,
       "se_lapl": 2, "se_grad": 1, "se_rvec": -1, "grad_rho": 4}  # only used to pick combinations with implemented normalisers
BOOK_CLASSES = ["sl:nst", "sl:npa", "sl:ns", "sl:np", "vi", "vj", "vij", "vk", "fl", "sadm:smooth", "sadm:exact", "sdmx",
                "sdmxg", "sdmx1", "sdmxg1", "sdmxfull", "empty"]
SDMX_KINDS = ["sadm", "sdmx", "sdmxg", "sdmx1", "sdmxg1", "sdmxfull"]
FAMILIES = ["sl-nst", "sl-npa", "sl-ns", "sl-np", "vj-mgga", "vj-gga", "vi-mgga", "vi-gga", "vij-mgga", "vij-gga", "vk-mgga",
            "vk-gga", "sdmx", "sdmxg", "sdmx1", "sdmxg1", "vj+sdmx", "vj-nst", "vj-expnt"]
NLDF_FAMS = {"vj-mgga", "vj-gga", "vi-mgga", "vi-gga", "vij-mgga", "vij-gga", "vk-mgga", "vk-gga", "vj+sdmx", "vj-nst", "vj-expnt"}
ONE_ATOM = {"rks": ["He"], "uks": ["Li", "H", "He"]}
MULTI_ATOM = {"rks": ["HF", "LiH", "H2O", "H2"], "uks": ["NH2", "OH-", "CH3", "O2"]}
MULTI_ATOM_QUICK = {"rks": ["HF", "LiH", "H2O", "H2"], "uks": ["NH2", "OH-", "LiH", "HF"]}
EVAL_CLASSES = ["RBFEvaluator", "AntisymRBFEvaluator", "SpinRBFEvaluator"]
UNSAFE_KINDS = ["X1ctrl-wider-than-kernel", "X1ctrl-narrower-than-kernel", "alpha-shorter-than-X1ctrl",
                "alpha-longer-than-X1ctrl"]


# ----------------------------------------------------------------------------------------------------------------
# case generation (runner side: no ciderpress import)
# ----------------------------------------------------------------------------------------------------------------
def gen_cases(tier, seed):
    q = tier == "quick"
    m = 1 if q else 10
    rng = rng_for(seed, PROP_NO, 0)
    cases = []
    idx = [0]

    def add(kind, name, variant="plain", threads=2, weight=1.0, timeout=900, **kw):
        idx[0] += 1
        c = {"id": "%s-%03d%s" % (name, len(cases), "" if variant == "plain" else "-" + variant), "kind": kind, "seed": seed,
             "idx": idx[0], "_threads": threads, "_weight": float(weight), "_timeout": timeout}
        if variant != "plain":
            c["_variant"] = variant
        if threads > 1:
            # idle OpenMP threads sleep instead of spinning: the drivers make thousands of tiny parallel regions and the
            # checks of several properties may share the machine (wall time is never a verdict, this only bounds it)
            c["_env"] = {"OMP_WAIT_POLICY": "passive"}
        c.update(kw)
        cases.append(c)

    # spline-plan tables with non-default options (spline_size != nalpha, no-raise / smooth cut-off): index stays inside
    # the table, clipping is continuous; half of them in ASan workers (an index outside the table is an OOB read)
    for i in range(4 * m):
        add("splineplan", "splineplan", weight=1.0, threads=2, n=6, start=i)
        add("asan-splineplan", "asan-splineplan", variant="asan", weight=2.0, threads=2, n=6, start=i)
    # (i) bookkeeping
    for i in range(6 * m):
        add("book-settings", "book-settings", weight=1.0, threads=1, start=i, n=len(BOOK_CLASSES))
    for i in range(8 * m):
        add("book-fs", "book-fs", weight=1.5, threads=1, masks=[(2 * i) % 16, (2 * i + 1) % 16], nvar=6)
    for i in range(2 * m):
        add("book-gen-pt", "book-gen-pt", weight=3.0, n=10, start=i)
    e2e_pool = [("vj-mgga", "rks"), ("vi-gga", "uks"), ("vij-mgga", "rks"), ("vk-gga", "uks"), ("vj+sdmx", "rks"),
                ("vi-mgga", "rks"), ("vk-mgga", "rks"), ("vij-gga", "uks"), ("vj-expnt", "uks"), ("vj-gga", "rks")]
    for i in range(2 * m):
        cfgs = [_e2e_cfg(rng, *e2e_pool[(3 * i + j) % len(e2e_pool)], j + i, cheap=True) for j in range(3 if q else 2)]
        add("book-gen-mol", "book-gen-nldf", weight=12.0, sub="nldf", cfgs=cfgs)
    for i in range(1 * m):
        add("book-gen-mol", "book-gen-sdmx", weight=4.0, sub="sdmx", n=6)
    for i in range(2 * m):
        add("book-gen-mol", "book-gen-desc", weight=10.0, sub="desc", spin=["rhf", "uhf"][i % 2], n=6)
    # (ii) rejection
    nparts = 10 if q else 40
    for p in range(nparts):
        add("rej-settings", "rej-settings", weight=1.0, threads=1, part=p, nparts=nparts, reps=2 if q else 8)
    nparts = 4 if q else 20
    for p in range(nparts):
        add("rej-plans", "rej-plans", weight=3.0, part=p, nparts=nparts, reps=1 if q else 4)
    for i in range(2 * m):
        add("rej-mol", "rej-mol", weight=6.0, mol=["HF", "Li", "H2O", "NH2"][i % 4], lmax=[6, 10, 4, 8][i % 4],
            nspin=1 + (i % 2), route=["classmethod", "initializer"][(i // 2) % 2])
    # (iii) exponent range
    combos = [(v, lev, pc, ns, af) for v in ("j", "k", "ij", "i") for lev in ("MGGA", "GGA") for pc in ("gaussian", "spline")
              for ns in (1, 2) for af in ("etb", "zexp")]
    order = [int(x) for x in rng.permutation(len(combos))]
    per = 8 if q else 16
    ncase = 4 if q else 20
    for i in range(ncase):
        sel = [combos[order[(i * per + j) % len(combos)]] for j in range(per)]
        add("expnt", "expnt", weight=4.0, combos=sel)
    e_pool = [("vj-mgga", "gaussian", "rks"), ("vk-gga", "spline", "uks"), ("vi-mgga", "spline", "rks"), ("vij-gga", "gaussian", "uks"),
              ("vj-expnt", "spline", "rks"), ("vj+sdmx", "gaussian", "uks"), ("vk-mgga", "gaussian", "rks"), ("vi-gga", "gaussian", "uks")]
    for i in range(2 * m):
        sel = [e_pool[(3 * i + j) % len(e_pool)] for j in range(3 if q else 4)]
        add("expnt-e2e", "expnt-e2e", weight=8.0, cfgs=[{"family": f, "plan_type": p, "spin": s,
                                                           "mol": ["HF", "LiH", "Li", "NH2"][(i + j) % 4] if s == "uks" or (i + j) % 2 else "HF",
                                                           "alpha_max": float(rng.choice([0.3, 1.0, 3.0]))}
                                                          for j, (f, p, s) in enumerate(sel)])
    # (iv) ASan drivers
    pairs = [(f, s) for f in FAMILIES for s in ("rks", "uks")]
    reps = 1 if q else 6
    allc = []
    for r in range(reps):
        for k, (f, s) in enumerate(pairs):
            allc.append(_e2e_cfg(rng, f, s, k + r, cheap=False, thorough=not q))
    per = 4 if q else 6
    for i in range(0, len(allc), per):
        chunk = allc[i:i + per]
        add("asan-e2e", "asan-e2e", variant="asan", weight=sum(_e2e_weight(c) for c in chunk), timeout=1800, cfgs=chunk)
    lm = [1, 2, 6, 10]
    for i in range(2 * m):
        sel = [{"lmax": lm[(2 * i + j) % 4], "family": ["vj-mgga", "vi-gga", "vk-mgga", "vij-mgga"][(i + j) % 4],
                "spin": ["rks", "uks"][(i + j) % 2], "mol": [["He", "HF"], ["Li", "NH2"]][(i + j) % 2][(i // 2 + j) % 2],
                "plan_type": ["gaussian", "spline"][(i + j) % 2], "interp": ["onsite_direct", "onsite_spline"][(i // 2 + j) % 2]}
               for j in range(2)]
        add("asan-lmax", "asan-lmax", variant="asan", weight=25.0, timeout=1800, cfgs=sel)
    for i in range(1 * m):
        add("asan-eval", "asan-eval", variant="asan", weight=12.0, part=i, nparts=m)
    for i in range(1 * m):
        add("asan-sdmx", "asan-sdmx", variant="asan", weight=10.0, n=6)
        # the same with a team of 8: per-thread grid partitions of the SDMX contraction kernels for point sets shorter than
        # team x (team - 1) (added after a seeded "last thread takes the remainder" partition that overruns the arrays)
        add("asan-sdmx", "asan-sdmx-t8", variant="asan", weight=10.0, threads=8, n=6)
    for i in range(1 * m):
        add("asan-fft", "asan-fft", variant="asan", weight=3.0, n=12)
    for i in range(1 * m):
        add("asan-misc", "asan-misc", variant="asan", weight=20.0, spin=["rhf", "uhf"][i % 2])
    for i in range(1 * m):
        add("asan-shape-eval", "asan-shape-eval", variant="asan", weight=3.0)
        add("asan-shape-nldf", "asan-shape-nldf", variant="asan", weight=8.0, mol=["HF", "Li", "LiH"][i % 3],
            version=["j", "i", "k", "ij"][i % 4], plan_type=["gaussian", "spline"][i % 2], level=["GGA", "MGGA"][(i // 2) % 2 if i else 0])
    unsafe = [(c, k) for c in EVAL_CLASSES for k in UNSAFE_KINDS]
    if q:
        unsafe = [u for u in unsafe if u[0] == "RBFEvaluator" or u[1] in ("X1ctrl-wider-than-kernel", "alpha-shorter-than-X1ctrl")]
    for c, k in unsafe:
        add("asan-unsafe", "asan-unsafe-%s-%s" % (c, k), variant="asan", weight=2.0, timeout=300, cls=c, probe=k)
    # (v) the repository's own C-backed test modules (none of them is in the pinned baseline: they fail at collection
    # without the libraries) under ASan+UBSan with the boundary monitor in strict mode: valid uses written by the
    # authors, a different workload from the generated drivers.  Test outcomes are recorded, not judged.
    mods = REPO_TESTS_QUICK if q else REPO_TESTS_QUICK + REPO_TESTS_THOROUGH
    for mname, w in mods:
        add("asan-repotests", "asan-repotests-%s" % os.path.basename(mname).replace(".py", ""), variant="asan", threads=4,
            weight=w, timeout=3600, module=mname)
    # (vi) valgrind memcheck on tiny drivers: complements ASan with uninitialised-value use and with accesses that ASan's
    # red zones miss when they land in another live block; 50x slower, so one-atom systems only
    mc = MEMCHECK_QUICK if q else MEMCHECK_QUICK + MEMCHECK_THOROUGH
    for j, inner in enumerate(mc):
        add("memcheck", "memcheck-%s" % inner["name"], threads=1, weight=30.0, timeout=3000, inner=inner)
    # the sanitizer drivers are the long pole: schedule their worker group first
    cases.sort(key=lambda c: 0 if c.get("_variant") == "asan" else 1)
    return cases


def _e2e_cfg(rng, family, spin, k, cheap=False, thorough=False):
    one = (k % 2 == 0)
    pool = (ONE_ATOM if one else (MULTI_ATOM if thorough else MULTI_ATOM_QUICK))[spin]
    mol = pool[int(rng.integers(len(pool)))]
    if cheap and mol in ("H2O", "CH3", "O2"):
        mol = "HF" if spin == "rks" else "NH2"
    big = mol in ("H2O", "CH3", "O2")
    c = {"family": family, "spin": spin, "mol": mol, "basis": str(rng.choice(["sto-3g", "6-31g"], p=[0.75, 0.25] if not thorough else [0.5, 0.5])),
         "level": 0 if (cheap or big) else int(rng.random() < (0.5 if thorough else 0.25)),
         "max_memory": int(rng.choice([2000, 1, 3])), "nset": int(rng.choice([1, 1, 1, 2, 3])),
         "mode": str(rng.choice(["SEP", "NPOL", "POL"], p=[0.6, 0.2, 0.2])),
         "evaluator": str(rng.choice(["rbf", "kernel", "linear", "rbf+linear"], p=[0.55, 0.15, 0.15, 0.15]))}
    if family in NLDF_FAMS:
        c["plan_type"] = str(rng.choice(["gaussian", "spline"]))
        c["interp"] = str(rng.choice(["onsite_direct", "onsite_spline"]))
        if thorough and rng.random() < 0.3:
            c["aux_lambd"] = float(rng.choice([1.8, 2.0]))
        if not cheap and k % 3 == 1:
            c["prune_thr"] = float(rng.choice([1e-7, 1e-5]))
    if cheap:
        c["nset"] = 1
        c["basis"] = "sto-3g"
    if c["level"] == 1 and c["basis"] == "6-31g" and family in NLDF_FAMS and not one:
        c["basis"] = "sto-3g"
    return c


def _e2e_weight(c):
    natm = {"He": 1, "Li": 1, "H": 1, "HF": 2, "LiH": 2, "H2": 2, "OH-": 2, "O2": 2, "H2O": 3, "NH2": 3, "CH3": 4}.get(c["mol"], 2)
    w = natm * (1 + c["level"]) * (2.0 if c["basis"] == "6-31g" else 1.0) * (1 + 0.5 * (c["nset"] - 1)) * (1.6 if c["spin"] == "uks" else 1.0)
    return w * (4.0 if c["family"] in NLDF_FAMS else 0.6)


# ----------------------------------------------------------------------------------------------------------------
# dispatch
# ----------------------------------------------------------------------------------------------------------------
def run_case(case, rec):
    import warnings
    from vlib import boot
    rng = rng_for(case["seed"], PROP_NO, case["idx"])
    rec.tag("variant", boot.VARIANT)
    rec.tag("case_kind", case["kind"])
    fn = globals()["_run_" + case["kind"].replace("-", "_")]
    strict = case["kind"].startswith("asan-") and case["kind"] not in ("asan-unsafe", "asan-shape-eval", "asan-shape-nldf")
    n0 = len(boot.STRICT_ERRORS)
    boot.MODE["strict"] = bool(strict)
    try:
        with warnings.catch_warnings():
            warnings.simplefilter("ignore")
            with np.errstate(all="ignore"):
                fn(case, rec, rng)
    finally:
        boot.MODE["strict"] = False
    if strict:
        _check_strict(rec, boot.STRICT_ERRORS[n0:])


def _mc_cfg(name, family, spin, mol, plan_type=None, interp=None, **kw):
    c = {"family": family, "spin": spin, "mol": mol, "basis": "sto-3g", "level": 0, "max_memory": 2000, "nset": 1, "mode": "SEP",
         "evaluator": "rbf"}
    if plan_type:
        c["plan_type"] = plan_type
        c["interp"] = interp
    c.update(kw)
    return {"name": name, "what": "e2e", "cfg": c}


MEMCHECK_QUICK = [_mc_cfg("vj-mgga-He", "vj-mgga", "rks", "He", "gaussian", "onsite_direct"),
                  _mc_cfg("vk-gga-Li", "vk-gga", "uks", "Li", "spline", "onsite_spline"),
                  _mc_cfg("sdmxg1-He", "sdmxg1", "rks", "He"),
                  {"name": "fft+evaluators", "what": "direct"}]
MEMCHECK_THOROUGH = [_mc_cfg("vi-mgga-He", "vi-mgga", "rks", "He", "spline", "onsite_direct"),
                     _mc_cfg("vij-gga-Li", "vij-gga", "uks", "Li", "gaussian", "onsite_spline"),
                     _mc_cfg("vj-expnt-He", "vj-expnt", "rks", "He", "spline", "onsite_direct"),
                     _mc_cfg("vk-mgga-LiH", "vk-mgga", "rks", "LiH", "gaussian", "onsite_direct", nset=2),
                     _mc_cfg("sdmx-Li", "sdmx", "uks", "Li"), _mc_cfg("sdmx1-He", "sdmx1", "rks", "He"),
                     _mc_cfg("sdmxg-He", "sdmxg", "rks", "He"),
                     _mc_cfg("sl-npa-Li", "sl-npa", "uks", "Li", mode="POL", evaluator="spinrbf"),
                     _mc_cfg("vj+sdmx-He", "vj+sdmx", "rks", "He", "gaussian", "onsite_direct", max_memory=1)]
_MC_KINDS = ("Invalid read", "Invalid write", "Conditional jump or move depends on uninitialised value", "Use of uninitialised value",
             "Syscall param", "Invalid free", "Mismatched free", "Source and destination overlap", "Argument .* of function .* has a fishy",
             "Process terminating with default action of signal", "Jump to the invalid address")
_MC_LIBS = ("libmcider", "libnumint", "libxc_utils", "libfft_wrapper", "/ciderpress/lib/")


def _run_mc_inner(case, rec, rng):
    inner = case["inner"]
    if inner["what"] == "e2e":
        cfg = inner["cfg"]
        s = _drive_e2e(rec, cfg, rng, "memcheck|%s|%s|%s" % (cfg["family"], cfg["spin"], cfg["mol"]))
        rec.set_sample(s)
    else:
        from vlib import gen
        _run_asan_fft({"n": 4, "idx": case["idx"]}, rec, rng)
        for kind, n1 in (("rbf", 4), ("spinrbf", 3), ("subrbf", 4), ("kernel", 3), ("linear", 3)):
            try:
                ev = gen.rand_evaluator(kind, n1, rng, nctrl=7)
            except Exception as e:  # noqa: BLE001
                rec.note("evaluator_not_built[%s]" % kind, repr(e)[:120])
                continue
            X = rng.normal(size=(2, 33, n1)) if kind == "spinrbf" else rng.normal(size=(33, n1))
            res, dres = ev(X)
            rec.require("evaluator_finite", bool(np.all(np.isfinite(res)) and np.all(np.isfinite(dres))), mechanism="evaluator:nonfinite[%s]" % kind)
            rec.nontrivial("memcheck-direct|%s" % kind)


def _mc_blocks(txt):
    """Error contexts of a memcheck log: list of (kind line, [frame lines])."""
    blocks, cur = [], None
    for line in txt.splitlines():
        m = re.match(r"==\d+== (.*)$", line)
        if not m:
            continue
        body = m.group(1)
        if cur is None:
            if any(re.match(k, body) for k in _MC_KINDS):
                cur = (body, [])
        else:
            if body.strip() == "":
                blocks.append(cur)
                cur = None
            else:
                cur[1].append(body.strip())
    if cur:
        blocks.append(cur)
    return blocks


def _run_memcheck(case, rec, rng):
    """Runs one inner driver case in a worker process under valgrind memcheck and classifies the error contexts: only
    those with a frame in the repository's libraries count (CPython, numpy, ld.so and OpenBLAS produce known noise)."""
    import json
    import shutil
    import subprocess
    import sys
    import tempfile

    from vlib import boot
    vg = shutil.which("valgrind")
    if not vg:
        rec.set_inconclusive("valgrind not found")
        return
    inner = dict(case, kind="mc-inner", id=case["id"] + "-inner")
    d = tempfile.mkdtemp(prefix="memcheck_", dir=os.path.join(boot.VERIF_ROOT, ".build", "logs"))
    try:
        cpath, opath, lpath = os.path.join(d, "cases.json"), os.path.join(d, "out.jsonl"), os.path.join(d, "vg.log")
        json.dump([inner], open(cpath, "w"))
        env = dict(os.environ, PYTHONMALLOC="malloc", OMP_NUM_THREADS="2", OPENBLAS_NUM_THREADS="1", NUMBA_NUM_THREADS="1")
        cmd = [vg, "--tool=memcheck", "--error-exitcode=0", "--num-callers=30", "--undef-value-errors=yes", "--track-origins=no",
               "--error-limit=no", "--log-file=" + lpath, sys.executable, "-m", "vlib.worker", "checks.c18", cpath, opath]
        try:
            r = subprocess.run(cmd, cwd=boot.VERIF_ROOT, env=env, capture_output=True, text=True, timeout=case["_timeout"] - 120)
        except subprocess.TimeoutExpired:
            rec.set_inconclusive("memcheck driver did not finish within the watchdog")
            return
        res = None
        if os.path.exists(opath):
            for line in open(opath):
                try:
                    dd = json.loads(line)
                except ValueError:
                    continue
                if not dd.get("_summary"):
                    res = dd
        txt = open(lpath, errors="replace").read() if os.path.exists(lpath) else ""
        blocks = _mc_blocks(txt)
        ours, noise = {}, 0
        # frames with debug info read "func (file.c:line)": match the base names of the repository's C sources as well
        srcs = set()
        for root, _, files in os.walk(os.path.join(boot.REPO, "ciderpress", "lib")):
            srcs.update(f for f in files if f.endswith((".c", ".h")))
        pat = re.compile(r"\((%s):\d+\)" % "|".join(re.escape(x) for x in sorted(srcs))) if srcs else None
        for kind, frames in blocks:
            hit = [f for f in frames if any(t in f for t in _MC_LIBS) or (pat is not None and pat.search(f))]
            if not hit:
                noise += 1
                continue
            m = re.search(r"(?:at|by) 0x[0-9A-Fa-f]+: (\S+) \((?:in )?([^):]+)", hit[0])
            where = "%s:%s" % (os.path.basename(m.group(2)), re.sub(r"\.(_omp_fn|constprop|isra|part|cold)\.?\d*", "", m.group(1))) if m else "unknown"
            kshort = kind.split(" of size")[0].split(" depends on")[0].replace(" ", "-").lower()[:40]
            ours.setdefault("memcheck:%s:%s" % (kshort, where), "\n".join([kind] + frames[:14]))
        rec.note("memcheck_contexts_total", len(blocks))
        rec.note("memcheck_contexts_outside_repository_libraries(ignored)", noise)
        rec.require("memcheck_clean", not ours, mechanism=sorted(ours)[0] if ours else None, detail=list(ours.values())[:3])
        for k in sorted(ours)[1:]:
            rec.require("memcheck_clean", False, mechanism=k, detail=ours[k])
        if res is None or "ERROR SUMMARY" not in txt:
            rec.set_inconclusive("inner driver under valgrind produced no result (exit %s): %s" % (r.returncode, (r.stdout + r.stderr)[-300:]))
            return
        for f in res.get("failures") or []:
            rec.require("inner[%s]" % f.get("oracle"), False, mechanism=f.get("mechanism"), detail=f.get("detail"))
        if res.get("status") == "error":
            rec.set_inconclusive("inner driver raised under valgrind: %s" % str(res.get("error"))[:300])
            return
        if res.get("inconclusive"):
            rec.set_inconclusive("inner driver inconclusive under valgrind: %s" % str(res.get("inconclusive"))[:300])
            return
        if res.get("nontrivial"):
            rec.nontrivial("memcheck|%s" % case["inner"]["name"])
        rec.set_sample({"inner": case["inner"], "valgrind_contexts": len(blocks), "in_repository_libraries": len(ours),
                        "inner_oracles": sorted((res.get("oracles") or {}).keys())[:20]})
    finally:
        shutil.rmtree(d, ignore_errors=True)


REPO_TESTS_QUICK = [("ciderpress/dft/tests/test_plans.py", 20.0), ("ciderpress/dft/tests/test_interpolation.py", 20.0),
                    ("ciderpress/dft/tests/test_convolutions.py", 10.0), ("ciderpress/dft/tests/test_sph_harm_coeff.py", 10.0),
                    ("ciderpress/dft/tests/test_baselines.py", 5.0), ("ciderpress/dft/tests/test_ueg.py", 5.0),
                    ("ciderpress/dft/tests/test_grids_indexer.py", 5.0)]
REPO_TESTS_THOROUGH = [("ciderpress/pyscf/tests/test_sdmx.py", 60.0), ("ciderpress/pyscf/tests/test_sdmx_slow.py", 90.0),
                       ("ciderpress/pyscf/tests/test_frac_lapl.py", 60.0), ("ciderpress/pyscf/tests/test_nldf.py", 40.0)]


def _run_asan_repotests(case, rec, rng):
    """One test module of the repository in a child process that inherits the sanitizer environment of this worker
    (LD_PRELOAD, ASAN/UBSAN options with the run's log directory) and loads the libraries through the monitored loader
    (pytest plugin vlib.pytest_boot, strict boundary mode)."""
    import json
    import subprocess
    import sys
    import tempfile

    from vlib import boot
    mod = case["module"]
    rec.tag("repo_test_module", mod)
    fd, summ = tempfile.mkstemp(prefix="pytest_summary_", suffix=".json", dir=os.path.join(boot.VERIF_ROOT, ".build", "logs"))
    os.close(fd)
    env = dict(os.environ, VERIF_PYTEST_SUMMARY=summ, VERIF_BOOT_STRICT="1")
    cmd = [sys.executable, "-m", "pytest", "-q", "-p", "no:cacheprovider", "-p", "vlib.pytest_boot", "-rA", "--timeout=3000", mod]
    try:
        r = subprocess.run(cmd, cwd=boot.REPO, env=env, capture_output=True, text=True, timeout=case["_timeout"] - 60)
    except subprocess.TimeoutExpired:
        rec.set_inconclusive("repository test module did not finish under ASan within the watchdog")
        return
    out = r.stdout + r.stderr
    passed = len(re.findall(r"^PASSED ", out, flags=re.M))
    failed = sorted(set(re.findall(r"^(?:FAILED|ERROR) (\S+)", out, flags=re.M)))
    rec.note("tests_passed", passed)
    rec.note("tests_failed_or_errored(recorded, not judged)", failed[:40])
    rec.require("no_sanitizer_abort", r.returncode not in (97, -11, -6, -7, -8, -4),
                mechanism="crash:repotests[%s]" % os.path.basename(mod), detail=out[-2500:])
    data = {}
    try:
        data = json.load(open(summ))
    except (OSError, ValueError):
        pass
    finally:
        try:
            os.unlink(summ)
        except OSError:
            pass
    calls = data.get("calls") or {}
    ncalls = int(sum(v for k, v in calls.items() if not k.endswith("@fnptr")))
    rec.note("c_calls", ncalls)
    rec.note("c_entry_points", len(calls))
    _check_strict(rec, data.get("strict") or [])
    if passed >= 1 and ncalls >= 1:
        rec.nontrivial("repotests:%s" % mod)
    elif r.returncode not in (97,):
        rec.set_inconclusive("no test of %s passed or no C entry point was reached (exit %s)" % (mod, r.returncode))
    rec.set_sample({"module": mod, "passed": passed, "failed": failed[:10], "c_calls": ncalls, "entry_points": sorted(calls)[:60]})


def _run_splineplan(case, rec, rng):
    from vlib import planprobe
    cfgs = [planprobe.probe(rec, rng) for _ in range(case["n"])]
    rec.set_sample({"kind": "splineplan", "configs": cfgs})


_run_asan_splineplan = _run_splineplan


def _dense_permuted(shape, strides, itemsize=8):
    """True when strides describe a dense (gap-free) permutation of a contiguous block."""
    dims = sorted([(st, sh) for sh, st in zip(shape, strides) if sh > 1])
    expect = None
    for st, sh in dims:
        if expect is None:
            if st not in (8, 4, 16, 1, 2):
                return False
            expect = st
        if st != expect:
            return False
        expect = st * sh
    return True


def _check_strict(rec, errors):
    bad = {}
    for s in errors:
        parts = s.split()
        entry = parts[0]
        if "non-contiguous" in s:
            m = re.search(r"shape=\(([^)]*)\) strides=\(([^)]*)\)", s)
            if m:
                shape = [int(v) for v in m.group(1).replace(" ", "").split(",") if v]
                strides = [int(v) for v in m.group(2).replace(" ", "").split(",") if v]
                if _dense_permuted(shape, strides):
                    rec.tag("boundary_dense_permuted_view", entry)
                    continue
            bad.setdefault((entry, "non-contiguous-array"), s)
        elif " elements, C reads/writes " in s:
            bad.setdefault((entry, "buffer-smaller-than-C-access[%s]" % parts[1]), s)
        else:
            bad.setdefault((entry, "unexpected-dtype"), s)
    rec.require("boundary_strict", not bad, mechanism="boundary:%s:%s" % sorted(bad)[0] if bad else None,
                detail=list(bad.values())[:5])
    for k in sorted(bad)[1:]:
        rec.require("boundary_strict", False, mechanism="boundary:%s:%s" % k, detail=bad[k])


# ----------------------------------------------------------------------------------------------------------------
# sanitizer / crash classification hooks for the runner
# ----------------------------------------------------------------------------------------------------------------
_FRAME = re.compile(r"#\d+\s+0x[0-9a-f]+\s+in\s+(\S+)\s+(\S*/ciderpress/lib/\S+?):\d+")


def _san_mechanism(kind, block):
    m = _FRAME.search(block)
    if m:
        func = re.sub(r"\.(_omp_fn|constprop|isra|part|cold)\.?\d*", "", m.group(1))
        return "%s:%s:%s" % (kind, os.path.basename(m.group(2)), func)
    m = re.search(r"(\S*/ciderpress/lib/\S+?):\d+(?::\d+)?: runtime error", block)
    if m:
        return "%s:%s" % (kind, os.path.basename(m.group(1)))
    if "fftw_ref" in block or "libfft" in block:
        return "%s:cider_fft.c" % kind
    return "%s:unclassified" % kind


def classify_sanitizer(blocks):
    out, seen = [], set()
    for kind, b in blocks:
        mech = _san_mechanism(kind, b)
        if mech in seen:
            continue
        seen.add(mech)
        out.append({"id": "sanitizer", "oracle": kind, "mechanism": mech, "obs": 1.0, "tol": 0.5, "detail": b[:2500]})
    return out[:30]


def _case_label(case):
    if case.get("kind") == "asan-unsafe":
        return "asan-unsafe[%s:%s]" % (case.get("cls"), case.get("probe"))
    return str(case.get("kind"))


def classify_abnormal(r):
    """Every input of the drivers is admissible and every deliberately invalid argument is expected to be rejected in
    Python, so a worker stopped by ASan/UBSan (exit code 97) or killed by a memory-fault signal is the library's fault."""
    if r.get("status") != "crash":
        return None
    rc = r.get("returncode")
    case = r.get("case") or {}
    tail = (r.get("stderr_tail") or "")[-1500:]
    label = _case_label(case)
    if case.get("_variant") == "asan" and rc == 97:
        return {"violation": True, "failure": {"oracle": "asan_abort", "mechanism": "crash:%s" % label, "obs": 1.0, "tol": 0.5,
                                               "detail": "worker stopped by the sanitizer (exit code 97)\n" + tail}}
    if rc in (-11, -6, -7, -8, -4):
        return {"violation": True, "failure": {"oracle": "crash", "mechanism": "crash:%s" % label, "obs": 1.0, "tol": 0.5,
                                               "detail": "signal %d\n%s" % (-rc, tail)}}
    return None


def finalize(results, coverage):
    cat = {}
    obs = {}
    for r in results:
        for v in (r.get("tags") or {}).get("answer", []):
            k, _, a = str(v).rpartition("=")
            cat.setdefault(k, {})
            cat[k][a] = cat[k].get(a, 0) + 1
        for v in (r.get("tags") or {}).get("observation", []):
            obs[str(v)] = obs.get(str(v), 0) + 1
    coverage["corruption_catalogue[class:kind -> answer@stage: cases]"] = cat
    coverage["observations_not_asserted"] = obs
    coverage["asan_cases"] = sum(1 for r in results if (r.get("tags") or {}).get("variant") == ["asan"])


# ----------------------------------------------------------------------------------------------------------------
# random VALID argument sets (keyword dictionaries, so that one field can be corrupted afterwards)
# ----------------------------------------------------------------------------------------------------------------
def _st():
    from ciderpress.dft import settings
    return settings


def _pick(rng, seq):
    return seq[int(rng.integers(len(seq)))]


def _params(rng, level, spec="se"):
    a0 = float(rng.uniform(0.6, 3.0))
    g = float(rng.uniform(0.0, 0.08)) if rng.random() < 0.7 else 0.0
    p = [a0, g]
    if level == "MGGA":
        p.append(float(rng.uniform(0.0, 0.05)) if rng.random() < 0.8 else 0.0)
    if spec == "se_erf_rinv":
        p.append(float(rng.uniform(0.5, 3.0)))
    return p


NLDF_FIELDS = {"i": {"l0": "l0_feat_specs", "l1": "l1_feat_specs", "dots": "l1_feat_dots"},
               "j": {"specs": "feat_specs", "params": "feat_params"},
               "ij": {"l0": "l0_feat_specs_i", "l1": "l1_feat_specs_i", "dots": "l1_feat_dots_i", "specs": "feat_specs_j",
                      "params": "feat_params_j"},
               "k": {"params": "feat_params", "damp": "rho_damp"}}
NLDF_CLS = {"i": "NLDFSettingsVI", "j": "NLDFSettingsVJ", "ij": "NLDFSettingsVIJ", "k": "NLDFSettingsVK"}
IMPLEMENTED_VI_USPS = (0, -2, 2, 5)


def _kw_nldf(ver, rng, level=None, rho_mult=None, safe=False):
    """safe=True: only combinations whose recommended normaliser is implemented (so that the valid base passes every use)."""
    level = level or _pick(rng, ["GGA", "MGGA"])
    rho_mult = rho_mult or _pick(rng, ["one", "expnt"])
    if safe and "i" in ver and rng.random() < 0.75:
        rho_mult = "one"
    usp0 = 2 if rho_mult == "expnt" else 0
    f = NLDF_FIELDS[ver]
    kw = {"sl_level": level, "theta_params": _params(rng, level), "rho_mult": rho_mult}
    if "i" in ver:
        l0c = [s for s in I0_SPECS if (not safe) or (usp0 + USP[s]) in IMPLEMENTED_VI_USPS[:3]]
        n0 = int(rng.integers(1, min(3, len(l0c)) + 1))
        l0 = [l0c[int(i)] for i in rng.choice(len(l0c), size=n0, replace=False)]
        l1 = [I1_SPECS[int(i)] for i in rng.permutation(2)][: int(rng.integers(1, 3))]
        names = {-1: "grad_rho"}
        names.update({i: s for i, s in enumerate(l1)})
        pairs = [(j, k) for j in range(-1, len(l1)) for k in range(-1, len(l1))]
        if safe:
            pairs = [p for p in pairs if (usp0 + USP[names[p[0]]] + USP[names[p[1]]]) in IMPLEMENTED_VI_USPS]
        nd = int(rng.integers(1, 4)) if pairs else 0
        dots = [pairs[int(i)] for i in rng.integers(len(pairs), size=nd)] if pairs else []
        if rng.random() < 0.3:
            dots = [list(d) for d in dots]  # lists are documented to be as good as tuples
        kw[f["l0"]], kw[f["l1"]], kw[f["dots"]] = l0, l1, dots
    if "j" in ver:
        ns = int(rng.integers(1, 4))
        specs = [_pick(rng, J_SPECS) for _ in range(ns)]
        kw[f["specs"]] = specs
        kw[f["params"]] = [_params(rng, level, s) for s in specs]
    if ver == "k":
        kw[f["params"]] = [_params(rng, level) for _ in range(int(rng.integers(1, 4)))]
        kw[f["damp"]] = "exponential"
    return kw


def _mk_nldf(ver, kw):
    return getattr(_st(), NLDF_CLS[ver])(**kw)


def _kw_fl(rng, safe=False):
    ns = int(rng.integers(2, 5))
    slist = [float(s) for s in np.round(rng.uniform(-1.2, 1.5, size=ns), 3)]
    nk0 = int(rng.integers(1, ns + 1))
    nk1 = int(rng.integers(1 if safe else 0, ns + 1))
    nd1 = int(rng.integers(1 if safe else 0, nk1 + 1)) if nk1 else 0
    ndd = int(rng.integers(0, nd1 + 1))
    l1 = [(int(a), int(b)) for a, b in rng.integers(-1, nk1, size=(int(rng.integers(0, 4)), 2))] if nk1 else \
        ([(-1, -1)] if rng.random() < 0.5 else [])
    ld = [(int(a), int(b)) for a, b in rng.integers(-1, nd1, size=(int(rng.integers(0, 3)), 2))] if nd1 else []
    return {"slist": slist, "nk0": nk0, "nk1": nk1, "l1_dots": l1, "nd1": nd1, "ld_dots": ld, "ndd": ndd}


def _pows(rng):
    n = int(rng.integers(1, 4))
    return [int(v) for v in rng.permutation(3)[:n]]


def _kw_sdmx(kind, rng):
    if kind == "sadm":
        return {"mode": _pick(rng, ["smooth", "exact"])}
    p = _pows(rng)
    if kind == "sdmx":
        return {"pows": p}
    if kind == "sdmxg":
        return {"pows": p, "ndt": int(rng.integers(0, len(p) + 1))}
    if kind == "sdmx1":
        return {"pows": p, "n1": int(rng.integers(0, len(p) + 1))}
    if kind == "sdmxg1":
        return {"pows": p, "nd": int(rng.integers(0, len(p) + 1)), "n1": int(rng.integers(0, len(p) + 1))}
    d = {}
    ratios = [1.0, 1.5, 2.0]
    for i in rng.permutation(3)[: int(rng.integers(1, 4))]:
        pw = _pows(rng)
        d[ratios[int(i)]] = (pw, [int(rng.integers(0, len(pw) + 1)) for _ in range(4)])
    if sum(sum(v[1]) for v in d.values()) == 0:
        k = list(d)[0]
        d[k] = (d[k][0], [1, 0, 0, 0])
    return {"settings_dict": d}


SDMX_CLS = {"sadm": "SADMSettings", "sdmx": "SDMXSettings", "sdmxg": "SDMXGSettings", "sdmx1": "SDMX1Settings",
            "sdmxg1": "SDMXG1Settings", "sdmxfull": "SDMXFullSettings"}


def _mk_sdmx(kind, kw):
    return getattr(_st(), SDMX_CLS[kind])(**kw)


def _draw_settings(label, rng, safe=False):
    """(class name, object, printable kwargs) for one entry of BOOK_CLASSES."""
    st = _st()
    if label.startswith("sl:"):
        return "SemilocalSettings", st.SemilocalSettings(label[3:]), {"mode": label[3:]}
    if label[1:] in NLDF_CLS and label[0] == "v":
        kw = _kw_nldf(label[1:], rng, safe=safe)
        return NLDF_CLS[label[1:]], _mk_nldf(label[1:], kw), kw
    if label == "fl":
        kw = _kw_fl(rng, safe=safe)
        return "FracLaplSettings", st.FracLaplSettings(**kw), kw
    if label.startswith("sadm:"):
        return "SADMSettings", st.SADMSettings(label[5:]), {"mode": label[5:]}
    if label in SDMX_CLS:
        kw = _kw_sdmx(label, rng)
        return SDMX_CLS[label], _mk_sdmx(label, kw), {k: (str(v) if isinstance(v, dict) else v) for k, v in kw.items()}
    if label == "empty":
        return "EmptySettings", st.EmptySettings(), {}
    raise ValueError(label)


# ----------------------------------------------------------------------------------------------------------------
# (i) bookkeeping
# ----------------------------------------------------------------------------------------------------------------
def _counts(rec, s, cname, detail):
    """The four-way count equality of one settings object.  Returns nfeat."""
    nf = int(s.nfeat)
    rec.require("nfeat_is_count", isinstance(s.nfeat, (int, np.integer)) and nf >= 0, mechanism="%s:nfeat-not-a-count" % cname, detail=detail)
    rec.require("is_empty_consistent", bool(s.is_empty) == (nf == 0), mechanism="%s:is_empty-inconsistent" % cname, detail=detail)
    for name, fn in (("usps", lambda: s.get_feat_usps()), ("ueg", lambda: s.ueg_vector()), ("ueg_rho", lambda: s.ueg_vector(0.37)),
                     ("normalizer", lambda: s.get_reasonable_normalizer())):
        try:
            v = fn()
        except NotImplementedError as e:
            rec.tag("observation", "%s.%s:NotImplementedError(documented-not-implemented combination)" % (cname, name))
            rec.note("not_implemented[%s.%s]" % (cname, name), str(e)[:100])
            continue
        n = len(v)
        rec.require("count[%s]" % name, n == nf, mechanism="%s:count-mismatch[%s]" % (cname, name.replace("ueg_rho", "ueg")),
                    detail=dict(detail, nfeat=nf, got=n))
    return nf


def _run_book_settings(case, rec, rng):
    sample = None
    for j in range(case["n"]):
        label = BOOK_CLASSES[(case["start"] + j) % len(BOOK_CLASSES)]
        cname, s, kw = _draw_settings(label, rng)
        rec.tag("settings_class", cname)
        if label in ("vi", "vj", "vij", "vk"):
            rec.tag("nldf_variant", "%s/%s/%s" % (cname, kw["sl_level"], kw["rho_mult"]))
        nf = _counts(rec, s, cname, {"class": cname, "kwargs": kw})
        rec.nontrivial("book|%s|%d" % (label, j))
        if sample is None and label in ("vij", "fl"):
            sample = {"oracle": "count equalities", "class": cname, "kwargs": kw, "nfeat": nf, "usps": [float(u) for u in s.get_feat_usps()]}
    rec.set_sample(sample)


def _family_for_mask(mask, rng, v):
    """Settings objects (or None) for the subset mask bit0=sl bit1=nldf bit2=nlof bit3=sdmx, variant number v."""
    st = _st()
    sl = nldf = nlof = sdmx = None
    names = {}
    if mask & 1:
        mode = ["nst", "npa", "ns", "np"][v % 4]
        sl = st.SemilocalSettings(mode)
        names["sl"] = "SemilocalSettings:" + mode
    if mask & 2:
        ver = ["j", "i", "ij", "k"][(v + mask) % 4]
        kw = _kw_nldf(ver, rng, level=["MGGA", "GGA"][(v // 2) % 2], rho_mult=["one", "expnt"][(v // 3) % 2], safe=True)
        nldf = _mk_nldf(ver, kw)
        names["nldf"] = "%s/%s/%s" % (NLDF_CLS[ver], kw["sl_level"], kw["rho_mult"])
    if mask & 4:
        nlof = st.FracLaplSettings(**_kw_fl(rng))
        names["nlof"] = "FracLaplSettings"
    if mask & 8:
        kind = SDMX_KINDS[(v + mask // 2) % len(SDMX_KINDS)]
        sdmx = _mk_sdmx(kind, _kw_sdmx(kind, rng))
        names["sdmx"] = SDMX_CLS[kind]
    return sl, nldf, nlof, sdmx, names


def _run_book_fs(case, rec, rng):
    st = _st()
    from ciderpress.dft.feat_normalizer import FeatNormalizerList
    M = "FeatureSettings"
    sample = None
    for mask in case["masks"]:
        for v in range(case["nvar"]):
            sl, nldf, nlof, sdmx, names = _family_for_mask(mask, rng, v + case["idx"])
            rec.tag("family_subset", "+".join(sorted(names)) or "(empty)")
            for k, n in names.items():
                rec.tag("fs_%s_class" % k, n)
            detail = {"subset": names}
            fams = [sl, nldf, nlof, sdmx]
            ns = [0 if f is None else int(f.nfeat) for f in fams]
            explicit = None
            try:
                fs = st.FeatureSettings(sl_settings=sl, nldf_settings=nldf, nlof_settings=nlof, sdmx_settings=sdmx)
            except AttributeError as e:
                if sl is not None:
                    raise
                # documented-valid (EmptySettings for sl) but the default normaliser list needs sl_settings.mode
                rec.tag("observation", "FeatureSettings(sl_settings=None):default-normalizers-raise-AttributeError")
                explicit = FeatNormalizerList([None] * sum(ns), slmode="npa")
                fs = st.FeatureSettings(sl_settings=sl, nldf_settings=nldf, nlof_settings=nlof, sdmx_settings=sdmx, normalizers=explicit)
            total = sum(ns)
            rec.require("fs_nfeat_is_sum", int(fs.nfeat) == total, mechanism=M + ":nfeat!=sum-of-families", detail=dict(detail, nfeat=int(fs.nfeat), families=ns))
            for flag, f in (("has_sl", sl), ("has_nldf", nldf), ("has_nlof", nlof), ("has_sdmx", sdmx)):
                rec.require("fs_has_flags", bool(getattr(fs, flag)) == (f is not None and f.nfeat > 0), mechanism=M + ":%s-inconsistent" % flag, detail=detail)
            loc = np.asarray(fs.get_feat_loc())
            want = np.cumsum([0] + ns + [0])
            rec.require("feat_loc", loc.shape == (6,) and np.array_equal(loc, want) and int(loc[-1]) == int(fs.nfeat),
                        mechanism=M + ":feat_loc-not-cumulative", detail=dict(detail, got=loc.tolist(), want=want.tolist()))
            d = fs.get_feat_loc_dict()
            wantd = {"sl": 0, "nldf": ns[0], "nlof": ns[0] + ns[1], "sadm": ns[0] + ns[1] + ns[2], "hyb": total, "end": total}
            rec.require("feat_loc_dict", sorted(d) == sorted(wantd) and all(int(d[k]) == wantd[k] for k in wantd),
                        mechanism=M + ":feat_loc_dict-inconsistent", detail=dict(detail, got={k: int(x) for k, x in d.items()}, want=wantd))
            usps = ueg = None
            for name, fn in (("usps", lambda: fs.get_feat_usps()), ("ueg", lambda: fs.ueg_vector()), ("ueg_rho", lambda: fs.ueg_vector(0.61)),
                             ("normalizer", lambda: fs.get_reasonable_normalizer()), ("usps+norm", lambda: fs.get_feat_usps(with_normalizers=True)),
                             ("ueg+norm", lambda: fs.ueg_vector(0.61, with_normalizers=True))):
                try:
                    val = fn()
                except NotImplementedError:
                    rec.tag("observation", "FeatureSettings.%s:NotImplementedError(documented-not-implemented combination)" % name)
                    continue
                rec.require("count[%s]" % name, len(val) == total, mechanism=M + ":count-mismatch[%s]" % name.replace("ueg_rho", "ueg"),
                            detail=dict(detail, nfeat=total, got=len(val)))
                if name == "usps":
                    usps = np.asarray(val, dtype=float)
            if usps is not None and usps.size == total:
                ok = True
                for i, f in enumerate(fams):
                    seg = usps[want[i]:want[i + 1]]
                    ref = np.asarray(f.get_feat_usps(), dtype=float) if f is not None else np.zeros(0)
                    ok = ok and seg.shape == ref.shape and np.array_equal(seg, ref)
                rec.require("usps_segments_follow_feat_loc", ok, mechanism=M + ":family-order-differs-from-feat_loc", detail=detail)
            rec.require("normalizers.nfeat[default]", int(fs.normalizers.nfeat) == total, mechanism=M + ":normalizers.nfeat!=nfeat[default]", detail=detail)
            if sl is not None:
                try:
                    fs.assign_reasonable_normalizer()
                    rec.require("normalizers.nfeat[assigned]", int(fs.normalizers.nfeat) == total == int(fs.nfeat),
                                mechanism=M + ":normalizers.nfeat!=nfeat[assign_reasonable_normalizer]", detail=detail)
                    x = np.abs(rng.normal(size=(1, total, 5))) + 0.1
                    xn = fs.normalizers.get_normalized_feature_vector(x)
                    rec.require("normalized_vector_shape", xn.shape == x.shape, mechanism=M + ":normalized-vector-shape", detail=detail)
                except NotImplementedError:
                    rec.tag("observation", "FeatureSettings.assign_reasonable_normalizer:NotImplementedError")
            rec.nontrivial("fs|%d|%d" % (mask, v))
            if sample is None and mask in (7, 11, 15):
                sample = {"oracle": "FeatureSettings bookkeeping", "subset": names, "family_nfeat": ns, "nfeat": total,
                          "feat_loc": loc.tolist(), "feat_loc_dict": {k: int(x) for k, x in d.items()}}
    rec.set_sample(sample)


def _pointwise(rng, n, nspin, level="MGGA", lo=1e-4, hi=50.0):
    from vlib import gen
    rd = gen.pointwise_rho(rng, n, nspin, lo=lo, hi=hi)
    return rd if level == "MGGA" else np.ascontiguousarray(rd[:, :4])


def _nldf_plan(settings, nspin, rng, cls=None, alpha_formula=None, **kw):
    from ciderpress.dft import plans
    cls = cls or _pick(rng, ["gaussian", "spline"])
    pc = plans.NLDFGaussianPlan if cls == "gaussian" else plans.NLDFSplinePlan
    lambd = kw.pop("lambd", float(rng.choice([1.6, 1.8, 2.0])))
    alpha0 = kw.pop("alpha0", 0.004)
    nalpha = kw.pop("nalpha", int(np.ceil(np.log(2e5 / alpha0) / np.log(lambd))) + 1)
    return pc(settings, nspin, alpha0, lambd, nalpha, alpha_formula=alpha_formula or _pick(rng, ["etb", "zexp"]), **kw)


def _run_book_gen_pt(case, rec, rng):
    """Rows actually produced by the plan-level generators on pointwise admissible densities."""
    from ciderpress.dft import plans
    st = _st()
    sample = None
    for j in range(case["n"]):
        nspin = 1 + (j + case["start"]) % 2
        ng = int(rng.choice([1, 7, 33]))
        # semilocal
        mode = ["nst", "npa", "ns", "np"][(j + case["start"]) % 4]
        s = st.SemilocalSettings(mode)
        rd = _pointwise(rng, ng, nspin, "MGGA")
        f = plans.SemilocalPlan(s, nspin).get_feat(rd)
        rec.require("generator_rows[SemilocalPlan]", f.shape == (nspin, s.nfeat, ng), mechanism="SemilocalPlan.get_feat:rows!=nfeat[%s]" % mode,
                    detail={"shape": list(f.shape), "nfeat": s.nfeat})
        rec.tag("generator", "SemilocalPlan.get_feat[%s]" % mode)
        rec.nontrivial("gen|sl|%d" % j)
        # fractional Laplacian plan
        kw = _kw_fl(rng)
        fl = st.FracLaplSettings(**kw)
        rho = rng.normal(size=(nspin, 5 + fl.nrho, ng))
        plan = plans.FracLaplPlan(fl, nspin)
        f = plan.get_feat(rho)
        ok = f.shape == (nspin, fl.nfeat, ng)
        rec.require("generator_rows[FracLaplPlan]", ok, mechanism="FracLaplPlan.get_feat:rows!=nfeat", detail={"kwargs": kw, "shape": list(f.shape), "nfeat": fl.nfeat})
        if ok:
            v = plan.get_vxc(rng.normal(size=f.shape))
            rec.require("generator_rows[FracLaplPlan.get_vxc]", v.shape == rho.shape, mechanism="FracLaplPlan.get_vxc:rows!=nrho", detail={"kwargs": kw})
        rec.require("fl_nrho", fl.nrho == fl.nk0 + 3 * fl.nk1 + 3 * fl.nd1 + fl.ndd == fl.size, mechanism="FracLaplSettings:nrho!=size", detail=kw)
        rec.tag("generator", "FracLaplPlan.get_feat")
        rec.nontrivial("gen|fl|%d" % j)
        # NLDF plan: contraction of random interpolated integrals
        ver = ["j", "i", "ij", "k"][(j + case["start"]) % 4]
        kwn = _kw_nldf(ver, rng)
        ns_ = _mk_nldf(ver, kwn)
        pcls = ["gaussian", "spline"][(j // 2 + case["start"]) % 2]
        p = _nldf_plan(ns_, nspin, rng, cls=pcls)
        ng = int(rng.choice([64, 97]))  # eval_vxc_vj_ takes nalpha from the grid axis: works only for ngrids >= nalpha
        rd = _pointwise(rng, ng, 1, kwn["sl_level"])[0]
        ncol = p.num_vi_ints + (0 if ver == "i" else p.nalpha)
        fq = np.ascontiguousarray(rng.normal(size=(ng, ncol)))
        feat, dfeat = p.eval_rho_full(fq, rd, spin=nspin - 1)
        rec.require("generator_rows[NLDFPlan.eval_rho_full]", feat.shape == (ns_.nfeat, ng) and dfeat.shape == (ns_.num_feat_param_sets, ng),
                    mechanism="%s.eval_rho_full:rows!=nfeat[%s]" % (type(p).__name__, NLDF_CLS[ver]),
                    detail={"kwargs": kwn, "feat": list(feat.shape), "dfeat": list(dfeat.shape), "nfeat": ns_.nfeat})
        vf = p.eval_vxc_full(rng.normal(size=feat.shape), np.zeros_like(rd), dfeat, rd, spin=nspin - 1)
        rec.require("generator_rows[NLDFPlan.eval_vxc_full]", vf.shape == fq.shape, mechanism="%s.eval_vxc_full:shape[%s]" % (type(p).__name__, NLDF_CLS[ver]),
                    detail={"vf": list(vf.shape), "f": list(fq.shape)})
        rec.tag("generator", "%s.eval_rho_full[%s]" % (type(p).__name__, NLDF_CLS[ver]))
        rec.nontrivial("gen|nldfplan|%d" % j)
        if sample is None:
            sample = {"oracle": "generator rows", "FracLaplSettings": kw, "fl_feat_shape": list(f.shape), "nldf": kwn, "nldf_feat_shape": list(feat.shape)}
    rec.set_sample(sample)


# ----------------------------------------------------------------------------------------------------------------
# molecule-level builders shared by the bookkeeping, exponent and ASan drivers
# ----------------------------------------------------------------------------------------------------------------
def _build_e2e(cfg, rng, lmax=None, nldf_extra=None):
    """(mol, model, ks): synthetic model of cfg['family'] wrapped into a CIDER Kohn-Sham object; optional CiderGrids lmax and
    extra keyword arguments for PyscfNLDFGenerator.from_mol_and_settings."""
    from vlib import gen
    mol = gen.make_mol(cfg["mol"], cfg.get("basis", "sto-3g"), rng, jitter=0.03)
    model = gen.build_model(cfg, rng)
    nk = {}
    for a, b in (("plan_type", "plan_type"), ("interp", "interpolator_type"), ("aux_lambd", "aux_lambd")):
        if cfg.get(a):
            nk[b] = cfg[a]
    nk.update(nldf_extra or {})
    if lmax is None:
        ks = gen.make_ks(mol, model, spin=cfg.get("spin", "rks"), level=cfg.get("level", 0), nldf_kwargs=nk or None)
        return mol, model, ks
    import pyscf.dft.gen_grid as gg
    from pyscf import dft

    from ciderpress.pyscf.dft import make_cider_calc
    from ciderpress.pyscf.gen_cider_grid import CiderGrids
    from ciderpress.pyscf.nldf_convolutions import PySCFNLDFInitializer
    ks = dft.RKS(mol) if cfg.get("spin", "rks") == "rks" else dft.UKS(mol)
    ks.grids.level = cfg.get("level", 0)
    init = PySCFNLDFInitializer(model.settings.nldf_settings, **nk) if model.settings.has_nldf else None
    ks = make_cider_calc(ks, model, xmix=1.0, nldf_init=init)
    g = CiderGrids(mol, lmax=lmax)
    g.level = cfg.get("level", 0)
    g.prune = gg.nwchem_prune
    ks.grids = g
    ks.build()
    ks.grids.build(with_non0tab=True)
    return mol, model, ks


def _dms(mol, rng, nspin, nset):
    from vlib import gen
    if nset == 1:
        return gen.psd_dm(mol, rng, nspin)
    ds = [gen.psd_dm(mol, rng, nspin) for _ in range(nset)]
    return np.stack(ds) if nspin == 1 else np.stack(ds, axis=1)


def _nr(ks, dm, nspin, max_memory=2000):
    ni = ks._numint
    if nspin == 1:
        return ni.nr_rks(ks.mol, ks.grids, ks.xc, dm, max_memory=max_memory)
    return ni.nr_uks(ks.mol, ks.grids, ks.xc, dm, max_memory=max_memory)


def _generator_rows(rec, mol, model, ks, dm1, nspin, rng, tagpfx=""):
    """Row counts of the real generators held by the integrator after a nr_rks / nr_uks call (dm1: one density matrix set)."""
    from pyscf.dft import numint as pn
    ni = ks._numint
    settings = model.settings
    out = {}
    if getattr(ni, "nldfgen", None) is not None:
        g = ni.nldfgen
        lev = settings.nldf_settings.sl_level
        ao = pn.eval_ao(mol, ks.grids.coords, deriv=1)
        for s in range(nspin):
            d = dm1 if nspin == 1 else dm1[s]
            rho = pn.eval_rho(mol, ao, d, xctype=lev, with_lapl=False)
            rho[:, ks.grids.weights == 0] = 0.0
            f = g.get_features(rho, spin=s)
            cname = type(settings.nldf_settings).__name__
            rec.require("generator_rows[PyscfNLDFGenerator]", f.shape == (settings.nldf_settings.nfeat, ks.grids.weights.size),
                        mechanism="PyscfNLDFGenerator.get_features:rows!=nfeat[%s]" % cname,
                        detail={"shape": list(f.shape), "nfeat": settings.nldf_settings.nfeat, "ngrids": int(ks.grids.weights.size)})
            p = g.get_potential(rng.normal(size=f.shape) * ks.grids.weights, spin=s)
            rec.require("generator_rows[PyscfNLDFGenerator.get_potential]", p.shape == rho.shape,
                        mechanism="PyscfNLDFGenerator.get_potential:shape[%s]" % cname, detail={"shape": list(p.shape), "rho": list(rho.shape)})
            out["nldf"] = list(f.shape)
        rec.tag("generator", tagpfx + "PyscfNLDFGenerator.get_features[%s,%s]" % (type(settings.nldf_settings).__name__, type(g.plan).__name__))
    if getattr(ni, "sdmxgen", None) is not None:
        coords = np.ascontiguousarray(ks.grids.coords[: int(rng.choice([1, 57, 300]))])
        f = np.asarray(ni.sdmxgen.get_features(dm1, mol, coords))
        want = (settings.sdmx_settings.nfeat, coords.shape[0]) if nspin == 1 else (2, settings.sdmx_settings.nfeat, coords.shape[0])
        rec.require("generator_rows[EXXSphGenerator]", f.shape == want, mechanism="EXXSphGenerator.get_features:rows!=nfeat[%s]" % type(settings.sdmx_settings).__name__,
                    detail={"shape": list(f.shape), "want": list(want)})
        rec.tag("generator", tagpfx + "EXXSphGenerator.get_features[%s]" % type(settings.sdmx_settings).__name__)
        out["sdmx"] = list(f.shape)
    return out


def _drive_e2e(rec, cfg, rng, key, lmax=None):
    """One accepted end-to-end call (+ batched / blocked variants) and the generator row oracles.  Returns sample dict."""
    from vlib import boot
    nspin = 1 if cfg["spin"] == "rks" else 2
    for k in ("family", "spin", "mol", "basis", "level", "plan_type", "interp", "mode", "evaluator", "max_memory", "nset", "aux_lambd"):
        if cfg.get(k) is not None:
            rec.tag("e2e_" + k, cfg[k])
    if lmax is not None:
        rec.tag("grids_lmax", lmax)
    c0 = sum(boot.counters().values())
    try:
        mol, model, ks = _build_e2e(cfg, rng, lmax=lmax)
        rec.tag("natm", mol.natm)
        dm = _dms(mol, rng, nspin, int(cfg.get("nset", 1)))
        if cfg.get("prune_thr"):
            # density pruning (ks.small_rho_cutoff > 0 does this in the first SCF cycle): the grid in use is then a subset of
            # the atom-ordered grid the indexer was built for - added after a seeded change that sized per-atom spline
            # arrays from the unpruned bookkeeping
            from pyscf.dft import numint as pn
            dmt = dm if int(cfg.get("nset", 1)) == 1 else (dm[0] if nspin == 1 else dm[:, 0])
            dtot = dmt if nspin == 1 else dmt[0] + dmt[1]
            rho = pn.eval_rho(mol, pn.eval_ao(mol, ks.grids.coords), dtot, xctype="LDA")
            n0 = ks.grids.weights.size
            ks.grids.prune_by_density_(rho, float(cfg["prune_thr"]))
            rec.tag("e2e_density_pruned", "%s" % ("yes" if ks.grids.weights.size < n0 else "no-points-dropped"))
        n, e, v = _nr(ks, dm, nspin, max_memory=cfg.get("max_memory", 2000))
        if cfg.get("prune_thr") and model.settings.has_nldf and not model.settings.has_sdmx and int(cfg.get("nset", 1)) == 1:
            from ciderpress.pyscf import rks_grad, uks_grad
            gmod = rks_grad if nspin == 1 else uks_grad
            eg, vg = gmod.get_vxc_full_response(ks._numint, mol, ks.grids, ks.xc, dm)
            rec.require("e2e_finite", bool(np.all(np.isfinite(vg)) and np.all(np.isfinite(eg))), mechanism="get_vxc_full_response:nonfinite[pruned-grid]")
    except Exception as ex:  # noqa: BLE001 - an admissible call that raises is outside C18: the sub-case is not conclusive
        rec.note("valid_call_raised[%s]" % key, "%s: %s" % (type(ex).__name__, str(ex)[:300]))
        rec.set_inconclusive("admissible end-to-end call raised %s (%s)" % (type(ex).__name__, key))
        return None
    nset = int(cfg.get("nset", 1))
    v = np.asarray(v)
    nao = mol.nao
    want = {(1, 1): (nao, nao), (2, 1): (2, nao, nao)}.get((nspin, nset), (nset, nao, nao) if nspin == 1 else (2, nset, nao, nao))
    rec.require("e2e_vmat_shape", v.shape == want, mechanism="nr_%s:vmat-shape[nset=%s]" % (cfg["spin"], "1" if nset == 1 else ">1"),
                detail={"got": list(v.shape), "want": list(want)})
    rec.require("e2e_finite", bool(np.all(np.isfinite(v)) and np.all(np.isfinite(np.asarray(e, dtype=float)))),
                mechanism="nr_%s:nonfinite[%s]" % (cfg["spin"], cfg["family"]))
    dm1 = dm if nset == 1 else (dm[0] if nspin == 1 else dm[:, 0])
    rows = _generator_rows(rec, mol, model, ks, dm1, nspin, rng)
    fs = model.settings
    rec.require("model_nfeat", int(model.nfeat) == int(fs.nfeat) == int(fs.normalizers.nfeat), mechanism="MappedXC:nfeat!=settings.nfeat")
    if sum(boot.counters().values()) > c0:
        rec.nontrivial(key)
    return {"cfg": cfg, "excsum": np.atleast_1d(np.asarray(e, dtype=float)).tolist(), "ngrids": int(ks.grids.weights.size), "generator_shapes": rows,
            "settings_nfeat": int(fs.nfeat)}


def _sdmx_generators(rec, rng, n, keypfx, mols=None):
    """EXXSphGenerator (fast and slow implementation) for every SDMX settings class, nspin 1/2, 2-D and batched dm."""
    from ciderpress.pyscf import sdmx as sdmx_fast
    from ciderpress.pyscf import sdmx_slow
    from vlib import gen
    sample = None
    for j in range(n + 1):
        kind = SDMX_KINDS[j % len(SDMX_KINDS)]
        kw = _kw_sdmx(kind, rng)
        if j == n:
            # the documented fourth count (H^1d terms) without any H^1 term: EXXSphGenerator.has_l1 looks at n1terms only
            kind = "sdmxfull"
            pw = _pows(rng)
            kw = {"settings_dict": {_pick(rng, [1.0, 1.5, 2.0]): (pw, [int(rng.integers(0, len(pw) + 1)), int(rng.integers(0, len(pw) + 1)), 0, int(rng.integers(1, len(pw) + 1))])}}
        s = _mk_sdmx(kind, kw)
        variant = ""
        if kind == "sdmxfull" and s.n1terms == 0 and s.n1dterms > 0:
            variant = ":n1d-terms-without-n1-terms"
        nspin = 1 + (j // len(SDMX_KINDS) + j) % 2
        mname = (mols or ["HF", "He", "LiH"] if nspin == 1 else mols or ["NH2", "Li", "H"])[j % 3]
        mol = gen.make_mol(mname, _pick(rng, ["sto-3g", "6-31g"]), rng, jitter=0.03)
        dm = gen.psd_dm(mol, rng, nspin)
        ng = int(rng.choice([1, 2, 5, 24, 57, 256]))
        coords = np.ascontiguousarray(rng.normal(size=(ng, 3)) * 1.5)
        for mod, mname2 in ((sdmx_fast, "fast"), (sdmx_slow, "slow")):
            want = (s.nfeat, ng) if nspin == 1 else (2, s.nfeat, ng)
            try:
                g = mod.EXXSphGenerator.from_settings_and_mol(s, nspin, mol)
                f = np.asarray(g.get_features(dm, mol, coords))
            except Exception as ex:  # noqa: BLE001 - a valid settings object for which the generator produces nothing
                rec.require("generator_rows[EXXSphGenerator]", False,
                            mechanism="EXXSphGenerator.get_features:raises-on-valid-settings[%s%s]" % (SDMX_CLS[kind], variant),
                            detail={"kwargs": str(kw), "implementation": mname2, "nfeat": int(s.nfeat), "exception": "%s: %s" % (type(ex).__name__, str(ex)[:160])})
                continue
            rec.require("generator_rows[EXXSphGenerator]", f.shape == want, mechanism="EXXSphGenerator[%s].get_features:rows!=nfeat[%s]" % (mname2, SDMX_CLS[kind]),
                        detail={"kwargs": str(kw), "shape": list(f.shape), "want": list(want)})
            if mname2 == "fast":
                vm = np.zeros_like(dm)
                g.get_vxc_(vm, rng.normal(size=f.shape))
                if nspin == 1:
                    dmb = np.stack([dm, dm * 0.5, dm])
                    fb = np.asarray(g.get_features(dmb, mol, coords))
                    rec.require("generator_rows[EXXSphGenerator,batched]", fb.shape == (3, s.nfeat, ng),
                                mechanism="EXXSphGenerator[fast].get_features:rows!=nfeat[batched,%s]" % SDMX_CLS[kind], detail={"shape": list(fb.shape)})
            rec.tag("generator", "EXXSphGenerator[%s].get_features[%s]" % (mname2, SDMX_CLS[kind]))
        rec.tag("sdmx_ngrids", ng)
        rec.nontrivial("%s|%s|%d" % (keypfx, kind, j))
        if sample is None:
            sample = {"oracle": "EXXSphGenerator rows", "class": SDMX_CLS[kind], "kwargs": str(kw), "nspin": nspin, "mol": mname, "shape": list(f.shape)}
    return sample


def _analyzer(rng, spin, mname=None, level=0):
    import contextlib
    import io

    from ciderpress.pyscf.analyzers import RHFAnalyzer, UHFAnalyzer
    from vlib import gen
    mname = mname or _pick(rng, ["HF", "LiH", "He"] if spin == "rhf" else ["NH2", "Li", "OH-"])
    mol = gen.make_mol(mname, "sto-3g", rng, jitter=0.03)
    dm = gen.psd_dm(mol, rng, 1 if spin == "rhf" else 2)
    with contextlib.redirect_stdout(io.StringIO()):
        ana = (RHFAnalyzer if spin == "rhf" else UHFAnalyzer)(mol, dm, grids_level=level)
    return mname, ana


def _descriptors(rec, rng, spin, n, keypfx, with_orbs=False):
    """ciderpress.pyscf.descriptors.get_descriptors with a prepared analyzer (never perform_full_analysis)."""
    import contextlib
    import io

    from ciderpress.pyscf.descriptors import get_descriptors
    st = _st()
    mname, ana = _analyzer(rng, spin)
    nsp = 1 if spin == "rhf" else 2
    ng = ana.grids.weights.size
    sample = None
    kinds = ["sl", "nldf", "fl", "sdmx", "nldf", "sdmx"]
    for j in range(n):
        kind = kinds[j % len(kinds)]
        kwargs = {}
        if kind == "sl":
            s = st.SemilocalSettings(["nst", "npa", "ns", "np"][j % 4])
            label = "SemilocalSettings"
        elif kind == "nldf":
            ver = ["j", "i", "k", "ij"][(j // 2) % 4]
            s = _mk_nldf(ver, _kw_nldf(ver, rng))
            kwargs = {"inner_grids_level": 0, "plan_type": _pick(rng, ["gaussian", "spline"]), "lmax": int(_pick(rng, [4, 6, 10]))}
            label = NLDF_CLS[ver]
        elif kind == "fl":
            s = st.FracLaplSettings(**_kw_fl(rng))
            label = "FracLaplSettings"
        else:
            k2 = SDMX_KINDS[(j // 2) % len(SDMX_KINDS)]
            s = _mk_sdmx(k2, _kw_sdmx(k2, rng))
            label = SDMX_CLS[k2]
        try:
            with contextlib.redirect_stdout(io.StringIO()):
                d = get_descriptors(ana, s, **kwargs)
        except Exception as ex:  # noqa: BLE001
            if label == "SDMXFullSettings" and s.n1terms == 0 and s.n1dterms > 0:
                rec.require("generator_rows[EXXSphGenerator]", False,
                            mechanism="EXXSphGenerator.get_features:raises-on-valid-settings[SDMXFullSettings:n1d-terms-without-n1-terms]",
                            detail={"via": "get_descriptors", "exception": "%s: %s" % (type(ex).__name__, str(ex)[:160])})
                continue
            rec.note("valid_call_raised[%s|%d]" % (label, j), "%s: %s" % (type(ex).__name__, str(ex)[:300]))
            rec.set_inconclusive("get_descriptors raised %s for valid %s" % (type(ex).__name__, label))
            continue
        rec.require("generator_rows[get_descriptors]", d.shape == (nsp, s.nfeat, ng), mechanism="get_descriptors:rows!=nfeat[%s]" % label,
                    detail={"shape": list(d.shape), "want": [nsp, int(s.nfeat), int(ng)], "kwargs": str(kwargs)})
        rec.tag("generator", "get_descriptors[%s,%s]" % (label, spin))
        rec.nontrivial("%s|%s|%d" % (keypfx, label, j))
        if sample is None and kind != "sl":
            sample = {"oracle": "get_descriptors rows", "mol": mname, "analyzer": spin, "settings": label, "shape": list(d.shape), "nfeat": int(s.nfeat)}
    return sample


def _run_book_gen_mol(case, rec, rng):
    sub = case["sub"]
    if sub == "nldf":
        sample = None
        for j, cfg in enumerate(case["cfgs"]):
            s = _drive_e2e(rec, cfg, rng, "e2e|%d|%s|%s" % (j, cfg["family"], cfg["spin"]))
            sample = sample or s
        rec.set_sample(sample)
    elif sub == "sdmx":
        rec.set_sample(_sdmx_generators(rec, rng, case["n"], "sdmxgen"))
    else:
        rec.set_sample(_descriptors(rec, rng, case["spin"], case["n"], "desc"))


# ----------------------------------------------------------------------------------------------------------------
# (ii) rejection engine
# ----------------------------------------------------------------------------------------------------------------
def _snap():
    """Call counters of the C entry points that consume array arguments (pure getters such as get_atco_nao, which the
    wrappers call while VALIDATING, and destructors, which run whenever the GC decides, are not 'entering C with the value')."""
    from vlib import boot
    return {k: v for k, v in boot.counters().items() if "@fnptr" not in k and not k.split(".")[-1].startswith(("get_", "free_"))}


def _attempt(build, uses):
    """Run constructor + uses.  Returns dict(outcome, stage, exc, msg, entered) where entered = C entry points whose
    counter moved inside the stage that raised (destructors excluded: they run whenever the GC decides)."""
    stage = "ctor"
    before = _snap()
    try:
        obj = build()
        for name, fn in uses:
            stage = name
            before = _snap()
            fn(obj)
    except Exception as e:  # noqa: BLE001 - any Exception subclass is a rejection
        after = _snap()
        entered = sorted(k for k in after if after[k] != before.get(k, 0))
        return {"outcome": "rejected", "stage": stage, "exc": type(e).__name__, "msg": str(e)[:160], "entered": entered}
    return {"outcome": "accepted", "stage": None, "exc": None, "msg": "", "entered": []}


def _judge(rec, cls, kind, valid, invalid, key, before_c=True, assert_=True, detail=None):
    """valid / invalid = (build, uses).  Decides one corruption sub-case by the acceptance rule."""
    detail = dict(detail) if isinstance(detail, dict) else {"arguments": detail}
    base = _attempt(*valid)
    if not rec.require("valid_base_accepted", base["outcome"] == "accepted", mechanism="%s:rejects-valid-arguments" % cls,
                       detail=dict(detail, kind=kind, stage=base["stage"], exc=base["exc"], msg=base["msg"])):
        return None
    r = _attempt(*invalid)
    ans = "ACCEPTED" if r["outcome"] == "accepted" else "%s@%s" % (r["exc"], r["stage"])
    if not assert_:
        rec.tag("observation", "%s:%s=%s" % (cls, kind, ans))
        return r
    rec.tag("answer", "%s:%s=%s" % (cls, kind, ans))
    rec.tag("corrupted_class", cls)
    rec.tag("corruption_kind", kind)
    rec.require("rejected[%s]" % kind.split(":")[0], r["outcome"] == "rejected", mechanism="%s:accepts-%s" % (cls, kind),
                detail=dict(detail, note="constructor and every consuming use returned normally"))
    if r["outcome"] == "rejected":
        rec.tag("rejection_exception", r["exc"])
        rec.tag("rejection_stage", "constructor" if r["stage"] == "ctor" else "first use")
        if before_c:
            rec.require("rejected_before_C", not r["entered"], mechanism="%s:enters-C-before-rejecting-%s" % (cls, kind),
                        detail=dict(detail, entered=r["entered"], exc=r["exc"], stage=r["stage"]))
    rec.nontrivial(key)
    return r


def _settings_uses(extra=()):
    return [("nfeat", lambda s: s.nfeat), ("get_feat_usps", lambda s: s.get_feat_usps()), ("ueg_vector", lambda s: s.ueg_vector(0.37)),
            ("get_reasonable_normalizer", lambda s: s.get_reasonable_normalizer())] + list(extra)


# ---- corruptors of NLDF keyword sets: (kw, rng, ver) -> bad kw | (valid kw, bad kw) | None -----------------------
def _level_n(kw):
    return 3 if kw["sl_level"] == "MGGA" else 2


def _c_field(field, values):
    def f(kw, rng, ver):
        kw[field] = _pick(rng, values)
        return kw
    return f


def _bad_param_list(p, op, kw, rng):
    p = list(p)
    if op == "too-few":
        return p[:-1] if len(p) == _level_n(kw) else p[: _level_n(kw) - 1]
    if op == "too-many":
        return p + ([0.5] if kw["sl_level"] == "MGGA" else [0.5, 0.5])  # GGA: the docs allow tau_mul to be present
    if op == "empty":
        return []
    if op == "a0-zero":
        p[0] = 0.0
    elif op == "a0-negative":
        p[0] = -abs(p[0])
    elif op == "grad_mul-negative":
        p[1] = -float(rng.uniform(0.01, 0.1))
    elif op == "tau_mul-negative":
        if kw["sl_level"] != "MGGA":
            return None
        p[2] = -float(rng.uniform(0.01, 0.05))
    return p


def _c_theta(op):
    def f(kw, rng, ver):
        p = _bad_param_list(kw["theta_params"], op, kw, rng)
        if p is None:
            return None
        kw["theta_params"] = p
        return kw
    return f


def _c_fparams(op):
    def f(kw, rng, ver):
        fp, fs = NLDF_FIELDS[ver]["params"], NLDF_FIELDS[ver].get("specs")
        k = int(rng.integers(len(kw[fp])))
        if fs is not None and kw[fs][k] == "se_erf_rinv" and op in ("too-few",):
            kw[fs][k] = "se"
            kw[fp][k] = kw[fp][k][:-1]
        good = copy.deepcopy(kw)
        p = kw[fp][k]
        erf = fs is not None and kw[fs][k] == "se_erf_rinv"
        core = p[:-1] if erf else p
        bad = _bad_param_list(core, op, kw, rng)
        if bad is None:
            return None
        if erf and op == "too-many":
            bad = list(p) + bad[len(core):]  # keep erf_mul, then the surplus entries
        elif erf and op != "empty":
            bad = bad + [p[-1]]
        kw[fp][k] = bad
        return good, kw
    return f


def _c_erf_without_mul(kw, rng, ver):
    fp, fs = NLDF_FIELDS[ver]["params"], NLDF_FIELDS[ver]["specs"]
    k = int(rng.integers(len(kw[fp])))
    if kw[fs][k] != "se_erf_rinv":
        kw[fs][k] = "se_erf_rinv"
        kw[fp][k] = kw[fp][k][: _level_n(kw)] + [float(rng.uniform(0.5, 3.0))]
    good = copy.deepcopy(kw)
    kw[fp][k] = kw[fp][k][:-1]
    return good, kw


def _c_nsets(delta):
    def f(kw, rng, ver):
        fp = NLDF_FIELDS[ver]["params"]
        if delta > 0:
            kw[fp] = kw[fp] + [_params(rng, kw["sl_level"])]
        else:
            kw[fp] = kw[fp][:-1]
        return kw
    return f


def _c_spec(which, values):
    def f(kw, rng, ver):
        fld = NLDF_FIELDS[ver][which]
        k = int(rng.integers(len(kw[fld])))
        kw[fld] = list(kw[fld])
        kw[fld][k] = _pick(rng, values)
        return kw
    return f


def _c_dots(op, field=None, nfield=None):
    def f(kw, rng, ver):
        fld = field or NLDF_FIELDS[ver]["dots"]
        n = len(kw[NLDF_FIELDS[ver]["l1"]]) if nfield is None else int(kw[nfield])
        lo = -1
        other = int(rng.integers(lo, n)) if n > 0 else -1
        bad = {"index-too-large": (n, other), "index-below-minus-one": (other, -2), "triple": (other, other, other),
               "single": (other,), "not-a-sequence": other}[op]
        if op in ("index-too-large", "index-below-minus-one") and rng.random() < 0.5:
            bad = bad[::-1]
        dots = list(kw[fld])
        pos = int(rng.integers(len(dots) + 1))
        dots.insert(pos, bad)
        kw[fld] = dots
        return kw
    return f


UNKNOWN_SPECS = ["se_foo", "SE", "gauss", "", "se_r", "erf", "se-ar2"]
PARAM_OPS = ["too-few", "too-many", "a0-zero", "a0-negative", "grad_mul-negative", "tau_mul-negative"]


def _nldf_catalogue():
    out = []
    for ver in ("i", "j", "ij", "k"):
        ents = [("unknown-sl_level", _c_field("sl_level", ["LDA", "mgga", "gga", "", "HYB", "MGGA "])),
                ("unknown-rho_mult", _c_field("rho_mult", ["two", "One", "rho", "", "exp", "EXPNT"])),
                ("theta_params:empty", _c_theta("empty"))]
        ents += [("theta_params:" + op, _c_theta(op)) for op in PARAM_OPS]
        if ver in ("j", "ij", "k"):
            ents += [("feat_params:" + op, _c_fparams(op)) for op in PARAM_OPS]
        if ver in ("j", "ij"):
            ents += [("feat_params:erf_rinv-without-erf_mul", _c_erf_without_mul),
                     ("feat_params:more-sets-than-specs", _c_nsets(+1)), ("feat_params:fewer-sets-than-specs", _c_nsets(-1)),
                     ("unknown-spec[feat_specs]", _c_spec("specs", UNKNOWN_SPECS)),
                     ("spec-of-other-family[feat_specs]", _c_spec("specs", ["se_r2", "se_grad", "se_lapl", "se_rvec", "se_ap"]))]
        if ver in ("i", "ij"):
            ents += [("unknown-spec[l0_feat_specs]", _c_spec("l0", UNKNOWN_SPECS)), ("unknown-spec[l1_feat_specs]", _c_spec("l1", UNKNOWN_SPECS)),
                     ("spec-of-other-family[l0_feat_specs]", _c_spec("l0", ["se_ar2", "se_grad", "se_erf_rinv", "se_rvec", "se_a2r4"])),
                     ("spec-of-other-family[l1_feat_specs]", _c_spec("l1", ["se", "se_r2", "se_erf_rinv", "se_lapl"]))]
            ents += [("l1_dots:" + op, _c_dots(op)) for op in ("index-too-large", "index-below-minus-one", "triple", "single", "not-a-sequence")]
        if ver == "k":
            ents += [("unknown-rho_damp", _c_field("rho_damp", ["gaussian", "Exponential", "", "exp", "linear"]))]
        for kind, cor in ents:
            out.append({"cls": NLDF_CLS[ver], "kind": kind, "make": _nldf_make(ver, cor)})
    return out


def _nldf_make(ver, cor):
    def make(rng):
        kw = _kw_nldf(ver, rng, safe=True)
        r = cor(copy.deepcopy(kw), rng, ver)
        if r is None:
            return None
        good, bad = r if isinstance(r, tuple) else (kw, r)
        uses = _settings_uses()
        return (lambda: _mk_nldf(ver, good), uses), (lambda: _mk_nldf(ver, bad), uses), {"valid": good, "corrupted": bad}
    return make


def _fl_plan_use(rng):
    def use(s):
        from ciderpress.dft import plans
        rho = np.abs(rng.normal(size=(1, 5 + s.nrho, 6))) + 0.1
        f = plans.FracLaplPlan(s, 1).get_feat(rho)
        assert f.shape[1] == s.nfeat
    return ("FracLaplPlan.get_feat", use)


def _other_settings_catalogue():
    st = _st
    out = []

    def ent(cls, kind, make, assert_=True):
        out.append({"cls": cls, "kind": kind, "make": make, "assert": assert_})

    def sl_make(rng):
        mode = _pick(rng, ["nst", "npa", "ns", "np"])
        bad = _pick(rng, ["abc", "NPA", "mgga", "", "n", "npat", None])
        return (lambda: st().SemilocalSettings(mode), _settings_uses()), (lambda: st().SemilocalSettings(bad), _settings_uses()), {"mode": bad}
    ent("SemilocalSettings", "unknown-mode", sl_make)

    def sadm_make(rng):
        bad = _pick(rng, ["abc", "Smooth", "", "gauss", None])
        return (lambda: st().SADMSettings("smooth"), _settings_uses()), (lambda: st().SADMSettings(bad), _settings_uses()), {"mode": bad}
    ent("SADMSettings", "unknown-mode", sadm_make)

    def fl_make(cor, eq_nd1=False):
        def make(rng):
            kw = _kw_fl(rng, safe=True)
            if eq_nd1:
                kw["nd1"] = kw["nk1"]  # FracLaplPlan caches nk1 F^d vectors: keep the valid base inside what the plan supports
            bad = cor(copy.deepcopy(kw), rng)
            if bad is None:
                return None
            uses = _settings_uses([_fl_plan_use(rng)])
            return (lambda: st().FracLaplSettings(**kw), uses), (lambda: st().FracLaplSettings(**bad), uses), {"valid": kw, "corrupted": bad}
        return make

    def fl_count(field):
        def cor(kw, rng):
            kw[field] = (len(kw["slist"]) if field != "ndd" else kw["nd1"]) + int(rng.integers(1, 3))
            return kw
        return cor
    for f, name in (("nk0", "nk0>len(slist)"), ("nk1", "nk1>len(slist)"), ("nd1", "nd1>len(slist)"), ("ndd", "ndd>nd1")):
        ent("FracLaplSettings", name, fl_make(fl_count(f)))
    for op in ("index-too-large", "index-below-minus-one", "triple", "single", "not-a-sequence"):
        ent("FracLaplSettings", "l1_dots:" + op, fl_make(lambda kw, rng, op=op: _c_dots(op, field="l1_dots", nfield="nk1")(kw, rng, None)))
    for op in ("index-too-large", "index-below-minus-one", "triple", "single"):
        ent("FracLaplSettings", "ld_dots:" + op, fl_make(lambda kw, rng, op=op: _c_dots(op, field="ld_dots", nfield="nd1")(kw, rng, None), eq_nd1=True))

    def sdmx_make(kind, field):
        def make(rng):
            kw = _kw_sdmx(kind, rng)
            bad = dict(kw)
            bad[field] = len(kw["pows"]) + int(rng.integers(1, 3))
            return (lambda: _mk_sdmx(kind, kw), _settings_uses()), (lambda: _mk_sdmx(kind, bad), _settings_uses()), {"valid": kw, "corrupted": bad}
        return make
    ent("SDMXGSettings", "ndt>len(pows)", sdmx_make("sdmxg", "ndt"))
    ent("SDMX1Settings", "n1>len(pows)", sdmx_make("sdmx1", "n1"))
    ent("SDMXG1Settings", "nd>len(pows)", sdmx_make("sdmxg1", "nd"))
    ent("SDMXG1Settings", "n1>len(pows)", sdmx_make("sdmxg1", "n1"))

    def full_make(op):
        def make(rng):
            kw = _kw_sdmx("sdmxfull", rng)
            d = {k: (list(v[0]), list(v[1])) for k, v in kw["settings_dict"].items()}
            k = _pick(rng, sorted(d))
            if op == "ratio<1":
                d[float(rng.uniform(0.1, 0.95))] = d.pop(k)
            elif op == "count>len(pows)":
                d[k][1][int(rng.integers(4))] = len(d[k][0]) + 1
            elif op == "counts-not-length-4":
                d[k] = (d[k][0], d[k][1][:3] if rng.random() < 0.5 else d[k][1] + [0])
            elif op == "value-not-a-pair":
                d[k] = (d[k][0], d[k][1], 0) if rng.random() < 0.5 else (d[k][0],)
            bad = {"settings_dict": d}
            return (lambda: _mk_sdmx("sdmxfull", kw), _settings_uses()), (lambda: _mk_sdmx("sdmxfull", bad), _settings_uses()), {"corrupted": str(d)}
        return make
    for op in ("ratio<1", "count>len(pows)", "counts-not-length-4", "value-not-a-pair"):
        ent("SDMXFullSettings", op, full_make(op))

    # observations only (validity not documented): sign of erf_mul, negative counts
    def erf_make(rng):
        kw = _kw_nldf("j", rng, safe=True)
        good, bad = _c_erf_without_mul(copy.deepcopy(kw), rng, "j")
        bad = copy.deepcopy(good)
        k = bad["feat_specs"].index("se_erf_rinv")
        bad["feat_params"][k][-1] = -float(rng.uniform(0.2, 0.9)) if rng.random() < 0.5 else 0.0
        return (lambda: _mk_nldf("j", good), _settings_uses()), (lambda: _mk_nldf("j", bad), _settings_uses()), {}
    ent("NLDFSettingsVJ", "erf_mul<=0", erf_make, assert_=False)

    def neg_make(rng):
        kw = _kw_fl(rng, safe=True)
        bad = dict(kw, nk0=-1)
        return (lambda: st().FracLaplSettings(**kw), _settings_uses()), (lambda: st().FracLaplSettings(**bad), _settings_uses()), {}
    ent("FracLaplSettings", "nk0<0", neg_make, assert_=False)
    return out


def _run_catalogue(case, rec, rng, cat):
    sel = [e for i, e in enumerate(cat) if i % case["nparts"] == case["part"]]
    sample = None
    for e in sel:
        for rep in range(case["reps"]):
            made = e["make"](rng)
            if made is None:
                continue
            valid, invalid, detail = made
            r = _judge(rec, e["cls"], e["kind"], valid, invalid, "rej|%s|%s|%d" % (e["cls"], e["kind"], rep),
                       before_c=e.get("before_c", True), assert_=e.get("assert", True), detail=_short(detail))
            if sample is None and r is not None and e.get("assert", True):
                sample = {"oracle": "rejection", "class": e["cls"], "kind": e["kind"], "arguments": _short(detail),
                          "answer": "ACCEPTED" if r["outcome"] == "accepted" else "%s@%s: %s" % (r["exc"], r["stage"], r["msg"])}
    rec.set_sample(sample)


def _short(d):
    try:
        s = repr(d)
    except Exception:  # noqa: BLE001
        s = "<unprintable>"
    return s[:700]


def _run_rej_settings(case, rec, rng):
    _run_catalogue(case, rec, rng, _nldf_catalogue() + _other_settings_catalogue())


# ---- plans, normalisers, models (plain variant: every probe here is validated in Python before any C work) -------------
def _plan_uses(rng, level, feature=None):
    """Standard uses of an NLDF plan on admissible pointwise data: exponents and arguments -> coefficients."""
    rd = _pointwise(rng, 24, 1, level)[0]

    def exps(p):
        for i in ([feature] if feature is not None else range(-1, p.nldf_settings.num_feat_param_sets)):
            p.eval_feat_exp(p.get_rho_tuple(rd), i=i)

    def coefs(p):
        for i in ([feature] if feature is not None else range(-1, p.nldf_settings.num_feat_param_sets)):
            a = p.get_interpolation_arguments(p.get_rho_tuple(rd), i=i)[0]
            c, dc = p.get_interpolation_coefficients(a, i=i)
            assert np.all(np.isfinite(c))
    return [("eval_feat_exp", exps), ("get_interpolation_coefficients", coefs)]


def _sdmx_plan_use(rng):
    def use(p):
        from ciderpress.dft.plans import SDMXIntPlan
        na, ng = p.nalpha, 5
        nf, n0 = p.settings.nfeat, p.num_l0_feat
        pv = rng.normal(size=(4, na, ng))
        if isinstance(p, SDMXIntPlan):
            f = p.get_features(pv, out=np.empty((nf, ng)), l0tmp=np.empty((na, ng)), l1tmp=np.empty((3, na, ng)))
        else:
            f = p.get_features(pv, out=np.empty((nf, ng)), l0tmp=np.empty((n0, na, ng)), l1tmp=np.empty((nf - n0, 3, na, ng)))
        assert f.shape == (nf, ng)
    return [("get_features", use)]


def _plans_catalogue():
    from ciderpress.dft import plans
    st = _st()
    out = []

    def ent(cls, kind, make, **kw):
        out.append(dict({"cls": cls, "kind": kind, "make": make}, **kw))

    # NLDF auxiliary plans
    def nldf_make(pname, cor, feature_oob=False):
        def make(rng):
            ver = _pick(rng, ["j", "i", "ij", "k"])
            kws = _kw_nldf(ver, rng, safe=True)
            s = _mk_nldf(ver, kws)
            lambd = float(rng.choice([1.5, 1.7, 2.0]))
            kw = {"nldf_settings": s, "nspin": int(rng.integers(1, 3)), "alpha0": 0.004, "lambd": lambd,
                  "nalpha": int(np.ceil(np.log(2e5 / 0.004) / np.log(lambd))) + 1, "coef_order": _pick(rng, ["gq", "qg"]),
                  "alpha_formula": _pick(rng, ["etb", "zexp"]), "rhocut": 1e-10}
            pc = getattr(plans, pname)
            uses = _plan_uses(rng, kws["sl_level"])
            if feature_oob:
                bad_i = s.num_feat_param_sets if rng.random() < 0.7 else -2
                return (lambda: pc(**kw), uses), (lambda: pc(**kw), _plan_uses(rng, kws["sl_level"], feature=bad_i)), {"settings": NLDF_CLS[ver], "i": bad_i, "num_feat_param_sets": s.num_feat_param_sets}
            bad = cor(dict(kw), rng)
            return (lambda: pc(**kw), uses), (lambda: pc(**bad), uses), {k: v for k, v in bad.items() if k != "nldf_settings" or not isinstance(v, st.NLDFSettings)}
        return make
    plan_cors = [("lambd=1", lambda kw, rng: dict(kw, lambd=1.0)), ("lambd<1", lambda kw, rng: dict(kw, lambd=float(rng.uniform(0.1, 0.99)))),
                 ("lambd<=0", lambda kw, rng: dict(kw, lambd=-1.6 if rng.random() < 0.5 else 0.0)),
                 ("alpha0=0", lambda kw, rng: dict(kw, alpha0=0.0)), ("alpha0<0", lambda kw, rng: dict(kw, alpha0=-0.004)),
                 ("nalpha=0", lambda kw, rng: dict(kw, nalpha=0)), ("nalpha<0", lambda kw, rng: dict(kw, nalpha=-kw["nalpha"])),
                 ("nalpha-not-int", lambda kw, rng: dict(kw, nalpha=kw["nalpha"] + 0.5)),
                 ("nspin-not-1-or-2", lambda kw, rng: dict(kw, nspin=_pick(rng, [0, 3, -1, 4]))),
                 ("unknown-coef_order", lambda kw, rng: dict(kw, coef_order=_pick(rng, ["GQ", "xx", "", "qq"]))),
                 ("unknown-alpha_formula", lambda kw, rng: dict(kw, alpha_formula=_pick(rng, ["ETB", "exp", "", "linear"]))),
                 ("settings-not-NLDFSettings", lambda kw, rng: dict(kw, nldf_settings=_pick(rng, ["vj", None, st.SemilocalSettings("npa"), st.SDMXSettings([0, 1])]))),
                 ("negative-rhocut", lambda kw, rng: dict(kw, rhocut=-1e-10))]
    for pname in ("NLDFGaussianPlan", "NLDFSplinePlan"):
        for kind, cor in plan_cors:
            ent(pname, kind, nldf_make(pname, cor))
        ent(pname, "feature-index-out-of-range", nldf_make(pname, None, feature_oob=True))

    # SDMX-type plans
    def sdmx_plan_make(pname, cor):
        def make(rng):
            kind = {"SADMPlan": "sadm", "SDMXPlan": _pick(rng, ["sdmx", "sdmxg", "sdmx1", "sdmxg1"]), "SDMXFullPlan": "sdmxfull", "SDMXIntPlan": "sdmxfull"}[pname]
            kws = _kw_sdmx(kind, rng)
            if kind == "sadm":
                kws = {"mode": "smooth"}
            s = _mk_sdmx(kind, kws)
            kw = {"settings": s, "nspin": int(rng.integers(1, 3)), "alpha0": float(rng.uniform(0.005, 0.02)), "lambd": float(rng.choice([1.6, 1.8, 2.0])),
                  "nalpha": int(rng.integers(8, 14))}
            pc = getattr(plans, pname)
            bad = cor(dict(kw), rng)
            uses = _sdmx_plan_use(rng)
            return (lambda: pc(**kw), uses), (lambda: pc(**bad), uses), {k: v for k, v in bad.items() if k != "settings"}
        return make
    for pname in ("SADMPlan", "SDMXPlan", "SDMXFullPlan", "SDMXIntPlan"):
        for kind, cor in plan_cors[:8]:
            ent(pname, kind, sdmx_plan_make(pname, cor))

    def sadm_metric(rng):
        kw = {"settings": st.SADMSettings("exact"), "nspin": 1, "alpha0": 0.01, "lambd": 1.8, "nalpha": 10}
        bad = dict(kw, fit_metric=_pick(rng, ["xx", "OVLP", "", "coulomb"]))
        return (lambda: plans.SADMPlan(fit_metric=_pick(rng, ["ovlp", "coul"]), **kw), _sdmx_plan_use(rng)), (lambda: plans.SADMPlan(**bad), _sdmx_plan_use(rng)), {"fit_metric": bad["fit_metric"]}
    ent("SADMPlan", "unknown-fit_metric", sadm_metric)

    # semilocal plan
    def sl_mode(rng):
        mode = _pick(rng, ["nst", "npa", "ns", "np"])
        nspin = int(rng.integers(1, 3))
        rd = _pointwise(rng, 9, nspin, "MGGA")
        uses = [("get_feat", lambda p: p.get_feat(rd))]

        def bad():
            s = st.SemilocalSettings(mode)
            s.mode = _pick(rng, ["abc", "NPA", "", "nsta"])
            return plans.SemilocalPlan(s, nspin)
        return (lambda: plans.SemilocalPlan(st.SemilocalSettings(mode), nspin), uses), (bad, uses), {"mode": mode}
    ent("SemilocalPlan", "unknown-mode", sl_mode)

    def sl_rows(op):
        def make(rng):
            mode = _pick(rng, {"mgga": ["nst", "npa"], "gga": ["ns", "np"], "2d": ["nst", "npa", "ns", "np"]}[op])
            nspin = int(rng.integers(1, 3))
            rd = _pointwise(rng, 9, nspin, "MGGA")
            bad = rd[0] if op == "2d" else rd[:, : int(rng.integers(1, 5 if op == "mgga" else 4))]
            bad = np.ascontiguousarray(bad)
            return ((lambda: plans.SemilocalPlan(st.SemilocalSettings(mode), nspin), [("get_feat", lambda p: p.get_feat(rd))]),
                    (lambda: plans.SemilocalPlan(st.SemilocalSettings(mode), nspin), [("get_feat", lambda p: p.get_feat(bad))]),
                    {"mode": mode, "rho_shape": list(bad.shape)})
        return make
    ent("SemilocalPlan.get_feat", "rho-with-too-few-rows[MGGA]", sl_rows("mgga"))
    ent("SemilocalPlan.get_feat", "rho-with-too-few-rows[GGA]", sl_rows("gga"))
    ent("SemilocalPlan.get_feat", "rho-without-spin-axis", sl_rows("2d"))

    # fractional-Laplacian plan
    def fl_rows(op):
        def make(rng):
            kw = _kw_fl(rng, safe=True)
            s = st.FracLaplSettings(**kw)
            nspin = int(rng.integers(1, 3))
            n = 5 + s.nrho
            good = rng.normal(size=(nspin, n, 6))
            vgood = rng.normal(size=(nspin, s.nfeat, 6))
            mk = lambda: plans.FracLaplPlan(s, nspin)  # noqa: E731
            ok = [("get_feat", lambda p: p.get_feat(good)), ("get_vxc", lambda p: p.get_vxc(vgood))]
            if op == "rows-1":
                badu = [("get_feat", lambda p: p.get_feat(np.ascontiguousarray(good[:, :-1])))]
            elif op == "rows+1":
                badu = [("get_feat", lambda p: p.get_feat(rng.normal(size=(nspin, n + 1, 6))))]
            elif op == "nspin":
                badu = [("get_feat", lambda p: p.get_feat(rng.normal(size=(3 - nspin, n, 6)) if nspin == 1 else good[:1]))]
            elif op == "feat-buffer":
                badu = [("get_feat", lambda p: p.get_feat(good, feat=np.empty((nspin, s.nfeat + int(rng.choice([-1, 1])), 6))))]
            else:
                badu = [("get_feat", lambda p: p.get_feat(good)), ("get_vxc", lambda p: p.get_vxc(rng.normal(size=(nspin, s.nfeat + int(rng.choice([-1, 1])), 6))))]
            return (mk, ok), (mk, badu), {"settings": kw, "nspin": nspin}
        return make
    for op, kind in (("rows-1", "rho-with-too-few-rows"), ("rows+1", "rho-with-too-many-rows"), ("nspin", "rho-with-wrong-spin-count"),
                     ("feat-buffer", "feature-buffer-with-wrong-nfeat"), ("vfeat", "vfeat-with-wrong-nfeat")):
        ent("FracLaplPlan", kind, fl_rows(op))

    # normaliser lists, FeatureSettings, ModelWithNormalizer, feature maps
    def fs_base(rng):
        from vlib import gen
        fam = _pick(rng, ["vj-mgga", "vi-gga", "sdmxg", "vk-mgga", "sl-nst", "vij-mgga", "vj+sdmx"])
        fs = gen.family_settings(fam, rng)
        x = np.abs(rng.normal(size=(int(rng.integers(1, 3)), fs.nfeat, 7))) + 0.05
        return fam, fs, x

    def fnl_make(op):
        def make(rng):
            from ciderpress.dft.feat_normalizer import FeatNormalizerList
            fam, fs, x = fs_base(rng)
            norms = fs.get_reasonable_normalizer()
            mode = fs.sl_settings.mode
            good = lambda: FeatNormalizerList(norms, mode)  # noqa: E731
            ok = [("get_normalized_feature_vector", lambda l: l.get_normalized_feature_vector(x)),
                  ("get_derivative_wrt_unnormed_features", lambda l: l.get_derivative_wrt_unnormed_features(x, np.ones_like(x)))]
            if op == "slmode":
                bad_mode = _pick(rng, ["abc", "NPA", "mgga", "", "n", None])
                return (good, ok), (lambda: FeatNormalizerList(norms, bad_mode), ok), {"family": fam, "slmode": bad_mode}
            d = int(rng.choice([-1, 1]))
            xb = np.ascontiguousarray(x[:, :-1]) if d < 0 else np.concatenate([x, x[:, :1]], axis=1)
            if op == "x-nfeat":
                return (good, ok), (good, [("get_normalized_feature_vector", lambda l: l.get_normalized_feature_vector(xb))]), {"family": fam, "x": list(xb.shape), "nfeat": fs.nfeat}
            if op == "x-2d":
                return (good, ok), (good, [("get_normalized_feature_vector", lambda l: l.get_normalized_feature_vector(x[0]))]), {"family": fam}
            if op == "dx-nfeat":
                return (good, ok), (good, [("get_derivative_wrt_unnormed_features", lambda l: l.get_derivative_wrt_unnormed_features(x, np.ones_like(xb)))]), {"family": fam}
            if op == "dx-nsamp":
                return (good, ok), (good, [("get_derivative_wrt_unnormed_features", lambda l: l.get_derivative_wrt_unnormed_features(x, np.ones_like(x[:, :, :-2])))]), {"family": fam}
            raise ValueError(op)
        return make
    ent("FeatNormalizerList", "unknown-slmode", fnl_make("slmode"))
    ent("FeatNormalizerList", "feature-array-with-wrong-nfeat", fnl_make("x-nfeat"))
    ent("FeatNormalizerList", "feature-array-without-spin-axis", fnl_make("x-2d"))
    ent("FeatNormalizerList", "derivative-array-with-wrong-nfeat", fnl_make("dx-nfeat"))
    ent("FeatNormalizerList", "derivative-array-with-wrong-sample-count", fnl_make("dx-nsamp"))

    def fs_norm(delta):
        def make(rng):
            from ciderpress.dft.feat_normalizer import FeatNormalizerList
            fam, fs, x = fs_base(rng)
            norms = fs.get_reasonable_normalizer()
            mode = fs.sl_settings.mode
            bad_list = norms[:-1] if delta < 0 else norms + [None]
            mk = lambda nl: st.FeatureSettings(sl_settings=fs.sl_settings, nldf_settings=fs.nldf_settings, sdmx_settings=fs.sdmx_settings,  # noqa: E731
                                               normalizers=FeatNormalizerList(nl, mode))
            uses = [("get_feat_usps(with_normalizers)", lambda f: f.get_feat_usps(with_normalizers=True)),
                    ("ueg_vector(with_normalizers)", lambda f: f.ueg_vector(0.4, with_normalizers=True)),
                    ("normalizers.get_normalized_feature_vector", lambda f: f.normalizers.get_normalized_feature_vector(x))]
            return (lambda: mk(norms), uses), (lambda: mk(bad_list), uses), {"family": fam, "nfeat": fs.nfeat, "list_length": len(bad_list)}
        return make
    ent("FeatureSettings", "normalizer-list-shorter-than-nfeat", fs_norm(-1))
    ent("FeatureSettings", "normalizer-list-longer-than-nfeat", fs_norm(+1))

    def mwn(delta):
        def make(rng):
            from ciderpress.dft.feat_normalizer import FeatNormalizerList
            from ciderpress.dft.xc_evaluator import ModelWithNormalizer
            from vlib import gen
            fam, fs, x = fs_base(rng)
            model = gen.synth_model(fs, rng, evaluator="kernel", nctrl=4)
            norms = fs.get_reasonable_normalizer()
            bad_list = norms[:-1] if delta < 0 else norms + [None]
            return ((lambda: ModelWithNormalizer(model, FeatNormalizerList(norms, fs.sl_settings.mode)), []),
                    (lambda: ModelWithNormalizer(model, FeatNormalizerList(bad_list, fs.sl_settings.mode)), [("nfeat", lambda m: m.nfeat)]),
                    {"family": fam, "model_nfeat": fs.nfeat, "list_length": len(bad_list)})
        return make
    ent("ModelWithNormalizer", "normalizer-list-shorter-than-model", mwn(-1))
    ent("ModelWithNormalizer", "normalizer-list-longer-than-model", mwn(+1))

    def fmap(rng):
        from ciderpress.dft import baselines as bl
        from ciderpress.dft import transform_data as td
        from ciderpress.dft import xc_evaluator as xe
        from vlib import gen
        fam, fs, x = fs_base(rng)
        nf = fs.nfeat
        good_idx = list(range(1, nf))
        bad_idx = list(good_idx)
        bad_idx[int(rng.integers(len(bad_idx)))] = nf + int(rng.integers(0, 3))

        def mk(idx):
            fl = td.FeatureList([td.UMap(i, 0.4) for i in idx])
            ev = gen.rand_evaluator("kernel", fl.nfeat, rng, nctrl=5)
            return xe.MappedXC([xe.MappedDFTKernel([ev], fl, "SEP", bl.lda_x, bl.zero_xc)], fs)
        uses = [("__call__", lambda m: m(x))]
        return (lambda: mk(good_idx), uses), (lambda: mk(bad_idx), uses), {"family": fam, "nfeat": nf, "map_indices": bad_idx}
    ent("MappedXC", "feature-map-index-out-of-range", fmap)

    def mdk(rng):
        from ciderpress.dft import baselines as bl
        from ciderpress.dft import xc_evaluator as xe
        from vlib import gen
        fam, fs, x = fs_base(rng)
        fl = gen.rand_feature_list(fs, rng)
        ev = gen.rand_evaluator("kernel", fl.nfeat, rng, nctrl=5)
        bad_mode = _pick(rng, ["sep", "XYZ", "", "SPIN"])
        uses = [("__call__", lambda k: k(x))]
        return (lambda: xe.MappedDFTKernel([ev], fl, "SEP", bl.lda_x, bl.zero_xc), uses), (lambda: xe.MappedDFTKernel([ev], fl, bad_mode, bl.lda_x, bl.zero_xc), uses), {"mode": bad_mode}
    ent("MappedDFTKernel", "unknown-mode", mdk)
    return out


def _run_rej_plans(case, rec, rng):
    _run_catalogue(case, rec, rng, _plans_catalogue())


# ---- PyscfNLDFGenerator.from_mol_and_settings / PySCFNLDFInitializer --------------------------------------------------
def _grid_ctx(rng, mname, lmax, level=0, basis="sto-3g"):
    import pyscf.dft.gen_grid as gg
    from pyscf.dft import numint as pn

    from ciderpress.pyscf.gen_cider_grid import CiderGrids
    from vlib import gen
    mol = gen.make_mol(mname, basis, rng, jitter=0.03)
    g = CiderGrids(mol, lmax=lmax)
    g.level = level
    g.prune = gg.nwchem_prune
    g.build(with_non0tab=False)
    return mol, g, pn


def _real_rho(mol, g, pn, rng, level, nspin=1):
    from vlib import gen
    dm = gen.psd_dm(mol, rng, 1)
    ao = pn.eval_ao(mol, g.coords, deriv=1)
    rho = pn.eval_rho(mol, ao, dm / nspin, xctype=level, with_lapl=False)
    rho[:, g.weights == 0] = 0.0
    return np.ascontiguousarray(rho)


def _run_rej_mol(case, rec, rng):
    from ciderpress.pyscf.nldf_convolutions import PyscfNLDFGenerator, PySCFNLDFInitializer
    lmax = int(case["lmax"])
    mol, g, pn = _grid_ctx(rng, case["mol"], lmax)
    ind = g.grids_indexer
    nspin = int(case["nspin"])
    rec.tag("from_mol_route", case["route"])
    rec.tag("grids_lmax", lmax)
    sample = None
    kinds = [("unknown-plan_type", lambda r: {"plan_type": _pick(r, ["Gaussian", "xx", "", "splines"])}),
             ("unknown-interpolator_type", lambda r: {"interpolator_type": _pick(r, ["onsite", "xx", "", "direct"])}),
             ("unknown-alpha_formula", lambda r: {"alpha_formula": _pick(r, ["ETB", "xx", "", "exp"])}),
             ("lmax>grids_indexer.lmax", lambda r: {"lmax": lmax + int(r.integers(1, 4))}),
             ("aux_lambd=1", lambda r: {"aux_lambd": 1.0}),
             ("aux_lambd<1", lambda r: {"aux_lambd": float(r.uniform(0.2, 0.95))}),
             ("nspin-not-1-or-2", None)]
    for j, (kind, cor) in enumerate(kinds):
        ver = ["j", "i", "k", "ij"][(j + case["idx"]) % 4]
        kws = _kw_nldf(ver, rng, safe=True)
        s = _mk_nldf(ver, kws)
        good = {"plan_type": _pick(rng, ["gaussian", "spline"]), "interpolator_type": _pick(rng, ["onsite_direct", "onsite_spline"]),
                "lmax": int(rng.integers(2, lmax + 1))}
        bad = dict(good)
        ns_bad = nspin
        if cor is None:
            ns_bad = int(_pick(rng, [0, 3, -1]))
        else:
            bad.update(cor(rng))
        rho = _real_rho(mol, g, pn, rng, kws["sl_level"], nspin)

        def use(gen_):
            gen_.interpolator.set_coords(g.coords)
            f = gen_.get_features(rho)
            assert f.shape[0] == s.nfeat

        def mk(kw, ns):
            if case["route"] == "classmethod":
                return lambda: PyscfNLDFGenerator.from_mol_and_settings(mol, ind, ns, s, **kw)
            return lambda: PySCFNLDFInitializer(s, **kw).initialize_nldf_generator(mol, ind, ns)
        r = _judge(rec, "PyscfNLDFGenerator.from_mol_and_settings", kind, (mk(good, nspin), [("get_features", use)]),
                   (mk(bad, ns_bad), [("get_features", use)]), "rejmol|%s|%d" % (kind, j), detail={"settings": NLDF_CLS[ver], "kwargs": bad, "nspin": ns_bad})
        if sample is None and r is not None:
            sample = {"oracle": "rejection", "class": "PyscfNLDFGenerator.from_mol_and_settings", "kind": kind, "kwargs": bad, "mol": case["mol"],
                      "answer": "ACCEPTED" if r["outcome"] == "accepted" else "%s@%s: %s" % (r["exc"], r["stage"], r["msg"])}
    rec.set_sample(sample)


# ----------------------------------------------------------------------------------------------------------------
# (iii) exponent range
# ----------------------------------------------------------------------------------------------------------------
MSG = "NLDF exponent is too large"
COEF_ENTRY = ("libmcider.cider_coefs_gto_gq", "libmcider.cider_coefs_gto_qg", "libmcider.cider_coefs_spline_gq", "libmcider.cider_coefs_spline_qg",
              "libmcider.cider_coefs_vk1_gq", "libmcider.cider_coefs_vk1_qg")


def _scale_rho(rd, lam, level):
    r2 = rd.copy()
    r2[0] *= lam ** 3
    r2[1:4] *= lam ** 4
    if level == "MGGA":
        r2[4] *= lam ** 5
    return r2


def _coef_calls():
    from vlib import boot
    c = boot.counters()
    return sum(c.get(k, 0) for k in COEF_ENTRY)


def _run_expnt(case, rec, rng):
    from ciderpress.dft import plans
    sample = None
    for jc, (ver, level, pcl, nspin, form) in enumerate(case["combos"]):
        kws = _kw_nldf(ver, rng, level=level)
        s = _mk_nldf(ver, kws)
        pc = plans.NLDFGaussianPlan if pcl == "gaussian" else plans.NLDFSplinePlan
        pname = pc.__name__
        lambd = float(rng.choice([1.5, 1.7, 2.0]))
        nalpha = int(rng.integers(14, 24))
        a0 = float(rng.choice([0.005, 0.02]))
        order = _pick(rng, ["gq", "qg"])
        args = (s, nspin, a0, lambd, nalpha)
        base = dict(coef_order=order, alpha_formula=form)
        p = pc(*args, **base)
        p_off = pc(*args, raise_large_expnt_error=False, **base)
        p_smooth = pc(*args, use_smooth_expnt_cutoff=True, **base)
        amax, amin = float(np.max(p.alphas)), float(np.min(p.alphas))
        size = getattr(p, "_spline_size", nalpha)
        for k in ("settings", "level", "plan", "nspin", "formula"):
            rec.tag("expnt_" + k, {"settings": NLDF_CLS[ver], "level": level, "plan": pname, "nspin": nspin, "formula": form}[k])
        rd0 = _pointwise(rng, 30, 1, level, lo=1e-3, hi=20.0)[0]
        for i in range(-1, s.num_feat_param_sets):
            a_ref = p_off.eval_feat_exp(p_off.get_rho_tuple(rd0), i=i)[0]
            amx = float(np.max(a_ref))
            det = {"settings": NLDF_CLS[ver], "kwargs": kws, "plan": pname, "nspin": nspin, "alpha_formula": form, "i": i, "alpha_max": amax}
            mech_hi = "%s:extrapolates-above-alpha_max" % pname

            def rt(target):
                return p.get_rho_tuple(_scale_rho(rd0, np.sqrt(target / amx), level))
            # (a) above the range: every public route raises, and no coefficient kernel is entered
            for fac in (1.001, float(rng.uniform(1.5, 100.0))):
                tup = rt(amax * fac)
                top = float(np.max(p_off.eval_feat_exp(tup, i=i)[0])) / amax
                if not top > 1.0:
                    continue
                for route in ("eval_feat_exp", "get_interpolation_arguments", "pipeline"):
                    n0 = _coef_calls()
                    try:
                        if route == "eval_feat_exp":
                            p.eval_feat_exp(tup, i=i)
                        else:
                            arg = p.get_interpolation_arguments(tup, i=i)[0]
                            if route == "pipeline":
                                p.get_interpolation_coefficients(arg, i=i)
                        got = "returned"
                    except RuntimeError as e:
                        got = "RuntimeError" if MSG in str(e) else "RuntimeError(other): %s" % str(e)[:60]
                    except Exception as e:  # noqa: BLE001
                        got = "%s: %s" % (type(e).__name__, str(e)[:60])
                    rec.require("above_range_raises[%s]" % route, got == "RuntimeError", mechanism=mech_hi, detail=dict(det, route=route, max_exponent_over_alpha_max=top, got=got))
                    rec.require("rejected_before_C", _coef_calls() == n0, mechanism="%s:coefficient-kernel-entered-above-alpha_max" % pname, detail=dict(det, route=route))
            # (b) just inside: works, stays inside
            tup = rt(amax * 0.999)
            try:
                a_in, _ = p.eval_feat_exp(tup, i=i)
                arg = p.get_interpolation_arguments(tup, i=i)[0]
                c, dc = p.get_interpolation_coefficients(arg, i=i)
                ok = bool(np.max(a_in) <= amax and np.all(np.isfinite(c)) and np.all(np.isfinite(dc)))
                rec.require("inside_range_works", ok, mechanism="%s:non-finite-inside-range" % pname, detail=det)
            except Exception as e:  # noqa: BLE001
                rec.require("inside_range_works", False, mechanism="%s:raises-inside-range" % pname, detail=dict(det, exc="%s: %s" % (type(e).__name__, str(e)[:100])))
            # (c) below the range: no error; the spline argument is clipped into the table
            tup = rt(amin * float(rng.uniform(1e-4, 0.5)))
            try:
                arg, darg = p.get_interpolation_arguments(tup, i=i)
                c, dc = p.get_interpolation_coefficients(arg, i=i)
                ok = bool(np.all(np.isfinite(c)) and np.all(np.isfinite(dc)))
                if pcl == "spline" and not (i == -1 and ver == "k"):
                    ok = ok and bool(np.min(arg) >= 0.0 and np.max(arg) <= size - 1)
                rec.require("below_range_behaviour", ok, mechanism="%s:below-range-behaviour" % pname, detail=dict(det, arg_min=float(np.min(arg)), arg_max=float(np.max(arg))))
            except Exception as e:  # noqa: BLE001
                rec.require("below_range_behaviour", False, mechanism="%s:raises-below-range" % pname, detail=dict(det, exc="%s: %s" % (type(e).__name__, str(e)[:100])))
            # (d) raise_large_expnt_error=False: no error; spline argument clipped to the last interval
            tup = rt(amax * float(rng.uniform(1.5, 50.0)))
            try:
                arg, darg = p_off.get_interpolation_arguments(tup, i=i)
                c, dc = p_off.get_interpolation_coefficients(arg, i=i)
                ok = bool(np.all(np.isfinite(c)) and np.all(np.isfinite(dc)))
                if pcl == "spline" and not (i == -1 and ver == "k"):
                    ok = ok and bool(np.min(arg) >= 0.0 and np.max(arg) < size - 1)
                rec.require("no_raise_flag_behaviour", ok, mechanism="%s:raise_large_expnt_error=False:argument-outside-table" % pname,
                            detail=dict(det, arg_max=float(np.max(arg)), table=size))
            except Exception as e:  # noqa: BLE001
                rec.require("no_raise_flag_behaviour", False, mechanism="%s:raise_large_expnt_error=False:raises" % pname, detail=dict(det, exc="%s: %s" % (type(e).__name__, str(e)[:100])))
            # (e) smooth cut-off: exponent saturates at alpha_max, no error
            try:
                a_s, _ = p_smooth.eval_feat_exp(tup, i=i)
                arg = p_smooth.get_interpolation_arguments(tup, i=i)[0]
                c, dc = p_smooth.get_interpolation_coefficients(arg, i=i)
                ok = bool(np.max(a_s) <= amax * (1 + 1e-12) and np.all(np.isfinite(c)))
                rec.require("smooth_cutoff_behaviour", ok, mechanism="%s:use_smooth_expnt_cutoff:exceeds-alpha_max" % pname, detail=dict(det, max_over_alpha_max=float(np.max(a_s)) / amax))
            except Exception as e:  # noqa: BLE001
                rec.require("smooth_cutoff_behaviour", False, mechanism="%s:use_smooth_expnt_cutoff:raises" % pname, detail=dict(det, exc="%s: %s" % (type(e).__name__, str(e)[:100])))
            rec.nontrivial("expnt|%d|%s|%s|%d|%s|%d" % (jc, ver, pcl, nspin, form, i))
            if sample is None and i >= 0:
                sample = {"oracle": "exponent range", "settings": NLDF_CLS[ver], "kwargs": kws, "plan": pname, "nspin": nspin, "alpha_formula": form,
                          "alpha_max": amax, "feature_index": i, "largest_exponent_unscaled": amx}
    rec.set_sample(sample)


def _run_expnt_e2e(case, rec, rng):
    """A real molecule with alpha_max far below the exponents: the calculation must raise instead of returning numbers.
    (The theta convolution of an earlier spin channel / of version k may legitimately run before a later exponent trips the
    guard, so no before-C oracle here; the plan-level cases carry it.)"""
    sample = None
    for j, c in enumerate(case["cfgs"]):
        cfg = {"family": c["family"], "spin": c["spin"], "mol": c["mol"], "basis": "sto-3g", "level": 0, "plan_type": c["plan_type"]}
        nspin = 1 if c["spin"] == "rks" else 2
        for k in ("family", "spin", "mol", "plan_type"):
            rec.tag("expnt_e2e_" + k, c[k])
        try:
            mol, model, ks = _build_e2e(cfg, rng, nldf_extra={"alpha_max": c["alpha_max"]})
            dm = _dms(mol, rng, nspin, 1)
        except Exception as ex:  # noqa: BLE001
            rec.set_inconclusive("could not build the tiny-alpha_max calculator: %s: %s" % (type(ex).__name__, str(ex)[:200]))
            continue
        try:
            n, e, v = _nr(ks, dm, nspin)
            got = "returned excsum=%r" % np.asarray(e).tolist()
        except RuntimeError as ex:
            got = "RuntimeError" if MSG in str(ex) else "RuntimeError(other): %s" % str(ex)[:80]
        except Exception as ex:  # noqa: BLE001
            got = "%s: %s" % (type(ex).__name__, str(ex)[:80])
        plan = ks._numint.nldfgen.plan if ks._numint.nldfgen is not None else None
        amax = float(np.max(plan.alphas)) if plan is not None else None
        pname = type(plan).__name__ if plan is not None else "NLDFAuxiliaryPlan"
        rec.require("e2e_tiny_alpha_max_raises", got == "RuntimeError", mechanism="%s:extrapolates-above-alpha_max[end-to-end]" % pname,
                    detail={"cfg": cfg, "alpha_max_requested": c["alpha_max"], "alpha_max_of_plan": amax, "got": got})
        rec.nontrivial("expnt-e2e|%d|%s|%s" % (j, c["family"], c["plan_type"]))
        sample = sample or {"oracle": "tiny alpha_max end to end", "cfg": cfg, "alpha_max_requested": c["alpha_max"], "alpha_max_of_plan": amax, "got": got}
    rec.set_sample(sample)


# ----------------------------------------------------------------------------------------------------------------
# (iv) ASan + UBSan drivers (accepted calls over many shapes)
# ----------------------------------------------------------------------------------------------------------------
def _run_asan_e2e(case, rec, rng):
    sample = None
    for j, cfg in enumerate(case["cfgs"]):
        s = _drive_e2e(rec, cfg, rng, "asan-e2e|%d|%s|%s|%s" % (j, cfg["family"], cfg["spin"], cfg["mol"]))
        rec.require("driven_call_returned[e2e]", True)
        sample = sample or s
    rec.set_sample(sample)


def _window_ops(rec, rng, ind, atco, nalpha, tag):
    """reduce_angc_ylm_ / convert_rad2orb_ with every offset/stride variant the wrappers accept; besides ASan an explicit
    oracle that nothing outside the [offset, offset+nalpha) window of the strided array was written (intra-array overrun)."""
    ng = ind.all_weights.size
    nao = atco.nao
    qs = sorted(set([1, 3, int(nalpha)]))
    for q in qs:
        for extra in (0, 1, 4):
            stride = q + extra
            for off in sorted(set([0, extra, int(rng.integers(0, extra + 1))])):
                mask = np.ones(stride, bool)
                mask[off:off + q] = False
                # spherical harmonics <-> angular grid
                th = rng.normal(size=(ind.nrad, ind.nlm, q))
                full = rng.normal(size=(ng, stride))
                ref = full.copy()
                ind.reduce_angc_ylm_(th, full, a2y=True, offset=off)
                rec.require("window[reduce_angc_ylm_]", np.array_equal(full, ref) and bool(np.all(np.isfinite(th))),
                            mechanism="reduce_angc_ylm_:modifies-input[a2y]", detail={"stride": stride, "offset": off, "nalpha": q})
                th2 = th.copy()
                ind.reduce_angc_ylm_(th2, full, a2y=False, offset=off)
                rec.require("window[reduce_angc_ylm_]", np.array_equal(full[:, mask], ref[:, mask]) and np.array_equal(th2, th),
                            mechanism="reduce_angc_ylm_:writes-outside-offset-window", detail={"stride": stride, "offset": off, "nalpha": q, "lmax": ind.lmax})
                # radial functions <-> orbital basis
                p = rng.normal(size=(nao, stride))
                pref = p.copy()
                th = rng.normal(size=(ind.nrad, ind.nlm, q))
                thref = th.copy()
                zero = bool(rng.integers(2))
                atco.convert_rad2orb_(th, p, ind, ind.rad_arr, rad2orb=True, offset=off, zero_output=zero)
                rec.require("window[convert_rad2orb_]", np.array_equal(p[:, mask], pref[:, mask]) and np.array_equal(th, thref),
                            mechanism="convert_rad2orb_:writes-outside-offset-window[rad2orb]", detail={"stride": stride, "offset": off, "nalpha": q, "lmax": ind.lmax})
                p2 = p.copy()
                atco.convert_rad2orb_(th, p, ind.ar_loc, ind.rad_arr, rad2orb=False, offset=off, zero_output=zero)
                rec.require("window[convert_rad2orb_]", np.array_equal(p, p2) and bool(np.all(np.isfinite(th))),
                            mechanism="convert_rad2orb_:modifies-input[orb2rad]", detail={"stride": stride, "offset": off, "nalpha": q})
                rec.tag("offset_stride_variant", "q=%s,stride=q+%d,offset=%s" % ("nalpha" if q == nalpha and q not in (1, 3) else q, extra, "0" if off == 0 else ("max" if off == extra else "mid")))
    rec.nontrivial("window|%s" % tag)


def _lowlevel_generator(rec, rng, cfg, mol, g, nspin, tag):
    """Direct drive of one PyscfNLDFGenerator: convolution collection, interpolator, features and potential."""
    from ciderpress.pyscf.nldf_convolutions import PyscfNLDFGenerator
    ver = {"vj-mgga": "j", "vi-gga": "i", "vk-mgga": "k", "vij-mgga": "ij"}[cfg["family"]]
    level = "GGA" if cfg["family"].endswith("-gga") else "MGGA"
    kws = _kw_nldf(ver, rng, level=level)
    s = _mk_nldf(ver, kws)
    ind = g.grids_indexer
    aux_lmax = int(rng.integers(1, ind.lmax + 1))
    # radial spline grid of the interpolator: the default reaches 86 bohr; shorter (legal) grids leave grid points beyond the
    # last knot, which the binning routines must clamp into the last box (added after a seeded off-by-one there)
    rad_kw = [{}, {"nrad": 100}, {"nrad": 60, "aparam": 0.05, "dparam": 0.06}, {"nrad": 150, "dparam": 0.03}][int(rng.integers(4))]
    rec.tag("interpolator_radial_grid", "default" if not rad_kw else "short:%s" % sorted(rad_kw.items()))
    gen_ = PyscfNLDFGenerator.from_mol_and_settings(mol, ind, nspin, s, plan_type=cfg["plan_type"], interpolator_type=cfg["interp"], lmax=aux_lmax,
                                                    aux_lambd=float(rng.choice([1.6, 1.8])), **rad_kw)
    gen_.interpolator.set_coords(g.coords)
    rec.tag("aux_lmax", aux_lmax)
    ccl = gen_.ccl
    x = rng.normal(size=(ccl.atco_inp.nao, ccl.nalpha))
    if ccl.is_vk:
        # the version-k wrapper sizes its default output with the INPUT basis and then refuses it (AssertionError): a valid
        # call that raises, outside C18; recorded and driven with explicit buffers
        try:
            ccl.multiply_atc_integrals(np.ascontiguousarray(x), fwd=True)
        except AssertionError:
            rec.tag("observation", "ConvolutionCollectionK.multiply_atc_integrals(output=None):AssertionError-on-valid-input")
        y = ccl.multiply_atc_integrals(np.ascontiguousarray(x), output=np.zeros((ccl.atco_out.nao, ccl.nalpha)), fwd=True)
    else:
        y = ccl.multiply_atc_integrals(np.ascontiguousarray(x), fwd=True)
    yb = rng.normal(size=y.shape)
    xb = ccl.multiply_atc_integrals(np.ascontiguousarray(yb), output=np.zeros((ccl.atco_inp.nao, ccl.nalpha)), fwd=False)
    rec.require("lowlevel_shapes", xb.shape == x.shape and y.shape[0] == ccl.atco_out.nao and bool(np.all(np.isfinite(y))), mechanism="multiply_atc_integrals:shape")
    fg = gen_.interpolator.project_orb2grid(np.ascontiguousarray(rng.normal(size=(ccl.atco_out.nao, gen_.interpolator.num_in))))
    fu = gen_.interpolator.project_grid2orb(np.ascontiguousarray(rng.normal(size=fg.shape)))
    rec.require("lowlevel_shapes", fg.shape[0] == g.weights.size and fu.shape == (ccl.atco_out.nao, gen_.interpolator.num_in), mechanism="LCAOInterpolatorDirect:shape")
    import pyscf.dft.numint as pn
    for sp in range(nspin):
        rho = _real_rho(mol, g, pn, rng, level, nspin)
        f = gen_.get_features(rho, spin=sp)
        rec.require("generator_rows[PyscfNLDFGenerator]", f.shape == (s.nfeat, g.weights.size), mechanism="PyscfNLDFGenerator.get_features:rows!=nfeat[%s]" % NLDF_CLS[ver],
                    detail={"shape": list(f.shape), "nfeat": s.nfeat})
        v = gen_.get_potential(rng.normal(size=f.shape) * g.weights, spin=sp)
        rec.require("lowlevel_shapes", v.shape == rho.shape and bool(np.all(np.isfinite(v))), mechanism="PyscfNLDFGenerator.get_potential:shape")
    _window_ops(rec, rng, ind, ccl.atco_inp, min(gen_.plan.nalpha, 7), tag + "|inp")
    _window_ops(rec, rng, ind, ccl.atco_out, 2, tag + "|out")
    return {"settings": NLDF_CLS[ver], "kwargs": kws, "nalpha": int(gen_.plan.nalpha), "aux_lmax": aux_lmax, "nao_inp": int(ccl.atco_inp.nao),
            "nao_out": int(ccl.atco_out.nao), "nrad": int(ind.nrad), "nlm": int(ind.nlm)}


def _run_asan_lmax(case, rec, rng):
    sample = None
    for j, cfg in enumerate(case["cfgs"]):
        L = int(cfg["lmax"])
        rec.tag("grids_lmax", L)
        c = {"family": cfg["family"], "spin": cfg["spin"], "mol": cfg["mol"], "basis": "sto-3g", "level": 0, "plan_type": cfg["plan_type"], "interp": cfg["interp"],
             "nset": 1, "max_memory": 2000}
        s1 = _drive_e2e(rec, c, rng, "lmax-e2e|%d|L%d|%s" % (j, L, cfg["family"]), lmax=L)
        try:
            mol, g, pn = _grid_ctx(rng, cfg["mol"], L)
            info = _lowlevel_generator(rec, rng, cfg, mol, g, 1 if cfg["spin"] == "rks" else 2, "L%d|%s|%d" % (L, cfg["family"], j))
        except AssertionError as ex:
            rec.set_inconclusive("admissible low-level call refused: %s" % str(ex)[:200])
            info = None
        rec.require("driven_call_returned[lmax]", True)
        sample = sample or {"oracle": "lmax drivers", "lmax": L, "e2e": s1, "lowlevel": info}
    # nothing in the package bounds lmax: grids with lmax 17 ... 24 are accepted, so the harmonic tables built for them
    # (recursive_sph_harm_vec, constant prefactor tables in sph_harm.c) are driven under the sanitizer too
    for L in ([17, 20, 24] if case["idx"] % 2 == 0 else [18, 22]):
        mol, g, pn = _grid_ctx(rng, ["He", "HF"][case["idx"] % 2], L)
        ind = g.grids_indexer
        th_g = np.ascontiguousarray(rng.normal(size=(ind.all_weights.size, 2)))
        th_r = ind.empty_rlmq(nalpha=2)
        ind.reduce_angc_ylm_(th_r, th_g, a2y=True)
        rec.require("high_lmax_tables_finite", bool(np.all(np.isfinite(ind.ylm)) and np.all(np.isfinite(th_r))),
                    mechanism="AtomicGridsIndexer[lmax>=17]:nonfinite", detail={"lmax": L})
        rec.tag("grids_lmax", L)
        rec.nontrivial("hiL|%d" % L)
    rec.set_sample(sample)


def _valid_evaluator(cls, rng, n, nctrl, amp=0.5):
    """(evaluator, X1 factory) of the given class with n transformed features and nctrl control points."""
    from ciderpress.dft import xc_evaluator as xe
    from ciderpress.models.kernels import DiffConstantKernel, DiffRBF
    ls = np.exp(rng.uniform(np.log(0.3), np.log(1.5), size=n - 1 if cls == "AntisymRBFEvaluator" else n))
    kern = DiffConstantKernel(float(rng.uniform(0.5, 2.0))) * DiffRBF(ls)
    alpha = rng.normal(size=nctrl) * amp
    if cls == "SpinRBFEvaluator":
        return xe.SpinRBFEvaluator(kern, rng.uniform(-0.5, 1.0, size=(2, nctrl, n)), alpha), (lambda N: rng.uniform(-0.5, 1.0, size=(2, N, n)))
    ctrl = rng.uniform(-0.5, 1.0, size=(nctrl, n))
    ev = {"RBFEvaluator": xe.RBFEvaluator, "AntisymRBFEvaluator": xe.AntisymRBFEvaluator, "KernelEvaluator": xe.KernelEvaluator}[cls](kern, ctrl, alpha)
    return ev, (lambda N: rng.uniform(-0.5, 1.0, size=(N, n)))


def _run_asan_eval(case, rec, rng):
    from vlib import gen
    counts = [1, 2, 3, 7, 2000, 2001]
    nctrls = [1, 2, 150, 151]
    sample = None
    k = 0
    for cls in EVAL_CLASSES + ["KernelEvaluator"]:
        for N in counts:
            for nc in nctrls:
                k += 1
                if cls == "KernelEvaluator" and (N > 7 and nc > 2) and (k + case["part"]) % 3:
                    continue  # pure Python: a thinner sample is enough
                n = int(rng.choice([2, 3, 6]))
                ev, X = _valid_evaluator(cls, rng, n, nc)
                x = X(N)
                r0, d0 = ev(x)
                res = np.zeros(x.shape[-2])
                dres = np.zeros(x.shape)
                r1, d1 = ev(x, res, dres)
                ok = r0.shape == (N,) and d0.shape == x.shape and bool(np.all(np.isfinite(r0)) and np.all(np.isfinite(d0)))
                err = float(np.max(np.abs(r0 - r1))) / max(1e-300, float(np.max(np.abs(r0)))) if N else 0.0
                rec.require("evaluator_shapes", ok, mechanism="%s:output-shape" % cls, detail={"N": N, "nctrl": nc, "n1": n})
                rec.check("evaluator_default_vs_given_buffers", err, 1e-10, mechanism="%s:default-buffers-differ-from-given" % cls, detail={"N": N, "nctrl": nc})
                rec.tag("evaluator_class", cls)
                rec.tag("sample_count", N)
                rec.tag("control_count", nc)
                rec.nontrivial("eval|%s|%d|%d" % (cls, N, nc))
                if sample is None and N == 2001 and nc == 151:
                    sample = {"oracle": "evaluator under ASan", "class": cls, "N": N, "nctrl": nc, "n1": n, "res0": float(r0[0])}
    # whole models: SEP / NPOL / POL, nspin 1 / 2, chunk boundary sample counts
    for fam, mode, evk in (("vj-mgga", "SEP", "rbf"), ("sl-npa", "NPOL", "rbf+linear"), ("sdmxg", "POL", "spinrbf"), ("vi-gga", "SEP", "kernel")):
        fs = gen.family_settings(fam, rng)
        model = gen.build_model({"family": fam, "mode": mode, "evaluator": evk}, rng)
        for nspin in (1, 2):
            for N in (1, 3, 2000, 2001):
                nf = model.settings.nfeat
                nsl = model.settings.sl_settings.nfeat
                X0 = rng.normal(size=(nspin, nf, N))
                X0[:, :nsl] = np.exp(rng.uniform(np.log(1e-2), np.log(5.0), size=(nspin, nsl, N)))
                res, dres = model(X0, rhocut=1e-9)
                rec.require("model_output_shapes", np.shape(res)[-1] == N and np.shape(dres) == X0.shape, mechanism="MappedXC[%s]:output-shape" % mode,
                            detail={"family": fam, "nspin": nspin, "N": N, "res": list(np.shape(res)), "dres": list(np.shape(dres))})
                rec.tag("model_mode", mode)
        rec.nontrivial("model|%s|%s" % (fam, mode))
        del fs
    rec.set_sample(sample)


def _run_asan_sdmx(case, rec, rng):
    rec.set_sample(_sdmx_generators(rec, rng, case["n"], "asan-sdmx"))
    rec.require("driven_call_returned[sdmx]", True)


def _run_asan_fft(case, rec, rng):
    from ciderpress.lib.fft_plan import FFTWrapper
    sample = None
    for j in range(case["n"]):
        f = (j + case["idx"]) % 16
        fwd, r2c, inplace, bf = bool(f & 1), bool(f & 2), bool(f & 4), bool(f & 8)
        rank = int(rng.integers(1, 4))
        dims = [int(v) for v in rng.choice([1, 2, 3, 4, 5, 7, 8, 9, 12], size=rank)]
        nt = int(rng.choice([1, 2, 3, 7]))
        w = FFTWrapper(dims, ntransform=nt, fwd=fwd, r2c=r2c, inplace=inplace, batch_first=bf)
        axes = tuple(range(1, rank + 1)) if bf else tuple(range(rank))
        rshape = ([nt] + dims) if bf else (dims + [nt])
        xr = rng.normal(size=rshape)
        if r2c:
            x = xr if fwd else np.fft.rfftn(xr, axes=axes)
            ref = np.fft.rfftn(xr, axes=axes) if fwd else xr * np.prod(dims)
        else:
            x = xr + 1j * rng.normal(size=rshape)
            ref = np.fft.fftn(x, axes=axes) if fwd else np.fft.ifftn(x, axes=axes) * np.prod(dims)
        x = np.ascontiguousarray(x.astype(np.float64 if (r2c and fwd) else np.complex128))
        y = w.call(x)
        err = float(np.max(np.abs(y - ref))) / max(1e-300, float(np.max(np.abs(ref))))
        rec.check("fft_value", err, 1e-10, mechanism="FFTWrapper:value-under-asan", detail={"dims": dims, "ntransform": nt, "flags": [fwd, r2c, inplace, bf]})
        y2 = w.call(x)
        rec.require("fft_shapes", y.shape == tuple(w.output_shape) == y2.shape, mechanism="FFTWrapper:output-shape")
        rec.tag("fft_plan_class", "%s-%s-%s-%s" % ("r2c" if r2c else "c2c", "fwd" if fwd else "bwd", "inplace" if inplace else "outofplace", "batchfirst" if bf else "batchlast"))
        rec.nontrivial("fft|%d|%s|%d" % (f, dims, nt))
        sample = sample or {"oracle": "FFT wrapper under ASan", "dims": dims, "ntransform": nt, "flags[fwd,r2c,inplace,batch_first]": [fwd, r2c, inplace, bf], "rel_err": err}
        del w
    rec.set_sample(sample)


def _run_asan_misc(case, rec, rng):
    """Training-data generators (LCAOInterpolator 'train_gen', fractional Laplacian, SDMX with orbital derivatives) and the
    non-raising exponent paths of the plans (clipped spline index, smooth cut-off) under ASan."""
    import contextlib
    import io

    from ciderpress.dft import plans
    from ciderpress.pyscf.descriptors import get_descriptors
    st = _st()
    sample = _descriptors(rec, rng, case["spin"], 6, "asan-desc")
    # orbital-occupation derivatives (get_feat_and_occd / eval_occd_full / FracLaplPlan.get_occd)
    if case["spin"] == "rhf":
        from pyscf import scf

        from ciderpress.pyscf.analyzers import RHFAnalyzer
        from vlib import gen
        mol = gen.make_mol(_pick(rng, ["HF", "LiH"]), "sto-3g", rng, jitter=0.03)
        mf = scf.RHF(mol)
        mf.verbose = 0
        mf.max_cycle = 8
        with contextlib.redirect_stdout(io.StringIO()):
            mf.kernel()
            ana = RHFAnalyzer.from_calc(mf, grids_level=0) if hasattr(RHFAnalyzer, "from_calc") else None
        if ana is not None and ana.mo_coeff is not None:
            orbs = {"O": [0], "U": [0]}
            for label, s, kw in (("SemilocalSettings", st.SemilocalSettings("npa"), {}), ("NLDFSettingsVJ", _mk_nldf("j", _kw_nldf("j", rng)), {"inner_grids_level": 0, "lmax": 6}),
                                 ("FracLaplSettings", st.FracLaplSettings(**_kw_fl(rng)), {}), ("SDMXG1Settings", _mk_sdmx("sdmxg1", _kw_sdmx("sdmxg1", rng)), {})):
                try:
                    with contextlib.redirect_stdout(io.StringIO()):
                        d, dd, ev = get_descriptors(ana, s, orbs=orbs, **kw)
                except Exception as ex:  # noqa: BLE001
                    rec.note("valid_call_raised[orbs|%s]" % label, "%s: %s" % (type(ex).__name__, str(ex)[:200]))
                    rec.tag("observation", "get_descriptors(orbs=...)[%s]:raises-%s" % (label, type(ex).__name__))
                    continue
                ok = d.shape[:2] == (1, s.nfeat) and all(np.shape(dd[k][0]) == d.shape[1:] for k in orbs)
                rec.require("generator_rows[get_descriptors,orbs]", ok, mechanism="get_descriptors:occupation-derivative-rows!=nfeat[%s]" % label,
                            detail={"desc": list(d.shape), "deriv": [list(np.shape(dd[k][0])) for k in orbs]})
                rec.tag("generator", "get_descriptors[%s,orbs]" % label)
                rec.nontrivial("asan-desc-orbs|%s" % label)
    # non-raising exponent paths
    for j in range(8):
        ver = ["j", "k", "ij", "i"][j % 4]
        kws = _kw_nldf(ver, rng)
        s = _mk_nldf(ver, kws)
        pc = [plans.NLDFGaussianPlan, plans.NLDFSplinePlan][(j // 4) % 2]
        flags = [{"raise_large_expnt_error": False}, {"use_smooth_expnt_cutoff": True}][j % 2]
        nspin = 1 + (j // 2) % 2
        p = pc(s, nspin, 0.01, float(rng.choice([1.6, 2.0])), int(rng.integers(10, 18)), coef_order=_pick(rng, ["gq", "qg"]), alpha_formula=_pick(rng, ["etb", "zexp"]), **flags)
        for ng in (1, 2, 9, 1000):
            rd = _pointwise(rng, ng, 1, kws["sl_level"], lo=1e-8, hi=1e3)[0]
            for lam in (1e-3, 1.0, 30.0):
                tup = p.get_rho_tuple(_scale_rho(rd, lam, kws["sl_level"]))
                for i in range(-1, s.num_feat_param_sets):
                    arg = p.get_interpolation_arguments(tup, i=i)[0]
                    c, dc = p.get_interpolation_coefficients(arg, i=i)
                    rec.require("coefficients_finite", bool(np.all(np.isfinite(c)) and np.all(np.isfinite(dc))), mechanism="%s:non-finite-coefficients[%s]" % (pc.__name__, list(flags)[0]))
        rec.tag("non_raising_plan", "%s[%s]" % (pc.__name__, list(flags)[0]))
        rec.nontrivial("asan-expnt|%d" % j)
    rec.set_sample(sample)


# ---- acceptance probes that could touch memory if they were accepted: ASan workers only ------------------------------
def _eval_shape_entries(cls):
    out = []

    def ent(kind, badcall, assert_=True):
        def make(rng):
            n = int(rng.choice([3, 4, 6]))
            nc = int(rng.choice([2, 9]))
            N = int(rng.choice([1, 5, 40]))
            ev, X = _valid_evaluator(cls, rng, n, nc)
            x = X(N)
            return (lambda: ev, [("__call__", lambda e: e(x))]), (lambda: ev, [("__call__", lambda e: badcall(e, x, rng))]), {"n1": n, "nctrl": nc, "N": N, "X1": list(x.shape)}
        out.append({"cls": cls, "kind": kind, "make": make, "assert": assert_})
    ent("X1-narrower-than-kernel", lambda e, x, r: e(np.ascontiguousarray(x[..., :-1])))
    ent("X1-wider-than-kernel", lambda e, x, r: e(np.concatenate([x, x[..., :1]], axis=-1)), assert_=False)  # callee reads a column subset by design
    ent("X1-without-sample-axis", lambda e, x, r: e(np.ascontiguousarray(x[..., 0, :])))
    ent("res-too-short", lambda e, x, r: e(x, res=np.zeros(max(0, x.shape[-2] - 1))))
    ent("res-too-long", lambda e, x, r: e(x, res=np.zeros(x.shape[-2] + int(r.integers(1, 4)))))
    ent("res-with-extra-axis", lambda e, x, r: e(x, res=np.zeros((x.shape[-2], 1))))
    ent("dres-narrower-than-X1", lambda e, x, r: e(x, dres=np.zeros(x.shape[:-1] + (x.shape[-1] - 1,))))
    ent("dres-with-fewer-samples", lambda e, x, r: e(x, dres=np.zeros(x.shape[:-2] + (max(0, x.shape[-2] - 1), x.shape[-1]))))
    ent("dres-with-more-samples", lambda e, x, r: e(x, dres=np.zeros(x.shape[:-2] + (x.shape[-2] + 2, x.shape[-1]))))
    ent("dres-transposed", lambda e, x, r: e(x, dres=np.zeros(x.shape[:-2] + (x.shape[-1], x.shape[-2] + 1))))
    return out


def _run_asan_shape_eval(case, rec, rng):
    cat = []
    for cls in EVAL_CLASSES:
        cat += _eval_shape_entries(cls)

    # C-backed model given too few features / a feature map pointing past the feature vector
    def model_make(op):
        def make(rng):
            from ciderpress.dft import baselines as bl
            from ciderpress.dft import transform_data as td
            from ciderpress.dft import xc_evaluator as xe
            from vlib import gen
            fs = gen.family_settings(_pick(rng, ["vj-mgga", "sdmxg", "vi-gga"]), rng)
            nf = fs.nfeat
            x = np.abs(rng.normal(size=(int(rng.integers(1, 3)), nf, 11))) + 0.05
            idx = list(range(1, nf))

            def mk(ix):
                fl = td.FeatureList([td.UMap(i, 0.4) for i in ix])
                ev = gen.rand_evaluator("rbf", fl.nfeat, rng, nctrl=6)
                return xe.MappedXC([xe.MappedDFTKernel([ev], fl, "SEP", bl.lda_x, bl.zero_xc)], fs)
            ok = [("__call__", lambda m: m(x))]
            if op == "index":
                bad = list(idx)
                bad[int(rng.integers(len(bad)))] = nf + int(rng.integers(0, 3))
                return (lambda: mk(idx), ok), (lambda: mk(bad), ok), {"nfeat": nf, "map_indices": bad}
            return (lambda: mk(idx), ok), (lambda: mk(idx), [("__call__", lambda m: m(np.ascontiguousarray(x[:, :-1])))]), {"nfeat": nf, "X0T": [x.shape[0], nf - 1, 11]}
        return make
    cat.append({"cls": "MappedXC[RBFEvaluator]", "kind": "feature-map-index-out-of-range", "make": model_make("index")})
    cat.append({"cls": "MappedXC[RBFEvaluator]", "kind": "feature-array-with-too-few-features", "make": model_make("x")})
    c = dict(case, part=0, nparts=1, reps=2)
    _run_catalogue(c, rec, rng, cat)


def _run_asan_shape_nldf(case, rec, rng):
    from ciderpress.pyscf.nldf_convolutions import PyscfNLDFGenerator
    ver = case["version"]
    level = case.get("level") or _pick(rng, ["GGA", "MGGA"])
    kws = _kw_nldf(ver, rng, level=level, safe=True)
    s = _mk_nldf(ver, kws)
    mol, g, pn = _grid_ctx(rng, case["mol"], 6)
    ind = g.grids_indexer
    gen_ = PyscfNLDFGenerator.from_mol_and_settings(mol, ind, 1, s, plan_type=case["plan_type"], interpolator_type=_pick(rng, ["onsite_direct", "onsite_spline"]), lmax=4)
    gen_.interpolator.set_coords(g.coords)
    rho = _real_rho(mol, g, pn, rng, level)
    ng = rho.shape[1]
    ccl, plan = gen_.ccl, gen_.plan
    ai, ao = ccl.atco_inp, ccl.atco_out
    nal = plan.nalpha
    for k, v in (("settings", NLDF_CLS[ver]), ("level", level), ("plan", type(plan).__name__), ("mol", case["mol"])):
        rec.tag("shape_probe_" + k, v)
    G = "PyscfNLDFGenerator"
    cat = []

    def ent(cls, kind, ok_use, bad_use, before_c=True, assert_=True, obj=None):
        target = gen_ if obj is None else obj
        cat.append({"cls": cls, "kind": kind, "before_c": before_c, "assert": assert_,
                    "make": lambda r: ((lambda: target, [ok_use]), (lambda: target, [bad_use]), {"settings": NLDF_CLS[ver], "level": level, "ngrids": ng})})
    feat_ok = ("get_features", lambda o: o.get_features(rho))
    nrow = rho.shape[0]
    ent(G + ".get_features", "rho-with-too-few-rows[%s]" % level, feat_ok, ("get_features", lambda o: o.get_features(np.ascontiguousarray(rho[: nrow - 1]))), before_c=False)
    ent(G + ".get_features", "rho-with-too-few-rows[%s]" % level, feat_ok, ("get_features", lambda o: o.get_features(np.ascontiguousarray(rho[:2]))), before_c=False)
    # the exponent / spline-index kernels legitimately run on the given columns before the grid map is applied: no before-C oracle
    ent(G + ".get_features", "rho-with-fewer-grid-points", feat_ok, ("get_features", lambda o: o.get_features(np.ascontiguousarray(rho[:, :-8]))), before_c=False)
    # trailing columns are dropped on purpose (grid padding), so extra points are an observation only
    ent(G + ".get_features", "rho-with-more-grid-points", feat_ok, ("get_features", lambda o: o.get_features(np.ascontiguousarray(np.concatenate([rho, rho[:, :8]], axis=1)))),
        before_c=False, assert_=False)

    def pot(o, shape):
        f = o.get_features(rho)
        v = np.ones(f.shape if shape is None else shape(f.shape))
        return o.get_potential(v)
    pot_ok = ("get_potential", lambda o: pot(o, None))
    ent(G + ".get_potential", "vfeat-with-too-few-rows", pot_ok, ("get_potential", lambda o: pot(o, lambda sh: (sh[0] - 1, sh[1]))), before_c=False)
    ent(G + ".get_potential", "vfeat-with-too-many-rows", pot_ok, ("get_potential", lambda o: pot(o, lambda sh: (sh[0] + 1, sh[1]))), before_c=False, assert_=False)
    ent(G + ".get_potential", "vfeat-with-fewer-grid-points", pot_ok, ("get_potential", lambda o: pot(o, lambda sh: (sh[0], sh[1] - 8))), before_c=False)
    # grids indexer
    nag = ind.all_weights.size

    def red(theta_shape=None, gq_shape=None, off=0, a2y=True, mut=None):
        th = np.zeros(theta_shape or (ind.nrad, ind.nlm, 3))
        gq = np.ones(gq_shape or (nag, 4))
        if mut:
            th, gq = mut(th, gq)
        ind.reduce_angc_ylm_(th, gq, a2y=a2y, offset=off)
    red_ok = ("reduce_angc_ylm_", lambda o: red(off=1))
    R = "AtomicGridsIndexer.reduce_angc_ylm_"
    for kind, fn in (("theta_rlmq-with-wrong-nrad", lambda o: red(theta_shape=(ind.nrad + 1, ind.nlm, 3))),
                     ("theta_rlmq-with-wrong-nlm", lambda o: red(theta_shape=(ind.nrad, ind.nlm + 1, 3))),
                     ("theta_rlmq-with-fewer-nlm", lambda o: red(theta_shape=(ind.nrad, max(1, ind.nlm - 3), 3), a2y=False)),
                     ("theta_gq-with-fewer-grid-points", lambda o: red(gq_shape=(nag - 5, 4))),
                     ("theta_gq-with-more-grid-points", lambda o: red(gq_shape=(nag + 5, 4), a2y=False)),
                     ("offset-plus-nalpha-beyond-stride", lambda o: red(off=2)),
                     ("non-contiguous-array", lambda o: red(mut=lambda th, gq: (th, np.ones((nag, 8))[:, ::2]))),
                     ("float32-array", lambda o: red(mut=lambda th, gq: (th.astype(np.float32), gq)))):
        ent(R, kind, red_ok, ("reduce_angc_ylm_", fn), obj=ind)
    # ATCBasis.convert_rad2orb_
    def r2o(atco, th_shape=None, p_shape=None, off=0, rad2orb=True, loc=None, rads=None):
        th = np.zeros(th_shape or (ind.nrad, ind.nlm, 2))
        p = np.zeros(p_shape or (atco.nao, 4))
        atco.convert_rad2orb_(th, p, (ind.ra_loc if rad2orb else ind.ar_loc) if loc is None else loc, ind.rad_arr if rads is None else rads, rad2orb=rad2orb, offset=off)
    C = "ATCBasis.convert_rad2orb_"
    r2o_ok = ("convert_rad2orb_", lambda o: r2o(o, off=2))
    for kind, fn in (("p_uq-with-fewer-orbitals", lambda o: r2o(o, p_shape=(o.nao - 1, 4))),
                     ("p_uq-with-more-orbitals", lambda o: r2o(o, p_shape=(o.nao + 1, 4), rad2orb=False)),
                     ("theta_rlmq-with-wrong-nrad", lambda o: r2o(o, th_shape=(ind.nrad - 1, ind.nlm, 2))),
                     ("offset-plus-nalpha-beyond-stride", lambda o: r2o(o, off=3)),
                     ("negative-offset", lambda o: r2o(o, off=-1)),
                     ("loc-with-wrong-size", lambda o: r2o(o, loc=np.ascontiguousarray(ind.ar_loc[:-1]), rad2orb=False)),
                     ("loc-of-the-other-direction", lambda o: r2o(o, loc=ind.ar_loc if ind.nrad != ind.natm + 1 else None, rad2orb=True) if ind.nrad != ind.natm + 1 else (_ for _ in ()).throw(AssertionError("n/a"))),
                     ("rads-with-wrong-size", lambda o: r2o(o, rads=np.ascontiguousarray(ind.rad_arr[:-1])))):
        ent(C, kind, r2o_ok, ("convert_rad2orb_", fn), obj=ai if rng.random() < 0.5 else ao)
    # ConvolutionCollection.multiply_atc_integrals
    M = type(ccl).__name__ + ".multiply_atc_integrals"
    nout = ccl.nalpha if ccl.is_vk else ccl.nbeta

    def mul(in_shape, out_shape, fwd):
        return ccl.multiply_atc_integrals(np.zeros(in_shape), output=np.zeros(out_shape), fwd=fwd)
    mul_ok = ("multiply_atc_integrals", lambda o: mul((ai.nao, nal), (ao.nao, nout), True))
    for kind, fn in (("input-with-fewer-orbitals", lambda o: mul((ai.nao - 1, nal), (ao.nao, nout), True)),
                     ("input-with-fewer-columns", lambda o: mul((ai.nao, nal - 1), (ao.nao, nout), True)),
                     ("output-with-fewer-orbitals", lambda o: mul((ai.nao, nal), (ao.nao - 1, nout), True)),
                     ("output-with-fewer-columns", lambda o: mul((ai.nao, nal), (ao.nao, nout - 1), True)),
                     ("backward-call-with-forward-shapes", lambda o: mul((ai.nao + (1 if ai.nao == ao.nao else 0), nal), (ao.nao, nout), False)),
                     ("backward-output-with-fewer-orbitals", lambda o: mul((ao.nao, nout), (ai.nao - 1, nal), False))):
        ent(M, kind, mul_ok, ("multiply_atc_integrals", fn), obj=ccl)
    # plan coefficient buffers
    P = type(plan).__name__ + ".get_interpolation_coefficients"
    arg = plan.get_interpolation_arguments(plan.get_rho_tuple(rho), i=-1)[0]
    coef_ok = ("get_interpolation_coefficients", lambda o: o.get_interpolation_coefficients(arg, i=-1, vbuf=np.empty(arg.size * nal), dbuf=np.empty(arg.size * nal)))
    ent(P, "coefficient-buffer-too-small", coef_ok, ("get_interpolation_coefficients", lambda o: o.get_interpolation_coefficients(arg, i=-1, vbuf=np.empty(arg.size * nal - 1))), obj=plan)
    ent(P, "derivative-buffer-too-small", coef_ok, ("get_interpolation_coefficients", lambda o: o.get_interpolation_coefficients(arg, i=-1, dbuf=np.empty(arg.size * nal - 3))), obj=plan)
    c = dict(case, part=0, nparts=1, reps=1)
    _run_catalogue(c, rec, rng, cat)


def _run_asan_unsafe(case, rec, rng):
    """ONE constructor-level size mismatch of a C-backed evaluator per case: if it is accepted the C kernel is told sizes that
    disagree with the arrays it gets, so the probe runs only under ASan and alone (a crash loses the case in flight)."""
    from ciderpress.dft import xc_evaluator as xe
    from ciderpress.models.kernels import DiffConstantKernel, DiffRBF
    cls, probe = case["cls"], case["probe"]
    rec.tag("unsafe_probe", "%s:%s" % (cls, probe))
    n = int(rng.choice([3, 4, 6]))
    nc = int(rng.choice([5, 12]))
    N = int(rng.choice([9, 33]))
    nls = n - 1 if cls == "AntisymRBFEvaluator" else n
    ls = np.exp(rng.uniform(np.log(0.3), np.log(1.5), size=nls))
    kern = DiffConstantKernel(1.3) * DiffRBF(ls)
    dw = {"X1ctrl-wider-than-kernel": 1, "X1ctrl-narrower-than-kernel": -1}.get(probe, 0)
    da = {"alpha-shorter-than-X1ctrl": -1, "alpha-longer-than-X1ctrl": 1}.get(probe, 0)
    C = getattr(xe, cls)
    lead = (2,) if cls == "SpinRBFEvaluator" else ()

    def mk(dw_, da_):
        ctrl = rng.uniform(-0.5, 1.0, size=lead + (nc, n + dw_))
        return C(kern, ctrl, rng.normal(size=nc + da_) * 0.5)
    x = rng.uniform(-0.5, 1.0, size=lead + (N, n))
    uses = [("__call__", lambda e: e(x)), ("__call__(res,dres)", lambda e: e(x, np.zeros(N), np.zeros(x.shape)))]
    _judge(rec, cls, probe, (lambda: mk(0, 0), uses), (lambda: mk(dw, da), uses), "unsafe|%s|%s" % (cls, probe),
           detail={"kernel_length_scales": nls, "X1ctrl": list(lead + (nc, n + dw)), "alpha": nc + da, "X1": list(x.shape)})
    rec.set_sample({"oracle": "constructor size mismatch of a C-backed evaluator (ASan worker)", "class": cls, "kind": probe, "kernel_length_scales": nls,
                    "X1ctrl_shape": list(lead + (nc, n + dw)), "alpha_size": nc + da, "X1_shape": list(x.shape)})
