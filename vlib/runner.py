"""Case scheduling in worker subprocesses, verdicts, known-finding classification, evidence.

A check module (checks/cNN.py) provides
    PROPERTY, RULE, MIN_NONTRIVIAL = {"quick": n, "thorough": n}
    gen_cases(tier, seed) -> list of JSON-serialisable case dicts.  Reserved keys:
        "_variant" (plain|o3|asan|tsan, default plain), "_threads" (OMP threads, default 2),
        "_timeout" (seconds per case, default 600), "_weight" (scheduling cost hint)
    run_case(case, rec) -> None; reports through rec (vlib.oracles.Rec)
optional
    REQUIRED_CALLS = ["libmcider.foo", ...]   C entry points that must have been called
    ASSUMPTIONS = [...], LEVEL = "exploration", finalize(results, coverage) hook
Verdicts: held -> exit 0; violation -> exit 1 + VIOLATION line; inconclusive -> exit 2.
"""
import hashlib
import importlib
import json
import os
import subprocess
import sys
import tempfile
import time

VERIF_ROOT = os.path.dirname(os.path.dirname(os.path.abspath(__file__)))
PY = "/venv/bin/python"
NCPU = os.cpu_count() or 16


def _gcc_file(name):
    return subprocess.run(["gcc", "-print-file-name=" + name], capture_output=True, text=True).stdout.strip()


def variant_env(variant, logdir):
    env = {}
    if variant == "asan":
        env["LD_PRELOAD"] = _gcc_file("libasan.so") + " " + _gcc_file("libubsan.so")
        env["ASAN_OPTIONS"] = "detect_leaks=0:halt_on_error=1:abort_on_error=0:exitcode=97:log_path=%s/asan" % logdir
        env["UBSAN_OPTIONS"] = "print_stacktrace=1:halt_on_error=1:exitcode=97:log_path=%s/ubsan" % logdir
    elif variant == "tsan":
        env["LD_PRELOAD"] = _gcc_file("libtsan.so")
        supp = os.path.join(VERIF_ROOT, "build", "tsan.supp")
        env["TSAN_OPTIONS"] = "halt_on_error=0:exitcode=0:history_size=4:report_signal_unsafe=0:log_path=%s/tsan:suppressions=%s" % (logdir, supp)
        env["OPENBLAS_NUM_THREADS"] = "1"
    return env


def build_variant(variant, repo):
    r = subprocess.run([os.path.join(VERIF_ROOT, "build", "build_libs.sh"), variant, repo],
                       capture_output=True, text=True)
    if r.returncode != 0:
        sys.stdout.write(r.stdout[-4000:] + r.stderr[-4000:])
        raise SystemExit(2)


def load_known(prop):
    path = os.path.join(VERIF_ROOT, "known_findings.json")
    if not os.path.exists(path):
        return {}, []
    data = json.load(open(path))
    known = {e["mechanism"]: e for e in data.get("findings", []) if e["property"] == prop and e.get("status") == "known"}
    fixed = [e for e in data.get("findings", []) if e["property"] == prop and e.get("status") == "fixed"]
    return known, fixed


def _spawn(modname, cases, variant, threads, logdir, repo, extra_env=None):
    fd, cpath = tempfile.mkstemp(prefix="cases_", suffix=".json", dir=logdir)
    with os.fdopen(fd, "w") as f:
        json.dump(cases, f)
    opath = cpath.replace("cases_", "out_").replace(".json", ".jsonl")
    env = dict(os.environ)
    env.update({
        "VERIF_REPO": repo, "VERIF_VARIANT": variant, "OMP_NUM_THREADS": str(threads),
        "PYTHONHASHSEED": "0", "PYTHONPATH": VERIF_ROOT + os.pathsep + repo,
        "PYTHONDONTWRITEBYTECODE": "1", "NUMBA_NUM_THREADS": str(max(1, threads)),
        "MPLBACKEND": "Agg",
    })
    env["OPENBLAS_NUM_THREADS"] = "1"  # no nested BLAS teams inside the OpenMP regions (16 x 16 threads otherwise)
    env.update(variant_env(variant, logdir))
    if extra_env:
        env.update(extra_env)
    errf = open(opath + ".stderr", "w")
    p = subprocess.Popen([PY, "-m", "vlib.worker", modname, cpath, opath], cwd=VERIF_ROOT, env=env,
                         stdout=errf, stderr=subprocess.STDOUT)
    return {"p": p, "cases": cases, "out": opath, "err": opath + ".stderr", "t0": time.time(),
            "timeout": sum(c.get("_timeout", 600) for c in cases) + 120, "variant": variant}


def _read_results(path):
    res, summary = [], None
    if os.path.exists(path):
        for line in open(path):
            line = line.strip()
            if not line:
                continue
            try:
                d = json.loads(line)
            except ValueError:
                continue
            if d.get("_summary"):
                summary = d
            else:
                res.append(d)
    return res, summary


def parse_sanitizer_logs(logdir):
    """Return list of report blocks (strings) found in sanitizer logs under logdir."""
    import glob
    import re
    blocks = []
    for path in sorted(glob.glob(os.path.join(logdir, "asan*")) + glob.glob(os.path.join(logdir, "ubsan*")) + glob.glob(os.path.join(logdir, "tsan*"))):
        txt = open(path, errors="replace").read()
        if "ThreadSanitizer" in txt:
            for b in re.split(r"(?=WARNING: ThreadSanitizer)", txt):
                if b.startswith("WARNING: ThreadSanitizer"):
                    blocks.append(("tsan", b.split("==================")[0]))
        if "AddressSanitizer" in txt:
            for b in re.split(r"(?=ERROR: AddressSanitizer)", txt):
                if b.startswith("ERROR: AddressSanitizer"):
                    blocks.append(("asan", b[:6000]))
        for m in re.finditer(r"^.*runtime error:.*$", txt, flags=re.M):
            s = m.start()
            blocks.append(("ubsan", txt[s:s + 3000]))
    return blocks


def run_cases(modname, cases, repo, jobs=None, retry=True):
    """Run cases in worker subprocesses grouped by (variant, threads). Returns (results, summaries, logdir)."""
    logdir = tempfile.mkdtemp(prefix="run_", dir=os.path.join(VERIF_ROOT, ".build", "logs"))
    groups = {}
    for c in cases:
        envk = tuple(sorted((c.get("_env") or {}).items()))
        groups.setdefault((c.get("_variant", "plain"), int(c.get("_threads", 2)), envk), []).append(c)
    pending = []  # (variant, threads, batch, env)
    for (variant, threads, envk), cs in groups.items():
        nworkers = max(1, min(len(cs), (jobs or NCPU) // max(1, min(threads, NCPU))))
        # greedy balance by weight
        cs = sorted(cs, key=lambda c: -c.get("_weight", 1.0))
        bins = [[] for _ in range(nworkers)]
        loads = [0.0] * nworkers
        for c in cs:
            i = loads.index(min(loads))
            bins[i].append(c)
            loads[i] += c.get("_weight", 1.0)
        for b in bins:
            if b:
                pending.append((variant, threads, b, dict(envk)))
    results, summaries = {}, []
    running = []
    budget = jobs or NCPU
    used = 0
    requeue = []

    def harvest(w, timed_out=False):
        nonlocal used
        res, summ = _read_results(w["out"])
        done = set()
        for r in res:
            results[r["id"]] = r
            done.add(r["id"])
        if summ:
            summaries.append(summ)
        missing = [c for c in w["cases"] if c["id"] not in done]
        rc = w["p"].returncode
        if missing:
            tail = ""
            try:
                tail = open(w["err"], errors="replace").read()[-3000:]
            except OSError:
                pass
            first = missing[0]
            if len(w["cases"]) == 1 or not retry:
                for c in missing:
                    results[c["id"]] = {"id": c["id"], "status": "crash" if not timed_out else "timeout",
                                        "returncode": rc, "stderr_tail": tail, "case": c, "failures": [],
                                        "oracles": {}, "tags": {}, "nontrivial": False, "key": c["id"]}
            else:
                # the case in flight gets its own process; the rest are re-queued together
                requeue.append((w["variant"], w["threads"], [first], w["env"]))
                if missing[1:]:
                    requeue.append((w["variant"], w["threads"], missing[1:], w["env"]))
        used -= min(w["threads"], budget)

    while pending or running or requeue:
        pending.extend(requeue)
        del requeue[:]
        while pending and (used + min(pending[0][1], budget) <= budget or not running):
            variant, threads, batch, env = pending.pop(0)
            w = _spawn(modname, batch, variant, threads, logdir, repo, extra_env=env)
            w["threads"] = threads
            w["env"] = env
            used += min(threads, budget)
            running.append(w)
        time.sleep(0.05)
        for w in list(running):
            rc = w["p"].poll()
            if rc is not None:
                running.remove(w)
                harvest(w)
            elif time.time() - w["t0"] > w["timeout"]:
                w["p"].kill()
                w["p"].wait()
                running.remove(w)
                harvest(w, timed_out=True)
    return [results[c["id"]] for c in cases if c["id"] in results], summaries, logdir


def _digest(obj):
    return hashlib.sha1(json.dumps(obj, sort_keys=True, default=str).encode()).hexdigest()[:16]


def main(argv=None):
    import argparse
    ap = argparse.ArgumentParser()
    ap.add_argument("prop")
    ap.add_argument("--tier", default=os.environ.get("VERIF_TIER", "quick"))
    ap.add_argument("--replay")
    ap.add_argument("--jobs", type=int, default=None)
    ap.add_argument("--only", help="substring filter on case ids (debugging)")
    ap.add_argument("--no-evidence", action="store_true")
    a = ap.parse_args(argv)
    prop = a.prop.upper()
    tier = a.tier if a.tier in ("quick", "thorough") else "quick"
    seed = int(os.environ.get("VERIF_SEED", "0"))
    repo = os.path.abspath(os.environ.get("VERIF_REPO", "/repo"))
    os.environ["VERIF_REPO"] = repo
    sys.path.insert(0, VERIF_ROOT)
    sys.path.insert(1, repo)
    sys.path.append(os.path.join(VERIF_ROOT, ".deps"))
    modname = "checks." + prop.lower()
    mod = importlib.import_module(modname)
    os.makedirs(os.path.join(VERIF_ROOT, ".build", "logs"), exist_ok=True)
    os.makedirs(os.path.join(VERIF_ROOT, "replay"), exist_ok=True)
    os.makedirs(os.path.join(VERIF_ROOT, "evidence"), exist_ok=True)
    t0 = time.time()
    if a.replay:
        rp = json.load(open(a.replay))
        cases = rp["cases"] if "cases" in rp else [rp["case"]]
    else:
        cases = mod.gen_cases(tier, seed)
    if a.only:
        cases = [c for c in cases if a.only in c["id"]]
    ids = [c["id"] for c in cases]
    assert len(set(ids)) == len(ids), "duplicate case ids"
    for v in sorted(set(c.get("_variant", "plain") for c in cases)):
        build_variant(v, repo)
    results, summaries, logdir = run_cases(modname, cases, repo, jobs=a.jobs)
    known, fixed = load_known(prop)

    # --- classify
    violations, known_hits, inconclusive = [], {}, []
    oracle_stats = {}
    nontrivial_keys = set()
    tags = {}
    evaluations = 0
    for r in results:
        st = r.get("status")
        if st in ("crash", "timeout", "error"):
            hook = getattr(mod, "classify_abnormal", None)
            verdict = hook(r) if hook else None
            if verdict and verdict.get("violation"):
                r.setdefault("failures", []).append(verdict["failure"])
            else:
                inconclusive.append({"id": r["id"], "why": st, "detail": (r.get("stderr_tail") or r.get("error") or "")[-800:]})
                continue
        evaluations += int(r.get("evaluations", 1))
        for name, o in (r.get("oracles") or {}).items():
            s = oracle_stats.setdefault(name, {"n": 0, "max_observed": 0.0, "tolerance": o.get("tol"), "max_ratio": 0.0})
            s["n"] += int(o.get("n", 1))
            if o.get("obs") is not None and o["obs"] == o["obs"]:
                s["max_observed"] = max(s["max_observed"], float(o["obs"]))
                if o.get("tol"):
                    s["max_ratio"] = max(s["max_ratio"], float(o["obs"]) / float(o["tol"]))
        for k, v in (r.get("tags") or {}).items():
            tags.setdefault(k, {})
            for vv in (v if isinstance(v, list) else [v]):
                tags[k][str(vv)] = tags[k].get(str(vv), 0) + 1
        if r.get("inconclusive"):
            inconclusive.append({"id": r["id"], "why": r["inconclusive"]})
        for f in r.get("failures") or []:
            mech = f.get("mechanism")
            if mech in known:
                known_hits.setdefault(mech, []).append({"id": r["id"], **f})
            else:
                violations.append({"id": r["id"], **f})
        if r.get("nontrivial") and not r.get("failures") and not r.get("inconclusive"):
            for k in (r.get("keys") or [r.get("key", r["id"])]):
                nontrivial_keys.add(k)
    # sanitizer reports
    san_blocks = parse_sanitizer_logs(logdir)
    san_hook = getattr(mod, "classify_sanitizer", None)
    san_summary = {"reports": len(san_blocks)}
    if san_blocks:
        if san_hook:
            for f in san_hook(san_blocks):
                mech = f.get("mechanism")
                if mech in known:
                    known_hits.setdefault(mech, []).append(f)
                else:
                    violations.append(f)
        else:
            for kind, b in san_blocks:
                violations.append({"id": "sanitizer", "oracle": kind, "mechanism": kind + ":unclassified", "detail": b[:2000]})
    # aggregated C call counters
    ccalls = {}
    shim = {}
    for s in summaries:
        for k, v in (s.get("calls") or {}).items():
            ccalls[k] = ccalls.get(k, 0) + v
        for k, v in (s.get("shim") or {}).items():
            cur = shim.setdefault(k, [0] * len(v))
            shim[k] = [x + y for x, y in zip(cur, v)]
    missing_required = [k for k in getattr(mod, "REQUIRED_CALLS", []) if not ccalls.get(k)]
    min_nt = getattr(mod, "MIN_NONTRIVIAL", {}).get(tier, 2)
    if a.replay or a.only:
        min_nt, missing_required = 0, []

    coverage = {
        "evaluations": evaluations,
        "distinct_nontrivial": len(nontrivial_keys),
        "rule": getattr(mod, "RULE", ""),
        "samples": [],
        "oracles": oracle_stats,
        "configurations": tags,
        "c_entry_point_calls": ccalls,
        "cases": len(cases),
        "inconclusive_cases": inconclusive[:20],
        "n_inconclusive": len(inconclusive),
        "known_finding_hits": {k: len(v) for k, v in known_hits.items()},
        "sanitizer": san_summary,
        "min_nontrivial_required": min_nt,
        "required_entry_points_missing": missing_required,
    }
    if shim:
        coverage["omp_shim_counters[regions,worker_entries,barriers,loop_ends,criticals]"] = shim
    ns = 0
    for r in results:
        if r.get("sample") is not None and ns < 4:
            coverage["samples"].append(r["sample"])
            ns += 1
    if not coverage["samples"]:
        coverage["samples"] = [{k: v for k, v in c.items()} for c in cases[:2]]
    fin = getattr(mod, "finalize", None)
    if fin:
        fin(results, coverage)

    # --- verdict
    exit_code = 0
    lines = []
    for mech, hits in known_hits.items():
        e = known[mech]
        lines.append("KNOWN-FINDING: property=%s %s [%s; %d occurrence(s) this run]" % (prop, e["what"], mech, len(hits)))
    if violations:
        exit_code = 1
        rpath = os.path.join(VERIF_ROOT, "replay", "%s_%s_seed%d_%s.json" % (prop, tier, seed, _digest(violations)[:8]))
        vcases = [c for c in cases if c["id"] in set(v["id"] for v in violations)]
        json.dump({"property": prop, "tier": tier, "seed": seed, "violations": violations[:50], "cases": vcases[:50]},
                  open(rpath, "w"), indent=1, default=str)
        for v in violations[:10]:
            lines.append("  violation: case=%s oracle=%s mechanism=%s observed=%s tolerance=%s %s" % (
                v.get("id"), v.get("oracle"), v.get("mechanism"), v.get("obs"), v.get("tol"), str(v.get("detail", ""))[:300]))
        lines.append("VIOLATION property=%s replay=%s" % (prop, rpath))
    else:
        reasons = []
        if len(nontrivial_keys) < min_nt:
            reasons.append("only %d distinct non-trivial conclusive cases (< %d)" % (len(nontrivial_keys), min_nt))
        if missing_required:
            reasons.append("required entry points never called: %s" % ",".join(missing_required))
        if len(cases) and len(inconclusive) > max(2, 0.25 * len(cases)):
            reasons.append("%d of %d cases inconclusive" % (len(inconclusive), len(cases)))
        if reasons:
            exit_code = 2
            lines.append("INCONCLUSIVE property=%s reason=%s" % (prop, "; ".join(reasons)))
            for i in inconclusive[:5]:
                lines.append("  inconclusive: %s" % json.dumps(i)[:600])
    wall = time.time() - t0
    ev = {
        "property_id": prop, "tier": tier, "seed": seed, "level": getattr(mod, "LEVEL", "exploration"),
        "coverage": coverage, "assumptions": getattr(mod, "ASSUMPTIONS", []), "wall_s": round(wall, 2),
        "violations": len(violations),
        "verdict": {0: "held_on_explored", 1: "violated", 2: "inconclusive"}[exit_code],
        "repo": repo,
    }
    if not a.no_evidence and not a.replay and not a.only:
        epath = os.path.join(VERIF_ROOT, "evidence", prop + ".json")
        try:
            import jsonschema  # noqa
            schema = json.load(open("/root/.vp/EVIDENCE.schema.json"))
            jsonschema.validate(ev, schema)
        except ImportError:
            pass
        except Exception as e:  # schema violation: evidence is not usable
            if exit_code == 0:
                lines.append("INCONCLUSIVE property=%s reason=evidence does not validate: %s" % (prop, str(e)[:300]))
                exit_code = 2
        json.dump(ev, open(epath, "w"), indent=1, default=str)
    for ln in lines:
        print(ln)
    print("%s tier=%s seed=%d cases=%d evaluations=%d distinct_nontrivial=%d inconclusive=%d known=%d violations=%d wall=%.1fs -> %s" % (
        prop, tier, seed, len(cases), evaluations, len(nontrivial_keys), len(inconclusive),
        sum(len(v) for v in known_hits.values()), len(violations), wall, ev["verdict"]))
    for name, s in sorted(oracle_stats.items()):
        print("  oracle %-42s n=%-6d max_observed=%.3e tol=%s" % (name, s["n"], s["max_observed"], s["tolerance"]))
    # keep log dirs only when something went wrong
    if exit_code == 0 and not os.environ.get('VERIF_KEEP_LOGS'):
        import shutil
        shutil.rmtree(logdir, ignore_errors=True)
    else:
        print("  logs: %s" % logdir)
    return exit_code


if __name__ == "__main__":
    sys.exit(main())
